(* Extraction of the executable model.  ExtrOcamlBasic only: bool, option, unit, list,
   prod, sumbool map to OCaml's; andb/orb/negb/fst/snd inlined.  Z, positive, nat stay
   as extracted inductives. *)
From Coq Require Import ZArith List.
From B2Z Require Import Base.Sx Model.Dispatch.
Require Extraction.
Require Import ExtrOcamlBasic.
Extraction "../extract/model.ml" dispatch z_push z_neg z_div10 z_mod10 z_sign z_abs.
