(* Pipeline/Pipe.v -- composition: encode partitions (any order) over ICF range reads through the
   chunk buffer (from the design-phase prototype) *)
From Coq Require Import Arith List Bool Lia Permutation.
Import ListNotations.
From B2Z Require Import Model.Icf Proofs.IcfProofs Pipeline.Buf.

(* Composition: encode partitions (in ANY order) over ICF range reads through the chunk buffer
   = map enc over the values, restricted to the rows the partitions cover. *)
Section Pipe.
Variables (A Row : Type) (enc : A -> Row) (cs : nat).
Hypothesis cs_pos : 0 < cs.
Variable s : list (list (list A)).                  (* intermediate store: partitions x chunks x values *)
Let xs := all_values s.
Let n := length xs.

Notation arr := (nat -> option Row).
Definition run_partition (a : arr) (p : nat * nat) : arr :=
  out Row (encode Row cs (fst p) a (map enc (iter_values s (fst p) (snd p)))).

Definition ok_part (p : nat * nat) := fst p < snd p /\ snd p <= n.
Definition covers (p : nat * nat) (i : nat) := (fst p <=? i) && (i <? snd p).

Lemma nth_error_firstn' {B} (l : list B) k i : i < k -> nth_error (firstn k l) i = nth_error l i.
Proof. revert k i; induction l as [|x l IH]; intros [|k] [|i] H; simpl; auto; try lia. apply IH. lia. Qed.
Lemma nth_error_skipn'' {B} (l : list B) k i : nth_error (skipn k l) i = nth_error l (k + i).
Proof. revert l; induction k; intros l; simpl; auto. destruct l; simpl; auto. now destruct i. Qed.

Lemma run_partition_spec a p i : ok_part p ->
  run_partition a p i = if covers p i then option_map enc (nth_error xs i) else a i.
Proof.
  intros [Hlt Hle]. unfold run_partition, covers. destruct p as [st en]; simpl in *.
  destruct (encode_spec Row cs cs_pos st a (map enc (iter_values s st en))) as [Hout _].
  rewrite Hout. rewrite (range_read A s st en Hlt Hle). fold xs.
  rewrite map_length, firstn_length, skipn_length. fold n.
  replace (st + Nat.min (en - st) (n - st)) with en by lia.
  destruct ((st <=? i) && (i <? en)) eqn:E; auto.
  apply andb_true_iff in E. destruct E as [E1 E2]. apply Nat.leb_le in E1. apply Nat.ltb_lt in E2.
  rewrite nth_error_map. rewrite nth_error_firstn' by lia. rewrite nth_error_skipn''.
  replace (st + (i - st)) with i by lia. reflexivity.
Qed.

Fixpoint pairwise_disjoint (l : list (nat * nat)) : Prop :=
  match l with [] => True | p :: tl => (forall q, In q tl -> snd p <= fst q \/ snd q <= fst p) /\ pairwise_disjoint tl end.

(* the result depends only on which partition covers a row, not on the order of execution *)
Theorem any_order_spec l : Forall ok_part l -> forall a i,
  fold_left run_partition l a i =
  if existsb (fun p => covers p i) l then option_map enc (nth_error xs i) else a i.
Proof.
  induction 1 as [|p l Hp Hl IH]; intros a i; simpl; auto.
  rewrite IH. rewrite run_partition_spec by auto.
  destruct (covers p i), (existsb (fun p0 => covers p0 i) l); reflexivity.
Qed.

Corollary order_irrelevant l l' : Permutation l l' -> Forall ok_part l -> forall a i,
  fold_left run_partition l a i = fold_left run_partition l' a i.
Proof.
  intros P Hok a i. rewrite !any_order_spec; auto.
  - assert (E: existsb (fun p => covers p i) l = existsb (fun p => covers p i) l').
    { apply eq_true_iff_eq. rewrite !existsb_exists. split; intros [x [Hx Hc]]; exists x; split; auto.
      - eapply Permutation_in; eauto.
      - eapply Permutation_in; [apply Permutation_sym|]; eauto. }
    now rewrite E.
  - eapply Permutation_Forall; eauto.
Qed.

(* contiguous cover 0..n (what C11 proves of generate_partitions) *)
Fixpoint chain (a : nat) (l : list (nat * nat)) (b : nat) : Prop :=
  match l with [] => a = b | (st, en) :: tl => st = a /\ st < en /\ chain en tl b end.

Lemma chain_props l : forall a b, chain a l b -> b <= n ->
  Forall ok_part l /\ (forall i, a <= i < b -> existsb (fun p => covers p i) l = true) /\ a <= b.
Proof.
  induction l as [|[st en] tl IH]; intros a b Hc Hb; simpl in *.
  - subst. repeat split; auto; intros; lia.
  - destruct Hc as [-> [Hlt Hc]]. destruct (IH en b Hc Hb) as [Hok [Hcov Hle]].
    split; [constructor; auto; unfold ok_part; simpl; lia|]. split; [|lia].
    intros i Hi. unfold covers at 1; simpl.
    destruct (Nat.ltb_spec i en); [replace (a <=? i) with true by (symmetry; apply Nat.leb_le; lia); reflexivity|].
    rewrite Hcov by lia. apply orb_true_r.
Qed.

(* C01/C03 core: whatever the partitioning (any chain), whatever the order, every row i < n holds enc(xs[i]) *)
Theorem pipeline_rows l l' a0 : chain 0 l n -> Permutation l l' -> forall i, i < n ->
  fold_left run_partition l' a0 i = option_map enc (nth_error xs i).
Proof.
  intros Hc P i Hi. destruct (chain_props l 0 n Hc (le_n _)) as [Hok [Hcov _]].
  rewrite <- (order_irrelevant l l' P Hok). rewrite any_order_spec by auto. rewrite Hcov by lia. reflexivity.
Qed.
End Pipe.
