(* Pipeline/Buf.v -- core.BufferedArray (from the design-phase prototype) *)
From Coq Require Import Arith List Bool Lia.
Import ListNotations.

(* core.BufferedArray: rows are collected into a chunk-sized buffer and flushed at chunk boundaries *)
Section Buffered.
Variable A : Type.
Variable cs : nat.                       (* variants_chunk_size (buffer height) *)
Hypothesis cs_pos : 0 < cs.

Notation arr := (nat -> option A).
Record st := { offset : nat; rows : list A; out : arr; flushes : list (nat * nat) }.   (* flushes: (start, length) of each write, for alignment *)

Definition put (a : arr) (o : nat) (rs : list A) : arr :=
  fun i => if (o <=? i) && (i <? o + length rs) then nth_error rs (i - o) else a i.

Definition flush (s : st) : st :=
  match rows s with
  | [] => s
  | rs => {| offset := offset s + cs; rows := []; out := put (out s) (offset s) rs; flushes := flushes s ++ [(offset s, length rs)] |}
  end.
(* j = next_buffer_row(); sanitiser(buff, j, value) *)
Definition push (s : st) (r : A) : st :=
  let s1 := if length (rows s) =? cs then flush s else s in
  {| offset := offset s1; rows := rows s1 ++ [r]; out := out s1; flushes := flushes s1 |}.
Definition encode (o : nat) (a : arr) (rs : list A) : st :=
  flush (fold_left push rs {| offset := o; rows := []; out := a; flushes := [] |}).

(* invariant after pushing a prefix: everything before `offset` is written, the buffer holds the rest *)
Definition Inv (o : nat) (a0 : arr) (done : list A) (s : st) : Prop :=
  length (rows s) <= cs /\
  offset s + length (rows s) = o + length done /\
  (exists k, offset s = o + k * cs) /\
  rows s = skipn (offset s - o) done /\
  (forall i, out s i = if (o <=? i) && (i <? offset s) then nth_error done (i - o) else a0 i) /\
  Forall (fun sl => exists k, fst sl = o + k * cs /\ 0 < snd sl <= cs) (flushes s).

Lemma nth_error_skipn' (l : list A) n i : nth_error (skipn n l) i = nth_error l (n + i).
Proof. revert l; induction n; intros l; simpl; auto. destruct l; simpl; auto. now destruct i. Qed.

Lemma put_spec a o rs i : put a o rs i = if (o <=? i) && (i <? o + length rs) then nth_error rs (i - o) else a i.
Proof. reflexivity. Qed.

Lemma flush_inv o a0 done s : Inv o a0 done s ->
  let s' := flush s in
  (forall i, out s' i = if (o <=? i) && (i <? o + length done) then nth_error done (i - o) else a0 i) /\
  Forall (fun sl => exists k, fst sl = o + k * cs /\ 0 < snd sl <= cs) (flushes s').
Proof.
  intros [Hle [Hsum [[k Hk] [Hrows [Hout Hfl]]]]]. unfold flush.
  destruct (rows s) as [|r rs] eqn:E.
  - simpl in *. split; auto. intros i. rewrite Hout. replace (offset s) with (o + length done) by lia. reflexivity.
  - simpl out. simpl flushes. split.
    + intros i. rewrite put_spec, Hout.
      destruct (Nat.leb_spec o i), (Nat.ltb_spec i (offset s)), (Nat.leb_spec (offset s) i),
               (Nat.ltb_spec i (offset s + length (r :: rs))), (Nat.ltb_spec i (o + length done));
        cbn [andb]; simpl length in *; try lia; auto.
      rewrite Hrows, nth_error_skipn'. f_equal. lia.
    + apply Forall_app. split; auto. constructor; auto. exists k. simpl in *. split; auto. lia.
Qed.

Lemma push_inv o a0 done s r : (exists k, o = k * cs) \/ True -> Inv o a0 done s -> Inv o a0 (done ++ [r]) (push s r).
Proof.
  intros _ HI. pose proof HI as [Hle [Hsum [[k Hk] [Hrows [Hout Hfl]]]]].
  unfold push. destruct (length (rows s) =? cs) eqn:Efull.
  - apply Nat.eqb_eq in Efull.
    destruct (flush_inv o a0 done s HI) as [Hout' Hfl'].
    unfold flush in *. destruct (rows s) as [|r0 rs0] eqn:E; [simpl in Efull; lia|].
    simpl in *. unfold Inv; simpl. rewrite app_length. simpl.
    split; [lia|]. split; [lia|]. split; [exists (S k); lia|]. split.
    + replace (offset s + cs - o) with (length done) by lia. rewrite skipn_app, skipn_all, Nat.sub_diag. reflexivity.
    + split; auto. intros i. rewrite Hout'.
      destruct (o <=? i) eqn:E1; simpl; auto.
      replace (offset s + cs) with (o + length done) by lia.
      destruct (i <? o + length done) eqn:E2; auto. apply Nat.ltb_lt in E2. apply Nat.leb_le in E1.
      rewrite nth_error_app1 by lia. reflexivity.
  - apply Nat.eqb_neq in Efull. unfold Inv; simpl. rewrite !app_length. simpl.
    split; [lia|]. split; [lia|]. split; [exists k; auto|]. split.
    + rewrite Hrows at 1. rewrite skipn_app. f_equal.
      replace (offset s - o - length done) with 0 by lia. reflexivity.
    + split; auto. intros i. rewrite Hout.
      destruct (o <=? i) eqn:E1; simpl; auto. destruct (i <? offset s) eqn:E2; auto.
      apply Nat.ltb_lt in E2. apply Nat.leb_le in E1. rewrite nth_error_app1 by lia. reflexivity.
Qed.

Theorem encode_spec o a0 rs :
  let s := encode o a0 rs in
  (forall i, out s i = if (o <=? i) && (i <? o + length rs) then nth_error rs (i - o) else a0 i) /\
  Forall (fun sl => exists k, fst sl = o + k * cs /\ 0 < snd sl <= cs) (flushes s).
Proof.
  unfold encode.
  assert (G: forall l done s, Inv o a0 done s -> Inv o a0 (done ++ l) (fold_left push l s)).
  { induction l as [|r l IH]; intros done s HI; simpl.
    - now rewrite app_nil_r.
    - replace (done ++ r :: l) with ((done ++ [r]) ++ l) by (rewrite <- app_assoc; reflexivity).
      apply IH. apply push_inv; auto. }
  apply (flush_inv o a0 rs). apply (G rs [] _).
  unfold Inv; simpl. repeat split; auto; try lia.
  - exists 0. lia.
  - now rewrite Nat.sub_diag.
  - intros i. destruct (o <=? i) eqn:E1; simpl; auto. destruct (i <? o) eqn:E2; auto.
    apply Nat.ltb_lt in E2. apply Nat.leb_le in E1. lia.
Qed.
End Buffered.

