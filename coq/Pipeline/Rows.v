(* Pipeline/Rows.v -- the VCF Zarr row encoding of one vector-valued cell is lossless (from the
   design-phase prototype) *)
From Coq Require Import ZArith List Bool Lia ZifyBool.
Import ListNotations.
Open Scope Z_scope.

(* VCF Zarr row encoding of one vector-valued cell: absent -> all missing; short -> fill padded.
   Cells are Z (ints, float32 bit patterns, or interned string ids); `miss`/`fill` are the two sentinels. *)
Section Rows.
Variables miss fill : Z.
Hypothesis miss_fill : miss <> fill.

Definition enc_cell (x : option Z) : Z := match x with None => miss | Some v => v end.
Definition enc_vec (w : nat) (v : option (list (option Z))) : list Z :=
  match v with
  | None => repeat miss w
  | Some xs => map enc_cell xs ++ repeat fill (w - length xs)
  end.
(* FORMAT: a sample given as '.' (or whose trailing keys were dropped) is missing-then-fill *)
Definition enc_sample (w : nat) (v : option (list (option Z))) : list Z :=
  match v with None => miss :: repeat fill (w - 1) | Some xs => map enc_cell xs ++ repeat fill (w - length xs) end.

Fixpoint strip_fill (row : list Z) : list Z :=
  match row with [] => [] | x :: tl => if x =? fill then [] else x :: strip_fill tl end.
Definition dec_cell (z : Z) : option Z := if z =? miss then None else Some z.
Definition dec_vec (row : list Z) : option (list (option Z)) :=
  if forallb (Z.eqb miss) row then None else Some (map dec_cell (strip_fill row)).

Definition cell_ok (x : option Z) := match x with None => True | Some v => v <> miss /\ v <> fill end.
Definition all_missing (xs : list (option Z)) := forallb (fun x => match x with None => true | _ => false end) xs.

Lemma strip_fill_app xs k : Forall cell_ok xs -> strip_fill (map enc_cell xs ++ repeat fill k) = map enc_cell xs.
Proof.
  induction 1 as [|x xs Hx _ IH]; simpl.
  - destruct k; simpl; auto. now rewrite Z.eqb_refl.
  - assert (enc_cell x =? fill = false) as ->.
    { destruct x as [v|]; simpl in *; apply Z.eqb_neq; [tauto|auto]. }
    now rewrite IH.
Qed.
Lemma dec_enc_cells xs : Forall cell_ok xs -> map dec_cell (map enc_cell xs) = xs.
Proof.
  induction 1 as [|x xs Hx _ IH]; simpl; auto. rewrite IH. f_equal.
  destruct x as [v|]; unfold dec_cell; simpl in *.
  - assert (v =? miss = false) as -> by (apply Z.eqb_neq; tauto). reflexivity.
  - now rewrite Z.eqb_refl.
Qed.
Lemma forallb_repeat_miss w : forallb (Z.eqb miss) (repeat miss w) = true.
Proof. induction w; simpl; auto. now rewrite Z.eqb_refl. Qed.

(* lossless: decoding recovers the value, except that a full-width all-missing vector IS "absent" *)
Theorem vec_roundtrip w v : (0 < w)%nat ->
  match v with None => True | Some xs => Forall cell_ok xs /\ (length xs <= w)%nat /\ xs <> [] end ->
  dec_vec (enc_vec w v) =
  match v with
  | Some xs => if all_missing xs && (length xs =? w)%nat then None else Some xs
  | None => None
  end.
Proof.
  intros Hw Hv. destruct v as [xs|]; unfold dec_vec, enc_vec.
  - destruct Hv as [Hok [Hlen Hne]].
    destruct (all_missing xs && (length xs =? w)%nat) eqn:E.
    + apply andb_true_iff in E. destruct E as [E1 E2]. apply Nat.eqb_eq in E2.
      replace (w - length xs)%nat with 0%nat by lia. simpl. rewrite app_nil_r.
      assert (forallb (Z.eqb miss) (map enc_cell xs) = true) as ->; auto.
      clear -E1. induction xs as [|[v|] xs IH]; simpl in *; auto; try discriminate. rewrite Z.eqb_refl. auto.
    + assert (forallb (Z.eqb miss) (map enc_cell xs ++ repeat fill (w - length xs)) = false) as ->.
      { rewrite forallb_app. apply andb_false_iff in E. destruct E as [E|E].
        - apply andb_false_iff. left. clear -E Hok. induction Hok as [|[v|] xs Hx _ IH]; simpl in *; try discriminate.
          + assert (miss =? v = false) as -> by (apply Z.eqb_neq; intros ->; tauto). reflexivity.
          + rewrite Z.eqb_refl. auto.
        - apply Nat.eqb_neq in E. apply andb_false_iff. right.
          destruct (w - length xs)%nat eqn:Ew; [lia|]. simpl.
          assert (miss =? fill = false) as -> by (apply Z.eqb_neq; auto). reflexivity. }
      rewrite strip_fill_app, dec_enc_cells by auto. reflexivity.
  - now rewrite forallb_repeat_miss.
Qed.
End Rows.
