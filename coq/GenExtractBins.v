(* Extraction of the TRANSLATED definitions of one unit (Gen/GenBins.v) so that the translator's output is
   itself run against the real functions (validates translator + Base/Prims.v).  One file and one
   binary per unit: a unit that no longer translates does not take the others down. *)
From Coq Require Import ZArith List Bool.
From B2Z Require Import Base.Prims Base.Sx.
From B2Z Require Gen.GenBins.
Import ListNotations.
Open Scope Z_scope.

Definition sx_res {T} (f : T -> sx) (r : res T) : sx :=
  match r with Ok v => L [A 1; f v] | Err e => L [A 0; A e] end.

Definition gen_dispatch (op : Z) (arg : sx) : sx :=
  match op, arg with
  | 1, L [A a; A b] => A (GenBins.ceildiv a b)
  | 2, L [A v] => A (GenBins.get_file_offset v)
  | 3, L [A ms; A d] => A (GenBins.bin_limit ms d)
  | 4, L [A l] => A (GenBins.get_first_bin_in_level l)
  | 5, L [A l] => A (GenBins.get_level_size l)
  | 6, L [A d; A b] => sx_res A (GenBins.get_level_for_bin d b)
  | 7, L [A d; A ms; A b] => sx_res A (GenBins.get_first_locus_in_bin d ms b)
  | _, _ => err_sx 2
  end.

Require Extraction.
Require Import ExtrOcamlBasic.
Extraction "../extract/gen/Bins/model.ml" gen_dispatch z_push z_neg z_div10 z_mod10 z_sign z_abs.
