(* Extraction of the TRANSLATED definitions (Gen/*.v) so that the translator's output is
   itself run against the real functions (validates translator + Base/Prims.v). *)
From Coq Require Import ZArith List Bool.
From B2Z Require Import Base.Prims Base.Sx.
From B2Z Require Gen.GenPartitions Gen.GenDtype Gen.GenBins Gen.GenOverlap.
Import ListNotations.
Open Scope Z_scope.

Definition sx_res {T} (f : T -> sx) (r : res T) : sx :=
  match r with Ok v => L [A 1; f v] | Err e => L [A 0; A e] end.

Definition un_region (s : sx) : option region :=
  match s with
  | L [A c; A st; e] => match as_optZ e with Some e => Some {| r_contig := c; r_start := st; r_end := e |} | None => None end
  | _ => None end.
Fixpoint un_regions (l : list sx) : option (list region) :=
  match l with
  | [] => Some []
  | x :: tl => match un_region x, un_regions tl with Some r, Some rs => Some (r :: rs) | _, _ => None end
  end.

Definition gen_dispatch (op : Z) (arg : sx) : sx :=
  match op, arg with
  | 1, L [A a; A b] => A (GenBins.ceildiv a b)
  | 2, L [A v] => A (GenBins.get_file_offset v)
  | 3, L [A ms; A d] => A (GenBins.bin_limit ms d)
  | 4, L [A l] => A (GenBins.get_first_bin_in_level l)
  | 5, L [A l] => A (GenBins.get_level_size l)
  | 6, L [A d; A b] => sx_res A (GenBins.get_level_for_bin d b)
  | 7, L [A d; A ms; A b] => sx_res A (GenBins.get_first_locus_in_bin d ms b)
  | 10, L [A nr; A cs; A np; mc] =>
      match as_optZ mc with Some mc => sx_res of_pairs (GenPartitions.generate_partitions nr cs np mc) | None => err_sx 1 end
  | 11, L [A cs; A sh; A n; mc] =>
      match as_optZ mc with Some mc => sx_res of_pairs (GenPartitions.chunk_aligned_slices cs sh n mc) | None => err_sx 1 end
  | 20, L [A lo; A hi] => sx_res A (GenDtype.min_int_dtype lo hi)
  | 30, L rs => match un_regions rs with Some rs => sx_res (fun _ => A 0) (GenOverlap.check_overlapping_partitions rs) | None => err_sx 1 end
  | _, _ => err_sx 2
  end.

Require Extraction.
Require Import ExtrOcamlBasic.
Extraction "../extract/gen/model.ml" gen_dispatch z_push z_neg z_div10 z_mod10 z_sign z_abs.
