(* Bridge: translated core.min_int_dtype = Model.Schema.min_int_dtype (all inputs) *)
From Coq Require Import ZArith List Bool Lia ZifyBool.
From B2Z Require Import Base.Prims Model.Schema.
From B2Z Require Gen.GenDtype.
Import ListNotations.
Open Scope Z_scope.

Lemma gen_min_int_dtype_eq lo hi : GenDtype.min_int_dtype lo hi = min_int_dtype lo hi.
Proof.
  unfold GenDtype.min_int_dtype, min_int_dtype, fits. cbv zeta. cbn [fst snd].
  repeat match goal with |- context [if ?c then _ else _] => destruct c eqn:? end; try reflexivity; lia.
Qed.
