(* Bridge/BridgeIterValues.v -- IntermediateColumnarFormatField.iter_values AS TRANSLATED on this run
   (Gen/GenIterValues.v, translator/iter2coq.py) is Model.Icf.iter_values, the function range_read (C08:
   every store shape, every a < b) is about. *)
From Coq Require Import Arith List Bool.
From B2Z Require Import Model.Icf Gen.GenIterValues.
Import ListNotations.

Section B.
Variable A : Type.

Lemma scan_first_same : forall (l : list A) rid start stop, gen_scan_first A rid start stop l = scan1 rid start stop l.
Proof.
  induction l as [|x tl IH]; intros rid start stop; [reflexivity|].
  cbn [gen_scan_first scan1]. destruct (rid =? stop); [reflexivity|]. rewrite IH. reflexivity.
Qed.

Lemma scan_rest_same : forall (l : list A) rid stop, fst (fst (gen_scan_rest A rid stop l)) = scan2 rid stop l.
Proof.
  induction l as [|x tl IH]; intros rid stop; [reflexivity|].
  cbn [gen_scan_rest scan2]. destruct (rid =? stop); [reflexivity|].
  specialize (IH (S rid) stop). destruct (gen_scan_rest A (S rid) stop tl) as [[out r] fin]. cbn [fst] in *. rewrite IH. reflexivity.
Qed.

Lemma translated_iter_values_lemma : forall (s : list (list (list A))) start stop,
  gen_iter_values A s start stop = iter_values s start stop.
Proof.
  intros s start stop. unfold gen_iter_values, iter_values. cbv zeta. rewrite scan_first_same.
  destruct (scan1 _ start stop _) as [[out rid] fin]. destruct fin; [reflexivity|].
  pose proof (scan_rest_same (concat (map (@concat A) (skipn (S (ss_right (pri s) start - 1)) s))) rid stop) as H.
  destruct (gen_scan_rest A rid stop _) as [[out2 r2] f2]. cbn [fst] in H. rewrite H. reflexivity.
Qed.
End B.
