(* Bridge/BridgeRegionIndex.v -- VcfZarrWriter.create_index AS TRANSLATED on this run
   (Gen/GenRegionIndex.v, translator/ridx2coq.py) is the model Model/RegionIndex.v that the C12
   theorems are about: the index-based run loop over np.nonzero(np.diff(c, append=-1)) produces, chunk
   by chunk, exactly  map (row_of end_impl k) (runs chunk). *)
From Coq Require Import ZArith Arith List Bool Lia ZifyBool.
From B2Z Require Import Base.Prims Base.NpPrims Model.RegionIndex Proofs.RegionIndexProofs Gen.GenRegionIndex.
Import ListNotations.
Open Scope Z_scope.
Ltac Zify.zify_post_hook ::= Z.to_euclidean_division_equations.

(* ---- int32 arithmetic -------------------------------------------------------------------- *)
Lemma wrap32_same : forall x, NpPrims.wrap32 x = RegionIndex.wrap32 x.
Proof. reflexivity. Qed.

Lemma wrap32_add_l : forall x y, NpPrims.wrap32 (NpPrims.wrap32 x + y) = NpPrims.wrap32 (x + y).
Proof. intros x y. unfold NpPrims.wrap32. lia. Qed.

Lemma gen_end_is_end_impl : forall r, gen_end (ctg r) (pos r) (len r) = end_impl r.
Proof. intros r. unfold gen_end, end_impl, NpPrims.wrap32, RegionIndex.wrap32. lia. Qed.

Lemma map3_records : forall recs, map3 gen_end (map ctg recs) (map pos recs) (map len recs) = map end_impl recs.
Proof. induction recs as [|r tl IH]; [reflexivity|]. cbn [map map3]. rewrite IH, gen_end_is_end_impl. reflexivity. Qed.

(* ---- run ends ---------------------------------------------------------------------------- *)
Fixpoint ends_of_from (off : Z) (gs : list (list rec)) : list Z :=
  match gs with
  | [] => []
  | g :: tl => (off + Z.of_nat (length g) - 1) :: ends_of_from (off + Z.of_nat (length g)) tl
  end.

Lemma runs_head : forall r tl, exists g gs, runs (r :: tl) = (r :: g) :: gs.
Proof.
  intros r tl. revert r. induction tl as [|r' tl IH]; intros r.
  - exists [], []. reflexivity.
  - destruct (IH r') as [g [gs E]]. cbn [runs]. cbn [runs] in E. rewrite E.
    destruct (ctg r =? ctg r'); [exists (r' :: g), gs|exists [], ((r' :: g) :: gs)]; reflexivity.
Qed.

Lemma nonzero_runs : forall recs off, (forall r, In r recs -> ctg r <> -1) ->
  nonzero_from off (np_diff_append (map ctg recs) (-1)) = ends_of_from off (runs recs).
Proof.
  induction recs as [|r tl IH]; intros off Hne; [reflexivity|].
  destruct tl as [|r' tl'].
  - cbn [map np_diff_append nonzero_from runs ends_of_from length].
    assert (ctg r <> -1) by (apply Hne; left; reflexivity).
    destruct (-1 - ctg r =? 0) eqn:E; [lia|]. f_equal. lia.
  - assert (Hne' : forall x, In x (r' :: tl') -> ctg x <> -1) by (intros x Hx; apply Hne; right; exact Hx).
    specialize (IH (off + 1) Hne').
    destruct (runs_head r' tl') as [g [gs E]].
    change (map ctg (r :: r' :: tl')) with (ctg r :: map ctg (r' :: tl')).
    change (np_diff_append (ctg r :: map ctg (r' :: tl')) (-1))
      with ((ctg r' - ctg r) :: np_diff_append (map ctg (r' :: tl')) (-1)).
    cbn [nonzero_from]. rewrite IH.
    change (runs (r :: r' :: tl')) with
      (match runs (r' :: tl') with
       | (r'' :: g) :: gs => if ctg r =? ctg r'' then (r :: r'' :: g) :: gs else [r] :: (r'' :: g) :: gs
       | [] :: gs => [r] :: gs
       | [] => [[r]]
       end).
    rewrite E. destruct (ctg r =? ctg r') eqn:Ec.
    + assert (ctg r' - ctg r =? 0 = true) as -> by lia.
      cbn [ends_of_from length].
      replace (off + 1 + Z.of_nat (S (length g))) with (off + Z.of_nat (S (S (length g)))) by lia. reflexivity.
    + assert (ctg r' - ctg r =? 0 = false) as -> by lia.
      cbn [ends_of_from length].
      replace (off + Z.of_nat 1 - 1) with off by lia. replace (off + Z.of_nat 1) with (off + 1) by lia. reflexivity.
Qed.

(* ---- absolute indexes into pre ++ g ++ rest ---------------------------------------------- *)
Lemma zidx_mid : forall (f : rec -> Z) pre g rest i d, (i < length g)%nat ->
  zidx (map f (pre ++ g ++ rest)) (Z.of_nat (length pre) + Z.of_nat i) = f (nth i g d).
Proof.
  intros f pre g rest i d Hi. unfold zidx.
  replace (Z.to_nat (Z.of_nat (length pre) + Z.of_nat i)) with (length pre + i)%nat by lia.
  rewrite map_app, app_nth2 by (rewrite map_length; lia). rewrite map_length.
  replace (length pre + i - length pre)%nat with i by lia.
  rewrite map_app, app_nth1 by (rewrite map_length; exact Hi).
  rewrite (nth_indep _ 0 (f d)) by (rewrite map_length; exact Hi). apply map_nth.
Qed.

Lemma zslice_mid : forall (f : rec -> Z) pre g rest,
  zslice (map f (pre ++ g ++ rest)) (Z.of_nat (length pre)) (Z.of_nat (length pre) + Z.of_nat (length g)) = map f g.
Proof.
  intros f pre g rest. unfold zslice.
  replace (Z.to_nat (Z.of_nat (length pre) + Z.of_nat (length g) - Z.of_nat (length pre))) with (length g) by lia.
  rewrite Nat2Z.id. rewrite map_app.
  replace (length pre) with (length (map f pre)) by apply map_length.
  rewrite skipn_app, skipn_all, Nat.sub_diag. cbn [app skipn].
  rewrite map_app. replace (length g) with (length (map f g)) at 1 by apply map_length.
  rewrite firstn_app, firstn_all, Nat.sub_diag. cbn [firstn]. apply app_nil_r.
Qed.

Lemma last_is_nth : forall (g : list rec) d, g <> [] -> last g d = nth (length g - 1) g d.
Proof.
  induction g as [|x tl IH]; intros d Hne; [contradiction|].
  destruct tl as [|y tl']; [reflexivity|].
  change (last (x :: y :: tl') d) with (last (y :: tl') d). rewrite IH by discriminate.
  cbn [length]. replace (S (S (length tl')) - 1)%nat with (S (S (length tl') - 1)) by lia. reflexivity.
Qed.

Lemma np_max_maxZ : forall l x, np_max (x :: l) = maxZ (x :: l) x.
Proof. intros l x. unfold np_max, maxZ. cbn [fold_left]. rewrite Z.max_id. reflexivity. Qed.

Lemma zidx_first : forall (f : rec -> Z) pre r g' rest,
  zidx (map f (pre ++ (r :: g') ++ rest)) (Z.of_nat (length pre)) = f r.
Proof.
  intros. replace (Z.of_nat (length pre)) with (Z.of_nat (length pre) + Z.of_nat 0) by lia.
  rewrite (zidx_mid f pre (r :: g') rest 0 r) by (cbn [length]; lia). reflexivity.
Qed.

Lemma zidx_last : forall (f : rec -> Z) pre r g' rest,
  zidx (map f (pre ++ (r :: g') ++ rest)) (Z.of_nat (length pre) + Z.of_nat (length (r :: g')) - 1) = f (last (r :: g') r).
Proof.
  intros. replace (Z.of_nat (length pre) + Z.of_nat (length (r :: g')) - 1)
    with (Z.of_nat (length pre) + Z.of_nat (length (r :: g') - 1)) by (cbn [length]; lia).
  rewrite (zidx_mid f pre (r :: g') rest _ r) by (cbn [length]; lia).
  rewrite <- last_is_nth by discriminate. reflexivity.
Qed.

(* ---- the run loop over absolute indexes = one row per group ------------------------------- *)
Definition body_of (k : Z) (all : list rec) : Z -> Z -> res (list Z) :=
  fun s t => let c := map ctg all in let p := map pos all in let e := map end_impl all in
    if (zidx c s) =? (zidx c t) then Ok [k; (zidx c s); (zidx p s); (zidx p t); (np_max (zslice e s (t + 1))); ((t - s) + 1)] else Err E_AssertionError.

Lemma loop_groups : forall k gs pre all, all = pre ++ concat gs ->
  Forall (fun g => g <> []) gs -> Forall (fun g => forall x y, In x g -> In y g -> ctg x = ctg y) gs ->
  for_ends (ends_of_from (Z.of_nat (length pre)) gs) (Z.of_nat (length pre)) (body_of k all) (fun s t => (t + 1))
  = Ok (map (row_of end_impl k) gs).
Proof.
  intros k gs. induction gs as [|g gs IH]; intros pre all Hall Hne Hun; [reflexivity|].
  inversion Hne as [|? ? Hg Hne']; subst. inversion Hun as [|? ? Ug Hun']; subst.
  destruct g as [|r g']; [contradiction|].
  cbn [ends_of_from for_ends concat].
  assert (B : body_of k (pre ++ (r :: g') ++ concat gs) (Z.of_nat (length pre)) (Z.of_nat (length pre) + Z.of_nat (length (r :: g')) - 1)
              = Ok (row_of end_impl k (r :: g'))).
  { unfold body_of. cbv zeta. rewrite !zidx_first, !zidx_last.
    assert (Ec : ctg r = ctg (last (r :: g') r)).
    { apply Ug; [left; reflexivity|]. destruct (@exists_last _ (r :: g')) as [l' [a El]]; [discriminate|].
      rewrite El, last_last. apply in_or_app. right. left. reflexivity. }
    rewrite <- Ec, Z.eqb_refl.
    replace (Z.of_nat (length pre) + Z.of_nat (length (r :: g')) - 1 + 1) with (Z.of_nat (length pre) + Z.of_nat (length (r :: g'))) by lia.
    rewrite zslice_mid. cbn [map]. rewrite np_max_maxZ.
    replace (Z.of_nat (length pre) + Z.of_nat (length (r :: g')) - 1 - Z.of_nat (length pre) + 1) with (Z.of_nat (length (r :: g'))) by lia.
    reflexivity. }
  rewrite B.
  replace (Z.of_nat (length pre) + Z.of_nat (length (r :: g')) - 1 + 1) with (Z.of_nat (length (pre ++ r :: g'))) by (rewrite app_length; lia).
  replace (Z.of_nat (length pre) + Z.of_nat (length (r :: g'))) with (Z.of_nat (length (pre ++ r :: g'))) by (rewrite app_length; lia).
  rewrite (IH (pre ++ r :: g') (pre ++ (r :: g') ++ concat gs)); [reflexivity| |exact Hne'|exact Hun'].
  rewrite <- app_assoc. reflexivity.
Qed.

(* ---- one chunk, then the chunk loop -------------------------------------------------------- *)
Definition no_sentinel_contig (recs : list rec) : Prop := forall r, In r recs -> ctg r <> -1.

Lemma translated_chunk_rows_lemma : forall k recs, no_sentinel_contig recs ->
  gen_chunk_rows k (map ctg recs) (map pos recs) (map3 gen_end (map ctg recs) (map pos recs) (map len recs))
  = Ok (map (row_of end_impl k) (runs recs)).
Proof.
  intros k recs Hne. unfold gen_chunk_rows. cbv zeta. rewrite map3_records.
  unfold np_nonzero. rewrite nonzero_runs by exact Hne.
  change 0 with (Z.of_nat (length (@nil rec))).
  apply (loop_groups k (runs recs) [] recs).
  - symmetry. apply runs_concat.
  - apply runs_nonempty.
  - apply runs_uniform.
Qed.

Definition blocks_of (chunks : list (list rec)) : list (list Z * list Z * list Z) :=
  map (fun c => (map ctg c, map pos c, map len c)) chunks.

Lemma translated_index_from_lemma : forall chunks k, Forall no_sentinel_contig chunks ->
  gen_index_from k (blocks_of chunks) = Ok (index_from end_impl k chunks).
Proof.
  induction chunks as [|c tl IH]; intros k H; [reflexivity|].
  inversion H as [|? ? Hc Ht]; subst. cbn [blocks_of map gen_index_from index_from].
  rewrite translated_chunk_rows_lemma by exact Hc. fold (blocks_of tl). rewrite IH by exact Ht. reflexivity.
Qed.

Lemma chunks_no_sentinel : forall cs fuel recs, no_sentinel_contig recs -> Forall no_sentinel_contig (chunks_of fuel cs recs).
Proof.
  intros cs fuel recs H.
  pose proof (chunks_forall (fun r => ctg r <> -1) cs fuel recs (proj2 (Forall_forall _ _) H)) as F.
  eapply Forall_impl; [|exact F]. intros c Hc. unfold no_sentinel_contig. apply Forall_forall. exact Hc.
Qed.

(* the translated function on the blocks zarr delivers (rows [k*cs, (k+1)*cs) of the three arrays) IS
   the model's create_index *)
Lemma translated_create_index_is_the_model_lemma : forall cs recs, no_sentinel_contig recs ->
  gen_create_index (blocks_of (chunks_of (length recs) cs recs)) = Ok (create_index cs recs).
Proof.
  intros cs recs H. unfold gen_create_index, create_index. apply translated_index_from_lemma.
  apply chunks_no_sentinel. exact H.
Qed.
