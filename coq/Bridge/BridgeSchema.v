(* Bridge/BridgeSchema.v -- VcfField.smallest_dtype and ZarrArraySpec.from_field (with the shared-dimension
   table VcfZarrSchema.generate hands to it) AS TRANSLATED on this run (Gen/GenSchema.v,
   translator/schema2coq.py) are the functions of Model/Schema.v that dims_coherent (C02) and
   generated_schema_fits / generated_shape_fits (C10) are about. *)
From Coq Require Import ZArith List Bool Lia.
From B2Z Require Import Base.Prims Model.Schema Gen.GenSchema.
Import ListNotations.
Open Scope Z_scope.

Lemma translated_smallest_dtype_lemma : forall f, gen_smallest_dtype f = smallest_dtype f.
Proof. intros f. reflexivity. Qed.

Lemma translated_from_field_lemma : forall p f name, gen_from_field p f name = from_field p f name.
Proof.
  intros p f name. unfold gen_from_field, from_field, shared_dim. rewrite translated_smallest_dtype_lemma.
  destruct (smallest_dtype f) as [dt|e]; cbn [bind].
  2:{ (* the dtype is asked for last in the source: the outcome is the same error *)
      destruct (f_cat f =? 2); destruct ((1 <? s_max_number (f_sum f)) || f_is_laa f);
      destruct (f_number f =? -1); destruct (f_number f =? -2); destruct (f_number f =? -3); cbn;
      repeat match goal with |- context [if ?c then _ else _] => destruct c end; reflexivity. }
  destruct (f_cat f =? 2); destruct ((1 <? s_max_number (f_sum f)) || f_is_laa f); cbn; try reflexivity;
    (destruct (f_number f =? -1); cbn; [destruct (g_max_alleles p =? s_max_number (f_sum f)); reflexivity|]);
    (destruct (f_number f =? -2); cbn; [destruct (g_max_alleles p - 1 =? s_max_number (f_sum f)); reflexivity|]);
    (destruct (f_number f =? -3); cbn; [destruct (g_gsize p =? s_max_number (f_sum f)); reflexivity|]); reflexivity.
Qed.

(* ---- VcfZarrSchema.generate: the whole list of array specifications ------------------------------------ *)
Lemma mapM_ext {X Y} (f g : X -> res Y) : (forall x, f x = g x) -> forall l, mapM f l = mapM g l.
Proof. intros H l. induction l as [|x l IH]; [reflexivity|]. cbn [mapM]. rewrite H, IH. reflexivity. Qed.

Lemma translated_generate_lemma : forall p qual pos rlen infos formats gt,
  gen_generate p qual pos rlen infos formats gt = generate p qual pos rlen infos formats gt.
Proof.
  intros p qual pos rlen infos formats gt. unfold gen_generate, generate. cbv zeta.
  destruct (min_int_dtype 0 (g_num_contigs p)) as [cdt|e]; [|reflexivity]. cbn [bind].
  rewrite !translated_from_field_lemma.
  rewrite (mapM_ext _ _ (fun f => translated_from_field_lemma p f (field_name f)) infos).
  rewrite (mapM_ext _ _ (fun f => translated_from_field_lemma p f (field_name f)) formats).
  destruct (from_field p qual (AFixed 5)) as [sq|e]; [|reflexivity]. cbn [bind].
  destruct (from_field p pos (AFixed 6)) as [sp|e]; [|reflexivity]. cbn [bind].
  destruct (from_field p rlen (AFixed 7)) as [sl|e]; [|reflexivity]. cbn [bind].
  destruct (mapM _ infos) as [si|e]; [|reflexivity]. cbn [bind].
  destruct (mapM _ formats) as [sf|e]; [|reflexivity]. cbn [bind].
  destruct gt as [g|]; [|reflexivity].
  rewrite translated_smallest_dtype_lemma. destruct (smallest_dtype g) as [gdt|e]; reflexivity.
Qed.
