(* C14 theorems over the TRANSLATED control skeleton (Gen/GenWorkers.v) and its equality with
   the executable model used by the correspondence run. *)
From Coq Require Import ZArith Arith List Bool Lia Permutation.
From B2Z Require Import Model.Workers.
From B2Z Require Gen.GenWorkers.
Import ListNotations.

Module G := GenWorkers.

Definition to_gen (o : outcome) : G.outcome :=
  match o with Done => G.Done | Raised e => G.Raised (Z.to_nat e) | Broken => G.Broken | Exited => G.Exited end.
Definition res_to_gen (r : result) : G.result :=
  match r with ROk => G.Ok | RReraise e => G.ErrReraise (Z.to_nat e) | RRuntime => G.ErrRuntime end.

Lemma gen_wait_eq l : G.wait_on_futures (map to_gen l) = res_to_gen (wait_on_futures l).
Proof. induction l as [|[|e| |] tl IH]; cbn [map to_gen G.wait_on_futures wait_on_futures res_to_gen]; auto. Qed.
Lemma gen_driver_eq l : G.driver (map to_gen l) = (res_to_gen (fst (driver l)), snd (driver l)).
Proof.
  unfold G.driver, driver, G.pwm_exit, pwm_exit. rewrite gen_wait_eq.
  destruct (wait_on_futures l); reflexivity.
Qed.

Lemma success_implies_all_done_lemma completed : G.wait_on_futures completed = G.Ok -> Forall (fun o => o = G.Done) completed.
Proof. induction completed as [|[|e| |] tl IH]; cbn [G.wait_on_futures]; intros H; try discriminate; constructor; auto. Qed.

(* any completion order: as_completed yields a permutation of the submitted tasks' outcomes *)
Lemma any_failure_errors_lemma submitted completed : Permutation submitted completed ->
  (exists o, In o submitted /\ o <> G.Done) -> G.wait_on_futures completed <> G.Ok.
Proof.
  intros P [o [Hin Hne]] H. apply success_implies_all_done_lemma in H. rewrite Forall_forall in H.
  apply Hne. apply H. eapply Permutation_in; eauto.
Qed.
Lemma no_finalise_after_error_lemma submitted completed : Permutation submitted completed ->
  (exists o, In o submitted /\ o <> G.Done) -> snd (G.driver completed) = false /\ fst (G.driver completed) <> G.Ok.
Proof.
  intros P F. unfold G.driver, G.pwm_exit. pose proof (any_failure_errors_lemma _ _ P F).
  destruct (G.wait_on_futures completed); cbn [fst snd]; split; congruence.
Qed.
Lemma all_done_succeeds_lemma completed : Forall (fun o => o = G.Done) completed -> G.driver completed = (G.Ok, true).
Proof. unfold G.driver, G.pwm_exit. induction 1 as [|o tl -> _ IH]; cbn [G.wait_on_futures]; auto. Qed.
(* which error: the first failing future in completion order decides *)
Lemma first_failure_decides_lemma pre o post : Forall (fun x => x = G.Done) pre -> o <> G.Done ->
  G.wait_on_futures (pre ++ o :: post) = match o with G.Raised e => G.ErrReraise e | _ => G.ErrRuntime end.
Proof.
  intros Hp Ho. induction Hp as [|x tl -> _ IH]; cbn [app G.wait_on_futures]; [|exact IH].
  destruct o; [congruence|reflexivity|reflexivity|reflexivity].
Qed.
(* an exception raised inside the with-block itself propagates (futures are cancelled, not waited) *)
Lemma body_exception_propagates_lemma e completed : G.pwm_exit (Some e) completed = G.ErrReraise e.
Proof. reflexivity. Qed.
