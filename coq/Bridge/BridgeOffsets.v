(* Bridge/BridgeOffsets.v -- CSIIndex.offsets and TabixIndex.offsets AS TRANSLATED on this run
   (Gen/GenOffsets.v, translator/offs2coq.py) are the offsets tables of Model/Regions.v (offsets_csi with
   its lexicographic sort of (loffset, first locus) -- the repair of F1 --, offsets_tbi). *)
From Coq Require Import ZArith Arith List Bool Lia.
From B2Z Require Import Base.Prims Base.NpPrims Base.OffPrims Model.BinArith Model.Regions Proofs.BinsProofs Bridge.BridgeBins Gen.GenBins Gen.GenOffsets.
Import ListNotations.
Open Scope Z_scope.

Definition conv_entry (e : Z * (nat * Z)) : Z * (Z * Z) := (fst e, (Z.of_nat (fst (snd e)), snd (snd e))).

Lemma sorted_is_isort : forall l, py_sorted_pairs l = isort l.
Proof.
  assert (I : forall x l, pair_insert x l = insert x l).
  { intros x l. induction l as [|y tl IH]; [reflexivity|]. cbn [pair_insert insert]. rewrite IH. reflexivity. }
  induction l as [|x tl IH]; [reflexivity|]. cbn [py_sorted_pairs isort]. rewrite IH. apply I.
Qed.

Lemma mapM_ok {X Y} (f : X -> res Y) (g : X -> Y) : forall l, (forall x, In x l -> f x = Ok (g x)) -> mapM f l = Ok (map g l).
Proof.
  induction l as [|x l IH]; intros H; [reflexivity|]. cbn [mapM map]. rewrite (H x (or_introl eq_refl)). cbn [bind].
  rewrite IH by (intros y Hy; apply H; right; exact Hy). reflexivity.
Qed.

Lemma file_offset_same : forall v, 0 <= v < 2 ^ 64 -> GenBins.get_file_offset v = Regions.file_offset v.
Proof.
  intros v H. rewrite gen_file_offset_eq by lia. rewrite file_offset_spec_lemma by exact H. reflexivity.
Qed.

Definition nonpseudo (pseudo : Z) (b : Z * Z) : bool := negb (fst b =? pseudo).
Definition keys_of (pseudo : Z) (fl : Z -> Z) (c : list (Z * Z)) : list (Z * Z) :=
  map (fun b => (snd b, fl (fst b))) (filter (nonpseudo pseudo) c).

Section Csi.
Variables min_shift depth : Z.
Variable fl : Z -> Z.
Let pseudo := GenBins.bin_limit min_shift depth + 1.

Definition contig_ok (c : list (Z * Z)) : Prop :=
  forall b, In b c -> (fst b <> pseudo -> GenBins.get_first_locus_in_bin depth min_shift (fst b) = Ok (fl (fst b))) /\ 0 <= snd b < 2 ^ 64.

Lemma contig_entries : forall (k : nat) c, contig_ok c ->
  bind (mapM (fun b => bind (GenBins.get_first_locus_in_bin depth min_shift (fst b)) (fun position => Ok (snd b, position)))
             (filter (fun b => negb (fst b =? pseudo)) c))
       (fun keyed_bins => Ok (map (fun lp => (GenBins.get_file_offset (fst lp), (Z.of_nat k, snd lp))) (py_sorted_pairs keyed_bins)))
  = Ok (map conv_entry (map (fun key => (Regions.file_offset (fst key), (k, snd key))) (isort (keys_of pseudo fl c)))).
Proof.
  intros k c Hc.
  rewrite (mapM_ok _ (fun b => (snd b, fl (fst b)))).
  - cbn [bind]. rewrite sorted_is_isort. unfold keys_of, nonpseudo. f_equal. rewrite map_map.
    apply map_ext_in. intros key Hk. unfold conv_entry. cbn [fst snd]. f_equal.
    apply file_offset_same.
    (* the key is a (loffset, .) of some bin of c *)
    assert (P : forall l, (forall x, In x l -> 0 <= fst x < 2 ^ 64) -> forall y, In y (isort l) -> 0 <= fst y < 2 ^ 64).
    { assert (Q : forall x l y, In y (insert x l) -> y = x \/ In y l).
      { intros x l. induction l as [|z tl IH]; intros y Hy; cbn [insert] in Hy.
        - destruct Hy as [<-|[]]. left. reflexivity.
        - destruct (key_leb x z); [destruct Hy as [<-|Hy]; [left; reflexivity|right; exact Hy]|].
          destruct Hy as [<-|Hy]; [right; left; reflexivity|]. destruct (IH y Hy) as [->|H']; [left; reflexivity|right; right; exact H']. }
      induction l as [|x tl IH]; intros Hall y Hy; [contradiction|]. cbn [isort] in Hy.
      destruct (Q _ _ _ Hy) as [->|Hy']; [apply Hall; left; reflexivity|].
      apply IH; [intros z Hz; apply Hall; right; exact Hz|exact Hy']. }
    refine (P _ _ key Hk). intros x Hx.
    apply in_map_iff in Hx. destruct Hx as [b [<- Hb]]. apply filter_In in Hb. destruct Hb as [Hb _]. cbn [fst]. apply (Hc b Hb).
  - intros b Hb. apply filter_In in Hb. destruct Hb as [Hb Hn]. destruct (Hc b Hb) as [Hf _].
    rewrite Hf; [reflexivity|]. intro E. rewrite E, Z.eqb_refl in Hn. discriminate.
Qed.

Lemma contigs_from : forall bins (k : nat), Forall contig_ok bins ->
  mapM_i (fun contig_index bins =>
          bind (mapM (fun b => bind (GenBins.get_first_locus_in_bin depth min_shift (fst b)) (fun position => Ok (snd b, position)))
                     (filter (fun b => negb (fst b =? pseudo)) bins))
               (fun keyed_bins => Ok (map (fun lp => (GenBins.get_file_offset (fst lp), (contig_index, snd lp))) (py_sorted_pairs keyed_bins))))
         (Z.of_nat k) bins
  = Ok (map (fun ck => map conv_entry (map (fun key => (Regions.file_offset (fst key), (fst ck, snd key))) (isort (snd ck))))
            (combine (seq k (length bins)) (map (keys_of pseudo fl) bins))).
Proof.
  induction bins as [|c tl IH]; intros k H; [reflexivity|].
  inversion H as [|? ? Hc Ht]; subst. cbn [mapM_i length seq map combine].
  rewrite (contig_entries k c Hc).
  replace (Z.of_nat k + 1) with (Z.of_nat (S k)) by lia. rewrite (IH (S k) Ht). reflexivity.
Qed.

Lemma translated_offsets_csi_lemma : forall bins, Forall contig_ok bins ->
  gen_offsets_csi min_shift depth bins = Ok (map conv_entry (offsets_csi (map (keys_of pseudo fl) bins))).
Proof.
  intros bins H. unfold gen_offsets_csi. cbv zeta. fold pseudo.
  change 0 with (Z.of_nat 0). rewrite (contigs_from bins 0 H). cbn [bind]. f_equal.
  unfold offsets_csi. rewrite map_length, concat_map, map_map. reflexivity.
Qed.
End Csi.

(* ---- tabix: the vectorised construction ----------------------------------------------------- *)
Lemma zip3_app : forall a1 b1 c1 a2 b2 c2, length a1 = length b1 -> length a1 = length c1 ->
  zip3 (a1 ++ a2) (b1 ++ b2) (c1 ++ c2) = zip3 a1 b1 c1 ++ zip3 a2 b2 c2.
Proof.
  induction a1 as [|x a1 IH]; intros [|y b1] [|z c1] a2 b2 c2 H1 H2; try discriminate; [reflexivity|].
  cbn [app zip3]. f_equal. apply IH; [injection H1; auto|injection H2; auto].
Qed.

Definition in64 (v : Z) : Prop := 0 <= v < 2 ^ 64.

Lemma contig_windows : forall (c : nat) li j, Forall in64 li ->
  zip3 (map GenBins.get_file_offset li) (repeat (Z.of_nat c) (length li)) (map (fun k => k * 16384 + 1) (map Z.of_nat (seq j (length li))))
  = map conv_entry (map (fun iv => (Regions.file_offset (snd iv), (c, Z.of_nat (fst iv) * 16384 + 1))) (combine (seq j (length li)) li)).
Proof.
  intros c li. induction li as [|v li IH]; intros j H; [reflexivity|].
  inversion H as [|? ? Hv Hl]; subst. cbn [length map repeat seq combine zip3].
  rewrite (IH (S j) Hl), (file_offset_same v Hv). reflexivity.
Qed.

Lemma tbi_from : forall l (k : nat), Forall (Forall in64) l ->
  zip3 (map GenBins.get_file_offset (concat l))
       (concat (mapi_from (Z.of_nat k) (fun i li => np_full (zlen li) i) l))
       (concat (map (fun li => map (fun k => k * 16384 + 1) (np_arange (zlen li))) l))
  = map conv_entry (concat (map (fun cl => map (fun iv => (Regions.file_offset (snd iv), (fst cl, Z.of_nat (fst iv) * 16384 + 1)))
                                             (combine (seq 0 (length (snd cl))) (snd cl)))
                                (combine (seq k (length l)) l))).
Proof.
  induction l as [|li l IH]; intros k H; [reflexivity|].
  inversion H as [|? ? Hli Hl]; subst.
  cbn [concat map mapi_from length seq combine fst snd]. rewrite map_app, map_app.
  unfold np_full, np_arange, zlen. rewrite Nat2Z.id.
  rewrite zip3_app by (rewrite ?map_length, ?repeat_length, ?seq_length; reflexivity).
  rewrite (contig_windows k li 0 Hli).
  replace (Z.of_nat k + 1) with (Z.of_nat (S k)) by lia.
  fold (@zlen Z). rewrite <- (IH (S k) Hl). unfold np_full, np_arange, zlen. reflexivity.
Qed.

Lemma translated_offsets_tbi_lemma : forall linear, Forall (Forall in64) linear ->
  gen_offsets_tbi linear = map conv_entry (offsets_tbi linear).
Proof.
  intros l H. unfold gen_offsets_tbi, offsets_tbi, np_hstack. cbv zeta. change 0 with (Z.of_nat 0) at 1. apply (tbi_from l 0 H).
Qed.
