(* Bridge/BridgeExplode.v -- the record loop of process_partition and fixed_vcf_field_definitions as read off the source on
   this run (Gen/GenExplode.v, translator/explode2coq.py): every column of the intermediate store receives exactly one value
   per record, from the right attribute of the record. *)
From Coq Require Import String List Bool Arith.
From B2Z Require Import Gen.GenExplode.
Import ListNotations.
Open Scope string_scope.

Definition count_fixed (f : string) (l : list aop) : nat :=
  length (filter (fun o => match o with AFixed g => String.eqb f g | _ => false end) l).
Definition count_op (p : aop -> bool) (l : list aop) : nat := length (filter p l).

(* every defined fixed field: one append per record, from the record attribute of the same name (rlen: end - start);
   nothing is appended to a fixed column that is not defined *)
Definition fixed_fields_once : bool :=
  forallb (fun d => let f := fst (fst d) in
             Nat.eqb (count_fixed f gen_record_ops) 1
             && existsb (fun a => String.eqb (fst a) f && String.eqb (snd a) (if String.eqb f "rlen" then "end - start" else f)) gen_fixed_appends)
          gen_fixed_fields
  && forallb (fun a => existsb (fun d => String.eqb (fst (fst d)) (fst a)) gen_fixed_fields) gen_fixed_appends
  && Nat.eqb (length gen_fixed_appends) (length gen_fixed_fields).

(* one append per record for every INFO field, for GT when the header has it, for every other FORMAT field *)
Definition per_field_once : bool :=
  Nat.eqb (count_op (fun o => match o with AInfoEach => true | _ => false end) gen_record_ops) 1
  && Nat.eqb (count_op (fun o => match o with AGtIfPresent => true | _ => false end) gen_record_ops) 1
  && Nat.eqb (count_op (fun o => match o with AFormatEach => true | _ => false end) gen_record_ops) 1
  && gen_laa_before_lpl.

(* the fixed fields' types / numbers are the ones the VCF Zarr mapping of C01 assumes *)
Definition fixed_fields_typed : bool :=
  forallb (fun d => existsb (fun e => String.eqb (fst (fst d)) (fst (fst e)) && String.eqb (snd (fst d)) (snd (fst e)) && String.eqb (snd d) (snd e))
                            [("CHROM", "String", "1"); ("POS", "Integer", "1"); ("QUAL", "Float", "1"); ("ID", "String", "."); ("FILTERS", "String", ".");
                             ("REF", "String", "1"); ("ALT", "String", "."); ("rlen", "Integer", "1")])
          gen_fixed_fields
  && Nat.eqb (length gen_fixed_fields) 8.

Lemma translated_record_loop_lemma : fixed_fields_once && per_field_once && fixed_fields_typed = true.
Proof. vm_compute. reflexivity. Qed.
