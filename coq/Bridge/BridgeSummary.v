(* Bridge/BridgeSummary.v -- IntegerValueTransformer.update_bounds and VcfFieldSummary.update AS TRANSLATED on this run
   (Gen/GenSummary.v, translator/summ2coq.py) are Model.Icf.upd / merge under the abstraction "min / max are both still at
   their infinite defaults, or both finite". *)
From Coq Require Import ZArith List Bool Lia.
From B2Z Require Import Base.ExtZ Model.Icf Gen.GenSummary.
Import ListNotations.
Open Scope Z_scope.

(* well-formed running summaries, and what they stand for in the model *)
Definition wf (s : gsum) : Prop :=
  (g_max_value s = NegInf /\ g_min_value s = PosInf) \/ (exists l h, g_min_value s = Fin l /\ g_max_value s = Fin h).
Definition abs (s : gsum) : isum :=
  {| i_maxnum := g_max_number s;
     i_bounds := match g_min_value s, g_max_value s with Fin l, Fin h => Some (l, h) | _, _ => None end |}.

Lemma wf0 : wf gen_summary0 /\ abs gen_summary0 = isum0.
Proof. split; [left; split; reflexivity|reflexivity]. Qed.

Lemma min_int_same : c_MIN_INT_VALUE = MIN_INT_VALUE.
Proof. reflexivity. Qed.

Lemma translated_update_bounds_lemma : forall s v, wf s ->
  wf (gen_update_bounds s v) /\ abs (gen_update_bounds s v) = upd (abs s) v.
Proof.
  intros s v H. unfold gen_update_bounds, upd, abs. cbv zeta. rewrite min_int_same.
  destruct (filter (fun x => MIN_INT_VALUE <=? x) (snd v)) as [|x tl]; cbn [list_bounds g_max_number g_max_value g_min_value i_maxnum i_bounds].
  - split; [exact H|]. destruct H as [[-> ->]|[l [h [-> ->]]]]; reflexivity.
  - destruct H as [[-> ->]|[l [h [-> ->]]]]; cbn [ext_max ext_min join_bounds].
    + split; [right; eexists; eexists; split; reflexivity|reflexivity].
    + split; [right; eexists; eexists; split; reflexivity|reflexivity].
Qed.

Lemma translated_update_lemma : forall s t, wf s -> wf t ->
  wf (gen_update s t) /\ abs (gen_update s t) = merge (abs s) (abs t).
Proof.
  intros s t Hs Ht. unfold gen_update, merge, abs. cbn [g_max_number g_max_value g_min_value i_maxnum i_bounds].
  destruct Hs as [[-> ->]|[l [h [-> ->]]]]; destruct Ht as [[-> ->]|[l' [h' [-> ->]]]]; cbn [ext_max ext_min join_bounds].
  - split; [left; split; reflexivity|reflexivity].
  - split; [right; eexists; eexists; split; reflexivity|reflexivity].
  - split; [right; eexists; eexists; split; reflexivity|reflexivity].
  - split; [right; eexists; eexists; split; reflexivity|reflexivity].
Qed.

(* folding a partition's values / merging the partitions' summaries: the translated functions compute the model's summary *)
Lemma translated_summarise_lemma : forall vs s, wf s ->
  wf (fold_left gen_update_bounds vs s) /\ abs (fold_left gen_update_bounds vs s) = fold_left upd vs (abs s).
Proof.
  induction vs as [|v vs IH]; intros s H; [split; [exact H|reflexivity]|].
  cbn [fold_left]. destruct (translated_update_bounds_lemma s v H) as [W E]. destruct (IH _ W) as [W' E']. split; [exact W'|].
  rewrite E', E. reflexivity.
Qed.
