(* Bridge/BridgeFootprint.v -- C07, translator tie: the file-system effects of the two partition
   commands AS REGENERATED FROM THE SOURCE (Gen/GenIcfProtocol.icf_partition,
   Gen/GenVczProtocol.vcz_partition; translator/proto2coq.py) stay inside the footprints of
   Model/Footprint.v that the disjointness and serialisability theorems are about.

   Every symbol of the effect language is read as the path class of the footprint model it stands for
   (for the command's own partition j); every effect as the classes it mutates and the classes it
   inspects.  The opaque data phase `WriteData` is read as "writes below <FIELD>/p<j> (explode) /
   wip/partitions/wip_p<j> (encode), reads the inputs and the array templates" -- this reading is
   the trusted part; the trace-containment runs of harness/drivers/c07.py exercise it. *)
From Coq Require Import ZArith List Bool.
From B2Z Require Import Base.Eff Model.Footprint Gen.GenIcfProtocol Gen.GenVczProtocol.
Import ListNotations.
Open Scope Z_scope.

(* a class of footprint paths *)
Inductive pclass :=
| Exactly (p : path)
| FieldPartsOf (j : Z).          (* IcfFieldPart f j for every field f *)

Definition in_class (c : pclass) (p : path) : bool :=
  match c, p with
  | FieldPartsOf j, IcfFieldPart _ k => j =? k
  | Exactly (IcfFieldPart f j), IcfFieldPart g k => (f =? g) && (j =? k)
  | Exactly (IcfSummary j), IcfSummary k => j =? k
  | Exactly IcfWipMeta, IcfWipMeta | Exactly IcfFinalMeta, IcfFinalMeta | Exactly IcfOther, IcfOther => true
  | Exactly (VczWipPart j), VczWipPart k | Exactly (VczPart j), VczPart k | Exactly (VczStalePart j), VczStalePart k => j =? k
  | Exactly VczWipArrays, VczWipArrays | Exactly VczWipMeta, VczWipMeta | Exactly VczFinal, VczFinal => true
  | Exactly (PlinkChunk a j), PlinkChunk b k => (a =? b) && (j =? k)
  | Exactly PlinkMeta, PlinkMeta | Exactly Input, Input => true
  | _, _ => false
  end.

(* the path class a symbol stands for inside the command of partition j; None = a symbol that
   has no business in a partition command (loop symbols of finalise, roots) *)
Definition sym_class (j : Z) (s : sym) : option pclass :=
  match s with
  | IWipMeta => Some (Exactly IcfWipMeta)
  | IFinalMeta | IHeader => Some (Exactly IcfFinalMeta)
  | ISummaryCur => Some (Exactly (IcfSummary j))
  | ZMeta => Some (Exactly VczWipMeta)
  | ZWipDirCur => Some (Exactly (VczWipPart j))
  | ZFinDirCur => Some (Exactly (VczPart j))
  | ZStaleDirCur => Some (Exactly (VczStalePart j))
  | _ => None
  end.

Inductive phase := PExplode | PEncode.

(* (classes mutated, classes inspected) of one effect of a partition command; None = the effect
   has no meaning inside a partition command *)
Definition opt2 (a b : option pclass) : option (list pclass) :=
  match a, b with Some x, Some y => Some [x; y] | _, _ => None end.
Definition opt1 (a : option pclass) : option (list pclass) :=
  match a with Some x => Some [x] | None => None end.

Definition eff_footprint (ph : phase) (j : Z) (e : eff) : option (list pclass * list pclass) :=
  match e with
  | GuardAbsent p | ReadFile p => match opt1 (sym_class j p) with Some r => Some ([], r) | None => None end
  | GuardRange | PureCheck => Some ([], [])
  | WriteFile p | UnlinkIfExists p | RmtreeIfExists p | Rmtree p | Mkdir p =>
      match opt1 (sym_class j p) with Some w => Some (w, w) | None => None end
  | Rename a b | RenameIfExists a b =>
      match opt2 (sym_class j a) (sym_class j b) with Some w => Some (w, w) | None => None end
  | WriteData =>
      match ph with
      | PExplode => Some ([FieldPartsOf j], [Exactly Input])
      | PEncode => Some ([Exactly (VczWipPart j)], [Exactly Input; Exactly VczWipArrays])
      end
  | _ => None          (* init / finalise effects: directory creation of shared places, loops, consolidation *)
  end.

Definition task_of (ph : phase) (j : Z) : task := match ph with PExplode => Explode j | PEncode => Encode j end.

(* the effect stays inside the task's footprint *)
Definition eff_within (ph : phase) (j : Z) (e : eff) : Prop :=
  exists w r, eff_footprint ph j e = Some (w, r) /\
    (forall c p, In c w -> in_class c p = true -> writes (task_of ph j) p = true) /\
    (forall c p, In c r -> in_class c p = true -> touches (task_of ph j) p = true).

Lemma in_class_exactly_writes : forall t q, writes t q = true ->
  (forall p, in_class (Exactly q) p = true -> writes t p = true).
Proof.
  intros t q Hq p Hp. destruct q, p; simpl in Hp; try discriminate; try exact Hq;
  repeat match goal with
  | H : (_ && _) = true |- _ => apply andb_prop in H; destruct H
  | H : (_ =? _) = true |- _ => apply Z.eqb_eq in H; subst
  end; exact Hq.
Qed.

Lemma in_class_exactly_touches : forall t q, touches t q = true ->
  (forall p, in_class (Exactly q) p = true -> touches t p = true).
Proof.
  intros t q Hq p Hp. destruct q, p; simpl in Hp; try discriminate; try exact Hq;
  repeat match goal with
  | H : (_ && _) = true |- _ => apply andb_prop in H; destruct H
  | H : (_ =? _) = true |- _ => apply Z.eqb_eq in H; subst
  end; exact Hq.
Qed.

Lemma fieldparts_writes : forall j p, in_class (FieldPartsOf j) p = true -> writes (Explode j) p = true.
Proof. intros j p H. destruct p; simpl in H; try discriminate. simpl. exact H. Qed.

Lemma writes_touches : forall t p, writes t p = true -> touches t p = true.
Proof. intros t p H. unfold touches. rewrite H. reflexivity. Qed.

(* decide one effect: compute its footprint, then settle each class by the lemmas above *)
Ltac settle_class :=
  match goal with
  | |- forall c p, In c _ -> in_class c p = true -> _ =>
      let c := fresh "c" in let p := fresh "p" in let Hc := fresh "Hc" in let Hp := fresh "Hp" in
      intros c p Hc Hp; simpl in Hc;
      repeat (destruct Hc as [Hc|Hc]; [subst c|]); try contradiction;
      first
        [ apply fieldparts_writes; exact Hp
        | apply writes_touches; apply fieldparts_writes; exact Hp
        | eapply in_class_exactly_writes; [|exact Hp]; simpl; rewrite ?Z.eqb_refl; reflexivity
        | eapply in_class_exactly_touches; [|exact Hp]; unfold touches; simpl; rewrite ?Z.eqb_refl; reflexivity ]
  end.
Ltac settle_eff := eexists; eexists; split; [reflexivity|split; settle_class].
Ltac settle_list := repeat (apply Forall_cons; [settle_eff|]); apply Forall_nil.

Lemma translated_explode_within_footprint_lemma : forall j, Forall (eff_within PExplode j) icf_partition.
Proof. intros j. unfold icf_partition. settle_list. Qed.

Lemma translated_encode_within_footprint_lemma : forall j, Forall (eff_within PEncode j) vcz_partition.
Proof. intros j. unfold vcz_partition. settle_list. Qed.

(* consequence used by Props/C07: no effect of partition i's command mutates a path that
   partition j's command (i <> j) mutates or inspects *)
Lemma translated_commands_disjoint_lemma :
  forall (ph : phase) (cmd : list eff), (forall j, Forall (eff_within ph j) cmd) ->
  (forall i j p, i <> j -> writes (task_of ph i) p = true -> touches (task_of ph j) p = false) ->
  forall i j, i <> j -> forall e f, In e cmd -> In f cmd ->
  forall wi ri wj rj, eff_footprint ph i e = Some (wi, ri) -> eff_footprint ph j f = Some (wj, rj) ->
  forall c d p, In c wi -> In d (wj ++ rj) -> in_class c p = true -> in_class d p = true -> False.
Proof.
  intros ph cmd Hall Hdisj i j Hij e f He Hf wi ri wj rj Hei Hfj c d p Hc Hd Hcp Hdp.
  pose proof (proj1 (Forall_forall _ _) (Hall i) e He) as [w [r [E1 [Hw _]]]].
  pose proof (proj1 (Forall_forall _ _) (Hall j) f Hf) as [w' [r' [E2 [Hw' Hr']]]].
  rewrite Hei in E1. inversion E1; subst w r. rewrite Hfj in E2. inversion E2; subst w' r'.
  assert (W : writes (task_of ph i) p = true) by (eapply Hw; eauto).
  assert (T : touches (task_of ph j) p = true).
  { apply in_app_or in Hd. destruct Hd as [Hd|Hd]; [apply writes_touches; eapply Hw'; eauto|eapply Hr'; eauto]. }
  rewrite (Hdisj i j p Hij W) in T. discriminate.
Qed.
