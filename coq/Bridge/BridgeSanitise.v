(* Bridge/BridgeSanitise.v -- the value sanitisers of icf.py AS TRANSLATED on this run (Gen/GenSanitise.v,
   translator/san2coq.py) are the row encoder of Pipeline/Rows.v (enc_vec: absent -> all missing, cells in
   order, short -> fill padding), the function vec_roundtrip, pipeline_refines_spec and spec_roundtrip (C01)
   are about.  The premises spell out how a value reaches a sanitiser (cyvcf2 / htslib conventions, kept by
   the intermediate store): integer vectors carry the sentinels INT32_MIN (missing; -1 when the value came
   as a tuple) and INT32_MIN + 1 (end of vector), float vectors NaNs (1-d) or htslib's own two NaN bit
   patterns (2-d), which are the VCF Zarr ones. *)
From Coq Require Import ZArith Arith List Bool Lia ZifyBool.
From B2Z Require Import Base.Prims Base.SanPrims Pipeline.Rows Gen.GenSanitise.
Import ListNotations.
Open Scope Z_scope.

(* how an integer cell reaches the sanitiser *)
Definition int_raw (r : Z) (c : option Z) : Prop :=
  match c with
  | None => r = c_VCF_INT_MISSING \/ r = c_INT_MISSING
  | Some v => r = v /\ v <> c_VCF_INT_MISSING /\ v <> c_VCF_INT_FILL
  end.
(* a float cell of a 1-d value: any NaN stands for "missing" *)
Definition float_raw (r : Z) (c : option Z) : Prop :=
  match c with None => is_nan r = true | Some b => r = b /\ is_nan b = false end.
(* a float cell of a 2-d (per-sample) value: htslib's bit patterns *)
Definition float2_raw (r : Z) (c : option Z) : Prop :=
  match c with None => r = c_FLOAT32_MISSING | Some b => r = b end.

Lemma F2_length {A B} (R : A -> B -> Prop) : forall l l', Forall2 R l l' -> length l = length l'.
Proof. induction 1; [reflexivity|]. cbn [length]. f_equal. assumption. Qed.
Lemma F2_in_l {A B} (R : A -> B -> Prop) : forall l l' x, Forall2 R l l' -> In x l -> exists y, In y l' /\ R x y.
Proof.
  induction 1 as [|a b l l' Hab _ IH]; intros Hin; [contradiction|]. destruct Hin as [<-|Hin].
  - exists b. split; [left; reflexivity|exact Hab].
  - destruct (IH Hin) as [y [Hy Hr]]. exists y. split; [right; exact Hy|exact Hr].
Qed.

Lemma int_conv_cell : forall r c, int_raw r c -> gen_int_conv r = enc_cell c_INT_MISSING c.
Proof.
  intros r c H. unfold gen_int_conv, int_raw, c_VCF_INT_MISSING, c_INT_MISSING, c_VCF_INT_FILL in *. destruct c as [v|]; cbn [enc_cell].
  - destruct H as [-> [H1 H2]]. destruct (v =? -2147483648) eqn:E1; [lia|]. destruct (v =? -2147483647) eqn:E2; [lia|]. reflexivity.
  - destruct H as [-> | ->]; reflexivity.
Qed.

Lemma int_conv_fill : gen_int_conv c_VCF_INT_FILL = c_INT_FILL.
Proof. reflexivity. Qed.

Lemma map_conv_cells : forall raw cells, Forall2 int_raw raw cells -> map gen_int_conv raw = map (enc_cell c_INT_MISSING) cells.
Proof. induction 1 as [|r c raw cells H _ IH]; [reflexivity|]. cbn [map]. rewrite IH, (int_conv_cell r c H). reflexivity. Qed.

Lemma map_conv_fill : forall k, map gen_int_conv (repeat c_VCF_INT_FILL k) = repeat c_INT_FILL k.
Proof. induction k as [|k IH]; [reflexivity|]. cbn [repeat map]. rewrite IH. reflexivity. Qed.

Lemma skipn_repeat : forall (c : Z) n w, skipn n (repeat c w) = repeat c (w - n).
Proof.
  intros c n. induction n as [|n IH]; intros w; [rewrite Nat.sub_0_r; reflexivity|].
  destruct w as [|w]; [reflexivity|]. cbn [repeat skipn]. rewrite IH. reflexivity.
Qed.

Lemma set_prefix_full : forall w c v, (length v <= w)%nat ->
  row_set_prefix (row_full w c) v = Ok (v ++ repeat c (w - length v)).
Proof.
  intros w c v H. unfold row_set_prefix, row_full. rewrite repeat_length.
  destruct (Nat.leb_spec (length v) w) as [_|Hx]; [|lia]. rewrite skipn_repeat. reflexivity.
Qed.

Lemma repeat_plus : forall (c : Z) a b, repeat c a ++ repeat c b = repeat c (a + b).
Proof. intros c a b. symmetry. apply repeat_app. Qed.

(* ---- INFO (1-d) integers ----------------------------------------------------------------- *)
Lemma translated_int_1d_lemma : forall w old raw cells k, Forall2 int_raw raw cells -> (length cells + k <= w)%nat ->
  gen_int_1d w old (Some (raw ++ repeat c_VCF_INT_FILL k)) = Ok (enc_vec c_INT_MISSING c_INT_FILL w (Some cells)) /\
  gen_int_1d w old None = Ok (enc_vec c_INT_MISSING c_INT_FILL w None).
Proof.
  intros w old raw cells k H Hl. split; [|reflexivity].
  unfold gen_int_1d. cbv zeta. cbn [bind]. rewrite map_app, (map_conv_cells raw cells H), map_conv_fill.
  pose proof (F2_length _ _ _ H) as Hlen.
  rewrite set_prefix_full by (rewrite app_length, map_length, repeat_length; lia).
  cbn [enc_vec]. rewrite <- app_assoc. f_equal. f_equal.
  rewrite app_length, map_length, repeat_length. fold c_INT_FILL. rewrite repeat_plus. f_equal. lia.
Qed.

(* ---- INFO (1-d) floats: every NaN is "missing"; +-inf and denormals are not NaN ------------- *)
Lemma map_nan_cells : forall raw cells, Forall2 float_raw raw cells ->
  map (fun b => if is_nan b then 2139095041 else b) raw = map (enc_cell c_FLOAT32_MISSING) cells.
Proof.
  induction 1 as [|r c raw cells H _ IH]; [reflexivity|]. cbn [map]. rewrite IH. f_equal.
  destruct c as [b|]; cbn [float_raw enc_cell] in *.
  - destruct H as [-> Hn]. rewrite Hn. reflexivity.
  - rewrite H. reflexivity.
Qed.

Lemma translated_float_1d_lemma : forall w old raw cells, Forall2 float_raw raw cells -> (length cells <= w)%nat ->
  gen_float_1d w old (Some raw) = Ok (enc_vec c_FLOAT32_MISSING c_FLOAT32_FILL w (Some cells)) /\
  gen_float_1d w old None = Ok (enc_vec c_FLOAT32_MISSING c_FLOAT32_FILL w None).
Proof.
  intros w old raw cells H Hl. split; [|reflexivity].
  unfold gen_float_1d. cbv zeta. cbn [bind]. rewrite (map_nan_cells raw cells H).
  rewrite set_prefix_full by (rewrite map_length; exact Hl). rewrite map_length. reflexivity.
Qed.

(* ---- FORMAT (2-d) values: one row per sample ------------------------------------------------ *)
Lemma rows_full_S : forall n w c, rows_full (S n) w c = row_full w c :: rows_full n w c.
Proof. reflexivity. Qed.
Lemma rows_set_prefix_cons : forall r rows x v,
  rows_set_prefix (r :: rows) (x :: v) =
  match row_set_prefix r x, rows_set_prefix rows v with Ok a, Ok b => Ok (a :: b) | Err e, _ | _, Err e => Err e end.
Proof. reflexivity. Qed.

Lemma rows_set_prefix_full : forall w c (v : list (list Z)) m, Forall (fun x => length x = m) v -> (m <= w)%nat ->
  rows_set_prefix (rows_full (length v) w c) v = Ok (map (fun x => x ++ repeat c (w - m)) v).
Proof.
  intros w c v m H Hm. induction H as [|x v Hx _ IH]; [reflexivity|].
  change (length (x :: v)) with (S (length v)). rewrite rows_full_S, rows_set_prefix_cons.
  rewrite set_prefix_full by lia. rewrite IH, Hx. reflexivity.
Qed.

Definition int_row (m : nat) (raw_row : list Z) (cells : list (option Z)) : Prop :=
  exists raw k, raw_row = raw ++ repeat c_VCF_INT_FILL k /\ Forall2 int_raw raw cells /\ length raw_row = m.

Lemma translated_int_2d_lemma : forall w old rows cellss m, Forall2 (int_row m) rows cellss -> (m <= w)%nat ->
  gen_int_2d (length rows) w old (Some rows) = Ok (map (fun cells => enc_vec c_INT_MISSING c_INT_FILL w (Some cells)) cellss) /\
  gen_int_2d (length rows) w old None = Ok (repeat (enc_vec c_INT_MISSING c_INT_FILL w None) (length rows)).
Proof.
  intros w old rows cellss m H Hm. split; [|reflexivity].
  unfold gen_int_2d. cbv zeta. cbn [bind].
  replace (length rows) with (length (map (map gen_int_conv) rows)) by apply map_length.
  rewrite (rows_set_prefix_full w (-2) (map (map gen_int_conv) rows) m).
  - f_equal. rewrite map_map. induction H as [|r cells rows cellss Hr _ IH]; [reflexivity|].
    cbn [map]. rewrite IH. f_equal. destruct Hr as [raw [k [-> [Hc Hlen]]]].
    rewrite map_app, (map_conv_cells raw cells Hc), map_conv_fill. cbn [enc_vec].
    pose proof (F2_length _ _ _ Hc) as Hl. rewrite app_length, repeat_length in Hlen.
    rewrite <- app_assoc. f_equal. fold c_INT_FILL. rewrite repeat_plus. f_equal. lia.
  - apply Forall_forall. intros x Hx. apply in_map_iff in Hx. destruct Hx as [r [<- Hr]]. rewrite map_length.
    destruct (F2_in_l _ _ _ _ H Hr) as [cells [_ [raw [k [_ [_ Hlen]]]]]]. exact Hlen.
  - exact Hm.
Qed.

(* per-sample float rows: htslib's bit patterns pass through unchanged and the row is padded with fill *)
Definition float_row (m : nat) (raw_row : list Z) (cells : list (option Z)) : Prop :=
  exists raw k, raw_row = raw ++ repeat c_FLOAT32_FILL k /\ Forall2 float2_raw raw cells /\ length raw_row = m.

Lemma map_float2_cells : forall raw cells, Forall2 float2_raw raw cells -> raw = map (enc_cell c_FLOAT32_MISSING) cells.
Proof.
  induction 1 as [|r c raw cells H _ IH]; [reflexivity|]. cbn [map]. rewrite <- IH. f_equal.
  destruct c as [b|]; cbn [float2_raw enc_cell] in *; exact H.
Qed.

Lemma translated_float_2d_lemma : forall w old rows cellss m, Forall2 (float_row m) rows cellss -> (m <= w)%nat ->
  gen_float_2d (length rows) w old (Some rows) = Ok (map (fun cells => enc_vec c_FLOAT32_MISSING c_FLOAT32_FILL w (Some cells)) cellss) /\
  gen_float_2d (length rows) w old None = Ok (repeat (enc_vec c_FLOAT32_MISSING c_FLOAT32_FILL w None) (length rows)).
Proof.
  intros w old rows cellss m H Hm. split; [|reflexivity].
  unfold gen_float_2d. cbv zeta. cbn [bind].
  rewrite (rows_set_prefix_full w 2139095042 rows m).
  - f_equal. induction H as [|r cells rows cellss Hr _ IH]; [reflexivity|].
    cbn [map]. rewrite IH. f_equal. destruct Hr as [raw [k [-> [Hc Hlen]]]].
    rewrite (map_float2_cells raw cells Hc) at 1. cbn [enc_vec].
    rewrite (map_float2_cells raw cells Hc), app_length, map_length, repeat_length in Hlen.
    rewrite <- app_assoc. f_equal. fold c_FLOAT32_FILL. rewrite repeat_plus. f_equal. lia.
  - apply Forall_forall. intros x Hx.
    destruct (F2_in_l _ _ _ _ H Hx) as [cells [_ [raw [k [_ [_ Hlen]]]]]]. exact Hlen.
  - exact Hm.
Qed.

(* ---- scalars and flags --------------------------------------------------------------------- *)
Lemma translated_scalars_lemma :
  (forall r c rest, int_raw r c -> gen_int_scalar (Some (r :: rest)) = Ok (enc_cell c_INT_MISSING c)) /\
  gen_int_scalar None = Ok c_INT_MISSING /\
  (forall b rest, gen_float_scalar (Some (b :: rest)) = Ok b) /\
  gen_float_scalar None = Ok c_FLOAT32_MISSING /\
  (forall v, gen_bool (Some v) = true) /\ gen_bool None = false.
Proof.
  split; [|repeat split].
  intros r c rest H. unfold gen_int_scalar. cbn [map py_index0]. rewrite (int_conv_cell r c H). reflexivity.
Qed.

(* ---- the dispatch: by the field's VCF type and the rank of the destination buffer ---------- *)
Definition expected_sanitiser (ty : vcf_type) (rank : nat) : option sanitiser :=
  match ty, rank with
  | TFlag, 1%nat => Some S_bool
  | TFloat, 1%nat => Some S_float_scalar | TFloat, 2%nat => Some S_float_1d | TFloat, 3%nat => Some S_float_2d
  | TInteger, 1%nat => Some S_int_scalar | TInteger, 2%nat => Some S_int_1d | TInteger, 3%nat => Some S_int_2d
  | TString, 1%nat => Some S_string_scalar | TString, 2%nat => Some S_string_1d | TString, 3%nat => Some S_string_2d
  | _, _ => None
  end.

Lemma translated_dispatch_lemma : forall ty rank, gen_dispatch ty rank = expected_sanitiser ty rank.
Proof.
  intros ty rank. destruct ty; destruct rank as [|[|[|[|r]]]]; reflexivity.
Qed.

(* ---- what the row held before does not matter ---------------------------------------------- *)
Lemma translated_rows_ignore_stale_data_lemma : forall w n old old' old2 old2' v v2,
  gen_int_1d w old v = gen_int_1d w old' v /\ gen_float_1d w old v = gen_float_1d w old' v /\
  gen_int_2d n w old2 v2 = gen_int_2d n w old2' v2 /\ gen_float_2d n w old2 v2 = gen_float_2d n w old2' v2.
Proof. intros. repeat split; (destruct v || destruct v2); reflexivity. Qed.

(* ---- strings (interned): "." is the missing string, "" the fill; per-sample rows may be ragged -------------- *)
Definition str_raw (r : Z) (c : option Z) : Prop := match c with None => r = str_missing | Some v => r = v end.

Lemma map_str_cells : forall raw cells, Forall2 str_raw raw cells -> raw = map (enc_cell str_missing) cells.
Proof.
  induction 1 as [|r c raw cells H _ IH]; [reflexivity|]. cbn [map]. rewrite <- IH. f_equal.
  destruct c as [b|]; cbn [str_raw enc_cell] in *; exact H.
Qed.

Lemma translated_string_1d_lemma : forall w old raw cells, Forall2 str_raw raw cells -> (length cells <= w)%nat ->
  gen_string_1d w old (Some raw) = Ok (enc_vec str_missing str_fill w (Some cells)) /\
  gen_string_1d w old None = Ok (enc_vec str_missing str_fill w None).
Proof.
  intros w old raw cells H Hl. split; [|reflexivity].
  unfold gen_string_1d. cbv zeta. cbn [bind]. pose proof (F2_length _ _ _ H) as Hlen.
  rewrite set_prefix_full by lia. rewrite (map_str_cells raw cells H) at 1. rewrite Hlen. reflexivity.
Qed.

Lemma rows_set_prefix_ragged : forall w c (v : list (list Z)), Forall (fun x => (length x <= w)%nat) v ->
  rows_set_prefix (rows_full (length v) w c) v = Ok (map (fun x => x ++ repeat c (w - length x)) v).
Proof.
  intros w c v H. induction H as [|x v Hx _ IH]; [reflexivity|].
  change (length (x :: v)) with (S (length v)). rewrite rows_full_S, rows_set_prefix_cons.
  rewrite set_prefix_full by exact Hx. rewrite IH. reflexivity.
Qed.

Lemma translated_string_2d_lemma : forall w old rows cellss, Forall2 (Forall2 str_raw) rows cellss ->
  Forall (fun x => (length x <= w)%nat) rows ->
  gen_string_2d (length rows) w old (Some rows) = Ok (map (fun cells => enc_vec str_missing str_fill w (Some cells)) cellss) /\
  gen_string_2d (length rows) w old None = Ok (repeat (enc_vec str_missing str_fill w None) (length rows)).
Proof.
  intros w old rows cellss H Hw. split; [|reflexivity].
  unfold gen_string_2d. cbv zeta. cbn [bind]. rewrite rows_set_prefix_ragged by exact Hw. f_equal.
  induction H as [|r cells rows cellss Hr _ IH]; [reflexivity|].
  inversion Hw as [|? ? _ Hw']; subst. cbn [map]. rewrite IH by exact Hw'. f_equal.
  cbn [enc_vec]. rewrite (map_str_cells r cells Hr) at 1. rewrite (F2_length _ _ _ Hr). reflexivity.
Qed.

Lemma translated_string_scalar_lemma :
  (forall r c rest, str_raw r c -> gen_string_scalar (Some (r :: rest)) = Ok (enc_cell str_missing c)) /\
  gen_string_scalar None = Ok str_missing.
Proof. split; [|reflexivity]. intros r c rest H. cbn. destruct c; cbn in *; rewrite H; reflexivity. Qed.
