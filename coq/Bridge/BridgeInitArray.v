(* Bridge/BridgeInitArray.v -- the statement "init_array hands the specification to zarr unchanged" over the flow table
   translator/initarr2coq.py reads off VcfZarrWriter.init_array on every run (Gen/GenInitArray.v). *)
From Coq Require Import String List Bool.
From B2Z Require Import Gen.GenInitArray.
Import ListNotations.
Open Scope string_scope.

Definition ia_lookup (k : string) : option source :=
  option_map snd (find (fun kv => String.eqb (fst kv) k) gen_init_array).

(* every requested property of an array specification reaches zarr VERBATIM (compressor / filters through numcodecs.get_codec
   only); the shape is the specification's with nothing but the variants axis replaced by the plan's row count; the object
   codec depends on the dtype alone; no keyword other than these is passed *)
Definition honours_spec : Prop :=
  ia_lookup "name" = Some (Verbatim F_name) /\ ia_lookup "chunks" = Some (Verbatim F_chunks) /\
  ia_lookup "dtype" = Some (Verbatim F_dtype) /\ ia_lookup "compressor" = Some (ViaGetCodec F_compressor) /\
  ia_lookup "filters" = Some (ViaGetCodec F_filters) /\ ia_lookup "shape" = Some ShapeWithRows /\
  ia_lookup "attr:_ARRAY_DIMENSIONS" = Some (Verbatim F_dimensions) /\
  ia_lookup "attr:description" = Some (Verbatim F_description) /\
  ia_lookup "object_codec" = Some ByDtype /\
  forallb (fun kv => existsb (String.eqb (fst kv))
             ["name"; "shape"; "chunks"; "dtype"; "compressor"; "filters"; "object_codec"; "dimension_separator"; "attr:description"; "attr:_ARRAY_DIMENSIONS"])
          gen_init_array = true.

Lemma honours_spec_lemma : honours_spec.
Proof. vm_compute. repeat split; reflexivity. Qed.
