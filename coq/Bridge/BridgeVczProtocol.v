(* Bridge/BridgeVczProtocol.v -- the effect sequences regenerated from the source
   (Gen/GenVczProtocol.v, translator/proto2coq.py) denote, in EVERY state of the abstract file system,
   exactly the step lists of the protocol models the C05 / C06 theorems are about.

   Re-proved on every run.  The proofs do not compare the lists syntactically: they evaluate the
   denotation by cases on the guards it meets, so an extra check, a repeated metadata load or a
   different but equivalent guard order still goes through, while a moved write, a dropped unlink,
   a guard evaluated after a mutation it depends on, or a new effect do not. *)
From Coq Require Import Arith List Bool Lia.
From B2Z Require Import Base.Eff Protocol.VczProtocol Protocol.VczEffects Gen.GenVczProtocol.
Import ListNotations.

(* ------------------------------- distributed encode --------------------------------------- *)
Section Vcz.
Variable nparts narrays : nat.
Variable nent : nat -> nat -> nat.
Variable j : nat.
Variable rm : list (nat * nat).
Notation denote := (VczEffects.denote nparts narrays nent j).
Notation steps := (VczProtocol.steps nparts narrays nent true).

Lemma vcz_init_denotes s : denote vcz_init false false false s = Some (steps s VczProtocol.Init).
Proof.
  unfold vcz_init. unfold VczProtocol.steps.
  cbn [VczEffects.denote]. destruct (VczProtocol.is_absent (s VczProtocol.PMeta)); [|reflexivity].
  unfold VczEffects.andthen. cbn [VczEffects.denote app]. reflexivity.
Qed.

Lemma exec_wip_writes_findir s l :
  Forall (fun st => match st with VczProtocol.Trunc (VczProtocol.PWipE _ _ _) | VczProtocol.Fill (VczProtocol.PWipE _ _ _)
                                 | VczProtocol.Fill (VczProtocol.PWipDir _) => True | _ => False end) l ->
  forall q, VczProtocol.exec s l (VczProtocol.PFinDir q) = s (VczProtocol.PFinDir q).
Proof.
  revert s. induction l as [|st l IH]; intros s HF q; [reflexivity|].
  inversion HF; subst. unfold VczProtocol.exec in *. simpl. rewrite IH by assumption.
  destruct st as [p|p|p|? ? ?|? ? ?]; try contradiction; destruct p; try contradiction; reflexivity.
Qed.

Lemma wip_phase_findir s q :
  VczProtocol.exec (VczProtocol.exec s [VczProtocol.Fill (VczProtocol.PWipDir j)])
    (flat_map (fun ac : nat * nat => [VczProtocol.Trunc (VczProtocol.PWipE j (fst ac) (snd ac));
                                       VczProtocol.Fill (VczProtocol.PWipE j (fst ac) (snd ac))])
              (VczProtocol.entries narrays nent j)) (VczProtocol.PFinDir q) = s (VczProtocol.PFinDir q).
Proof.
  rewrite <- VczProtocol.exec_app. apply exec_wip_writes_findir.
  constructor; [exact I|]. apply Forall_forall. intros st Hin. apply in_flat_map in Hin.
  destruct Hin as [ac [_ [<-|[<-|[]]]]]; exact I.
Qed.

Lemma vcz_partition_denotes s : denote vcz_partition false false false s = Some (steps s (VczProtocol.Partition j rm)).
Proof.
  unfold vcz_partition. unfold VczProtocol.steps.
  cbn [VczEffects.denote].
  destruct (VczProtocol.is_full (s VczProtocol.PMeta)); cbn [andb]; [|reflexivity].
  destruct (j <? nparts); [|reflexivity].
  unfold VczEffects.andthen. cbn [VczEffects.denote].
  rewrite wip_phase_findir.
  destruct (VczProtocol.is_absent (s (VczProtocol.PFinDir j))); unfold VczEffects.andthen; cbn [VczEffects.denote];
    cbn [app]; rewrite ?app_nil_r, <- ?app_assoc; reflexivity.
Qed.

Lemma vcz_finalise_denotes s : denote vcz_finalise false false false s = Some (steps s VczProtocol.Finalise).
Proof.
  unfold vcz_finalise. unfold VczProtocol.steps.
  cbn [VczEffects.denote].
  destruct (VczProtocol.is_full (s VczProtocol.PMeta)); cbn [andb]; [|reflexivity].
  destruct (VczProtocol.all_fin nparts s); [|reflexivity].
  match goal with |- context [VczEffects.denote_arrays _ _ ?body _ _] =>
    change body with (VczEffects.std_body ++ [APure]) end.
  rewrite (VczEffects.denote_arrays_spec nparts nent [APure] eq_refl (seq 0 narrays) s s (seq_NoDup _ _)) by reflexivity.
  rewrite (VczEffects.fa_steps_spec nparts nent s (seq 0 narrays)).
  destruct (VczEffects.fa_steps nparts nent s (seq 0 narrays)) as [l ok]. cbn [fst snd].
  destruct ok; [|rewrite app_nil_r; reflexivity].
  unfold VczEffects.andthen. cbn [VczEffects.denote]. unfold VczEffects.andthen. cbn [VczEffects.denote app]. reflexivity.
Qed.
End Vcz.
