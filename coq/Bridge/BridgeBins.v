(* Bridge: translated CSI helpers (Gen/GenBins.v) = closed-form model (Model/BinArith.v) *)
From Coq Require Import ZArith List Bool Lia ZifyBool.
From B2Z Require Import Base.Prims Model.BinArith Proofs.BinsProofs.
From B2Z Require Gen.GenBins.
Import ListNotations.
Open Scope Z_scope.

(* shifts become powers; exponents are then compared by lia, so harmless rewrites of the
   source (operand order, temporaries) do not matter *)
Ltac shift_norm :=
  repeat (rewrite Z.shiftl_mul_pow2 by lia); repeat (rewrite Z.shiftr_div_pow2 by lia);
  rewrite ?Z.mul_1_l.
Ltac pow_eq := repeat (f_equal; try lia).

Lemma gen_first_bin_eq l : 0 <= l -> GenBins.get_first_bin_in_level l = first_bin l.
Proof. intros. unfold GenBins.get_first_bin_in_level, first_bin. shift_norm. pow_eq. Qed.
Lemma gen_level_size_eq l : 0 <= l -> GenBins.get_level_size l = level_size l.
Proof. intros. unfold GenBins.get_level_size, level_size. shift_norm. pow_eq. Qed.
Lemma gen_bin_limit_eq ms d : -1 <= d -> GenBins.bin_limit ms d = bin_limit d.
Proof. intros. unfold GenBins.bin_limit, bin_limit. shift_norm. pow_eq. Qed.
Lemma gen_ceildiv_eq a b : GenBins.ceildiv a b = ceil_truediv a b.
Proof. reflexivity. Qed.

Lemma gen_file_offset_eq v : 0 <= v -> GenBins.get_file_offset v = file_offset v.
Proof.
  intros. unfold GenBins.get_file_offset, file_offset. cbv zeta.
  change 281474976710655 with (Z.ones 48). rewrite Z.land_ones by lia.
  rewrite Z.shiftr_div_pow2 by lia. reflexivity.
Qed.

Lemma gen_level_for_bin_eq depth bin : 0 <= depth ->
  GenBins.get_level_for_bin depth bin =
  match level_for_bin depth bin with Some l => Ok l | None => Err E_ValueError end.
Proof.
  intros Hd. unfold GenBins.get_level_for_bin, level_for_bin.
  rewrite (range_down_find_ext _ (fun i => first_bin i <=? bin) depth).
  - destruct (range_down_find _ depth); reflexivity.
  - intros i Hi. rewrite gen_first_bin_eq by lia.
    destruct (bin >=? first_bin i) eqn:E1; destruct (first_bin i <=? bin) eqn:E2; try reflexivity; lia.
Qed.

Lemma gen_first_locus_eq depth ms bin : 0 <= depth -> 0 <= ms ->
  GenBins.get_first_locus_in_bin depth ms bin =
  match first_locus ms depth bin with Some p => Ok p | None => Err E_ValueError end.
Proof.
  intros Hd Hm. unfold GenBins.get_first_locus_in_bin, first_locus.
  rewrite gen_level_for_bin_eq by lia.
  destruct (level_for_bin depth bin) as [l|] eqn:E; [|reflexivity].
  destruct (level_unique_lemma depth bin l Hd E) as [[Hl0 Hl1] _].
  cbn [bind]. cbv zeta. rewrite ?gen_first_bin_eq, ?gen_level_size_eq by lia.
  shift_norm. unfold level_size. pow_eq.
Qed.
