(* Bridge/BridgeIndexLayout.v -- the field layout of read_csi / read_tabix as read off the source on this run
   (Gen/GenIndexLayout.v, translator/idx2coq.py) against the layouts of the CSI v1 and tabix specifications, written here from
   the specification texts in the vocabulary of the translator -- the same layouts Model/IndexParse.v parses field by field
   (rd_i32 / rd_u32 / rd_u64, pmany under guarded counts, parse_tail) and its independent serialisers write. *)
From Coq Require Import ZArith String List.
From B2Z Require Import Model.IndexParse Gen.GenIndexLayout.
Import ListNotations.
Open Scope string_scope.

(* CSI v1: magic "CSI\1"; min_shift, depth, l_aux : int32; aux[l_aux]; n_ref : int32;
   n_ref x { n_bin : int32; n_bin x { bin : uint32; loffset : uint64; n_chunk : int32; n_chunk x { beg, end : uint64 } } };
   optional n_no_coor : uint64; nothing after it *)
Definition csi_spec_layout : list rd :=
  [ Rd [Bytes4]; Magic "CSI"; Rd [I32; I32; I32]; Rd [BytesN]; Rd [I32];
    (* fields are numbered in reading order: c0 magic, c1 min_shift, c2 depth, c3 l_aux, c4 aux, c5 n_ref, c6 n_bin, c7 bin, c8 loffset, c9 n_chunk *)
    Guard "c5" [Loop "c5" [Rd [I32]; Loop "c6" [Rd [U32; U64; I32]; Loop "c9" [Rd [U64; U64]]]]];
    Tail; Eof ].

(* tabix: magic "TBI\1"; n_ref, format, col_seq, col_beg, col_end, meta, skip, l_nm : int32; names[l_nm];
   n_ref x { n_bin : int32; n_bin x { bin : uint32; n_chunk : int32; n_chunk x { beg, end : uint64 } };
             n_intv : int32; n_intv x { ioff : uint64 } }; optional n_no_coor : uint64; nothing after it *)
Definition tbi_spec_layout : list rd :=
  [ Rd [Bytes4]; Magic "TBI"; Rd [I32; I32; I32; I32; I32; I32; I32; I32];
    (* c0 magic, c1 n_ref, c2 format, c3 col_seq, c4 col_beg, c5 col_end, c6 meta, c7 skip, c8 l_nm, c9 names, c10 n_bin, c11 bin, c12 n_chunk,
       c13 c14 chunk, c15 n_intv, c16 ioff *)
    Guard "c8" [Rd [BytesN];
                Loop "c1" [Rd [I32]; Loop "c10" [Rd [U32; I32]; Loop "c12" [Rd [U64; U64]]]; Rd [I32]; Loop "c15" [Rd [U64]]]];
    Tail; Eof ].

Lemma translated_csi_layout_lemma : gen_csi_layout = csi_spec_layout.
Proof. reflexivity. Qed.
Lemma translated_tbi_layout_lemma : gen_tbi_layout = tbi_spec_layout.
Proof. reflexivity. Qed.
Lemma translated_pseudo_bin_lemma : gen_tbi_pseudo_bin = tbx_pseudo /\ gen_count_rule_present = true.
Proof. split; reflexivity. Qed.
