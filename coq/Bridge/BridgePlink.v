(* Bridge/BridgePlink.v -- the PLINK worker task plink.encode_genotypes_slice AS TRANSLATED on this run
   (Gen/GenPlink.v, translator/plink2coq.py) against the models of C16 (Model/Plink.v), C11 and C07
   (Model/Footprint.v). *)
From Coq Require Import ZArith List Bool Lia ZifyBool.
From B2Z Require Import Base.PlinkOps Model.Plink Model.Footprint Gen.GenPlink.
Import ListNotations.
Open Scope Z_scope.
Ltac Zify.zify_post_hook ::= Z.to_euclidean_division_equations.

(* 1. the masked assignments compute the documented mapping, for EVERY integer the reader may report *)
Lemma translated_call_mapping_lemma : forall v, gen_call v = call_of_count v.
Proof.
  intros v. unfold gen_call, call_of_count.
  destruct (v =? -127) eqn:E1; destruct (v =? 2) eqn:E2; destruct (v =? 1) eqn:E3; try reflexivity; lia.
Qed.

(* 2. one input row: from lock-step counters r the row program hands out logical row r of every
      buffer exactly once and stores the genotype pairs, all-false phasing and the missingness mask *)
Definition lockstep (r : Z) : buf -> Z := fun _ => r.

Lemma translated_row_program_lemma : forall r values,
  exists s, exec_ops gen_call values (start_iteration (lockstep r)) gen_row_ops = Some s /\
    (forall b, cnt s b = r + 1) /\ (forall b, last s b = Some r) /\
    cell_gt s = Some (map call_of_count values) /\
    cell_ph s = Some (map (fun _ => false) values) /\
    cell_mask s = Some (map (fun v => (fst (call_of_count v) =? -1, snd (call_of_count v) =? -1)) values).
Proof.
  intros r values. unfold gen_row_ops.
  repeat (cbv -[Z.add Z.eqb map gen_call call_of_count]; rewrite ?Z.eqb_refl).
  eexists. split; [reflexivity|].
  cbv -[Z.add Z.eqb map gen_call call_of_count].
  split; [intros b; destruct b; reflexivity|].
  split; [intros b; destruct b; reflexivity|].
  split; [f_equal; apply map_ext; intros v; apply translated_call_mapping_lemma|].
  split; [reflexivity|].
  f_equal. rewrite map_map. apply map_ext. intros v. rewrite translated_call_mapping_lemma. reflexivity.
Qed.

(* 3. the read loop.  Canonical form: advance to the end of the piece just read.  The translated loop is
      either exactly that (while c < stop: ...; c = e) or advances by the chunk size (for c in
      range(start, stop, cs)); both deliver the same pieces. *)
Fixpoint creads (fuel : nat) (c stop cs : Z) : list (Z * Z) :=
  match fuel with
  | O => []
  | S fuel' => if c <? stop then let e := Z.min (c + cs) stop in (c, e) :: creads fuel' e stop cs else []
  end.

Lemma creads_done : forall fuel c stop cs, stop <= c -> creads fuel c stop cs = [] /\ gen_slice_reads fuel c stop cs = [].
Proof.
  intros fuel c stop cs H. destruct fuel; cbn [creads gen_slice_reads]; [split; reflexivity|].
  replace (c <? stop) with false by lia. split; reflexivity.
Qed.

Lemma gen_creads_canonical : forall fuel c stop cs, 1 <= cs -> gen_slice_reads fuel c stop cs = creads fuel c stop cs.
Proof.
  induction fuel as [|f IH]; intros c stop cs Hcs; [reflexivity|].
  cbn [gen_slice_reads creads]. destruct (c <? stop) eqn:E; [|reflexivity]. cbv zeta. f_equal.
  all: first
    [ apply IH; exact Hcs
    | destruct (c + cs <=? stop) eqn:E2;
      [ replace (Z.min (c + cs) stop) with (c + cs) by lia; apply IH; exact Hcs
      | replace (Z.min (c + cs) stop) with stop by lia;
        rewrite (proj2 (creads_done f (c + cs) stop cs ltac:(lia))), (proj1 (creads_done f stop stop cs ltac:(lia))); reflexivity ] ].
Qed.

Fixpoint chain (c : Z) (l : list (Z * Z)) (stop : Z) : Prop :=
  match l with
  | [] => c = stop
  | (a, b) :: tl => a = c /\ a < b /\ chain b tl stop
  end.

Lemma creads_chain : forall fuel c stop cs, 1 <= cs -> c <= stop -> stop - c <= Z.of_nat fuel ->
  chain c (creads fuel c stop cs) stop.
Proof.
  induction fuel as [|f IH]; intros c stop cs Hcs Hle Hf.
  - simpl. lia.
  - cbn [creads]. destruct (c <? stop) eqn:E.
    + cbn [chain]. split; [reflexivity|]. split; [lia|]. apply IH; lia.
    + simpl. lia.
Qed.

Lemma slice_reads_chain : forall fuel c stop cs, 1 <= cs -> c <= stop -> stop - c <= Z.of_nat fuel ->
  chain c (gen_slice_reads fuel c stop cs) stop.
Proof. intros. rewrite gen_creads_canonical by assumption. apply creads_chain; assumption. Qed.

Lemma creads_in_chunk : forall fuel c stop cs, 1 <= cs -> c mod cs = 0 ->
  Forall (fun p => fst p mod cs = 0 /\ fst p < snd p /\ snd p <= fst p + cs /\ snd p <= stop) (creads fuel c stop cs).
Proof.
  induction fuel as [|f IH]; intros c stop cs Hcs Hal; cbn [creads]; [constructor|].
  destruct (c <? stop) eqn:E; [|constructor].
  constructor; [cbn [fst snd]; lia|].
  destruct (c + cs <=? stop) eqn:E2.
  - replace (Z.min (c + cs) stop) with (c + cs) by lia. apply IH; [lia|].
    rewrite Z.add_mod by lia. rewrite Hal, Z.mod_same by lia. reflexivity.
  - replace (Z.min (c + cs) stop) with stop by lia.
    rewrite (proj1 (creads_done f stop stop cs ltac:(lia))). constructor.
Qed.

Lemma slice_reads_in_chunk : forall fuel c stop cs, 1 <= cs -> c mod cs = 0 ->
  Forall (fun p => fst p mod cs = 0 /\ fst p < snd p /\ snd p <= fst p + cs /\ snd p <= stop) (gen_slice_reads fuel c stop cs).
Proof. intros. rewrite gen_creads_canonical by assumption. apply creads_in_chunk; assumption. Qed.

Lemma zrange_shift : forall a b m k, a <= b ->
  map (fun i : nat => a + Z.of_nat i) (seq (Z.to_nat (b - a) + k) m) = map (fun i : nat => b + Z.of_nat i) (seq k m).
Proof.
  intros a b m. induction m as [|m IHm]; intros k Hab; [reflexivity|]. cbn [seq map]. f_equal; [lia|].
  replace (S (Z.to_nat (b - a) + k)) with (Z.to_nat (b - a) + S k)%nat by lia. apply IHm. exact Hab.
Qed.

Lemma zrange_split : forall a b c, a <= b -> b <= c -> zrange a c = zrange a b ++ zrange b c.
Proof.
  intros a b c H1 H2. unfold zrange.
  replace (Z.to_nat (c - a)) with (Z.to_nat (b - a) + Z.to_nat (c - b))%nat by lia.
  rewrite seq_app, map_app. f_equal.
  replace (0 + Z.to_nat (b - a))%nat with (Z.to_nat (b - a) + 0)%nat by lia.
  apply zrange_shift. exact H1.
Qed.

Lemma chain_rows : forall l c stop, chain c l stop -> concat (map (fun p => zrange (fst p) (snd p)) l) = zrange c stop /\ c <= stop.
Proof.
  induction l as [|[a b] tl IH]; intros c stop H; cbn [chain] in H.
  - subst. unfold zrange. rewrite Z.sub_diag. split; [reflexivity|lia].
  - destruct H as [Ha [Hab Ht]]. subst a. destruct (IH _ _ Ht) as [E Hle]. cbn [map concat fst snd]. rewrite E.
    split; [symmetry; apply zrange_split; lia|lia].
Qed.

(* the rows read by the translated loop, in order, are exactly start, start+1, ..., stop-1 *)
Lemma translated_slice_rows_lemma : forall start stop cs, 1 <= cs -> start <= stop ->
  concat (map (fun p => zrange (fst p) (snd p)) (gen_slice_reads (Z.to_nat (stop - start)) start stop cs)) = zrange start stop.
Proof.
  intros start stop cs Hcs Hle. apply chain_rows. apply slice_reads_chain; lia.
Qed.

(* every read stays inside one variant chunk when the slice starts on a chunk boundary *)
Lemma translated_reads_chunk_aligned_lemma : forall start stop cs, 1 <= cs -> start mod cs = 0 ->
  Forall (fun p => fst p mod cs = 0 /\ fst p < snd p /\ snd p <= fst p + cs /\ snd p <= stop)
         (gen_slice_reads (Z.to_nat (stop - start)) start stop cs).
Proof. intros. apply slice_reads_in_chunk; assumption. Qed.

Lemma in_zrange : forall a b i, In i (zrange a b) <-> a <= i < b.
Proof.
  intros a b i. unfold zrange. rewrite in_map_iff. split.
  - intros [k [E Hk]]. apply in_seq in Hk. lia.
  - intros H. exists (Z.to_nat (i - a)). split; [lia|]. apply in_seq. lia.
Qed.

(* 4. C07: every row the translated task writes lies in a chunk of the task's write footprint *)
Lemma translated_slice_within_footprint_lemma : forall start stop cs arr i, 1 <= cs -> 0 <= start -> start mod cs = 0 -> start <= stop ->
  In i (concat (map (fun p => zrange (fst p) (snd p)) (gen_slice_reads (Z.to_nat (stop - start)) start stop cs))) ->
  writes (PlinkSlice start stop cs) (PlinkChunk arr (i / cs)) = true.
Proof.
  intros start stop cs arr i Hcs H0 Hal Hle Hin. rewrite translated_slice_rows_lemma in Hin by assumption.
  apply in_zrange in Hin. cbn [writes]. apply andb_true_intro. split.
  - apply Z.leb_le. apply Z.div_le_mono; lia.
  - apply Z.ltb_lt. apply Z.div_lt_upper_bound; [lia|].
    assert (cs * ((stop + cs - 1) / cs) >= stop); [|lia].
    pose proof (Z.mul_div_le (stop + cs - 1) cs). pose proof (Z.mod_pos_bound (stop + cs - 1) cs).
    pose proof (Z.div_mod (stop + cs - 1) cs). lia.
Qed.
