(* C18 theorem over the TRANSLATED read-path skeleton (Gen/GenReadPath.v). *)
From Coq Require Import Arith List Bool Lia.
From B2Z Require Gen.GenReadPath.
Import ListNotations.

Module G := GenReadPath.

Section Damage.
Variables (bytes value : Type).
Variable decode : bytes -> option (list value).
Variable decode_index : bytes -> option (list nat).
Variable prefix_of : bytes -> bytes -> Prop.           (* strict prefix (including empty) *)
(* the runtime behaviour the model cannot exhibit: Blosc / pickle reject a truncated encoding *)
Hypothesis decode_rejects_prefix : forall b b', prefix_of b' b -> decode b <> None -> decode b' = None.
Hypothesis index_rejects_prefix : forall b b', prefix_of b' b -> decode_index b <> None -> decode_index b' = None.

Notation pstore := (G.pstore bytes).
Notation read_chunks := (G.read_chunks bytes value decode).
Notation read_partition := (G.read_partition bytes value decode decode_index).

Inductive damage_of : option bytes -> option bytes -> Prop :=
| deleted b : damage_of (Some b) None
| truncated b b' : prefix_of b' b -> damage_of (Some b) (Some b').

Lemma read_chunks_damage counts : forall cs cs' k b d vs,
  read_chunks counts cs = Some vs -> (k < length counts)%nat ->
  nth_error cs k = Some b -> damage_of b d ->
  cs' = firstn k cs ++ d :: skipn (S k) cs -> read_chunks counts cs' = None.
Proof.
  induction counts as [|n counts IH]; intros cs cs' k b d vs Hr Hk Hn Hd ->; simpl in Hk; [lia|].
  destruct cs as [|c cs]; [destruct k; discriminate|].
  destruct k as [|k]; simpl in *.
  - inversion Hn; subst. destruct Hd as [b0|b0 b' Hp]; auto.
    destruct (decode b0) as [v0|] eqn:E; [|discriminate].
    rewrite (decode_rejects_prefix b0 b' Hp); auto. congruence.
  - destruct c as [c|]; [|discriminate]. destruct (decode c) as [v0|]; [|discriminate].
    destruct (Nat.eqb (length v0) n); [|discriminate].
    destruct (read_chunks counts cs) as [r|] eqn:E; [|discriminate].
    rewrite (IH cs _ k b d r E ltac:(lia) Hn Hd eq_refl). reflexivity.
Qed.

(* every chunk file the index announces, and the index itself: deleting or truncating it makes
   the read of the field fail -- it never returns values *)
Lemma damage_detected_lemma (p p' : pstore) vs : read_partition p = Some vs ->
  (exists d, damage_of (G.idx _ p) d /\ p' = G.Build_pstore _ d (G.chunks _ p)) \/
  (exists k b d cum, G.idx _ p = Some b /\ decode_index b = Some cum /\ (k < length (G.diffs cum))%nat /\
                     nth_error (G.chunks _ p) k = Some (Some (fst d)) /\ damage_of (Some (fst d)) (snd d) /\
                     p' = G.Build_pstore _ (G.idx _ p) (firstn k (G.chunks _ p) ++ snd d :: skipn (S k) (G.chunks _ p))) ->
  read_partition p' = None.
Proof.
  unfold G.read_partition. intros Hr [[d [Hd ->]]|[k [b [[c d] [cum [Hi [Hdi [Hk [Hn [Hd ->]]]]]]]]]]; simpl in *.
  - destruct (G.idx _ p) as [ib|]; [|discriminate]. inversion Hd as [|? b' Hp]; subst; auto.
    destruct (decode_index ib) eqn:E; [|discriminate].
    rewrite (index_rejects_prefix ib b' Hp); auto. congruence.
  - rewrite Hi in *. rewrite Hdi in *.
    destruct ((1 <? length cum) && Nat.eqb (hd 1 cum) 0); [|discriminate].
    eapply read_chunks_damage; eauto.
Qed.

(* a chunk that decodes to another length than the index announces is rejected too *)
Lemma length_check_catches_lemma n counts b cs vs : decode b = Some vs -> length vs <> n ->
  read_chunks (n :: counts) (Some b :: cs) = None.
Proof. intros Hd Hl. cbn [G.read_chunks]. rewrite Hd. destruct (Nat.eqb_spec (length vs) n); [contradiction|reflexivity]. Qed.

(* every value returned comes from fully decoded chunks whose lengths match the index *)
Lemma read_success_all_decoded : forall counts cs vs, read_chunks counts cs = Some vs ->
  length vs = list_sum counts /\ (length counts <= length cs)%nat.
Proof.
  induction counts as [|n counts IH]; intros cs vs H; cbn [G.read_chunks] in H.
  - inversion H; subst. split; [reflexivity|apply Nat.le_0_l].
  - destruct cs as [|[b|] cs]; try discriminate. destruct (decode b) as [v0|]; [|discriminate].
    destruct (Nat.eqb_spec (length v0) n) as [E|]; [|discriminate].
    destruct (read_chunks counts cs) as [r|] eqn:E2; [|discriminate]. inversion H; subst.
    destruct (IH cs r E2) as [I1 I2]. rewrite app_length, I1. change (list_sum (length v0 :: counts)) with (length v0 + list_sum counts). cbn [length]. split; lia.
Qed.
End Damage.
