(* Bridge/BridgeTransform.v -- the explode-side transformer of tuple values AS TRANSLATED on this run (Gen/GenTransform.v,
   translator/transf2coq.py) delivers cells that satisfy the premises of Bridge/BridgeSanitise.v: composed, a tuple-valued INFO
   value goes from what cyvcf2 hands over (None for '.') to the VCF Zarr row encoding, through the translated transformer and the
   translated sanitiser. *)
From Coq Require Import ZArith Arith List Bool Lia.
From B2Z Require Import Base.Prims Base.SanPrims Pipeline.Rows Gen.GenSanitise Gen.GenTransform Bridge.BridgeSanitise.
Import ListNotations.
Open Scope Z_scope.

Definition int_cell_ok (c : option Z) : Prop := match c with None => True | Some v => v <> c_VCF_INT_MISSING /\ v <> c_VCF_INT_FILL end.
Definition float_cell_ok (c : option Z) : Prop := match c with None => True | Some b => is_nan b = false end.

Lemma transform_int_raw : forall cells, Forall int_cell_ok cells -> Forall2 int_raw (gen_transform_int cells) cells.
Proof.
  induction 1 as [|c cells Hc _ IH]; [constructor|]. cbn [gen_transform_int map]. constructor; [|exact IH].
  destruct c as [v|]; cbn [int_raw int_cell_ok] in *; [split; [reflexivity|exact Hc]|right; reflexivity].
Qed.

Lemma transform_float_raw : forall cells, Forall float_cell_ok cells -> Forall2 float_raw (gen_transform_float cells) cells.
Proof.
  induction 1 as [|c cells Hc _ IH]; [constructor|]. cbn [gen_transform_float map]. constructor; [|exact IH].
  destruct c as [b|]; cbn [float_raw float_cell_ok] in *; [split; [reflexivity|exact Hc]|reflexivity].
Qed.

(* explode then encode, for a tuple-valued INFO integer / float field: absent -> all missing; otherwise the cells, '.' as the
   missing sentinel, then fill *)
Lemma translated_info_tuple_pipeline_lemma : forall w old value,
  match value with Some cells => Forall int_cell_ok cells /\ (length cells <= w)%nat | None => True end ->
  gen_int_1d w old (gen_transform_opt gen_transform_int value) = Ok (enc_vec c_INT_MISSING c_INT_FILL w value).
Proof.
  intros w old [cells|] H; cbn [gen_transform_opt]; [|reflexivity]. destruct H as [Hc Hl].
  pose proof (translated_int_1d_lemma w old (gen_transform_int cells) cells 0 (transform_int_raw cells Hc)) as [E _]; [lia|].
  cbn [repeat] in E. rewrite app_nil_r in E. exact E.
Qed.

Lemma translated_info_tuple_pipeline_float_lemma : forall w old value,
  match value with Some cells => Forall float_cell_ok cells /\ (length cells <= w)%nat | None => True end ->
  gen_float_1d w old (gen_transform_opt gen_transform_float value) = Ok (enc_vec c_FLOAT32_MISSING c_FLOAT32_FILL w value).
Proof.
  intros w old [cells|] H; cbn [gen_transform_opt]; [|reflexivity]. destruct H as [Hc Hl].
  exact (proj1 (translated_float_1d_lemma w old (gen_transform_float cells) cells (transform_float_raw cells Hc) Hl)).
Qed.
