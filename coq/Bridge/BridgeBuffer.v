(* Bridge/BridgeBuffer.v -- core.BufferedArray as TRANSLATED from the source (Gen/GenBuffer.v,
   translator/buf2coq.py) is a refinement of the chunk-buffer model Pipeline/Buf.v that the C01 /
   C03 theorems (buffered_array_spec, pipeline_refines_spec) are about: the counters
   (array_offset, buffer_row) track (offset, number of buffered rows), next_buffer_row returns the
   buffer row the model appends at, and the row-range writes handed to the flush helpers are
   exactly the model's flushes.  Plus: the column loop of sync_flush_2d_array covers every column
   exactly once. *)
From Coq Require Import ZArith Arith List Bool Lia.
From B2Z Require Import Base.Prims Pipeline.Buf.
From B2Z Require Gen.GenBuffer.
Import ListNotations.
Module G := GenBuffer.
Local Open Scope nat_scope.

Section Sim.
Variable A : Type.
Variable cs : nat.
Hypothesis cs_pos : 0 < cs.
Notation st := (Buf.st A).
Notation h := (Z.of_nat cs).

Definition to_event (sl : nat * nat) : G.bevent := G.Write (Z.of_nat (fst sl)) (Z.of_nat (snd sl)).
Definition R (s : G.bstate) (b : st) : Prop :=
  G.array_offset s = Z.of_nat (offset A b) /\ G.buffer_row s = Z.of_nat (length (rows A b)).

Lemma flush_sim s b : R s b ->
  R (fst (G.flush h s)) (Buf.flush A cs b) /\
  map to_event (flushes A (Buf.flush A cs b)) = map to_event (flushes A b) ++ snd (G.flush h s).
Proof.
  intros [Ro Rr]. unfold G.flush, Buf.flush. destruct (rows A b) as [|r rs] eqn:E; cbn [length] in Rr.
  - (* whatever form the emptiness test takes in the source, it is decided by buffer_row = 0 *)
    assert (Z0: (G.buffer_row s =? 0)%Z = true) by lia. rewrite ?Z0. cbn [negb fst snd app].
    rewrite app_nil_r. split; [split; [exact Ro|rewrite E; exact Rr]|reflexivity].
  - assert (Z0: (G.buffer_row s =? 0)%Z = false) by lia. rewrite ?Z0. cbn [negb fst snd app].
    unfold G.set_buffer_row, G.set_array_offset. cbn [G.array_offset G.buffer_row offset rows flushes length].
    split; [unfold R; cbn [G.array_offset G.buffer_row offset rows length]; split; lia|].
    rewrite map_app. cbn [map]. unfold to_event. cbn [fst snd]. rewrite Ro, Rr. reflexivity.
Qed.

Lemma push_sim s b r : R s b -> length (rows A b) <= cs ->
  let '(s', row, ev) := G.next_buffer_row h s in
  R s' (Buf.push A cs b r) /\
  row = Z.of_nat (length (rows A (Buf.push A cs b r)) - 1) /\
  map to_event (flushes A (Buf.push A cs b r)) = map to_event (flushes A b) ++ ev.
Proof.
  intros HR Hle. pose proof HR as [Ro Rr]. unfold G.next_buffer_row, Buf.push.
  destruct (Nat.eqb_spec (length (rows A b)) cs) as [Efull|Enot].
  - assert (G.buffer_row s =? h = true)%Z as -> by lia.
    destruct (flush_sim s b HR) as [[Ro' Rr'] Hev].
    destruct (G.flush h s) as [s1 ev1] eqn:Ef. cbn [fst snd] in *. cbn [app].
    unfold G.set_buffer_row, R in *. cbn [G.array_offset G.buffer_row offset rows flushes].
    rewrite !app_length. cbn [length]. split; [split; [exact Ro'|lia]|]. split; [lia|exact Hev].
  - assert (G.buffer_row s =? h = false)%Z as -> by lia.
    unfold G.set_buffer_row, R in *. cbn [G.array_offset G.buffer_row offset rows flushes].
    rewrite !app_length. cbn [length]. split; [split; [exact Ro|lia]|]. split; [lia|rewrite app_nil_r; reflexivity].
Qed.

(* the translated object driven like the encoders drive it: n calls of next_buffer_row, then flush *)
Fixpoint gen_pushes (n : nat) (s : G.bstate) : G.bstate * list Z * list G.bevent :=
  match n with
  | O => (s, [], [])
  | S n' => let '(s1, row, ev1) := G.next_buffer_row h s in
            let '(s2, rws, ev2) := gen_pushes n' s1 in (s2, row :: rws, ev1 ++ ev2)
  end.
Definition gen_encode (n : nat) (o : Z) : list Z * list G.bevent :=
  let '(s, rws, ev) := gen_pushes n {| G.array_offset := o; G.buffer_row := 0 |} in
  (rws, ev ++ snd (G.flush h s)).

Lemma rows_bound b r : length (rows A b) <= cs -> length (rows A (Buf.push A cs b r)) <= cs.
Proof.
  intros H. unfold Buf.push. destruct (Nat.eqb_spec (length (rows A b)) cs) as [E|E]; cbn [rows]; rewrite app_length; cbn [length].
  - unfold Buf.flush. destruct (rows A b); cbn [rows length] in *; lia.
  - lia.
Qed.

Lemma pushes_sim : forall rs s b, R s b -> length (rows A b) <= cs ->
  let '(s', rws, ev) := gen_pushes (length rs) s in
  R s' (fold_left (Buf.push A cs) rs b) /\ length (rows A (fold_left (Buf.push A cs) rs b)) <= cs /\
  map to_event (flushes A (fold_left (Buf.push A cs) rs b)) = map to_event (flushes A b) ++ ev.
Proof.
  induction rs as [|r rs IH]; intros s b HR Hle; cbn [length gen_pushes fold_left].
  - rewrite app_nil_r. auto.
  - pose proof (push_sim s b r HR Hle) as P. destruct (G.next_buffer_row h s) as [[s1 row] ev1].
    destruct P as [HR1 [_ Hev1]].
    pose proof (IH s1 (Buf.push A cs b r) HR1 (rows_bound b r Hle)) as Q.
    destruct (gen_pushes (length rs) s1) as [[s2 rws] ev2]. destruct Q as [HR2 [Hle2 Hev2]].
    split; [exact HR2|]. split; [exact Hle2|]. rewrite Hev2, Hev1, app_assoc. reflexivity.
Qed.

(* the writes the translated buffer performs are exactly the flushes of the model *)
Theorem translated_buffer_flushes (o : nat) (a0 : nat -> option A) (rs : list A) :
  snd (gen_encode (length rs) (Z.of_nat o)) = map to_event (flushes A (Buf.encode A cs o a0 rs)).
Proof.
  unfold gen_encode, Buf.encode.
  set (b0 := {| offset := o; rows := []; out := a0; flushes := [] |}).
  assert (HR: R {| G.array_offset := Z.of_nat o; G.buffer_row := 0 |} b0) by (split; reflexivity).
  pose proof (pushes_sim rs _ b0 HR ltac:(cbn; lia)) as P.
  destruct (gen_pushes (length rs) _) as [[s' rws] ev]. destruct P as [HR' [_ Hev]]. cbn [snd].
  destruct (flush_sim s' _ HR') as [_ Hf]. rewrite Hf, Hev. reflexivity.
Qed.
End Sim.

(* every write is chunk-aligned and at most one chunk long (with Buf.encode_spec) *)
Theorem translated_buffer_aligned (cs : nat) : 0 < cs -> forall (o n : nat),
  Forall (fun e => match e with G.Write st len => exists k, st = Z.of_nat (o + k * cs) /\ (0 < len <= Z.of_nat cs)%Z end)
         (snd (gen_encode cs n (Z.of_nat o))).
Proof.
  intros Hcs o n.
  pose proof (translated_buffer_flushes unit cs Hcs o (fun _ => None) (repeat tt n)) as E. rewrite repeat_length in E. rewrite E.
  destruct (Buf.encode_spec unit cs Hcs o (fun _ => None) (repeat tt n)) as [_ F].
  rewrite Forall_forall in *. intros e Hin. apply in_map_iff in Hin. destruct Hin as [[st len] [<- Hin]].
  destruct (F _ Hin) as [k [Hk Hl]]. cbn [fst snd] in *. unfold to_event. cbn [fst snd]. exists k. split; [rewrite Hk; reflexivity|lia].
Qed.

(* the column loop of sync_flush_2d_array: consecutive non-empty ranges of at most `step` columns from 0 to width *)
Fixpoint col_chain (start : Z) (l : list (Z * Z)) (width step : Z) : Prop :=
  match l with
  | [] => start = width \/ (width <= start)%Z
  | (a, b) :: tl => a = start /\ (a < b <= width)%Z /\ (b - a <= step)%Z /\ col_chain b tl width step
  end.
Theorem flush_cols_cover (step width : Z) : (1 <= step)%Z -> (0 <= width)%Z ->
  col_chain 0 (G.flush_cols (S (Z.to_nat width)) 0 step width) width step.
Proof.
  intros Hs Hw.
  assert (G0: forall fuel start, (0 <= start <= width)%Z -> (Z.to_nat (width - start) < fuel)%nat ->
            col_chain start (G.flush_cols fuel start step width) width step).
  { induction fuel as [|fuel IH]; intros start Hst Hf; [lia|]. cbn [G.flush_cols].
    destruct (Z.ltb_spec start width) as [Hlt|Hge]; [|cbn [col_chain]; lia].
    cbn [col_chain]. split; [reflexivity|]. split; [lia|]. split; [lia|]. apply IH; lia. }
  apply G0; lia.
Qed.
