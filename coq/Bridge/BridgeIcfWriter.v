(* Bridge/BridgeIcfWriter.v -- the translated IcfFieldWriter (Gen/GenIcfWriter.v, regenerated from
   bio2zarr/vcf2zarr/icf.py on every run) against the store model of Model/Icf.v: driven the way
   IcfPartitionWriter drives it (append for every value, one flush on a clean exit) it writes exactly
   the chunks of `write_partition`, names them by the cumulative record counts, and writes exactly the
   `cri` index; the read head matched in the source is the head of the model's iter_values. *)
From Coq Require Import ZArith Arith List Bool Lia.
From B2Z Require Import Model.Icf Gen.GenIcfWriter.
Import ListNotations.

Section Bridge.
Context {A : Type}.
Notation wstate := (@wstate A).
Notation wevent := (@wevent A).

(* characterisations of the translated methods (by computation: they survive any rewrite of the source
   that translates to a convertible term) *)
Lemma write_chunk_spec (s : wstate) :
  write_chunk s =
  ({| buff := buff s; buffered_bytes := buffered_bytes s; chunk_index := chunk_index s ++ [num_records s];
      num_records := num_records s; sum_num_chunks := (sum_num_chunks s + 1)%Z;
      sum_uncompressed := (sum_uncompressed s + buffered_bytes s)%Z |},
   [WriteChunk (num_records s) (buff s)]).
Proof. reflexivity. Qed.

Lemma append_spec thr (s : wstate) x sz :
  append thr s x sz =
  if (thr <=? buffered_bytes s + sz)%Z then
    ({| buff := []; buffered_bytes := 0; chunk_index := chunk_index s ++ [(num_records s + 1)%Z];
        num_records := (num_records s + 1)%Z; sum_num_chunks := (sum_num_chunks s + 1)%Z;
        sum_uncompressed := (sum_uncompressed s + (buffered_bytes s + sz))%Z |},
     [WriteChunk (num_records s + 1)%Z (buff s ++ [x])])
  else
    ({| buff := buff s ++ [x]; buffered_bytes := (buffered_bytes s + sz)%Z; chunk_index := chunk_index s;
        num_records := (num_records s + 1)%Z; sum_num_chunks := sum_num_chunks s;
        sum_uncompressed := sum_uncompressed s |}, []).
Proof.
  unfold append. cbn [set_buff set_buffered_bytes set_num_records buff buffered_bytes num_records chunk_index
                      sum_num_chunks sum_uncompressed].
  rewrite ?Z.geb_leb. destruct (thr <=? buffered_bytes s + sz)%Z; reflexivity.
Qed.

Lemma flush_spec (s : wstate) :
  flush s =
  match buff s with
  | [] => (s, [WriteIndex (chunk_index s)])
  | _ :: _ =>
    ({| buff := buff s; buffered_bytes := buffered_bytes s; chunk_index := chunk_index s ++ [num_records s];
        num_records := num_records s; sum_num_chunks := (sum_num_chunks s + 1)%Z;
        sum_uncompressed := (sum_uncompressed s + buffered_bytes s)%Z |},
     [WriteChunk (num_records s) (buff s); WriteIndex (chunk_index s ++ [num_records s])])
  end.
Proof.
  unfold flush. destruct s as [b bb ci nr nc us]. cbn [buff].
  destruct b as [|x b]; reflexivity.
Qed.

(* the driver: IcfPartitionWriter.append for every value, __exit__ without an exception *)
Fixpoint run_appends (thr : Z) (s : wstate) (items : list (A * Z)) : wstate * list wevent :=
  match items with
  | [] => (s, [])
  | (x, sz) :: tl => let '(s1, e1) := append thr s x sz in
                     let '(s2, e2) := run_appends thr s1 tl in (s2, e1 ++ e2)
  end.
Definition run (thr : Z) (items : list (A * Z)) : wstate * list wevent :=
  let '(s1, e1) := run_appends thr winit items in
  let '(s2, e2) := flush s1 in (s2, e1 ++ e2).

Definition chunk_contents (ev : list wevent) : list (list A) :=
  flat_map (fun e => match e with WriteChunk _ c => [c] | WriteIndex _ => [] end) ev.
Definition chunk_file_names (ev : list wevent) : list Z :=
  flat_map (fun e => match e with WriteChunk n _ => [n] | WriteIndex _ => [] end) ev.
Definition index_writes (ev : list wevent) : list (list Z) :=
  flat_map (fun e => match e with WriteChunk _ _ => [] | WriteIndex i => [i] end) ev.

Definition sizes (items : list (A * Z)) : Z := fold_right (fun it acc => (snd it + acc)%Z) 0%Z items.

Lemma rev_nonempty (x : A) l : exists y l', rev (x :: l) = y :: l'.
Proof.
  destruct (rev (x :: l)) as [|y l'] eqn:E; [|eauto].
  apply (f_equal (@length A)) in E. rewrite rev_length in E. discriminate.
Qed.

(* the simulation, from any state in which `base` records have already gone to chunks *)
Lemma run_sim thr : forall (items : list (A * Z)) (s : wstate) (base : nat),
  num_records s = Z.of_nat (base + length (buff s)) ->
  (buff s = [] -> buffered_bytes s = 0%Z) ->
  let '(s1, e1) := run_appends thr s items in
  let '(s2, e2) := flush s1 in
  let P := write_chunks thr (rev (buff s)) (buffered_bytes s) items in
  let names := map Z.of_nat (tl (cum_from base (map (@length A) P))) in
  chunk_contents (e1 ++ e2) = P /\
  chunk_file_names (e1 ++ e2) = names /\
  chunk_index s2 = chunk_index s ++ names /\
  index_writes (e1 ++ e2) = [chunk_index s2] /\
  (exists pre, e1 ++ e2 = pre ++ [WriteIndex (chunk_index s2)]) /\
  num_records s2 = Z.of_nat (base + length (buff s) + length items) /\
  sum_num_chunks s2 = (sum_num_chunks s + Z.of_nat (length P))%Z /\
  sum_uncompressed s2 = (sum_uncompressed s + buffered_bytes s + sizes items)%Z.
Proof.
  induction items as [|[x sz] rest IH]; intros s base Hn Hz.
  - cbn [run_appends]. rewrite flush_spec. cbn [write_chunks sizes fold_right].
    destruct (buff s) as [|b0 bs] eqn:Eb.
    + specialize (Hz eq_refl). cbn [length] in Hn.
      cbn. rewrite !app_nil_r. repeat split; try reflexivity; try lia.
      exists []. reflexivity.
    + destruct (rev_nonempty b0 bs) as (y & l' & Er). rewrite Er, <- Er, rev_involutive.
      cbn [app chunk_contents chunk_file_names index_writes flat_map map length cum_from tl
           chunk_index num_records sum_num_chunks sum_uncompressed buffered_bytes].
      cbn [length] in Hn. rewrite Hn.
      repeat split; try reflexivity; try lia.
      exists [WriteChunk (Z.of_nat (base + S (length bs))) (b0 :: bs)]. reflexivity.
  - cbn [run_appends]. rewrite append_spec. cbn [write_chunks rev].
    rewrite rev_involutive.
    destruct (thr <=? buffered_bytes s + sz)%Z eqn:Ethr.
    + (* the chunk is written *)
      match goal with |- context [run_appends thr ?s1 rest] => set (s1' := s1) end.
      specialize (IH s1' (base + length (buff s) + 1)).
      assert (Hn1 : num_records s1' = Z.of_nat (base + length (buff s) + 1 + length (buff s1'))).
      { subst s1'. cbn [num_records buff length]. rewrite Hn. lia. }
      specialize (IH Hn1 (fun _ => eq_refl)).
      destruct (run_appends thr s1' rest) as [s2 e2]. destruct (flush s2) as [s3 e3].
      subst s1'. cbn [buff rev buffered_bytes chunk_index num_records sum_num_chunks sum_uncompressed length] in IH.
      destruct IH as (Hc & Hnm & Hci & Hiw & (pre & Hpre) & Hnr & Hnc & Hus).
      cbn [app chunk_contents chunk_file_names index_writes flat_map map length cum_from tl sizes fold_right snd].
      fold (chunk_contents (e2 ++ e3)). fold (chunk_file_names (e2 ++ e3)). fold (index_writes (e2 ++ e3)).
      fold (sizes rest).
      rewrite app_length. cbn [length].
      assert (Hb : base + (length (buff s) + 1) = base + length (buff s) + 1) by lia.
      rewrite Hb.
      assert (Hcum : forall ls, cum_from (base + length (buff s) + 1) ls =
                     (base + length (buff s) + 1) :: tl (cum_from (base + length (buff s) + 1) ls)).
      { intros [|? ?]; reflexivity. }
      repeat split.
      * rewrite Hc. reflexivity.
      * rewrite Hnm, (Hcum (map _ _)). cbn [map tl]. f_equal. rewrite Hn. lia.
      * rewrite Hci, <- app_assoc. cbn [app]. f_equal.
        rewrite (Hcum (map _ _)) at 2. cbn [map tl]. f_equal. rewrite Hn. lia.
      * exact Hiw.
      * exists (WriteChunk (num_records s + 1) (buff s ++ [x]) :: pre). cbn [app]. rewrite Hpre. reflexivity.
      * rewrite Hnr. lia.
      * rewrite Hnc. lia.
      * rewrite Hus. lia.
    + (* buffered *)
      match goal with |- context [run_appends thr ?s1 rest] => set (s1' := s1) end.
      specialize (IH s1' base).
      assert (Hn1 : num_records s1' = Z.of_nat (base + length (buff s1'))).
      { subst s1'. cbn [num_records buff]. rewrite app_length, Hn. cbn [length]. lia. }
      assert (Hz1 : buff s1' = [] -> buffered_bytes s1' = 0%Z).
      { subst s1'. cbn [buff]. intros E. destruct (buff s); discriminate E. }
      specialize (IH Hn1 Hz1). clear Hz1.
      destruct (run_appends thr s1' rest) as [s2 e2]. destruct (flush s2) as [s3 e3].
      subst s1'. cbn [buff buffered_bytes chunk_index num_records sum_num_chunks sum_uncompressed] in IH.
      rewrite rev_unit in IH.
      destruct IH as (Hc & Hnm & Hci & Hiw & (pre & Hpre) & Hnr & Hnc & Hus).
      cbn [app sizes fold_right snd]. fold (sizes rest).
      repeat split; try assumption.
      * exists pre. exact Hpre.
      * rewrite Hnr, app_length. cbn [length]. lia.
      * rewrite Hus. lia.
Qed.

(* the statement for a whole partition *)
Theorem translated_writer_is_the_model_lemma thr (items : list (A * Z)) :
  let '(s, ev) := run thr items in
  let P := write_partition thr items in
  chunk_contents ev = P /\
  chunk_file_names ev = map Z.of_nat (tl (cri P)) /\
  index_writes ev = [map Z.of_nat (cri P)] /\
  (exists pre, ev = pre ++ [WriteIndex (map Z.of_nat (cri P))]) /\
  num_records s = Z.of_nat (length items) /\
  sum_num_chunks s = Z.of_nat (length P) /\
  sum_uncompressed s = sizes items.
Proof.
  unfold run. pose proof (run_sim thr items winit 0 eq_refl (fun _ => eq_refl)) as H.
  destruct (run_appends thr winit items) as [s1 e1]. destruct (flush s1) as [s2 e2].
  cbn [winit buff rev buffered_bytes chunk_index num_records sum_num_chunks sum_uncompressed length] in H.
  destruct H as (Hc & Hnm & Hci & Hiw & (pre & Hpre) & Hnr & Hnc & Hus).
  unfold write_partition, cri, cum.
  assert (Hcum : forall ls, cum_from 0 ls = 0 :: tl (cum_from 0 ls)) by (intros [|? ?]; reflexivity).
  assert (Hidx : chunk_index s2 = map Z.of_nat (cum_from 0 (map (@length A) (write_chunks thr [] 0%Z items)))).
  { rewrite Hci, (Hcum (map _ _)) at 1. rewrite (Hcum (map _ _)) at 2. reflexivity. }
  repeat split.
  - exact Hc.
  - exact Hnm.
  - rewrite Hiw, Hidx. reflexivity.
  - exists pre. rewrite Hpre, Hidx. reflexivity.
  - rewrite Hnr. f_equal.
  - rewrite Hnc. lia.
  - rewrite Hus. lia.
Qed.

(* a failed task (exception in flight) flushes nothing: no index file, so the partition never
   presents as written *)
Lemma no_flush_on_error : flush_on_exit true = false.
Proof. reflexivity. Qed.
Lemma flush_on_clean_exit : flush_on_exit false = true.
Proof. reflexivity. Qed.

(* the read head matched in the source is the head of the model's iter_values *)
Lemma ss_right_same l x : ss_right_g l x = ss_right l x.
Proof. reflexivity. Qed.

Lemma iter_head_is_model_head (s : list (list (list A))) (start : nat) :
  iter_head (pri s) (fun p => cri (nth p s [])) start =
  (let sp := ss_right (pri s) start - 1 in
   let offset := nth sp (pri s) 0 in
   let p := nth sp s [] in
   let sc := ss_right (cri p) (start - offset) - 1 in
   (sp, sc, offset + nth sc (cri p) 0)).
Proof. reflexivity. Qed.

(* chunks(p, c) opens the files named chunk_index[c+1..]: for a written partition these are exactly the
   names of the chunks from c on *)
Lemma chunk_names_from (p : list (list A)) (c : nat) :
  chunk_names (cri p) c = skipn (S c) (cri p).
Proof. reflexivity. Qed.

End Bridge.
