(* Bridge/BridgeIcfProtocol.v -- the effect sequences regenerated from the source
   (Gen/GenIcfProtocol.v, translator/proto2coq.py) denote, in EVERY state of the abstract file system,
   exactly the step lists of the protocol models the C05 / C06 theorems are about.

   Re-proved on every run.  The proofs do not compare the lists syntactically: they evaluate the
   denotation by cases on the guards it meets, so an extra check, a repeated metadata load or a
   different but equivalent guard order still goes through, while a moved write, a dropped unlink,
   a guard evaluated after a mutation it depends on, or a new effect do not. *)
From Coq Require Import Arith List Bool Lia.
From B2Z Require Import Base.Eff Protocol.IcfProtocol Protocol.IcfEffects Gen.GenIcfProtocol.
Import ListNotations.

(* ------------------------------- distributed explode -------------------------------------- *)
Section Icf.
Variable nparts : nat.
Variable j : nat.
Variable order : list nat.
Variable rm_order : list IcfProtocol.path.
Notation denote := (IcfEffects.denote nparts j order rm_order).
Notation steps := (IcfProtocol.steps nparts true).

Ltac guards :=
  repeat match goal with
         | |- context [if ?b then _ else _] =>
             lazymatch b with
             | context [if _ then _ else _] => fail
             | _ => destruct b eqn:?
             end
         end.

Ltac finish :=
  cbn [app]; rewrite ?app_nil_r, <- ?app_assoc; cbn [app]; try reflexivity.

Lemma icf_init_denotes s : denote icf_init s = Some (steps s IcfProtocol.Init).
Proof.
  unfold icf_init. cbn [IcfEffects.denote IcfEffects.file_of]. unfold IcfEffects.andthen, IcfProtocol.steps.
  cbn [IcfEffects.denote IcfEffects.file_of]. unfold IcfEffects.andthen.
  destruct (IcfProtocol.started s); cbn [IcfEffects.denote]; finish.
Qed.

Lemma icf_partition_denotes s : denote icf_partition s = Some (steps s (IcfProtocol.Partition j order)).
Proof.
  unfold icf_partition. unfold IcfProtocol.steps.
  cbn [IcfEffects.denote IcfEffects.file_of]. unfold IcfEffects.andthen.
  cbn [IcfEffects.denote IcfEffects.file_of andb negb].
  destruct (IcfProtocol.is_full (s IcfProtocol.PWipMeta)); cbn [andb]; [|reflexivity].
  destruct (j <? nparts); cbn [andb]; [|reflexivity].
  destruct (IcfProtocol.is_absent (s IcfProtocol.PFinalMeta)); cbn [andb negb]; [|reflexivity].
  destruct (IcfProtocol.is_absent (s (IcfProtocol.PSummary j))); cbn [IcfEffects.denote IcfEffects.file_of]; unfold IcfEffects.andthen;
    cbn [IcfEffects.denote IcfEffects.file_of]; finish.
Qed.

Lemma icf_finalise_denotes s : denote icf_finalise s = Some (steps s (IcfProtocol.Finalise rm_order)).
Proof.
  unfold icf_finalise. unfold IcfProtocol.steps.
  cbn [IcfEffects.denote IcfEffects.file_of]. unfold IcfEffects.andthen.
  cbn [IcfEffects.denote IcfEffects.file_of].
  destruct (IcfProtocol.is_full (s IcfProtocol.PWipMeta)); cbn [andb]; [|reflexivity].
  destruct (IcfProtocol.summaries_full nparts s); finish.
Qed.
End Icf.

