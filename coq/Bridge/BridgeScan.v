(* Bridge/BridgeScan.v -- the input-set guards of icf.py as extracted on this run (Gen/GenScan.v,
   translator/scan2coq.py): executable statements about the reserved-name tables and the order of scan_vcfs. *)
From Coq Require Import String List Bool Arith.
From B2Z Require Import Gen.GenScan.
Import ListNotations.
Open Scope string_scope.

Definition mem_s (x : string) (l : list string) : bool := existsb (String.eqb x) l.

(* the field name X that would clash with a fixed array variant_X / call_X *)
Definition strip_prefix (pre s : string) : option string :=
  if String.prefix pre s then Some (String.substring (String.length pre) (String.length s - String.length pre) s) else None.

(* a fixed array is protected when the INFO (variant_) / FORMAT (call_) name that would produce it is reserved;
   variant_length is protected by array creation instead (an INFO/length field asks zarr for an existing array) *)
Definition protected (a : string) : bool :=
  match strip_prefix "variant_" a, strip_prefix "call_" a with
  | Some x, _ => mem_s x gen_reserved_info || String.eqb x "length"
  | None, Some x => mem_s x gen_reserved_format
  | None, None => false
  end.

Fixpoint index_of (x : scan_step) (l : list scan_step) : option nat :=
  match l with
  | [] => None
  | y :: tl => if match x, y with
                  | SDuplicatePaths, SDuplicatePaths | SScanAll, SScanAll | SSortResultsByPath, SSortResultsByPath
                  | STakeFirstHeader, STakeFirstHeader | SHeadersEqualFirst, SHeadersEqualFirst | SSortPartitions, SSortPartitions => true
                  | _, _ => false end
               then Some 0 else option_map S (index_of x tl)
  end.
Definition before (a b : scan_step) : bool :=
  match index_of a gen_scan_steps, index_of b gen_scan_steps with Some i, Some j => Nat.ltb i j | _, _ => false end.

Lemma translated_fixed_arrays_protected_lemma : forallb protected gen_fixed_arrays = true.
Proof. vm_compute. reflexivity. Qed.

Lemma translated_scan_order_lemma :
  before SDuplicatePaths SScanAll && before SScanAll SSortResultsByPath && before SSortResultsByPath STakeFirstHeader
  && before STakeFirstHeader SHeadersEqualFirst && before SHeadersEqualFirst SSortPartitions = true.
Proof. vm_compute. reflexivity. Qed.
