(* Bridge/BridgeEncoders.v -- the six partition encoders of vcz.py AS TRANSLATED on this run
   (Gen/GenEncoders.v, translator/enc2coq.py) drive their BufferedArray objects exactly as
   Bridge/BridgeBuffer.v (gen_encode) and the pipeline model assume: created at the partition's start, fed
   from the partition's own record range, one next_buffer_row per value, writes only into rows just handed
   out, one flush after the loop, every array initialised is finalised. *)
From Coq Require Import ZArith Arith List Bool Lia.
From B2Z Require Import Base.Prims Base.EncSkel Gen.GenEncoders Bridge.BridgeBuffer.
From B2Z Require Gen.GenBuffer.
Import ListNotations.
Module G := GenBuffer.

Lemma gen_encoders_ok_lemma : forallb skel_ok gen_encoders = true.
Proof. vm_compute. reflexivity. Qed.

(* the translated BufferedArray run through a per-buffer trace *)
Fixpoint run_trace (h : Z) (t : list bop) (s : G.bstate) : G.bstate * list Z * list G.bevent :=
  match t with
  | [] => (s, [], [])
  | PNext :: tl => let '(s1, row, ev1) := G.next_buffer_row h s in
                   let '(s2, rws, ev2) := run_trace h tl s1 in (s2, row :: rws, ev1 ++ ev2)
  | PFlush :: tl => let '(s1, ev1) := G.flush h s in
                    let '(s2, rws, ev2) := run_trace h tl s1 in (s2, rws, ev1 ++ ev2)
  end.

Lemma run_trace_pushes : forall cs n s,
  run_trace (Z.of_nat cs) (repeat PNext n ++ [PFlush]) s =
  let '(s', rws, ev) := gen_pushes cs n s in
  (fst (G.flush (Z.of_nat cs) s'), rws, ev ++ snd (G.flush (Z.of_nat cs) s')).
Proof.
  intros cs n. induction n as [|n IH]; intros s.
  - cbn [repeat app run_trace gen_pushes]. destruct (G.flush (Z.of_nat cs) s) as [s1 ev1]. cbn [fst snd]. rewrite app_nil_r. reflexivity.
  - cbn [repeat app run_trace gen_pushes]. destruct (G.next_buffer_row (Z.of_nat cs) s) as [[s1 row] ev1].
    rewrite IH. destruct (gen_pushes cs n s1) as [[s2 rws] ev2]. rewrite app_assoc. reflexivity.
Qed.

(* every buffer of every translated encoder, over any number n of values and any partition start o: the rows
   handed out and the row-range writes handed to zarr are those of gen_encode -- which
   translated_buffer_is_the_model (C01) proves to be the chunk-buffer model's flushes for rows [o, o + n) *)
Lemma translated_encoders_drive_buffers_lemma : forall s, In s gen_encoders -> forall b, (b < nbufs s)%nat -> forall cs n o,
  let '(_, rws, ev) := run_trace (Z.of_nat cs) (trace s n b) {| G.array_offset := o; G.buffer_row := 0 |} in
  (rws, ev) = gen_encode cs n o.
Proof.
  intros s Hs b Hb cs n o.
  pose proof (proj1 (forallb_forall _ _) gen_encoders_ok_lemma s Hs) as Hok.
  rewrite (skel_ok_trace s Hok b Hb n), run_trace_pushes. unfold gen_encode.
  destruct (gen_pushes cs n _) as [[s' rws] ev]. reflexivity.
Qed.

Lemma translated_encoders_ranges_lemma : forall s, In s gen_encoders ->
  Forall (fun o => o = OffPartStart) (offs s) /\ length (offs s) = nbufs s /\ srcs s <> [] /\ Forall (fun o => o = SrcPartition) (srcs s).
Proof. intros s Hs. apply skel_ok_offsets. exact (proj1 (forallb_forall _ _) gen_encoders_ok_lemma s Hs). Qed.

(* ---- encode_filters_partition: one record's FILTER value -> its row of flags ---------------------------------- *)
Lemma set_nth_length {A} : forall i (v : A) l, length (set_nth i v l) = length l.
Proof. induction i as [|i IH]; intros v [|x l]; cbn [set_nth length]; try reflexivity. rewrite IH. reflexivity. Qed.

Lemma nth_set_nth : forall i (l : list bool) k, nth k (set_nth i true l) false = ((k =? i)%nat && (i <? length l)%nat) || nth k l false.
Proof.
  induction i as [|i IH]; intros [|x l] k; cbn [set_nth length].
  - destruct k; reflexivity.
  - destruct k; [reflexivity|]. cbn [nth Nat.eqb]. reflexivity.
  - destruct k; cbn [nth]; rewrite ?andb_false_r; reflexivity.
  - destruct k as [|k]; [reflexivity|]. cbn [nth]. rewrite IH. reflexivity.
Qed.

(* an undeclared filter anywhere in the record's value is an error, whatever came before it *)
Lemma translated_filter_row_rejects_undeclared_lemma : forall nf value, In None value -> gen_filter_row nf value = Err E_ValueError.
Proof.
  intros nf value. unfold gen_filter_row. generalize (repeat false nf) as row.
  induction value as [|f tl IH]; intros row H; [contradiction|].
  destruct f as [i|]; cbn [gen_filter_row_loop]; [|reflexivity]. apply IH. destruct H as [H|H]; [discriminate|exact H].
Qed.

(* all filters declared: the row has one flag per declared filter, set exactly for the filters the record uses *)
Definition uses (value : list (option nat)) (k : nat) : bool :=
  existsb (fun f => match f with Some i => (k =? i)%nat | None => false end) value.

Lemma filter_loop_flags : forall value row, Forall (fun f => exists i, f = Some i /\ (i < length row)%nat) value ->
  exists row', gen_filter_row_loop row value = Ok row' /\ length row' = length row /\
               forall k, nth k row' false = uses value k || nth k row false.
Proof.
  induction value as [|f tl IH]; intros row H.
  - exists row. split; [reflexivity|]. split; [reflexivity|]. intros k. reflexivity.
  - inversion H as [|? ? [i [-> Hi]] Ht]; subst. cbn [gen_filter_row_loop].
    destruct (IH (set_nth i true row)) as [row' [E [L F]]].
    { rewrite set_nth_length. exact Ht. }
    exists row'. split; [exact E|]. split; [rewrite L; apply set_nth_length|].
    intros k. rewrite F, nth_set_nth. change (uses (Some i :: tl) k) with ((k =? i)%nat || uses tl k).
    assert ((i <? length row)%nat = true) as -> by (apply Nat.ltb_lt; exact Hi). rewrite andb_true_r.
    destruct (k =? i)%nat; destruct (uses tl k); destruct (nth k row false); reflexivity.
Qed.

Lemma translated_filter_row_flags_lemma : forall nf value, Forall (fun f => exists i, f = Some i /\ (i < nf)%nat) value ->
  exists row, gen_filter_row nf value = Ok row /\ length row = nf /\ forall k, (k < nf)%nat -> nth k row false = uses value k.
Proof.
  intros nf value H. unfold gen_filter_row.
  destruct (filter_loop_flags value (repeat false nf)) as [row [E [L F]]].
  { eapply Forall_impl; [|exact H]. intros f [i [-> Hi]]. exists i. split; [reflexivity|]. rewrite repeat_length. exact Hi. }
  exists row. split; [exact E|]. split; [rewrite L; apply repeat_length|].
  intros k Hk. rewrite F. rewrite nth_repeat. apply orb_false_r.
Qed.

(* ---- encode_genotypes_partition: the genotype trio --------------------------------------------------------------- *)
(* cyvcf2 delivers, per sample, the allele numbers followed by the phase flag; the translated encoder hands the alleles to the
   2-d integer sanitiser, the flags to the 1-d one, and derives the mask from the STORED alleles *)
Lemma translated_genotype_split_lemma : forall (calls : list (list Z * Z)),
  gen_gt_alleles (map (fun c => fst c ++ [snd c]) calls) = map fst calls /\
  gen_gt_phase (map (fun c => fst c ++ [snd c]) calls) = map snd calls.
Proof.
  intros calls. unfold gen_gt_alleles, gen_gt_phase. rewrite !map_map. split; apply map_ext; intros [al ph]; cbn [fst snd].
  - apply removelast_last.
  - apply last_last.
Qed.

Lemma translated_genotype_mask_lemma : forall stored s k, 
  nth k (nth s (gen_gt_mask stored) []) false = (nth k (nth s stored []) 0 <? 0)%Z \/ (length (nth s stored []) <= k)%nat \/ (length stored <= s)%nat.
Proof.
  intros stored s k. unfold gen_gt_mask.
  destruct (Nat.lt_ge_cases s (length stored)) as [Hs|Hs]; [|right; right; exact Hs].
  destruct (Nat.lt_ge_cases k (length (nth s stored []))) as [Hk|Hk]; [|right; left; exact Hk].
  left. rewrite (nth_indep _ [] (map (fun a => (a <? 0)%Z) [])) by (rewrite map_length; exact Hs).
  rewrite (map_nth (map (fun a => (a <? 0)%Z)) stored [] s).
  rewrite (nth_indep _ false ((fun a => (a <? 0)%Z) 0%Z)) by (rewrite map_length; exact Hk).
  rewrite (map_nth (fun a => (a <? 0)%Z)). reflexivity.
Qed.
