(* Bridge: translated check_overlapping_partitions = Model.Overlap.check_overlap *)
From Coq Require Import ZArith List Bool Lia ZifyBool.
From B2Z Require Import Base.Prims Model.Overlap.
From B2Z Require Gen.GenOverlap.
Import ListNotations.
Open Scope Z_scope.

Definition to_region (p : part) : region := {| r_contig := p_contig p; r_start := p_start p; r_end := Some (p_end p) |}.

Lemma adj_iter_overlap (f : region -> region -> res unit) :
  (forall a b, f (to_region a) (to_region b) =
     if (if p_contig a =? p_contig b then p_end a <? p_start b else true) then Ok tt else Err E_ValueError) ->
  forall l, adj_iter f (map to_region l) = if check_overlap l then Ok tt else Err E_ValueError.
Proof.
  intros Hf. induction l as [|a tl IH]; [reflexivity|].
  destruct tl as [|b tl']; [reflexivity|].
  cbn [map adj_iter check_overlap]. rewrite Hf. cbn [map] in IH.
  destruct (if p_contig a =? p_contig b then p_end a <? p_start b else true); cbn [bind andb]; [exact IH|reflexivity].
Qed.

Lemma gen_check_overlapping_eq l :
  GenOverlap.check_overlapping_partitions (map to_region l) = if check_overlap l then Ok tt else Err E_ValueError.
Proof.
  unfold GenOverlap.check_overlapping_partitions.
  rewrite adj_iter_overlap.
  - destruct (check_overlap l); reflexivity.
  - intros a b. cbv zeta. cbn [to_region r_contig r_start r_end].
    destruct (p_contig a =? p_contig b) eqn:E1; [|reflexivity].
    destruct (p_end a >=? p_start b) eqn:E2; destruct (p_end a <? p_start b) eqn:E3; try reflexivity; lia.
Qed.

(* a partition whose end was never set makes the check fail with an assertion, not pass *)
Lemma gen_check_unset_end a b tl : r_contig a = r_contig b -> r_end a = None ->
  GenOverlap.check_overlapping_partitions (a :: b :: tl) = Err E_AssertionError.
Proof.
  intros Hc He. unfold GenOverlap.check_overlapping_partitions. cbn [adj_iter]. cbv zeta.
  rewrite Hc, Z.eqb_refl, He. reflexivity.
Qed.
