(* Bridge/BridgeRegions.v -- the region-building part of IndexedVcf.partition_into_regions AS TRANSLATED
   on this run (Gen/GenRegions.v, translator/regions2coq.py: the index-based loop over region_contigs /
   region_starts with its `i == len - 1` and `i + 1` accesses, the skipped-contig loop, the `end >= 1`
   test, the trailing-contig loop) is the structural model Model/Regions.v (`build`, `trailing`,
   `regions`) that regions_cover / refine_cover / partition_correct are about. *)
From Coq Require Import ZArith Arith List Bool Lia ZifyBool.
From B2Z Require Import Base.Prims Base.NpPrims Base.PlinkOps Model.Regions Gen.GenRegions.
Import ListNotations.
Open Scope Z_scope.

Definition conv (r : region) : gregion := GR (Z.of_nat (rc r)) (rs r) (re r).
Definition rcs (cuts : list (nat * Z)) : list Z := map (fun c => Z.of_nat (fst c)) cuts.
Definition rss (cuts : list (nat * Z)) : list Z := map (@snd nat Z) cuts.

(* ---- index helpers ------------------------------------------------------------------------ *)
Lemma zrange_nil : forall a b, b <= a -> zrange a b = [].
Proof. intros a b H. unfold zrange. replace (Z.to_nat (b - a)) with 0%nat by lia. reflexivity. Qed.

Lemma zrange_cons : forall a b, a < b -> zrange a b = a :: zrange (a + 1) b.
Proof.
  intros a b H. unfold zrange. replace (Z.to_nat (b - a)) with (S (Z.to_nat (b - (a + 1)))) by lia.
  cbn [seq map]. f_equal; [lia|]. rewrite <- seq_shift, map_map. apply map_ext. intros i. lia.
Qed.

Lemma zrange_of_nat : forall a b, zrange (Z.of_nat a) (Z.of_nat b) = map Z.of_nat (seq a (b - a)).
Proof.
  intros a b. unfold zrange. replace (Z.to_nat (Z.of_nat b - Z.of_nat a)) with (b - a)%nat by lia.
  generalize (b - a)%nat as m. intros m.
  assert (G : forall k, map (fun i : nat => Z.of_nat a + Z.of_nat i) (seq k m) = map Z.of_nat (seq (a + k) m)).
  { induction m as [|m IH]; intros k; [reflexivity|]. cbn [seq map]. f_equal; [lia|].
    replace (S (a + k)) with (a + S k)%nat by lia. apply IH. }
  rewrite G. f_equal. f_equal. lia.
Qed.

Lemma zidx_mid : forall (f : nat * Z -> Z) pre x tl,
  zidx (map f (pre ++ x :: tl)) (Z.of_nat (length pre)) = f x.
Proof.
  intros f pre x tl. unfold zidx. rewrite Nat2Z.id, map_app. cbn [map].
  replace (length pre) with (length (map f pre)) by apply map_length. apply nth_middle.
Qed.

Lemma zidx_mid1 : forall (f : nat * Z -> Z) pre x y tl,
  zidx (map f (pre ++ x :: y :: tl)) (Z.of_nat (length pre) + 1) = f y.
Proof.
  intros f pre x y tl.
  replace (pre ++ x :: y :: tl) with ((pre ++ [x]) ++ y :: tl) by (rewrite <- app_assoc; reflexivity).
  replace (Z.of_nat (length pre) + 1) with (Z.of_nat (length (pre ++ [x]))) by (rewrite app_length; cbn [length]; lia).
  apply zidx_mid.
Qed.

(* ---- skipped contigs and trailing contigs -------------------------------------------------- *)
Lemma skipped_contigs : forall c c',
  flat_map (fun v_ri => [GR v_ri None None] ++ []) (zrange (Z.of_nat c + 1) (Z.of_nat c'))
  = map conv (map whole (seq (S c) (c' - S c))).
Proof.
  intros c c'. replace (Z.of_nat c + 1) with (Z.of_nat (S c)) by lia. rewrite zrange_of_nat.
  generalize (seq (S c) (c' - S c)) as l. induction l as [|x l IH]; [reflexivity|].
  cbn [map flat_map]. rewrite IH. reflexivity.
Qed.

Lemma trailing_contigs : forall counts a b,
  flat_map (fun v_ri => (if counts v_ri >? 0 then [GR v_ri None None] ++ [] else []) ++ []) (zrange (Z.of_nat a) (Z.of_nat b))
  = map conv (map whole (filter (fun c => counts (Z.of_nat c) >? 0) (seq a (b - a)))).
Proof.
  intros counts a b. rewrite zrange_of_nat.
  generalize (seq a (b - a)) as l. induction l as [|x l IH]; [reflexivity|].
  cbn [map flat_map filter]. rewrite IH. destruct (counts (Z.of_nat x) >? 0); reflexivity.
Qed.

(* ---- the cut loop --------------------------------------------------------------------------- *)
Lemma steps_are_build : forall cuts pre,
  flat_map (gen_step (rcs (pre ++ cuts)) (rss (pre ++ cuts))) (zrange (Z.of_nat (length pre)) (Z.of_nat (length (pre ++ cuts))))
  = map conv (build cuts).
Proof.
  induction cuts as [|[c s] tl IH]; intros pre.
  - rewrite app_nil_r. rewrite zrange_nil by lia. reflexivity.
  - rewrite zrange_cons by (rewrite app_length; cbn [length]; lia).
    cbn [flat_map].
    replace (Z.of_nat (length pre) + 1) with (Z.of_nat (length (pre ++ [(c, s)]))) by (rewrite app_length; cbn [length]; lia).
    replace (pre ++ (c, s) :: tl) with ((pre ++ [(c, s)]) ++ tl) at 3 4 5 by (rewrite <- app_assoc; reflexivity).
    rewrite IH. clear IH.
    unfold gen_step. cbv zeta. unfold rcs, rss.
    rewrite !zidx_mid. cbn [fst snd].
    assert (Hn : Z.of_nat (length (map (@snd nat Z) (pre ++ (c, s) :: tl))) = Z.of_nat (length pre) + 1 + Z.of_nat (length tl)).
    { rewrite map_length, app_length. cbn [length]. lia. }
    rewrite Hn. destruct tl as [|[c' s'] tl'].
    + cbn [length]. replace (Z.of_nat (length pre) =? Z.of_nat (length pre) + 1 + Z.of_nat 0 - 1) with true by lia.
      reflexivity.
    + replace (Z.of_nat (length pre) =? Z.of_nat (length pre) + 1 + Z.of_nat (length ((c', s') :: tl')) - 1) with false by (cbn [length]; lia).
      rewrite !zidx_mid1. cbn [fst snd].
      change (build ((c, s) :: (c', s') :: tl')) with
        ((if Nat.eqb c c' then [R c (Some s) (Some (s' - 1))]
          else R c (Some s) None :: map whole (seq (S c) (c' - S c)) ++ (if 1 <=? s' - 1 then [R c' (Some 1) (Some (s' - 1))] else []))
         ++ build ((c', s') :: tl')).
      rewrite map_app. f_equal.
      destruct (Nat.eqb c c') eqn:E.
      * replace (Z.of_nat c' =? Z.of_nat c) with true by lia.
        apply Nat.eqb_eq in E. subst c'. reflexivity.
      * replace (Z.of_nat c' =? Z.of_nat c) with false by lia.
        rewrite skipped_contigs. cbn [map app]. rewrite !app_nil_r. f_equal. rewrite map_app. f_equal.
        replace (s' - 1 >=? 1) with (1 <=? s' - 1) by lia. destruct (1 <=? s' - 1); reflexivity.
Qed.

Lemma last_is_nth : forall (l : list (nat * Z)) d, l <> [] -> List.last l d = nth (length l - 1) l d.
Proof.
  induction l as [|x tl IH]; intros d Hne; [contradiction|].
  destruct tl as [|y tl']; [reflexivity|].
  change (List.last (x :: y :: tl') d) with (List.last (y :: tl') d). rewrite IH by discriminate.
  cbn [length]. replace (S (S (length tl')) - 1)%nat with (S (S (length tl') - 1)) by lia. reflexivity.
Qed.

Lemma zidx_last : forall (cuts : list (nat * Z)), cuts <> [] ->
  zidx (rcs cuts) (Z.of_nat (length (rss cuts)) - 1) = Z.of_nat (last_contig cuts).
Proof.
  intros cuts Hne. unfold last_contig. destruct (@exists_last _ cuts Hne) as [l' [a E]]. subst cuts.
  rewrite last_last. unfold rss, rcs. rewrite map_length, app_length. cbn [length].
  replace (Z.of_nat (length l' + 1) - 1) with (Z.of_nat (length l')) by lia. apply zidx_mid.
Qed.

(* ---- the whole list handed to _filter_empty_and_refine --------------------------------------- *)
Lemma translated_regions_are_the_model_lemma : forall ncontigs counts cuts, cuts <> [] ->
  gen_regions (Z.of_nat ncontigs) counts (rcs cuts) (rss cuts)
  = map conv (regions ncontigs (fun c => counts (Z.of_nat c) >? 0) cuts).
Proof.
  intros ncontigs counts cuts Hne. unfold gen_regions, regions. rewrite map_app. f_equal.
  - pose proof (steps_are_build cuts []) as H. cbn [app length] in H.
    unfold rss at 2. rewrite map_length. exact H.
  - unfold gen_trailing, trailing. rewrite zidx_last by exact Hne. rewrite app_nil_r.
    replace (Z.of_nat (last_contig cuts) + 1) with (Z.of_nat (S (last_contig cuts))) by lia.
    apply trailing_contigs.
Qed.
