(* Bridge/BridgeRefine.v -- Region.__str__, IndexedVcf.variants and IndexedVcf._filter_empty_and_refine AS TRANSLATED on this
   run (Gen/GenRefine.v, translator/refine2coq.py) against Model/Regions.v: under htslib's region-query contract the
   translated `variants` is the model's `query` and the translated refinement is the model's `refine`; the three region
   forms the builder produces print as `contig`, `contig:start-`, `contig:start-end`. *)
From Coq Require Import ZArith Arith List Bool Lia.
From B2Z Require Import Model.Regions Base.RegionStr Gen.GenRefine.
Import ListNotations.
Open Scope Z_scope.

(* htslib's contract, as far as bio2zarr relies on it: after dropping the records that start before the region (records
   that merely overlap its start), what the query for str(region) returns is, in file order, exactly the records of
   the contig with start <= POS <= end *)
Definition hts_contract (hts : region -> list rec) (file : list rec) : Prop :=
  forall r, filter (fun var => lo r <=? snd var) (hts r) = query file r.

Lemma translated_variants_lemma : forall hts file, hts_contract hts file -> forall r, gen_variants hts r = query file r.
Proof. intros hts file H r. unfold gen_variants. cbv zeta. rewrite <- (H r). unfold lo. reflexivity. Qed.

Lemma translated_refine_lemma : forall hts file, hts_contract hts file -> forall rs, gen_refine hts rs = refine file rs.
Proof.
  intros hts file H rs. unfold gen_refine, refine. induction rs as [|r rs IH]; [reflexivity|].
  cbn [flat_map]. rewrite IH, (translated_variants_lemma hts file H r). reflexivity.
Qed.

(* the region strings *)
Lemma translated_region_strings_lemma : forall c s e,
  gen_region_str c None None = [TContig c] /\
  gen_region_str c (Some s) None = [TContig c; TColon; TNum s; TDash] /\
  gen_region_str c (Some s) (Some e) = [TContig c; TColon; TNum s; TDash; TNum e].
Proof. intros. repeat split. Qed.

(* the builder never produces the fourth form (an end without a start), whose string would not be a region *)
Lemma build_forms : forall cuts r, In r (build cuts) -> rs r = None -> re r = None.
Proof.
  induction cuts as [|[c s] tl IH]; intros r Hin Hs; [contradiction|].
  cbn [build] in Hin. destruct tl as [|[c' s'] tl'].
  - destruct Hin as [<-|[]]. discriminate.
  - apply in_app_or in Hin. destruct Hin as [Hin|Hin]; [|exact (IH r Hin Hs)].
    destruct (Nat.eqb c c').
    + destruct Hin as [<-|[]]. discriminate.
    + destruct Hin as [<-|Hin]; [discriminate|]. apply in_app_or in Hin. destruct Hin as [Hin|Hin].
      * apply in_map_iff in Hin. destruct Hin as [k [<- _]]. reflexivity.
      * destruct (1 <=? s' - 1); [destruct Hin as [<-|[]]; discriminate|contradiction].
Qed.

Lemma regions_forms : forall ncontigs count_pos cuts r, In r (regions ncontigs count_pos cuts) -> rs r = None -> re r = None.
Proof.
  intros n cp cuts r Hin Hs. unfold regions in Hin. apply in_app_or in Hin. destruct Hin as [Hin|Hin]; [exact (build_forms cuts r Hin Hs)|].
  unfold trailing in Hin. apply in_map_iff in Hin. destruct Hin as [k [<- _]]. reflexivity.
Qed.
