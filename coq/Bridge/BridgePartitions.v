(* Bridge: the definitions regenerated from /repo's source (Gen/GenPartitions.v) compute
   exactly the hand-written model on the property's input space, and raise outside it. *)
From Coq Require Import ZArith List Bool Lia ZifyBool.
From B2Z Require Import Base.Prims Model.Partitions Proofs.PartitionsProofs.
From B2Z Require Gen.GenPartitions.
Import ListNotations.
Open Scope Z_scope.

Lemma mapM_sections (f : Z -> Z -> (Z * Z)) : forall l a b, cchain a l b ->
  mapM (fun s => bind (sec_first s) (fun x => bind (sec_last s) (fun y => Ok (f x y)))) l
  = Ok (map (fun s => f (fst s) (snd s)) l).
Proof.
  induction l as [|[s e] tl IH]; intros a b H; cbn [mapM map]; [reflexivity|].
  cbn [cchain] in H. destruct H as [-> [Hle H]].
  rewrite (IH _ _ H). unfold sec_first, sec_last. cbn [fst snd].
  destruct (e <? a) eqn:E; [lia|]. reflexivity.
Qed.

Lemma gen_generate_partitions_eq nr cs np mc :
  1 <= nr -> 1 <= cs -> 1 <= np -> mc_ok mc ->
  GenPartitions.generate_partitions nr cs np mc = Ok (generate_partitions nr cs np mc).
Proof.
  intros Hnr Hcs Hnp Hmc.
  unfold GenPartitions.generate_partitions, generate_partitions.
  destruct (capped_chunks_bounds nr cs mc Hnr Hcs Hmc) as [Hnc _].
  change (match mc with Some max_chunks => Z.min (ceil_truediv nr cs) max_chunks | None => ceil_truediv nr cs end)
    with (capped_chunks nr cs mc).
  set (nc := capped_chunks nr cs mc) in *. cbv zeta.
  unfold array_split_arange. destruct (Z.min np nc <=? 0) eqn:E; [lia|]. cbn [bind].
  destruct (msections_chain nc (Z.min np nc) ltac:(lia)) as [Hc _].
  fold (msections nc (Z.min np nc)).
  erewrite (mapM_sections (fun x y => (x * cs, Z.min ((y + 1) * cs) nr))) by exact Hc.
  reflexivity.
Qed.

Lemma gen_chunk_aligned_slices_eq cs shape0 n mc :
  1 <= shape0 -> 1 <= cs -> 1 <= n -> mc_ok mc ->
  GenPartitions.chunk_aligned_slices cs shape0 n mc = Ok (chunk_aligned_slices cs shape0 n mc).
Proof.
  intros Hnr Hcs Hnp Hmc.
  unfold GenPartitions.chunk_aligned_slices, chunk_aligned_slices, generate_partitions.
  destruct (capped_chunks_bounds shape0 cs mc Hnr Hcs Hmc) as [Hnc _].
  change (match mc with Some max_chunks => Z.min (ceil_truediv shape0 cs) max_chunks | None => ceil_truediv shape0 cs end)
    with (capped_chunks shape0 cs mc).
  set (nc := capped_chunks shape0 cs mc) in *. cbv zeta.
  unfold array_split_arange. destruct (Z.min n nc <=? 0) eqn:E; [lia|]. cbn [bind].
  destruct (msections_chain nc (Z.min n nc) ltac:(lia)) as [Hc _].
  fold (msections nc (Z.min n nc)).
  erewrite (mapM_sections (fun x y => (x * cs, Z.min ((y + 1) * cs) shape0))) by exact Hc.
  reflexivity.
Qed.

(* outside the input space: zero records -> numpy refuses to split into 0 sections *)
Lemma gen_generate_partitions_zero cs np mc :
  1 <= cs -> GenPartitions.generate_partitions 0 cs np mc = Err E_ValueError.
Proof.
  intros Hcs. unfold GenPartitions.generate_partitions, ceil_truediv. cbv zeta.
  change (- 0) with 0. rewrite Z.div_0_l by lia. change (- 0) with 0.
  unfold array_split_arange.
  destruct mc as [m|]; match goal with |- context [?x <=? 0] => destruct (x <=? 0) eqn:E end; try reflexivity; lia.
Qed.

(* the property theorems, stated over the generated definitions *)
Lemma C11_generate_partitions_cover : forall nr cs np mc,
  1 <= nr -> 1 <= cs -> 1 <= np -> mc_ok mc ->
  exists ps, GenPartitions.generate_partitions nr cs np mc = Ok ps /\
    rchain cs 0 ps (total_records nr cs mc) /\
    Z.of_nat (length ps) = Z.min np (capped_chunks nr cs mc) /\
    check_C11 nr cs np mc ps = true.
Proof.
  intros nr cs np mc Hnr Hcs Hnp Hmc. exists (generate_partitions nr cs np mc).
  destruct (generate_partitions_chain nr cs np mc Hnr Hcs Hnp Hmc) as [Hc Hl].
  split; [apply gen_generate_partitions_eq; assumption|]. split; [exact Hc|]. split; [exact Hl|].
  apply check_C11_spec. split; [exact Hc|].
  destruct (capped_chunks_bounds nr cs mc Hnr Hcs Hmc) as [Hnc _]. lia.
Qed.

Lemma C11_chunk_aligned_slices_cover : forall cs shape0 n mc,
  1 <= shape0 -> 1 <= cs -> 1 <= n -> mc_ok mc ->
  exists ps, GenPartitions.chunk_aligned_slices cs shape0 n mc = Ok ps /\
    rchain cs 0 ps (total_records shape0 cs mc) /\
    Z.of_nat (length ps) = Z.min n (capped_chunks shape0 cs mc) /\
    check_C11 shape0 cs n mc ps = true.
Proof.
  intros cs shape0 n mc H1 H2 H3 H4.
  destruct (C11_generate_partitions_cover shape0 cs n mc H1 H2 H3 H4) as [ps [E R]].
  exists ps. split; [|exact R].
  rewrite gen_chunk_aligned_slices_eq by assumption.
  rewrite gen_generate_partitions_eq in E by assumption. exact E.
Qed.

Lemma C11_chain_every_record_once : forall cs l b, rchain cs 0 l b ->
  (forall i, 0 <= i < b -> exists p, In p l /\ in_part i p) /\
  (forall p, In p l -> 0 <= fst p /\ snd p <= b /\ fst p < snd p /\ fst p mod cs = 0) /\
  (forall i j p q, nth_error l i = Some p -> nth_error l j = Some q -> (i < j)%nat -> snd p <= fst q).
Proof.
  intros cs l b H. split; [exact (rchain_cover cs l 0 b H)|]. split.
  - exact (proj2 (rchain_bounds cs l 0 b H)).
  - exact (rchain_disjoint cs l 0 b H).
Qed.

Lemma C11_no_chunk_shared : forall cs l b, 1 <= cs -> rchain cs 0 l b ->
  forall i j p q x y, nth_error l i = Some p -> nth_error l j = Some q -> (i < j)%nat ->
  in_part x p -> in_part y q -> x / cs < y / cs.
Proof. intros cs l b Hcs H. exact (rchain_no_chunk_shared cs Hcs l 0 b H). Qed.
