(* Bridge: the definitions regenerated from /repo's source (Gen/GenPartitions.v) compute
   exactly the hand-written model on the property's input space, and raise outside it. *)
From Coq Require Import ZArith List Bool Lia ZifyBool.
From B2Z Require Import Base.Prims Model.Partitions Proofs.PartitionsProofs.
From B2Z Require Gen.GenPartitions.
Import ListNotations.
Open Scope Z_scope.

(* a monadic map over non-empty sections whose body succeeds pointwise is a pure map *)
Lemma mapM_ext_chain (g : Z * Z -> res (Z * Z)) (h : Z * Z -> Z * Z) : forall l a b,
  cchain a l b -> (forall s e, s <= e -> g (s, e) = Ok (h (s, e))) -> mapM g l = Ok (map h l).
Proof.
  induction l as [|[s e] tl IH]; intros a b H Hg; cbn [mapM map]; [reflexivity|].
  cbn [cchain] in H. destruct H as [-> [Hle H]].
  rewrite (Hg _ _ Hle), (IH _ _ H Hg). reflexivity.
Qed.

(* The script is written against the *shape* "split the chunk range, map each section to
   a pair", not against the exact arithmetic text, so that harmless rewrites of the
   source (temporaries, commuted min, reordered operands) still go through: the two
   arguments of array_split_arange and the loop body are each compared with the model
   by lia. *)
Ltac bridge_partitions nr cs np mc :=
  cbv zeta;
  match goal with
  | |- context [array_split_arange ?n ?k] =>
      replace n with (capped_chunks nr cs mc) by (unfold capped_chunks; destruct mc; lia);
      replace k with (Z.min np (capped_chunks nr cs mc)) by (unfold capped_chunks; destruct mc; lia)
  end;
  unfold array_split_arange;
  match goal with |- context [?x <=? 0] => destruct (x <=? 0) eqn:?; [lia|] end;
  cbn [bind];
  match goal with |- context [sections 0 ?q ?r ?k] => fold (msections (capped_chunks nr cs mc) (Z.min np (capped_chunks nr cs mc))) end;
  eapply mapM_ext_chain;
  [ apply msections_chain; lia
  | intros s e Hse; unfold sec_first, sec_last; cbn [fst snd];
    destruct (e <? s) eqn:?; [lia|]; cbn [bind fst snd]; f_equal; f_equal; lia ].

Lemma gen_generate_partitions_eq nr cs np mc :
  1 <= nr -> 1 <= cs -> 1 <= np -> mc_ok mc ->
  GenPartitions.generate_partitions nr cs np mc = Ok (generate_partitions nr cs np mc).
Proof.
  intros Hnr Hcs Hnp Hmc.
  destruct (capped_chunks_bounds nr cs mc Hnr Hcs Hmc) as [Hnc _].
  unfold GenPartitions.generate_partitions, generate_partitions.
  bridge_partitions nr cs np mc.
Qed.

Lemma gen_chunk_aligned_slices_eq cs shape0 n mc :
  1 <= shape0 -> 1 <= cs -> 1 <= n -> mc_ok mc ->
  GenPartitions.chunk_aligned_slices cs shape0 n mc = Ok (chunk_aligned_slices cs shape0 n mc).
Proof.
  intros Hnr Hcs Hnp Hmc.
  destruct (capped_chunks_bounds shape0 cs mc Hnr Hcs Hmc) as [Hnc _].
  unfold GenPartitions.chunk_aligned_slices, chunk_aligned_slices, generate_partitions.
  bridge_partitions shape0 cs n mc.
Qed.

(* outside the input space: zero records -> numpy refuses to split into 0 sections *)
Lemma gen_generate_partitions_zero cs np mc :
  1 <= cs -> GenPartitions.generate_partitions 0 cs np mc = Err E_ValueError.
Proof.
  intros Hcs. unfold GenPartitions.generate_partitions, ceil_truediv. cbv zeta.
  change (- 0) with 0. rewrite Z.div_0_l by lia. change (- 0) with 0.
  unfold array_split_arange.
  destruct mc as [m|]; match goal with |- context [?x <=? 0] => destruct (x <=? 0) eqn:E end; try reflexivity; lia.
Qed.

(* the property theorems, stated over the generated definitions *)
Lemma C11_generate_partitions_cover : forall nr cs np mc,
  1 <= nr -> 1 <= cs -> 1 <= np -> mc_ok mc ->
  exists ps, GenPartitions.generate_partitions nr cs np mc = Ok ps /\
    rchain cs 0 ps (total_records nr cs mc) /\
    Z.of_nat (length ps) = Z.min np (capped_chunks nr cs mc) /\
    check_C11 nr cs np mc ps = true.
Proof.
  intros nr cs np mc Hnr Hcs Hnp Hmc. exists (generate_partitions nr cs np mc).
  destruct (generate_partitions_chain nr cs np mc Hnr Hcs Hnp Hmc) as [Hc Hl].
  split; [apply gen_generate_partitions_eq; assumption|]. split; [exact Hc|]. split; [exact Hl|].
  apply check_C11_spec. split; [exact Hc|].
  destruct (capped_chunks_bounds nr cs mc Hnr Hcs Hmc) as [Hnc _]. lia.
Qed.

Lemma C11_chunk_aligned_slices_cover : forall cs shape0 n mc,
  1 <= shape0 -> 1 <= cs -> 1 <= n -> mc_ok mc ->
  exists ps, GenPartitions.chunk_aligned_slices cs shape0 n mc = Ok ps /\
    rchain cs 0 ps (total_records shape0 cs mc) /\
    Z.of_nat (length ps) = Z.min n (capped_chunks shape0 cs mc) /\
    check_C11 shape0 cs n mc ps = true.
Proof.
  intros cs shape0 n mc H1 H2 H3 H4.
  destruct (C11_generate_partitions_cover shape0 cs n mc H1 H2 H3 H4) as [ps [E R]].
  exists ps. split; [|exact R].
  rewrite gen_chunk_aligned_slices_eq by assumption.
  rewrite gen_generate_partitions_eq in E by assumption. exact E.
Qed.

Lemma C11_chain_every_record_once : forall cs l b, rchain cs 0 l b ->
  (forall i, 0 <= i < b -> exists p, In p l /\ in_part i p) /\
  (forall p, In p l -> 0 <= fst p /\ snd p <= b /\ fst p < snd p /\ fst p mod cs = 0) /\
  (forall i j p q, nth_error l i = Some p -> nth_error l j = Some q -> (i < j)%nat -> snd p <= fst q).
Proof.
  intros cs l b H. split; [exact (rchain_cover cs l 0 b H)|]. split.
  - exact (proj2 (rchain_bounds cs l 0 b H)).
  - exact (rchain_disjoint cs l 0 b H).
Qed.

Lemma C11_no_chunk_shared : forall cs l b, 1 <= cs -> rchain cs 0 l b ->
  forall i j p q x y, nth_error l i = Some p -> nth_error l j = Some q -> (i < j)%nat ->
  in_part x p -> in_part y q -> x / cs < y / cs.
Proof. intros cs l b Hcs H. exact (rchain_no_chunk_shared cs Hcs l 0 b H). Qed.
