(* Bridge/BridgePlinkConvert.v -- plink.convert AS TRANSLATED on this run (the second half of Gen/GenPlink.v,
   translator/plink2coq.py): the genotype arrays it creates, the array it hands to core.chunk_aligned_slices, the number of
   slices, one worker task per slice. *)
From Coq Require Import ZArith List Bool Lia String.
From B2Z Require Import Base.Prims Model.Partitions Proofs.PartitionsProofs Bridge.BridgePartitions Gen.GenPlink.
From B2Z Require Gen.GenPartitions.
Import ListNotations.
Open Scope Z_scope.

Definition csym_eqb (a b : csym) : bool :=
  match a, b with Sm, Sm | Sn, Sn | Sploidy, Sploidy | Svcs, Svcs | Sscs, Sscs => true | _, _ => false end.

(* every genotype array has the variants axis first, chunked by the variants chunk size, then the samples axis chunked by the
   samples chunk size -- so the three buffers of a worker task advance in lock-step (translated_row_program's premise) and
   chunk_aligned_slices sees shape[0] = m, chunks[0] = variants_chunk_size whichever of them it is handed -- and the array
   handed to chunk_aligned_slices is one of them; the three arrays are the three the worker task writes *)
Definition convert_arrays_ok : bool :=
  forallb (fun a => match a with
                    | (_, _, s0 :: s1 :: _, c0 :: c1 :: _) => csym_eqb s0 Sm && csym_eqb s1 Sn && csym_eqb c0 Svcs && csym_eqb c1 Sscs
                    | _ => false end) gen_convert_arrays
  && existsb (fun a => String.eqb (fst (fst (fst a))) gen_convert_slices_array) gen_convert_arrays
  && forallb (fun nm => existsb (fun a => String.eqb (fst (fst (fst a))) nm) gen_convert_arrays)
             ["call_genotype"%string; "call_genotype_mask"%string; "call_genotype_phased"%string]
  && (gen_convert_ploidy =? 2) && gen_convert_submits_every_slice.

Lemma translated_convert_arrays_lemma : convert_arrays_ok = true.
Proof. vm_compute. reflexivity. Qed.

(* the slices: for every number of variants, chunk size and worker count the translated convert cuts the variants into a
   chain of chunk-aligned, non-empty slices from 0 to m (C11 over the translated chunk_aligned_slices) and submits one task
   per slice: every variant row is written by exactly one worker task *)
Lemma translated_convert_rows_once_lemma : forall cs m workers, 1 <= m -> 1 <= cs -> 0 <= workers ->
  exists ps, GenPartitions.chunk_aligned_slices cs m (gen_convert_num_slices workers) None = Ok ps /\ rchain cs 0 ps m.
Proof.
  intros cs m w H1 H2 H3.
  assert (Hn : 1 <= gen_convert_num_slices w) by (unfold gen_convert_num_slices; lia).
  destruct (C11_chunk_aligned_slices_cover cs m (gen_convert_num_slices w) None H1 H2 Hn I) as [ps [E [R _]]].
  exists ps. split; [exact E|exact R].
Qed.

(* the metadata arrays: sample ids from the .fam, positions from the .bim as int32, the allele pair (allele_1, allele_2) stacked
   per variant as strings -- the arrays' data are the reader's attributes themselves *)
Definition convert_metadata_ok : bool :=
  match gen_convert_metadata with
  | [(a1, d1, t1); (a2, d2, t2); (a3, d3, t3)] =>
      String.eqb a1 "sample_id" && String.eqb d1 "bed.iid" && String.eqb t1 "str"
      && String.eqb a2 "variant_position" && String.eqb d2 "bed.bp_position" && String.eqb t2 "np.int32"
      && String.eqb a3 "variant_allele" && String.eqb d3 "np.stack([bed.allele_1, bed.allele_2], axis=1)" && String.eqb t3 "str"
  | _ => false
  end.
Lemma translated_convert_metadata_lemma : convert_metadata_ok = true.
Proof. vm_compute. reflexivity. Qed.
