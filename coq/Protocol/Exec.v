(* Protocol/Exec.v -- executable interface to the two protocol models for the correspondence
   run: states as association lists, boolean invariants / observations, one command step. *)
From Coq Require Import ZArith Arith List Bool.
From B2Z Require Import Base.Sx.
From B2Z Require Protocol.IcfProtocol Protocol.VczProtocol.
Import ListNotations.


(* ---------------- ICF ---------------- *)
Definition icf_un_path (s : sx) : option IcfProtocol.path :=
  match s with
  | L [A 0%Z] => Some IcfProtocol.PHeader | L [A 1%Z] => Some IcfProtocol.PWipMeta | L [A 2%Z] => Some IcfProtocol.PFinalMeta
  | L [A 3%Z; A j] => Some (IcfProtocol.PSummary (Z.to_nat j))
  | L [A 4%Z; A j; A k] => Some (IcfProtocol.PData (Z.to_nat j) (Z.to_nat k))
  | _ => None end.
Definition icf_sx_path (p : IcfProtocol.path) : sx :=
  match p with
  | IcfProtocol.PHeader => L [A 0%Z] | IcfProtocol.PWipMeta => L [A 1%Z] | IcfProtocol.PFinalMeta => L [A 2%Z]
  | IcfProtocol.PSummary j => L [A 3%Z; A (Z.of_nat j)] | IcfProtocol.PData j k => L [A 4%Z; A (Z.of_nat j); A (Z.of_nat k)] end.
Definition fs_of_Z (z : Z) : IcfProtocol.fstate := if (z =? 2)%Z then IcfProtocol.Full else if (z =? 1)%Z then IcfProtocol.Torn else IcfProtocol.Absent.
Definition Z_of_fs (f : IcfProtocol.fstate) : Z := match f with IcfProtocol.Absent => 0%Z | IcfProtocol.Torn => 1%Z | IcfProtocol.Full => 2%Z end.
Fixpoint icf_state_of (l : list (IcfProtocol.path * Z)) : IcfProtocol.state :=
  match l with [] => IcfProtocol.empty | (p, v) :: tl => IcfProtocol.upd (icf_state_of tl) p (fs_of_Z v) end.

Definition icf_universe (nparts : nat) (nfiles : nat -> nat) : list IcfProtocol.path :=
  IcfProtocol.PHeader :: IcfProtocol.PWipMeta :: IcfProtocol.PFinalMeta :: map IcfProtocol.PSummary (seq 0 nparts)
  ++ flat_map (fun j => map (IcfProtocol.PData j) (seq 0 (nfiles j))) (seq 0 nparts).
Definition icf_dump (nparts : nat) (nfiles : nat -> nat) (s : IcfProtocol.state) : sx :=
  L (map (fun p => L [icf_sx_path p; A (Z_of_fs (s p))]) (icf_universe nparts nfiles)).

Definition full_b (x : IcfProtocol.fstate) := match x with IcfProtocol.Full => true | _ => false end.
Definition absent_b (x : IcfProtocol.fstate) := match x with IcfProtocol.Absent => true | _ => false end.
Definition icf_part_complete_b (nfiles : nat -> nat) (s : IcfProtocol.state) (j : nat) : bool :=
  forallb (fun k => full_b (s (IcfProtocol.PData j k))) (seq 0 (nfiles j)).
Definition icf_complete_b (nparts : nat) nfiles (s : IcfProtocol.state) : bool :=
  forallb (icf_part_complete_b nfiles s) (seq 0 nparts).
Definition icf_inv_b (nparts : nat) nfiles (s : IcfProtocol.state) : bool :=
  forallb (fun j => negb (full_b (s (IcfProtocol.PSummary j))) || icf_part_complete_b nfiles s j) (seq 0 nparts)
  && (absent_b (s IcfProtocol.PFinalMeta) || icf_complete_b nparts nfiles s)
  && (absent_b (s IcfProtocol.PWipMeta) || full_b (s IcfProtocol.PHeader))
  && (absent_b (s IcfProtocol.PFinalMeta) || full_b (s IcfProtocol.PHeader)).
Definition icf_loads_b (s : IcfProtocol.state) : bool := full_b (s IcfProtocol.PFinalMeta) && full_b (s IcfProtocol.PHeader).

(* command on the wire: (0) init ; (1 j) partition j ; (2) finalise *)
Definition icf_cmd (nparts : nat) (nfiles : nat -> nat) (c : sx) : option IcfProtocol.cmd :=
  match c with
  | L [A 0%Z] => Some IcfProtocol.Init
  | L [A 1%Z; A j] => Some (IcfProtocol.Partition (Z.to_nat j) (seq 0 (nfiles (Z.to_nat j))))
  | L [A 2%Z] => Some (IcfProtocol.Finalise (IcfProtocol.PWipMeta :: map IcfProtocol.PSummary (seq 0 nparts)))
  | _ => None end.

(* ---------------- VCZ ---------------- *)
Definition vcz_un_path (s : sx) : option VczProtocol.path :=
  match s with
  | L [A 0%Z] => Some VczProtocol.PMeta | L [A 1%Z] => Some VczProtocol.PZmeta
  | L [A 2%Z; A j] => Some (VczProtocol.PWipDir (Z.to_nat j)) | L [A 3%Z; A j] => Some (VczProtocol.PFinDir (Z.to_nat j))
  | L [A 4%Z; A j] => Some (VczProtocol.PStaleDir (Z.to_nat j))
  | L [A 5%Z; A j; A a; A c] => Some (VczProtocol.PWipE (Z.to_nat j) (Z.to_nat a) (Z.to_nat c))
  | L [A 6%Z; A j; A a; A c] => Some (VczProtocol.PFinE (Z.to_nat j) (Z.to_nat a) (Z.to_nat c))
  | L [A 7%Z; A j; A a; A c] => Some (VczProtocol.PStaleE (Z.to_nat j) (Z.to_nat a) (Z.to_nat c))
  | L [A 8%Z; A a; A j; A c] => Some (VczProtocol.PArrE (Z.to_nat a) (Z.to_nat j) (Z.to_nat c))
  | L [A 9%Z; A a] => Some (VczProtocol.PLoc (Z.to_nat a))
  | _ => None end.
Definition vcz_sx_path (p : VczProtocol.path) : sx :=
  let n := fun x => A (Z.of_nat x) in
  match p with
  | VczProtocol.PMeta => L [A 0%Z] | VczProtocol.PZmeta => L [A 1%Z]
  | VczProtocol.PWipDir j => L [A 2%Z; n j] | VczProtocol.PFinDir j => L [A 3%Z; n j] | VczProtocol.PStaleDir j => L [A 4%Z; n j]
  | VczProtocol.PWipE j a c => L [A 5%Z; n j; n a; n c] | VczProtocol.PFinE j a c => L [A 6%Z; n j; n a; n c]
  | VczProtocol.PStaleE j a c => L [A 7%Z; n j; n a; n c] | VczProtocol.PArrE a j c => L [A 8%Z; n a; n j; n c]
  | VczProtocol.PLoc a => L [A 9%Z; n a] end.
Definition vfs_of_Z (z : Z) : VczProtocol.fstate := if (z =? 2)%Z then VczProtocol.Full else if (z =? 1)%Z then VczProtocol.Torn else VczProtocol.Absent.
Definition Z_of_vfs (f : VczProtocol.fstate) : Z := match f with VczProtocol.Absent => 0%Z | VczProtocol.Torn => 1%Z | VczProtocol.Full => 2%Z end.
Fixpoint vcz_state_of (l : list (VczProtocol.path * Z)) : VczProtocol.state :=
  match l with [] => VczProtocol.empty | (p, v) :: tl => VczProtocol.upd (vcz_state_of tl) p (vfs_of_Z v) end.

Definition triples (nparts narrays : nat) (nent : nat -> nat -> nat) : list (nat * nat * nat) :=
  flat_map (fun j => flat_map (fun a => map (fun c => (j, a, c)) (seq 0 (nent j a))) (seq 0 narrays)) (seq 0 nparts).
(* the paths the invariant speaks about *)
Definition vcz_relevant (nparts narrays : nat) nent : list VczProtocol.path :=
  VczProtocol.PMeta :: VczProtocol.PZmeta :: map VczProtocol.PFinDir (seq 0 nparts) ++ map VczProtocol.PLoc (seq 0 narrays)
  ++ map (fun t => VczProtocol.PFinE (fst (fst t)) (snd (fst t)) (snd t)) (triples nparts narrays nent)
  ++ map (fun t => VczProtocol.PArrE (snd (fst t)) (fst (fst t)) (snd t)) (triples nparts narrays nent).
Definition vcz_dump nparts narrays nent (s : VczProtocol.state) : sx :=
  L (map (fun p => L [vcz_sx_path p; A (Z_of_vfs (s p))]) (vcz_relevant nparts narrays nent)).
Definition vfull (x : VczProtocol.fstate) := match x with VczProtocol.Full => true | _ => false end.
Definition vabsent (x : VczProtocol.fstate) := match x with VczProtocol.Absent => true | _ => false end.
Definition vcz_complete_b nparts narrays nent (s : VczProtocol.state) : bool :=
  forallb (fun t => vfull (s (VczProtocol.PArrE (snd (fst t)) (fst (fst t)) (snd t)))) (triples nparts narrays nent).
Definition vcz_inv_b nparts narrays nent (s : VczProtocol.state) : bool :=
  forallb (fun t => let '(j, a, c) := t in
     negb (vfull (s (VczProtocol.PFinDir j))) || vfull (s (VczProtocol.PFinE j a c)) || (vabsent (s (VczProtocol.PFinE j a c)) && vfull (s (VczProtocol.PArrE a j c))))
     (triples nparts narrays nent)
  && forallb (fun t => let '(j, a, c) := t in negb (vfull (s (VczProtocol.PLoc a))) || vfull (s (VczProtocol.PArrE a j c))) (triples nparts narrays nent)
  && (negb (vfull (s VczProtocol.PZmeta)) || forallb (fun a => vfull (s (VczProtocol.PLoc a))) (seq 0 narrays)).
Definition vcz_cmd (c : sx) : option VczProtocol.cmd :=
  match c with
  | L [A 0%Z] => Some VczProtocol.Init
  | L [A 1%Z; A j] => Some (VczProtocol.Partition (Z.to_nat j) [])
  | L [A 2%Z] => Some VczProtocol.Finalise
  | _ => None end.
