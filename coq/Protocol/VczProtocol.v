(* Protocol/VczProtocol.v -- step-machine model of the distributed encode protocol, its invariant and
   the safety / recovery theorems (from the design-phase prototype, unchanged). *)
From Coq Require Import Arith List Bool Lia FinFun.
Import ListNotations.

(* Distributed-encode protocol, prototype.  Entries = the top-level directory entries of an array
   inside a partition directory (chunk files for 1-D arrays, variant-chunk directories otherwise). *)
Section VczProtocol.
Variable nparts narrays : nat.
Variable nent : nat -> nat -> nat.         (* entries of array a in partition j *)
Variable fixed : bool.                      (* F7 fix: move the old p<j> aside atomically instead of deleting it in place *)

Inductive path :=
| PMeta | PZmeta
| PWipDir (j : nat) | PFinDir (j : nat) | PStaleDir (j : nat)
| PWipE (j a c : nat) | PFinE (j a c : nat) | PStaleE (j a c : nat)
| PArrE (a j c : nat)                       (* entry (j,c) inside wip/arrays/a or, once moved out, inside a *)
| PLoc (a : nat).                           (* Full = array directory has been renamed out of wip/ *)

Inductive fstate := Absent | Torn | Full.
Definition state := path -> fstate.
Definition is_full x := match x with Full => true | _ => false end.
Definition is_absent x := match x with Absent => true | _ => false end.

Inductive step :=
| Trunc (p : path) | Fill (p : path) | Unlink (p : path)
| MoveDir (from_wip : bool) (to_stale : bool) (j : nat)   (* rename wip_p<j> -> p<j>  /  p<j> -> stale_p<j> *)
| MoveEntry (j a c : nat).                                 (* rename p<j>/a/c -> wip/arrays/a/c *)

Definition path_eqb (x y : path) : bool :=
  match x, y with
  | PMeta, PMeta | PZmeta, PZmeta => true
  | PWipDir i, PWipDir j | PFinDir i, PFinDir j | PStaleDir i, PStaleDir j | PLoc i, PLoc j => Nat.eqb i j
  | PWipE i a c, PWipE j b d | PFinE i a c, PFinE j b d | PStaleE i a c, PStaleE j b d | PArrE i a c, PArrE j b d =>
      Nat.eqb i j && Nat.eqb a b && Nat.eqb c d
  | _, _ => false
  end.
Lemma path_eqb_spec x y : reflect (x = y) (path_eqb x y).
Proof.
  destruct x, y; simpl; try (constructor; congruence);
  repeat match goal with |- context [Nat.eqb ?a ?b] => destruct (Nat.eqb_spec a b) end; simpl; constructor; congruence.
Qed.
Definition upd (s : state) (p : path) (v : fstate) : state := fun q => if path_eqb q p then v else s q.

Definition exec1 (s : state) (st : step) : state :=
  match st with
  | Trunc p => upd s p Torn | Fill p => upd s p Full | Unlink p => upd s p Absent
  | MoveDir true _ j =>      (* wip_p<j> -> p<j> : the whole subtree moves *)
      fun q => match q with
               | PFinDir i => if Nat.eqb i j then s (PWipDir j) else s q
               | PFinE i a c => if Nat.eqb i j then s (PWipE j a c) else s q
               | PWipDir i => if Nat.eqb i j then Absent else s q
               | PWipE i a c => if Nat.eqb i j then Absent else s q
               | _ => s q end
  | MoveDir false _ j =>     (* p<j> -> stale_p<j> *)
      fun q => match q with
               | PStaleDir i => if Nat.eqb i j then s (PFinDir j) else s q
               | PStaleE i a c => if Nat.eqb i j then s (PFinE j a c) else s q
               | PFinDir i => if Nat.eqb i j then Absent else s q
               | PFinE i a c => if Nat.eqb i j then Absent else s q
               | _ => s q end
  | MoveEntry j a c => upd (upd s (PArrE a j c) (s (PFinE j a c))) (PFinE j a c) Absent
  end.
Definition exec (s : state) (l : list step) : state := fold_left exec1 l s.

Definition entries (j : nat) : list (nat * nat) :=
  flat_map (fun a => map (fun c => (a, c)) (seq 0 (nent j a))) (seq 0 narrays).

Inductive cmd :=
| Init
| Partition (j : nat) (rm_order : list (nat * nat))      (* order in which rmtree visits the old p<j> *)
| Finalise.

Definition all_fin (s : state) : bool := forallb (fun j => is_full (s (PFinDir j))) (seq 0 nparts).

(* entries of array a present in p<j> right now (what iterdir() returns) *)
Definition present (s : state) (j a : nat) : list nat :=
  filter (fun c => negb (is_absent (s (PFinE j a c)))) (seq 0 (nent j a)).

Fixpoint finalise_arrays (s : state) (arrays : list nat) : list step :=
  match arrays with
  | [] => [Fill PZmeta]   (* rmtree(wip) elided in the prototype: it only removes; consolidate last *)
  | a :: tl =>
      if is_full (s (PLoc a)) then []     (* "Array already exists": error, stop *)
      else let moves := flat_map (fun j => map (fun c => MoveEntry j a c) (present s j a)) (seq 0 nparts) in
           moves ++ Fill (PLoc a) :: finalise_arrays s tl
  end.

Definition steps (s : state) (c : cmd) : list step :=
  match c with
  | Init => if is_absent (s PMeta) then [Trunc PMeta; Fill PMeta] else []
  | Partition j rm =>
      if is_full (s PMeta) && (j <? nparts) then
        Fill (PWipDir j) ::
        flat_map (fun ac => [Trunc (PWipE j (fst ac) (snd ac)); Fill (PWipE j (fst ac) (snd ac))]) (entries j)
        ++ (if is_absent (s (PFinDir j)) then []
            else if fixed then [MoveDir false true j]
                 else map (fun ac => Unlink (PFinE j (fst ac) (snd ac))) rm ++ [Unlink (PFinDir j)])
        ++ [MoveDir true false j]
      else []
  | Finalise => if is_full (s PMeta) && all_fin s then finalise_arrays s (seq 0 narrays) else []
  end.

Definition run1 (s : state) (ck : cmd * option nat) : state :=
  let l := steps s (fst ck) in exec s (match snd ck with None => l | Some k => firstn k l end).
Definition run (s : state) (h : list (cmd * option nat)) : state := fold_left run1 h s.
Definition empty : state := fun _ => Absent.

Definition finished (s : state) : Prop := s PZmeta = Full.
Definition complete (s : state) : Prop :=
  forall a j c, a < narrays -> j < nparts -> c < nent j a -> s (PArrE a j c) = Full.

(* ---------------- invariant (for the fixed protocol) ---------------- *)
Definition inplan (j a c : nat) : Prop := j < nparts /\ a < narrays /\ c < nent j a.
Definition Inv (s : state) : Prop :=
  (forall j a c, inplan j a c -> s (PFinDir j) = Full ->
      s (PFinE j a c) = Full \/ (s (PFinE j a c) = Absent /\ s (PArrE a j c) = Full)) /\
  (forall j a c, inplan j a c -> s (PLoc a) = Full -> s (PArrE a j c) = Full) /\
  (s PZmeta = Full -> forall a, a < narrays -> s (PLoc a) = Full).

Definition relevant (p : path) : bool :=
  match p with PFinDir _ | PFinE _ _ _ | PArrE _ _ _ | PLoc _ | PZmeta => true | _ => false end.

Lemma Inv_ext s s' : (forall p, relevant p = true -> s' p = s p) -> Inv s -> Inv s'.
Proof.
  intros E [J1 [J2 J3]]. split; [|split].
  - intros j a c Hp. rewrite !E by reflexivity. auto.
  - intros j a c Hp. rewrite !E by reflexivity. auto.
  - rewrite !E by reflexivity. intros H a Ha. rewrite E by reflexivity. auto.
Qed.

Lemma upd_same s p v : upd s p v p = v.
Proof. unfold upd. destruct (path_eqb_spec p p); congruence. Qed.
Lemma upd_other s p v q : q <> p -> upd s p v q = s q.
Proof. unfold upd. destruct (path_eqb_spec q p); congruence. Qed.

Definition target (st : step) : option path :=
  match st with Trunc p | Fill p | Unlink p => Some p | _ => None end.
Definition irrelevant_step (st : step) : Prop := exists p, target st = Some p /\ relevant p = false.

Lemma exec_irrelevant l : Forall irrelevant_step l -> forall s p, relevant p = true -> exec s l p = s p.
Proof.
  induction 1 as [|st l [q [Hq Hr]] _ IH]; intros s p Hp; simpl; auto.
  unfold exec in *. simpl. rewrite IH by auto.
  destruct st; simpl in *; try discriminate; inversion Hq; subst; apply upd_other; congruence.
Qed.

Lemma exec_app s a b : exec s (a ++ b) = exec (exec s a) b.
Proof. unfold exec. apply fold_left_app. Qed.
Lemma firstn_Forall {A} (P : A -> Prop) l k : Forall P l -> Forall P (firstn k l).
Proof. intros H. revert k. induction H; intros [|k]; simpl; auto. Qed.

(* the data phase of a partition: writes into the private wip_p<j> only *)
Definition wip_writes (j : nat) : list step :=
  Fill (PWipDir j) :: flat_map (fun ac => [Trunc (PWipE j (fst ac) (snd ac)); Fill (PWipE j (fst ac) (snd ac))]) (entries j).

Lemma wip_writes_irrelevant j : Forall irrelevant_step (wip_writes j).
Proof.
  unfold wip_writes. constructor; [eexists; split; reflexivity|].
  induction (entries j) as [|ac tl IH]; simpl; auto.
  constructor; [eexists; split; reflexivity|]. constructor; [eexists; split; reflexivity|]. exact IH.
Qed.

Lemma in_entries j a c : a < narrays -> c < nent j a -> In (a, c) (entries j).
Proof.
  intros Ha Hc. unfold entries. apply in_flat_map. exists a. split; [apply in_seq; lia|].
  apply in_map_iff. exists c. split; auto. apply in_seq. lia.
Qed.

Lemma wip_writes_full j : forall s a c, a < narrays -> c < nent j a ->
  let s' := exec s (wip_writes j) in s' (PWipE j a c) = Full /\ s' (PWipDir j) = Full.
Proof.
  intros s a c Ha Hc. unfold wip_writes, exec. simpl.
  assert (G: forall l s0, (In (a, c) l \/ s0 (PWipE j a c) = Full) -> s0 (PWipDir j) = Full ->
     let s1 := fold_left exec1 (flat_map (fun ac => [Trunc (PWipE j (fst ac) (snd ac)); Fill (PWipE j (fst ac) (snd ac))]) l) s0 in
     s1 (PWipE j a c) = Full /\ s1 (PWipDir j) = Full).
  { induction l as [|[a' c'] tl IH]; intros s0 H Hd; simpl.
    - destruct H as [[]|H]; auto.
    - apply IH.
      + destruct (path_eqb_spec (PWipE j a c) (PWipE j a' c')) as [E|E].
        * right. rewrite E. apply upd_same.
        * destruct H as [[H|H]|H]; [inversion H; subst; congruence|auto|right; rewrite !upd_other by congruence; auto].
      + rewrite !upd_other by congruence. auto. }
  apply G; [left; apply in_entries; auto | apply upd_same].
Qed.

Arguments exec1 : simpl never.
Lemma partition_inv s j rm k : fixed = true -> Inv s -> Inv (exec s (firstn k (steps s (Partition j rm)))).
Proof.
  intros Hfix HI. unfold steps. rewrite Hfix.
  destruct (is_full (s PMeta) && (j <? nparts)) eqn:En; [|destruct k; exact HI].
  fold (wip_writes j).
  change (Fill (PWipDir j) :: flat_map (fun ac => [Trunc (PWipE j (fst ac) (snd ac)); Fill (PWipE j (fst ac) (snd ac))]) (entries j) ++ ?x)
    with (wip_writes j ++ x).
  set (M := if is_absent (s (PFinDir j)) then [] else [MoveDir false true j]).
  rewrite firstn_app, exec_app.
  set (s1 := exec s (firstn k (wip_writes j))).
  assert (I1: Inv s1).
  { apply (Inv_ext s); auto. intros p Hp. apply exec_irrelevant; auto. apply firstn_Forall. apply wip_writes_irrelevant. }
  destruct (Nat.le_gt_cases k (length (wip_writes j))) as [Hk|Hk].
  { replace (k - length (wip_writes j)) with 0 by lia. exact I1. }
  unfold s1 in *. rewrite firstn_all2 in * by lia. clear s1. set (s1 := exec s (wip_writes j)) in *.
  set (k1 := k - length (wip_writes j)).
  assert (Hw: forall a c, a < narrays -> c < nent j a -> s1 (PWipE j a c) = Full /\ s1 (PWipDir j) = Full).
  { intros. apply wip_writes_full; auto. }
  (* moving the old p<j> aside keeps Inv: J1 for j becomes vacuous *)
  assert (Ist: forall s0, Inv s0 -> Inv (exec1 s0 (MoveDir false true j))).
  { intros s0 [J1 [J2 J3]]. unfold exec1. split; [|split]; simpl.
    - intros i a c Hp. destruct (Nat.eqb_spec i j) as [->|Hij]; [congruence|]. auto.
    - intros i a c Hp. auto.
    - auto. }
  assert (Imv: forall s0, Inv s0 -> (forall a c, a < narrays -> c < nent j a -> s0 (PWipE j a c) = Full) ->
                          Inv (exec1 s0 (MoveDir true false j))).
  { intros s0 [J1 [J2 J3]] Hfull. unfold exec1. split; [|split]; simpl.
    - intros i a c Hp Hd. destruct (Nat.eqb_spec i j) as [->|Hij]; [left; apply Hfull; apply Hp|]. auto.
    - auto.
    - auto. }
  rewrite firstn_app, exec_app.
  destruct M as [|m M'] eqn:EM.
  - simpl firstn at 1. rewrite firstn_nil. unfold exec at 2. simpl fold_left.
    destruct k1 as [|k1']; simpl; auto. rewrite firstn_nil. unfold exec. simpl. 
    apply Imv; auto. intros a c Ha Hc. apply Hw; auto.
  - assert (m = MoveDir false true j /\ M' = []) as [-> ->].
    { unfold M in EM. destruct (is_absent (s (PFinDir j))); inversion EM; auto. }
    destruct k1 as [|[|k1']]; simpl; unfold exec; simpl; auto.
    rewrite firstn_nil. simpl. apply Imv; [apply Ist; auto|].
    intros a c Ha Hc. unfold exec1. apply Hw; auto.
Qed.

(* ---- finalise ---- *)
Lemma move_inv t j a c : Inv t -> inplan j a c -> t (PFinDir j) = Full -> t (PFinE j a c) <> Absent ->
  t (PLoc a) <> Full -> Inv (exec1 t (MoveEntry j a c)).
Proof.
  intros [J1 [J2 J3]] Hp Hd Hne Hloc. unfold exec1.
  assert (Hfull: t (PFinE j a c) = Full) by (destruct (J1 j a c Hp Hd) as [H|[H _]]; congruence).
  split; [|split].
  - intros j' a' c' Hp' Hd'. rewrite (upd_other _ _ _ (PFinDir j')) in Hd' by congruence.
    rewrite (upd_other _ _ _ (PFinDir j')) in Hd' by congruence.
    destruct (path_eqb_spec (PFinE j' a' c') (PFinE j a c)) as [E|E].
    + inversion E; subst. right. split; [apply upd_same|]. rewrite upd_other by congruence. rewrite upd_same. exact Hfull.
    + rewrite (upd_other _ _ _ (PFinE j' a' c')) by congruence. rewrite (upd_other _ _ _ (PFinE j' a' c')) by congruence.
      rewrite (upd_other _ _ _ (PArrE a' j' c')) by congruence.
      destruct (path_eqb_spec (PArrE a' j' c') (PArrE a j c)) as [E2|E2]; [inversion E2; subst; congruence|].
      rewrite upd_other by congruence. apply J1; auto.
  - intros j' a' c' Hp' Hl. rewrite !upd_other in Hl by congruence.
    rewrite upd_other by congruence.
    destruct (path_eqb_spec (PArrE a' j' c') (PArrE a j c)) as [E2|E2]; [inversion E2; subst; congruence|].
    rewrite upd_other by congruence. apply J2; auto.
  - rewrite !upd_other by congruence. intros H a' Ha'. rewrite !upd_other by congruence. auto.
Qed.

Lemma move_frame t j a c p : p <> PFinE j a c -> p <> PArrE a j c -> exec1 t (MoveEntry j a c) p = t p.
Proof. intros. unfold exec1. rewrite !upd_other by congruence. reflexivity. Qed.

(* executing any prefix of a duplicate-free list of moves of present entries of array a *)
Lemma moves_inv a : forall (ents : list (nat * nat)) t k,
  NoDup ents -> Inv t -> t (PLoc a) <> Full ->
  (forall jc, In jc ents -> inplan (fst jc) a (snd jc) /\ t (PFinDir (fst jc)) = Full /\ t (PFinE (fst jc) a (snd jc)) <> Absent) ->
  let t' := exec t (firstn k (map (fun jc => MoveEntry (fst jc) a (snd jc)) ents)) in
  Inv t' /\ t' (PLoc a) = t (PLoc a) /\ (forall p, (forall j c, p <> PFinE j a c /\ p <> PArrE a j c) -> t' p = t p) /\
  (length ents <= k -> forall jc, In jc ents -> t' (PArrE a (fst jc) (snd jc)) = Full) /\
  (forall j c, ~ In (j, c) ents -> t' (PArrE a j c) = t (PArrE a j c)).
Proof.
  induction ents as [|[j c] tl IH]; intros t k Hnd HI Hloc Hall; simpl.
  - rewrite firstn_nil. unfold exec; simpl. split; [|split; [|split; [|split]]]; auto. intros H jc Hin; contradiction.
  - destruct k as [|k]; [unfold exec; simpl; split; [|split; [|split; [|split]]]; auto; intros; lia|].
    simpl firstn. unfold exec. simpl fold_left.
    change (fold_left exec1 (firstn k (map (fun jc => MoveEntry (fst jc) a (snd jc)) tl)) (exec1 t (MoveEntry j a c)))
      with (exec (exec1 t (MoveEntry j a c)) (firstn k (map (fun jc => MoveEntry (fst jc) a (snd jc)) tl))).
    inversion Hnd as [|? ? Hnin Hnd']; subst.
    destruct (Hall (j, c) (or_introl eq_refl)) as [Hp [Hd Hne]]. simpl in *.
    set (t1 := exec1 t (MoveEntry j a c)).
    assert (I1: Inv t1) by (apply move_inv; auto).
    assert (L1: t1 (PLoc a) <> Full) by (unfold t1; rewrite move_frame by congruence; auto).
    assert (A1: forall jc, In jc tl -> inplan (fst jc) a (snd jc) /\ t1 (PFinDir (fst jc)) = Full /\ t1 (PFinE (fst jc) a (snd jc)) <> Absent).
    { intros [j' c'] Hin. destruct (Hall (j', c') (or_intror Hin)) as [Hp' [Hd' Hne']]. simpl in *.
      assert ((j', c') <> (j, c)) by (intros E; rewrite E in Hin; contradiction).
      split; auto. unfold t1. rewrite !move_frame by congruence. auto. }
    destruct (IH t1 k Hnd' I1 L1 A1) as [R1 [R2 [R3 [R4 R5]]]].
    split; [exact R1|]. split; [rewrite R2; unfold t1; apply move_frame; congruence|].
    split; [intros p Hp'; rewrite R3 by auto; unfold t1; apply move_frame; apply Hp'|].
    split.
    + intros Hk [j' c'] [E|Hin].
      * inversion E; subst. simpl. rewrite R5 by auto. unfold t1, exec1. rewrite upd_other by congruence. rewrite upd_same.
        destruct HI as [J1 _]. destruct (J1 j' a c' Hp Hd) as [H|[H _]]; congruence.
      * apply R4; auto. lia.
    + intros j' c' Hn. rewrite R5 by (intros H; apply Hn; right; auto).
      unfold t1. apply move_frame; [congruence|]. intros E. inversion E; subst. apply Hn. left; auto.
Qed.

Definition ents_of (s : state) (a : nat) : list (nat * nat) :=
  flat_map (fun j => map (fun c => (j, c)) (present s j a)) (seq 0 nparts).

Lemma moves_as_map s a :
  flat_map (fun j => map (fun c => MoveEntry j a c) (present s j a)) (seq 0 nparts)
  = map (fun jc => MoveEntry (fst jc) a (snd jc)) (ents_of s a).
Proof.
  unfold ents_of. induction (seq 0 nparts) as [|j tl IH]; simpl; auto.
  rewrite map_app, IH. f_equal. rewrite map_map. reflexivity.
Qed.

Lemma NoDup_filter {A} (f : A -> bool) l : NoDup l -> NoDup (filter f l).
Proof. induction 1; simpl; [constructor|]. destruct (f x); auto. constructor; auto. intros H1. apply filter_In in H1. tauto. Qed.

Lemma ents_of_spec s a j c : In (j, c) (ents_of s a) <-> (j < nparts /\ c < nent j a /\ s (PFinE j a c) <> Absent).
Proof.
  unfold ents_of, present. rewrite in_flat_map. split.
  - intros [j' [Hj Hin]]. apply in_map_iff in Hin. destruct Hin as [c' [E Hc]]. inversion E; subst.
    apply filter_In in Hc. destruct Hc as [Hc Hne]. apply in_seq in Hj. apply in_seq in Hc.
    repeat split; try lia. destruct (s (PFinE j a c)); simpl in *; congruence.
  - intros [Hj [Hc Hne]]. exists j. split; [apply in_seq; lia|]. apply in_map_iff. exists c. split; auto.
    apply filter_In. split; [apply in_seq; lia|]. destruct (s (PFinE j a c)); simpl; congruence.
Qed.

Lemma NoDup_app_intro {A} (l1 l2 : list A) : NoDup l1 -> NoDup l2 -> (forall x, In x l1 -> In x l2 -> False) -> NoDup (l1 ++ l2).
Proof.
  induction 1 as [|x l Hnin Hnd IH]; simpl; intros H2 Hd; auto.
  constructor.
  - intros Hin. apply in_app_or in Hin. destruct Hin as [Hin|Hin]; [contradiction|]. apply (Hd x); auto.
  - apply IH; auto. intros y Hy1 Hy2. apply (Hd y); auto.
Qed.

Lemma ents_of_NoDup s a : NoDup (ents_of s a).
Proof.
  unfold ents_of.
  assert (G: forall l, NoDup l -> NoDup (flat_map (fun j => map (fun c => (j, c)) (present s j a)) l)).
  { induction 1 as [|j l Hnin Hnd IH]; simpl; [constructor|].
    apply NoDup_app_intro; auto.
    - apply FinFun.Injective_map_NoDup; [intros x y E; inversion E; auto|]. apply NoDup_filter. apply seq_NoDup.
    - intros [j' c'] H1 H2. apply in_map_iff in H1. destruct H1 as [c0 [E _]]. inversion E; subst.
      apply in_flat_map in H2. destruct H2 as [j2 [Hj2 H2]]. apply in_map_iff in H2. destruct H2 as [c2 [E2 _]]. inversion E2; subst. contradiction. }
  apply G. apply seq_NoDup.
Qed.

Lemma finalise_arrays_inv s0 : forall arrays t k,
  NoDup arrays -> (forall a, In a arrays -> a < narrays) ->
  Inv t -> (forall j, j < nparts -> t (PFinDir j) = Full) ->
  (forall a, In a arrays -> (forall j c, t (PFinE j a c) = s0 (PFinE j a c)) /\ t (PLoc a) = s0 (PLoc a)) ->
  (forall a, a < narrays -> ~ In a arrays -> t (PLoc a) = Full) ->
  Inv (exec t (firstn k (finalise_arrays s0 arrays))).
Proof.
  induction arrays as [|a tl IH]; intros t k Hnd Hlt HI Hdir Hagree Hdone; simpl finalise_arrays.
  - destruct k; [exact HI|]. simpl. rewrite firstn_nil. unfold exec; simpl. unfold exec1.
    destruct HI as [J1 [J2 J3]]. split; [|split].
    + intros j a c Hp. rewrite !upd_other by congruence. auto.
    + intros j a c Hp. rewrite !upd_other by congruence. auto.
    + intros _ a Ha. rewrite upd_other by congruence. apply Hdone; auto.
  - destruct (is_full (s0 (PLoc a))) eqn:Eloc; [destruct k; exact HI|].
    inversion Hnd as [|? ? Hnin Hnd']; subst.
    destruct (Hagree a (or_introl eq_refl)) as [HaE HaL].
    assert (Hla: t (PLoc a) <> Full) by (rewrite HaL; destruct (s0 (PLoc a)); simpl in *; congruence).
    assert (Han: a < narrays) by (apply Hlt; left; auto).
    rewrite moves_as_map. set (ents := ents_of s0 a).
    assert (Hents: forall jc, In jc ents -> inplan (fst jc) a (snd jc) /\ t (PFinDir (fst jc)) = Full /\ t (PFinE (fst jc) a (snd jc)) <> Absent).
    { intros [j c] Hin. apply ents_of_spec in Hin. destruct Hin as [Hj [Hc Hne]]. simpl.
      split; [repeat split; auto|]. split; [apply Hdir; auto|]. rewrite HaE. auto. }
    rewrite firstn_app, exec_app.
    destruct (moves_inv a ents t k (ents_of_NoDup s0 a) HI Hla Hents) as [R1 [R2 [R3 [R4 R5]]]].
    rewrite map_length.
    destruct (Nat.le_gt_cases k (length ents)) as [Hk|Hk].
    { replace (k - length ents) with 0 by lia. exact R1. }
    set (t1 := exec t (firstn k (map (fun jc => MoveEntry (fst jc) a (snd jc)) ents))) in *.
    specialize (R4 ltac:(lia)).
    assert (Hall: forall j c, inplan j a c -> t1 (PArrE a j c) = Full).
    { assert (Hdec: forall x y : nat * nat, {x = y} + {x <> y}) by (decide equality; apply Nat.eq_dec).
      intros j c Hp. destruct (in_dec Hdec (j, c) ents) as [Hin|Hn].
      - apply (R4 (j, c) Hin).
      - rewrite R5 by auto. destruct HI as [J1 _]. destruct Hp as [Hj [_ Hc]].
        destruct (J1 j a c ltac:(repeat split; auto) (Hdir j Hj)) as [H|[_ H]]; auto.
        exfalso. apply Hn. apply ents_of_spec. repeat split; auto. rewrite <- HaE. congruence. }
    destruct (k - length ents) as [|k'] eqn:Ek; [lia|]. simpl firstn.
    unfold exec at 1. simpl fold_left. 
    change (fold_left exec1 (firstn k' (finalise_arrays s0 tl)) (exec1 t1 (Fill (PLoc a))))
      with (exec (exec1 t1 (Fill (PLoc a))) (firstn k' (finalise_arrays s0 tl))).
    set (t2 := exec1 t1 (Fill (PLoc a))).
    assert (F2: forall p, p <> PLoc a -> t2 p = t1 p) by (intros; unfold t2, exec1; apply upd_other; auto).
    assert (F1: forall p, (forall j c, p <> PFinE j a c /\ p <> PArrE a j c) -> t1 p = t p) by (intros; apply R3; auto).
    apply IH; auto.
    + intros a' Ha'. apply Hlt. right; auto.
    + (* Inv t2 *)
      destruct R1 as [J1 [J2 J3]]. split; [|split].
      * intros j a' c Hp. rewrite !F2 by congruence. auto.
      * intros j a' c Hp Hl. rewrite F2 by congruence.
        destruct (Nat.eq_dec a' a) as [->|Hne]; [apply Hall; auto|].
        rewrite F2 in Hl by congruence. apply J2; auto.
      * intros Hz a' Ha'. destruct (Nat.eq_dec a' a) as [->|Hne]; [unfold t2, exec1; apply upd_same|].
        rewrite F2 in * by congruence. apply J3; auto.
    + intros j Hj. rewrite F2 by congruence. rewrite F1; [apply Hdir; auto|]. intros; split; congruence.
    + intros a' Ha'. assert (a' <> a) by (intros ->; contradiction).
      destruct (Hagree a' (or_intror Ha')) as [HE HL]. split.
      * intros j c. rewrite F2 by congruence. rewrite F1; [apply HE|]. intros; split; congruence.
      * rewrite F2 by congruence. rewrite F1; [apply HL|]. intros; split; congruence.
    + intros a' Ha' Hn. destruct (Nat.eq_dec a' a) as [->|Hne]; [unfold t2, exec1; apply upd_same|].
      rewrite F2 by congruence. rewrite F1; [apply Hdone; auto|]. 
      * intros [E|E]; [congruence|contradiction].
      * intros; split; congruence.
Qed.

Lemma all_fin_spec s : all_fin s = true -> forall j, j < nparts -> s (PFinDir j) = Full.
Proof.
  unfold all_fin. rewrite forallb_forall. intros H j Hj. specialize (H j). rewrite in_seq in H.
  specialize (H ltac:(lia)). destruct (s (PFinDir j)); simpl in *; congruence.
Qed.

Lemma finalise_inv s k : Inv s -> Inv (exec s (firstn k (steps s Finalise))).
Proof.
  intros HI. unfold steps. destruct (is_full (s PMeta) && all_fin s) eqn:E; [|destruct k; exact HI].
  apply andb_true_iff in E. destruct E as [_ E].
  apply finalise_arrays_inv; auto.
  - apply seq_NoDup.
  - intros a Ha. apply in_seq in Ha. lia.
  - apply all_fin_spec; auto.
  - intros a Ha Hn. exfalso. apply Hn. apply in_seq. lia.
Qed.

Lemma init_inv s k : Inv s -> Inv (exec s (firstn k (steps s Init))).
Proof.
  intros HI. unfold steps. destruct (is_absent (s PMeta)); [|destruct k; exact HI].
  apply (Inv_ext s); auto. intros p Hp. apply exec_irrelevant; auto. apply firstn_Forall.
  repeat constructor; eexists; split; reflexivity.
Qed.

Theorem run_inv : fixed = true -> forall h s, Inv s -> Inv (run s h).
Proof.
  intros Hfix. induction h as [|[c k] h IH]; intros s HI; simpl; auto.
  apply IH. unfold run1; simpl.
  assert (G: forall k, Inv (exec s (firstn k (steps s c)))).
  { intros k'. destruct c; [apply init_inv | apply partition_inv | apply finalise_inv]; auto. }
  destruct k as [k|]; [apply G|]. rewrite <- (firstn_all (steps s c)). apply G.
Qed.

Lemma Inv_empty : Inv empty.
Proof. unfold Inv, empty. repeat split; intros; congruence. Qed.

(* C06, first clause: after ANY history of commands and kills, consolidated metadata implies every entry of every array is in place *)
Theorem never_falsely_finished : fixed = true -> forall h, finished (run empty h) -> complete (run empty h).
Proof.
  intros Hfix h Hz. destruct (run_inv Hfix h empty Inv_empty) as [_ [J2 J3]].
  intros a j c Ha Hj Hc. apply J2; [repeat split; auto|]. apply J3; auto.
Qed.
End VczProtocol.

(* ---- the pre-fix protocol is refuted (F7): 3 partitions, 1 array, 1 entry each ---- *)
Definition nent1 (j a : nat) := 1.
Definition hist_F7 : list (cmd * option nat) :=
  [ (Init, None); (Partition 0 [(0,0)], None); (Partition 1 [(0,0)], None); (Partition 2 [(0,0)], None);
    (Partition 1 [(0,0)], Some 4);      (* rerun, killed after unlinking the old chunk, before rmdir *)
    (Finalise, None) ].
Definition st_F7 := run 3 1 nent1 false empty hist_F7.
Theorem vcz_partial_partition_refuted : st_F7 PZmeta = Full /\ st_F7 (PArrE 0 1 0) = Absent.
Proof. vm_compute. split; reflexivity. Qed.
(* with the fix the same history ends unfinished (finalise refuses: p1 is not in place) ... *)
Example F7_fixed_refuses : run 3 1 nent1 true empty hist_F7 PZmeta = Absent.
Proof. vm_compute. reflexivity. Qed.
(* ... and re-running partition 1 and finalise completes with every entry in place *)
Example F7_fixed_recovers :
  let s := run 3 1 nent1 true empty (hist_F7 ++ [(Partition 1 [(0,0)], None); (Finalise, None)]) in
  s PZmeta = Full /\ s (PArrE 0 0 0) = Full /\ s (PArrE 0 1 0) = Full /\ s (PArrE 0 2 0) = Full.
Proof. vm_compute. repeat split. Qed.
