(* Protocol/IcfEffects.v -- meaning of an effect list (Base/Eff.v) of the distributed explode over
   the abstract file system of Protocol/IcfProtocol.v.

   `denote l s` executes the effects in program order from state s and returns the file-system
   steps the command issues: a guard that fails ends the command (what was done stays done), a
   mutation is appended and the following effects see the state after it.  `None` = the list
   contains an effect that has no meaning in this protocol (the bridge lemmas then fail).

   What the model does not represent, and how the corresponding effects are read:
   * directories (mkdir of the root, of wip/ and of the field directories) -- no steps; "the root
     exists" is read as "header, wip metadata or final metadata exists in some form" (`started`);
   * raising checks on the data (scan, clobbering, record totals, overlap) -- assumed to pass: the
     protocol theorems are about inputs that convert (C13 is about those that do not). *)
From Coq Require Import Arith List Bool.
From B2Z Require Import Base.Eff Protocol.IcfProtocol.
Import ListNotations.

Section IcfEffects.
Variable nparts : nat.
Variable j : nat.                  (* the partition a partition command is about *)
Variable order : list nat.         (* order in which the partition's data files are written *)
Variable rm_order : list path.     (* order in which rmtree(wip) removes *)

Definition file_of (p : sym) : option path :=
  match p with
  | IHeader => Some PHeader | IWipMeta => Some PWipMeta | IFinalMeta => Some PFinalMeta
  | ISummaryCur => Some (PSummary j)
  | _ => None
  end.

Definition andthen (a : list step) (s : state) (k : state -> option (list step)) : option (list step) :=
  match k (exec s a) with Some r => Some (a ++ r) | None => None end.

Fixpoint denote (l : list eff) (s : state) : option (list step) :=
  match l with
  | [] => Some []
  | e :: tl =>
    match e with
    | GuardAbsent IRoot => if started s then Some [] else denote tl s
    | GuardAbsent p =>
        match file_of p with Some f => if is_absent (s f) then denote tl s else Some [] | None => None end
    | GuardRange => if j <? nparts then denote tl s else Some []
    | ReadFile p =>
        match file_of p with Some f => if is_full (s f) then denote tl s else Some [] | None => None end
    | ReadAllSummaries => if summaries_full nparts s then denote tl s else Some []
    | PureCheck | Mkdir IRoot | Mkdir IWip | MkdirFields => denote tl s
    | WriteFile p => match file_of p with Some f => andthen (write f) s (denote tl) | None => None end
    | UnlinkIfExists p =>
        match file_of p with
        | Some f => if is_absent (s f) then denote tl s else andthen [Unlink f] s (denote tl)
        | None => None
        end
    | WriteData => andthen (flat_map (fun k => write (PData j k)) order) s (denote tl)
    | Rmtree IWip => andthen (map Unlink rm_order) s (denote tl)
    | _ => None
    end
  end.

End IcfEffects.
