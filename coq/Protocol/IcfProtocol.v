(* Protocol/IcfProtocol.v -- step-machine model of the distributed explode protocol, its invariant and
   the safety / recovery theorems (from the design-phase prototype, unchanged). *)
From Coq Require Import Arith List Bool Lia.
Import ListNotations.

(* ---------- plan ---------- *)
Section IcfProtocol.
Variable nparts : nat.
(* data-bearing files of partition j (chunks and chunk_index of every field), as opaque ids *)
Variable nfiles : nat -> nat.              (* number of data files of partition j *)
Variable fixed : bool.                      (* model the F6 fix (partition refuses once final metadata exists) *)

Inductive path :=
| PHeader | PWipMeta | PFinalMeta
| PSummary (j : nat)
| PData (j k : nat).                        (* k-th data file of partition j *)

Definition path_eqb (a b : path) : bool :=
  match a, b with
  | PHeader, PHeader | PWipMeta, PWipMeta | PFinalMeta, PFinalMeta => true
  | PSummary i, PSummary j => Nat.eqb i j
  | PData i k, PData j l => Nat.eqb i j && Nat.eqb k l
  | _, _ => false
  end.
Lemma path_eqb_spec a b : reflect (a = b) (path_eqb a b).
Proof.
  destruct a, b; simpl; try (constructor; congruence).
  - destruct (Nat.eqb_spec j j0); constructor; congruence.
  - destruct (Nat.eqb_spec j j0), (Nat.eqb_spec k k0); simpl; constructor; congruence.
Qed.

Inductive fstate := Absent | Torn | Full.
Definition state := path -> fstate.
Definition upd (s : state) (p : path) (v : fstate) : state := fun q => if path_eqb q p then v else s q.

(* a write is open-for-write (truncate) followed by the data reaching the file *)
Inductive step := Trunc (p : path) | Fill (p : path) | Unlink (p : path).
Definition exec1 (s : state) (st : step) : state :=
  match st with Trunc p => upd s p Torn | Fill p => upd s p Full | Unlink p => upd s p Absent end.
Definition exec (s : state) (l : list step) : state := fold_left exec1 l s.
Definition write (p : path) := [Trunc p; Fill p].

Inductive cmd := Init | Partition (j : nat) (order : list nat) | Finalise (rm_order : list path).

Definition summaries_full (s : state) : bool := forallb (fun j => match s (PSummary j) with Full => true | _ => false end) (seq 0 nparts).
Definition is_full (x : fstate) := match x with Full => true | _ => false end.
Definition is_absent (x : fstate) := match x with Absent => true | _ => false end.
Definition started (s : state) : bool := negb (is_absent (s PHeader) && is_absent (s PWipMeta) && is_absent (s PFinalMeta)).

(* The step list a command issues from state s; [] = refused with an error, nothing touched.
   `order` (a permutation of the partition's data files) and `rm_order` (rmtree's listing order)
   are universally quantified. *)
Definition steps (s : state) (c : cmd) : list step :=
  match c with
  | Init => if started s then [] else write PHeader ++ write PWipMeta
  | Partition j order =>
      if is_full (s PWipMeta) && (j <? nparts) && negb (fixed && negb (is_absent (s PFinalMeta))) then
        (if is_absent (s (PSummary j)) then [] else [Unlink (PSummary j)])
        ++ flat_map (fun k => write (PData j k)) order ++ write (PSummary j)
      else []
  | Finalise rm_order =>
      if is_full (s PWipMeta) && summaries_full s then
        write PFinalMeta ++ map Unlink rm_order
      else []
  end.

(* well-formed command parameters *)
Definition perm_of_files (j : nat) (order : list nat) : Prop :=
  forall k, k < nfiles j -> In k order.
Definition wip_path (p : path) : Prop := p = PWipMeta \/ exists j, p = PSummary j.
Definition cmd_ok (c : cmd) : Prop :=
  match c with
  | Init => True
  | Partition j order => perm_of_files j order
  | Finalise rm => forall p, In p rm -> wip_path p
  end.

(* a history: commands, each possibly killed after a prefix of its steps *)
Definition run1 (s : state) (ck : cmd * option nat) : state :=
  let l := steps s (fst ck) in
  exec s (match snd ck with None => l | Some k => firstn k l end).
Definition run (s : state) (h : list (cmd * option nat)) : state := fold_left run1 h s.

Definition empty : state := fun _ => Absent.

(* observations *)
Definition loads (s : state) : Prop := s PFinalMeta = Full /\ s PHeader = Full.
Definition part_complete (s : state) (j : nat) : Prop := forall k, k < nfiles j -> s (PData j k) = Full.
Definition complete (s : state) : Prop := forall j, j < nparts -> part_complete s j.

Definition Inv (s : state) : Prop :=
  (forall j, j < nparts -> s (PSummary j) = Full -> part_complete s j) /\
  (s PFinalMeta <> Absent -> complete s) /\
  (s PWipMeta <> Absent -> s PHeader = Full) /\
  (s PFinalMeta <> Absent -> s PHeader = Full).

(* ---------- preservation ---------- *)
Lemma upd_same s p v : upd s p v p = v.
Proof. unfold upd. destruct (path_eqb_spec p p); congruence. Qed.
Lemma upd_other s p v q : q <> p -> upd s p v q = s q.
Proof. unfold upd. destruct (path_eqb_spec q p); congruence. Qed.

Lemma exec_app s a b : exec s (a ++ b) = exec (exec s a) b.
Proof. unfold exec. apply fold_left_app. Qed.


Definition target (st : step) : path := match st with Trunc p | Fill p | Unlink p => p end.

Lemma frame l : forall s p, (forall st, In st l -> target st <> p) -> exec s l p = s p.
Proof.
  induction l as [|st l IH]; intros s p H; simpl; auto.
  unfold exec in *. simpl. rewrite IH by (intros; apply H; simpl; auto).
  assert (target st <> p) by (apply H; simpl; auto).
  destruct st; simpl in *; apply upd_other; congruence.
Qed.

Lemma firstn_In {A} (l : list A) k x : In x (firstn k l) -> In x l.
Proof. revert k; induction l; intros [|k]; simpl; auto; intros []; auto. right; eauto. Qed.

(* ----- Init ----- *)
Lemma init_inv s k : Inv s -> Inv (exec s (firstn k (steps s Init))).
Proof.
  intros HI. unfold steps. destruct (started s) eqn:E; [destruct k; exact HI|].
  unfold started in E. apply negb_false_iff in E. apply andb_true_iff in E. destruct E as [E E3]. apply andb_true_iff in E. destruct E as [E1 E2].
  assert (s PHeader = Absent) by (destruct (s PHeader); simpl in *; congruence).
  assert (s PWipMeta = Absent) by (destruct (s PWipMeta); simpl in *; congruence).
  assert (s PFinalMeta = Absent) by (destruct (s PFinalMeta); simpl in *; congruence).
  destruct HI as [I1 [I2 [I3 I4]]].
  assert (G: forall s', (forall j, s' (PSummary j) = s (PSummary j)) -> (forall j k, s' (PData j k) = s (PData j k)) ->
             s' PFinalMeta = Absent -> (s' PWipMeta <> Absent -> s' PHeader = Full) -> Inv s').
  { intros s' Hs Hd Hf Hw. split; [|split; [|split]]; auto; try congruence.
    intros j Hj Hsum k' Hk'. rewrite Hd. apply I1; auto. now rewrite <- Hs. }
  destruct k as [|[|[|[|k]]]]; simpl; rewrite ?firstn_nil; apply G; unfold exec; simpl; intros;
    repeat first [rewrite upd_same in * | rewrite upd_other in * by congruence]; auto; try congruence.
Qed.

(* ----- Partition ----- *)
Lemma part_prefix_inv j s l :
  Inv s -> s PFinalMeta = Absent -> s (PSummary j) <> Full ->
  (forall st, In st l -> exists k, target st = PData j k) -> Inv (exec s l).
Proof.
  intros [I1 [I2 [I3 I4]]] Hf Hs Hl.
  assert (F: forall p, (forall k, p <> PData j k) -> exec s l p = s p).
  { intros p Hp. apply frame. intros st Hst. destruct (Hl st Hst) as [k ->]. auto. }
  split; [|split; [|split]].
  - intros i Hi Hsum. rewrite F in Hsum by congruence.
    destruct (Nat.eq_dec i j) as [->|Hij]; [congruence|].
    intros k Hk. rewrite F by congruence. apply I1; auto.
  - rewrite F by congruence. congruence.
  - rewrite !F by congruence. auto.
  - rewrite !F by congruence. congruence.
Qed.

Lemma writes_full j order : forall s k,
  (In k order \/ s (PData j k) = Full) ->
  exec s (flat_map (fun k => write (PData j k)) order) (PData j k) = Full.
Proof.
  induction order as [|k0 tl IH]; intros s k H; simpl.
  - destruct H as [[]|H]; auto.
  - unfold exec in *. simpl. apply IH.
    destruct (Nat.eq_dec k k0) as [->|Hk]; [right; rewrite upd_same; auto|].
    destruct H as [[H|H]|H]; [congruence|auto|right]. rewrite !upd_other by congruence. auto.
Qed.


Lemma Inv_unlink_summary s j : Inv s -> Inv (upd s (PSummary j) Absent).
Proof.
  intros [I1 [I2 [I3 I4]]]. split; [|split; [|split]].
  - intros i Hi Hs k Hk. rewrite upd_other by congruence.
    destruct (Nat.eq_dec i j) as [->|Hij]; [rewrite upd_same in Hs; congruence|].
    rewrite upd_other in Hs by congruence. apply I1; auto.
  - rewrite upd_other by congruence. intros H j' Hj' k Hk. rewrite upd_other by congruence. apply I2; auto.
  - rewrite !upd_other by congruence. auto.
  - rewrite !upd_other by congruence. auto.
Qed.

Lemma Inv_summary_nonfull s j v : v <> Full -> Inv s -> Inv (upd s (PSummary j) v).
Proof.
  intros Hv [I1 [I2 [I3 I4]]]. split; [|split; [|split]].
  - intros i Hi Hs k Hk. rewrite upd_other by congruence.
    destruct (Nat.eq_dec i j) as [->|Hij]; [rewrite upd_same in Hs; congruence|].
    rewrite upd_other in Hs by congruence. apply I1; auto.
  - rewrite upd_other by congruence. intros H j' Hj' k Hk. rewrite upd_other by congruence. apply I2; auto.
  - rewrite !upd_other by congruence. auto.
  - rewrite !upd_other by congruence. auto.
Qed.

Lemma Inv_summary_full s j : part_complete s j -> Inv s -> Inv (upd s (PSummary j) Full).
Proof.
  intros Hc [I1 [I2 [I3 I4]]]. split; [|split; [|split]].
  - intros i Hi Hs k Hk. rewrite upd_other by congruence.
    destruct (Nat.eq_dec i j) as [->|Hij]; [apply Hc; auto|].
    rewrite upd_other in Hs by congruence. apply I1; auto.
  - rewrite upd_other by congruence. intros H j' Hj' k Hk. rewrite upd_other by congruence. apply I2; auto.
  - rewrite !upd_other by congruence. auto.
  - rewrite !upd_other by congruence. auto.
Qed.

Lemma data_targets j order st : In st (flat_map (fun k => write (PData j k)) order) -> exists k, target st = PData j k.
Proof.
  induction order as [|k0 tl IH]; simpl; [intros []|].
  intros [<-|[<-|H]]; simpl; eauto.
Qed.

Lemma partition_inv s j order k : fixed = true -> cmd_ok (Partition j order) ->
  Inv s -> Inv (exec s (firstn k (steps s (Partition j order)))).
Proof.
  intros Hfix Hok HI. unfold steps. rewrite Hfix. simpl andb.
  destruct (is_full (s PWipMeta) && (j <? nparts) && negb (negb (is_absent (s PFinalMeta)))) eqn:En;
    [|destruct k; exact HI].
  apply andb_true_iff in En. destruct En as [En E3]. apply andb_true_iff in En. destruct En as [E1 E2].
  rewrite negb_involutive in E3.
  assert (Hfin: s PFinalMeta = Absent) by (destruct (s PFinalMeta); simpl in *; congruence).
  set (U := if is_absent (s (PSummary j)) then [] else [Unlink (PSummary j)]).
  set (D := flat_map (fun k0 => write (PData j k0)) order).
  (* state after U *)
  set (sU := exec s U).
  assert (HsU: Inv sU /\ sU (PSummary j) = Absent /\ sU PFinalMeta = Absent).
  { unfold sU, U. destruct (is_absent (s (PSummary j))) eqn:Ea; unfold exec; simpl.
    - split; [exact HI|split; [|exact Hfin]]. destruct (s (PSummary j)); simpl in *; congruence.
    - split; [apply Inv_unlink_summary; auto | split; [apply upd_same | rewrite upd_other by congruence; auto]]. }
  destruct HsU as [IU [SU FU]].
  rewrite firstn_app, exec_app.
  destruct (Nat.le_gt_cases k (length U)) as [HkU|HkU].
  { (* inside U *)
    replace (k - length U) with 0 by lia. simpl firstn. unfold exec at 1. simpl.
    unfold U in *. destruct (is_absent (s (PSummary j))); simpl in *.
    - destruct k; simpl; auto.
    - destruct k as [|[|k]]; simpl; auto; try lia. }
  rewrite (firstn_all2 U) by lia. fold sU.
  rewrite firstn_app, exec_app.
  set (k1 := k - length U) in *.
  assert (HD: Inv (exec sU (firstn k1 D))).
  { apply (part_prefix_inv j); auto; try congruence.
    intros st Hst. apply firstn_In in Hst. eapply data_targets; eauto. }
  destruct (Nat.le_gt_cases k1 (length D)) as [HkD|HkD].
  { replace (k1 - length D) with 0 by lia. simpl firstn. unfold exec at 1. simpl. exact HD. }
  rewrite (firstn_all2 D) in * by lia.
  set (sD := exec sU D) in *.
  assert (HsD: sD (PSummary j) = Absent /\ part_complete sD j).
  { split.
    - unfold sD. rewrite frame; auto. intros st Hst. destruct (data_targets _ _ _ Hst) as [k' ->]. congruence.
    - intros k' Hk'. unfold sD, D. apply writes_full. left. apply Hok; auto. }
  destruct HsD as [SD CD].
  destruct (k1 - length D) as [|[|[|k2]]]; unfold write; simpl firstn; unfold exec; simpl; auto.
  - apply Inv_summary_nonfull; auto; congruence.
  - apply Inv_summary_full.
    + intros k' Hk'. rewrite upd_other by congruence. apply CD; auto.
    + apply Inv_summary_nonfull; auto; congruence.
  - rewrite ?firstn_nil. simpl. apply Inv_summary_full.
    + intros k' Hk'. rewrite upd_other by congruence. apply CD; auto.
    + apply Inv_summary_nonfull; auto; congruence.
Qed.


Lemma summaries_full_spec s : summaries_full s = true -> forall j, j < nparts -> s (PSummary j) = Full.
Proof.
  unfold summaries_full. rewrite forallb_forall. intros H j Hj.
  specialize (H j). rewrite in_seq in H. specialize (H ltac:(lia)). destruct (s (PSummary j)); congruence.
Qed.

Lemma finalise_inv s rm k : cmd_ok (Finalise rm) -> Inv s -> Inv (exec s (firstn k (steps s (Finalise rm)))).
Proof.
  intros Hok HI. unfold steps.
  destruct (is_full (s PWipMeta) && summaries_full s) eqn:En; [|destruct k; exact HI].
  apply andb_true_iff in En. destruct En as [E1 E2].
  pose proof (summaries_full_spec s E2) as Hsum.
  destruct HI as [I1 [I2 [I3 I4]]].
  assert (Hcomp: complete s) by (intros j Hj; apply I1; auto).
  assert (Hhead: s PHeader = Full) by (apply I3; destruct (s PWipMeta); simpl in *; congruence).
  set (l := firstn k (write PFinalMeta ++ map Unlink rm)).
  assert (Hl: forall st, In st l -> target st = PFinalMeta \/ wip_path (target st)).
  { intros st Hst. apply firstn_In in Hst. apply in_app_or in Hst. destruct Hst as [Hst|Hst].
    - simpl in Hst. destruct Hst as [<-|[<-|[]]]; auto.
    - apply in_map_iff in Hst. destruct Hst as [p [<- Hp]]. right. apply Hok; auto. }
  assert (F: forall p, p <> PFinalMeta -> ~ wip_path p -> exec s l p = s p).
  { intros p H1 H2. apply frame. intros st Hst E. destruct (Hl st Hst) as [H|H]; congruence. }
  assert (Fd: forall j k', exec s l (PData j k') = s (PData j k')).
  { intros. apply F; [congruence|]. intros [H|[j' H]]; congruence. }
  assert (Fh: exec s l PHeader = s PHeader).
  { apply F; [congruence|]. intros [H|[j' H]]; congruence. }
  split; [|split; [|split]].
  - intros j Hj _ k' Hk'. rewrite Fd. apply Hcomp; auto.
  - intros _ j Hj k' Hk'. rewrite Fd. apply Hcomp; auto.
  - intros _. congruence.
  - intros _. congruence.
Qed.

Definition hist_ok (h : list (cmd * option nat)) : Prop := Forall (fun ck => cmd_ok (fst ck)) h.

Theorem run_inv : fixed = true -> forall h s, hist_ok h -> Inv s -> Inv (run s h).
Proof.
  intros Hfix. induction h as [|[c k] h IH]; intros s Hh HI; simpl; auto.
  inversion Hh as [|? ? Hc Hh']; subst. apply IH; auto. unfold run1; simpl.
  assert (G: forall k, Inv (exec s (firstn k (steps s c)))).
  { intros k'. destruct c; [apply init_inv | apply partition_inv | apply finalise_inv]; auto. }
  destruct k as [k|]; [apply G|]. rewrite <- (firstn_all (steps s c)). apply G.
Qed.

Lemma Inv_empty : Inv empty.
Proof. unfold Inv, empty. repeat split; intros; congruence. Qed.

(* C05, first clause: after ANY history of commands and kills, a store that loads is complete. *)
Theorem never_falsely_complete : fixed = true -> forall h, hist_ok h -> loads (run empty h) -> complete (run empty h).
Proof.
  intros Hfix h Hh [Hl _]. destruct (run_inv Hfix h empty Hh Inv_empty) as [_ [I2 _]]. apply I2. congruence.
Qed.

(* finalise touches nothing unless every partition summary is Full (hence, by Inv, every partition is complete) *)
Theorem finalise_guard s rm : Inv s -> steps s (Finalise rm) <> [] -> complete s.
Proof.
  intros [I1 _] H. unfold steps in H. destruct (is_full (s PWipMeta) && summaries_full s) eqn:E; [|congruence].
  apply andb_true_iff in E. destruct E as [_ E]. intros j Hj. apply I1; auto. apply summaries_full_spec; auto.
Qed.


(* ---------- recovery: from any state where init completed and finalise has not started,
   running every partition to completion and then finalise yields exactly the reference store ---------- *)
Definition ref : state := fun p =>
  match p with
  | PHeader | PFinalMeta => Full
  | PData j k => if (j <? nparts) && (k <? nfiles j) then Full else Absent
  | _ => Absent
  end.
Definition recover_history : list (cmd * option nat) :=
  map (fun j => (Partition j (seq 0 (nfiles j)), None)) (seq 0 nparts)
  ++ [(Finalise (PWipMeta :: map PSummary (seq 0 nparts)), None)].

Definition recoverable (s : state) : Prop :=
  s PWipMeta = Full /\ s PFinalMeta = Absent /\ s PHeader = Full /\
  (forall j k, ~ (j < nparts /\ k < nfiles j) -> s (PData j k) = Absent) /\
  (forall j, nparts <= j -> s (PSummary j) = Absent).

Lemma partition_complete_effect s j : fixed = true -> recoverable s -> j < nparts ->
  let s' := run1 s (Partition j (seq 0 (nfiles j)), None) in
  recoverable s' /\ s' (PSummary j) = Full /\ part_complete s' j /\
  (forall i, i <> j -> s' (PSummary i) = s (PSummary i)) /\
  (forall i k, i <> j -> s' (PData i k) = s (PData i k)).
Proof.
  intros Hfix [Hw [Hf [Hh [Hd Hs]]]] Hj. unfold run1; simpl fst; simpl snd. unfold steps. rewrite Hfix, Hw, Hf.
  assert (j <? nparts = true) as -> by (apply Nat.ltb_lt; auto). simpl andb. cbn [negb is_absent is_full andb].
  set (U := if is_absent (s (PSummary j)) then [] else [Unlink (PSummary j)]).
  set (D := flat_map (fun k0 => write (PData j k0)) (seq 0 (nfiles j))).
  rewrite !exec_app.
  set (sU := exec s U). set (sD := exec sU D).
  assert (FU: forall p, p <> PSummary j -> sU p = s p).
  { intros p Hp. unfold sU, U. destruct (is_absent (s (PSummary j))); unfold exec; simpl; auto. apply upd_other; auto. }
  assert (FD: forall p, (forall k, p <> PData j k) -> sD p = sU p).
  { intros p Hp. unfold sD. apply frame. intros st Hst. destruct (data_targets _ _ _ Hst) as [k ->]. auto. }
  assert (DD: forall k, k < nfiles j -> sD (PData j k) = Full).
  { intros k Hk. unfold sD, D. apply writes_full. left. apply in_seq. lia. }
  assert (DO: forall k, nfiles j <= k -> sD (PData j k) = Absent).
  { intros k Hk. unfold sD. rewrite frame.
    - rewrite FU by congruence. apply Hd. lia.
    - intros st Hst. unfold D in Hst. apply in_flat_map in Hst. destruct Hst as [k' [Hk' Hst]]. apply in_seq in Hk'.
      simpl in Hst. destruct Hst as [<-|[<-|[]]]; simpl; intros E; inversion E; lia. }
  unfold write, exec at 1. simpl fold_left.
  set (s' := upd (upd sD (PSummary j) Torn) (PSummary j) Full).
  assert (F': forall p, p <> PSummary j -> s' p = sD p) by (intros; unfold s'; rewrite !upd_other; auto).
  split; [|split; [|split; [|split]]].
  - split; [|split; [|split; [|split]]].
    + rewrite F', FD, FU by congruence. auto.
    + rewrite F', FD, FU by congruence. auto.
    + rewrite F', FD, FU by congruence. auto.
    + intros i k Hik. rewrite F' by congruence. destruct (Nat.eq_dec i j) as [->|Hij].
      * apply DO. lia.
      * rewrite FD, FU by congruence. auto.
    + intros i Hi. rewrite F' by (intros E; inversion E; lia). rewrite FD, FU by (try congruence; intros E; inversion E; lia). auto.
  - unfold s'. apply upd_same.
  - intros k Hk. rewrite F' by congruence. apply DD; auto.
  - intros i Hij. rewrite F' by congruence. rewrite FD, FU by congruence. reflexivity.
  - intros i k Hij. rewrite F' by congruence. rewrite FD, FU by congruence. reflexivity.
Qed.

Theorem rerun_recovers : fixed = true -> forall s, recoverable s -> forall p, run s recover_history p = ref p.
Proof.
  intros Hfix s Hrec. unfold recover_history, run. rewrite fold_left_app.
  (* after the partition phase: every summary Full, every planned data file Full *)
  assert (G: forall js s0, recoverable s0 -> (forall j, In j js -> j < nparts) -> NoDup js ->
            let s1 := fold_left (run1) (map (fun j => (Partition j (seq 0 (nfiles j)), None)) js) s0 in
            recoverable s1 /\ (forall j, In j js -> s1 (PSummary j) = Full /\ part_complete s1 j) /\
            (forall j, ~ In j js -> s1 (PSummary j) = s0 (PSummary j) /\ forall k, s1 (PData j k) = s0 (PData j k))).
  { induction js as [|j js IH]; intros s0 Hr Hlt Hnd; simpl.
    - split; auto. split; [intros j []|auto].
    - inversion Hnd as [|? ? Hnin Hnd']; subst.
      destruct (partition_complete_effect s0 j Hfix Hr (Hlt j (or_introl eq_refl))) as [Hr1 [Hs1 [Hc1 [Ho1 Hd1]]]].
      destruct (IH _ Hr1 (fun i Hi => Hlt i (or_intror Hi)) Hnd') as [Hr2 [Hin2 Hout2]].
      split; auto. split.
      + intros i [Hi|Hi]; [subst i|apply Hin2; auto].
        destruct (Hout2 j Hnin) as [E1 E2]. split; [rewrite E1; auto|]. intros k Hk. rewrite E2. apply Hc1; auto.
      + intros i Hi. assert (i <> j) by (intros ->; apply Hi; left; auto).
        destruct (Hout2 i (fun H' => Hi (or_intror H'))) as [E1 E2]. split; [rewrite E1; apply Ho1; auto|].
        intros k. rewrite E2. apply Hd1; auto. }
  destruct (G (seq 0 nparts) s Hrec (fun j Hj => proj2 (proj1 (in_seq _ _ _) Hj)) (seq_NoDup _ _)) as [[Hw [Hf [Hh [Hd Hs]]]] [Hin _]].
  set (s1 := fold_left run1 (map (fun j => (Partition j (seq 0 (nfiles j)), None)) (seq 0 nparts)) s) in *.
  simpl fold_left. unfold run1; simpl fst; simpl snd. unfold steps. rewrite Hw. cbn [is_full andb].
  assert (summaries_full s1 = true) as ->.
  { unfold summaries_full. apply forallb_forall. intros j Hj. destruct (Hin j Hj) as [E _]. now rewrite E. }
  intros p. unfold write. rewrite exec_app. unfold exec at 2. simpl fold_left.
  set (s2 := upd (upd s1 PFinalMeta Torn) PFinalMeta Full).
  set (rm := PWipMeta :: map PSummary (seq 0 nparts)).
  assert (Rm: forall q, In q rm -> exec s2 (map Unlink rm) q = Absent).
  { clear. intros q. generalize s2. induction rm as [|r rm' IH]; intros t [];
    unfold exec in *; simpl.
    - subst. clear IH. assert (G: forall l t0, t0 q = Absent -> fold_left exec1 (map Unlink l) t0 q = Absent).
      { induction l as [|x l IHl]; intros t0 H0; simpl; auto. apply IHl. unfold upd. destruct (path_eqb q x); auto. }
      apply G. apply upd_same.
    - apply IH; auto. }
  assert (Fr: forall q, ~ In q rm -> exec s2 (map Unlink rm) q = s2 q).
  { intros q Hq. apply frame. intros st Hst. apply in_map_iff in Hst. destruct Hst as [x [<- Hx]]. simpl. intros ->. auto. }
  destruct p as [| | |j|j k]; unfold ref.
  - rewrite Fr by (unfold rm; simpl; intros [E|E]; [discriminate|apply in_map_iff in E; destruct E as [? [? _]]; discriminate]).
    unfold s2. rewrite !upd_other by congruence. auto.
  - apply Rm. unfold rm. left. reflexivity.
  - rewrite Fr by (unfold rm; simpl; intros [E|E]; [discriminate|apply in_map_iff in E; destruct E as [? [? _]]; discriminate]).
    unfold s2. apply upd_same.
  - destruct (Nat.lt_ge_cases j nparts) as [Hj|Hj].
    + apply Rm. unfold rm. right. apply in_map. apply in_seq. lia.
    + rewrite Fr.
      * unfold s2. rewrite !upd_other by congruence. apply Hs; auto.
      * unfold rm. simpl. intros [E|E]; [discriminate|]. apply in_map_iff in E. destruct E as [x [E Hx]]. inversion E; subst. apply in_seq in Hx. lia.
  - rewrite Fr by (unfold rm; simpl; intros [E|E]; [discriminate|apply in_map_iff in E; destruct E as [? [? _]]; discriminate]).
    unfold s2. rewrite !upd_other by congruence.
    destruct (Nat.ltb_spec j nparts) as [Hj|Hj]; simpl.
    + destruct (Nat.ltb_spec k (nfiles j)) as [Hk|Hk].
      * destruct (Hin j ltac:(apply in_seq; lia)) as [_ Hc]. apply Hc; auto.
      * apply Hd. lia.
    + apply Hd. lia.
Qed.
End IcfProtocol.

(* ---------- the pre-fix protocol is refuted by a concrete history (F6) ---------- *)
Definition nf (_ : nat) := 2.
Definition hist_F6 : list (cmd * option nat) :=
  [ (Init, None); (Partition 0 [0;1], None); (Partition 1 [0;1], None);
    (Finalise [PWipMeta; PSummary 0; PSummary 1], Some 2)      (* killed after metadata.json, before rmtree *)
  ; (Partition 1 [0;1], Some 2) ].                              (* killed after truncating its first chunk *)
Definition st_F6 := run 2 false empty hist_F6.
Theorem icf_finalise_window_refuted :
  st_F6 PFinalMeta = Full /\ st_F6 PHeader = Full /\ st_F6 (PData 1 0) = Torn.
Proof. vm_compute. repeat split. Qed.
(* and the same history is harmless once fixed *)
Example F6_fixed : run 2 true empty hist_F6 (PData 1 0) = Full.
Proof. vm_compute. reflexivity. Qed.
