(* Protocol/VczRecovery.v -- liveness / recovery theorems for the distributed encode protocol
   (the repaired protocol, fixed = true): re-running partitions until the LAST run of every
   partition is an uninterrupted one, then finalise, ends finished and complete, from every state
   in which no array has been moved out yet; and a re-run finalise either finishes completely or
   stops with an error without touching the finished marker. *)
From Coq Require Import Arith List Bool Lia.
From B2Z Require Import Protocol.VczProtocol.
Import ListNotations.

Section VczRecovery.
Variable nparts narrays : nat.
Variable nent : nat -> nat -> nat.

Local Notation steps := (steps nparts narrays nent true).
Local Notation run1 := (run1 nparts narrays nent true).
Local Notation run := (run nparts narrays nent true).
Local Notation Inv := (Inv nparts narrays nent).
Local Notation complete := (complete nparts narrays nent).
Local Notation entries := (entries narrays nent).
Local Notation finalise_arrays := (finalise_arrays nparts nent).

(* ---- paths owned by partition j: only these are touched by `Partition j` ---- *)
Definition owned (j : nat) (p : path) : bool :=
  match p with
  | PWipDir i | PFinDir i | PStaleDir i => Nat.eqb i j
  | PWipE i _ _ | PFinE i _ _ | PStaleE i _ _ => Nat.eqb i j
  | _ => false
  end.
Definition step_of (j : nat) (st : step) : Prop :=
  match st with
  | Trunc p | Fill p | Unlink p => owned j p = true
  | MoveDir _ _ i => i = j
  | MoveEntry _ _ _ => False
  end.

Lemma exec1_frame j st s p : step_of j st -> owned j p = false -> exec1 s st p = s p.
Proof.
  intros Hs Hp. destruct st as [q|q|q|b b' i|i a c]; simpl in Hs.
  - unfold exec1. apply upd_other. intros ->. congruence.
  - unfold exec1. apply upd_other. intros ->. congruence.
  - unfold exec1. apply upd_other. intros ->. congruence.
  - subst i. unfold exec1. destruct b; destruct p; simpl in Hp; try reflexivity; rewrite Hp; reflexivity.
  - contradiction.
Qed.

Lemma exec_frame j l : Forall (step_of j) l -> forall s p, owned j p = false -> exec s l p = s p.
Proof.
  induction 1 as [|st l Hst _ IH]; intros s p Hp; [reflexivity|].
  unfold exec in *. simpl. rewrite IH by exact Hp. apply (exec1_frame j); assumption.
Qed.

Lemma wip_steps_of j (l : list (nat * nat)) :
  Forall (step_of j) (flat_map (fun ac => [Trunc (PWipE j (fst ac) (snd ac)); Fill (PWipE j (fst ac) (snd ac))]) l).
Proof.
  induction l as [|ac tl IH]; simpl; [constructor|].
  constructor; [simpl; apply Nat.eqb_refl|]. constructor; [simpl; apply Nat.eqb_refl|]. exact IH.
Qed.

Lemma partition_steps_of s j rm : Forall (step_of j) (steps s (Partition j rm)).
Proof.
  unfold VczProtocol.steps. destruct (is_full (s PMeta) && (j <? nparts)); [|constructor].
  constructor; [simpl; apply Nat.eqb_refl|].
  apply Forall_app. split; [apply wip_steps_of|].
  apply Forall_app. split.
  - destruct (is_absent (s (PFinDir j))); constructor; [reflexivity|constructor].
  - constructor; [reflexivity|constructor].
Qed.

Definition prefix_of {A} (k : option nat) (l : list A) : list A :=
  match k with None => l | Some n => firstn n l end.
Lemma prefix_Forall {A} (P : A -> Prop) k l : Forall P l -> Forall P (prefix_of k l).
Proof. destruct k; simpl; auto. apply firstn_Forall. Qed.

Lemma run1_unfold s c k : run1 s (c, k) = exec s (prefix_of k (steps s c)).
Proof. reflexivity. Qed.

(* a partition command, interrupted or not, changes nothing outside its own directories *)
Lemma partition_frame s j rm k p : owned j p = false -> run1 s (Partition j rm, k) p = s p.
Proof.
  intros Hp. rewrite run1_unfold. apply (exec_frame j); [|exact Hp].
  apply prefix_Forall. apply partition_steps_of.
Qed.

Lemma exec_target_frame p l : Forall (fun st => exists q, target st = Some q /\ q <> p) l ->
  forall s, exec s l p = s p.
Proof.
  induction 1 as [|st l [q [Hq Hne]] _ IH]; intros s; [reflexivity|].
  unfold exec in *. simpl. rewrite IH.
  destruct st; simpl in Hq; try discriminate; inversion Hq; subst; unfold exec1; apply upd_other; congruence.
Qed.

(* an uninterrupted partition command puts p<j> in place *)
Lemma partition_complete_fin s j rm : s PMeta = Full -> j < nparts ->
  run1 s (Partition j rm, None) (PFinDir j) = Full.
Proof.
  intros Hm Hj. rewrite run1_unfold. simpl prefix_of. unfold VczProtocol.steps.
  rewrite Hm. simpl is_full. apply Nat.ltb_lt in Hj. rewrite Hj. simpl andb. cbv iota.
  set (M := if is_absent (s (PFinDir j)) then [] else [MoveDir false true j]).
  change (Fill (PWipDir j) :: ?w ++ M ++ [MoveDir true false j]) with ((Fill (PWipDir j) :: w) ++ M ++ [MoveDir true false j]).
  rewrite !exec_app.
  match goal with |- exec (exec (exec s ?w) M) _ _ = _ => set (s1 := exec s w) end.
  assert (H1: s1 (PWipDir j) = Full).
  { unfold s1. unfold exec. simpl fold_left.
    match goal with |- fold_left exec1 ?l ?s0 _ = _ => change (exec s0 l (PWipDir j) = Full) end.
    rewrite exec_target_frame.
    - unfold exec1. apply upd_same.
    - induction (entries j) as [|ac tl IH]; simpl; [constructor|].
      constructor; [eexists; split; [reflexivity|congruence]|].
      constructor; [eexists; split; [reflexivity|congruence]|]. exact IH. }
  assert (H2: exec s1 M (PWipDir j) = Full).
  { unfold M. destruct (is_absent (s (PFinDir j))); [exact H1|]. unfold exec. simpl. unfold exec1. exact H1. }
  unfold exec at 1. simpl. unfold exec1. rewrite Nat.eqb_refl. exact H2.
Qed.

(* ---- finalise ---- *)
Definition not_z (st : step) : Prop :=
  match st with MoveEntry _ _ _ => True | Fill (PLoc _) => True | _ => False end.
Lemma exec_not_z l : Forall not_z l -> forall s, exec s l PZmeta = s PZmeta.
Proof.
  induction 1 as [|st l Hst _ IH]; intros s; [reflexivity|].
  unfold exec in *. simpl. rewrite IH. destruct st as [q|q|q|b b' i|i a c]; simpl in Hst; try contradiction.
  - destruct q; try contradiction. unfold exec1. apply upd_other. congruence.
  - unfold exec1. rewrite !upd_other by congruence. reflexivity.
Qed.

Lemma moves_not_z (s : state) a (js : list nat) :
  Forall not_z (flat_map (fun j => map (fun c => MoveEntry j a c) (present nent s j a)) js).
Proof.
  induction js as [|j tl IH]; simpl; [constructor|].
  apply Forall_app. split; [|exact IH]. induction (present nent s j a); simpl; constructor; simpl; auto.
Qed.

Lemma finalise_arrays_ends s arrays : (forall a, In a arrays -> is_full (s (PLoc a)) = false) ->
  exists pre, finalise_arrays s arrays = pre ++ [Fill PZmeta].
Proof.
  induction arrays as [|a tl IH]; intros H; simpl.
  - exists []. reflexivity.
  - rewrite (H a (or_introl eq_refl)). destruct IH as [pre E]; [intros b Hb; apply H; right; exact Hb|].
    rewrite E. eexists. rewrite app_comm_cons, app_assoc. reflexivity.
Qed.

Lemma finalise_arrays_stops s arrays : (exists a, In a arrays /\ is_full (s (PLoc a)) = true) ->
  Forall not_z (finalise_arrays s arrays).
Proof.
  induction arrays as [|a tl IH]; intros [b [Hb Hf]]; [contradiction|]. simpl.
  destruct (is_full (s (PLoc a))) eqn:E; [constructor|].
  apply Forall_app. split; [apply moves_not_z|]. constructor; [simpl; auto|].
  apply IH. destruct Hb as [->|Hb]; [congruence|]. exists b. split; assumption.
Qed.

Definition no_array_out (s : state) : bool := forallb (fun a => negb (is_full (s (PLoc a)))) (seq 0 narrays).
Definition finalise_ok (s : state) : bool := is_full (s PMeta) && all_fin nparts s && no_array_out s.

Lemma no_array_out_false s : no_array_out s = false -> exists a, In a (seq 0 narrays) /\ is_full (s (PLoc a)) = true.
Proof.
  unfold no_array_out. induction (seq 0 narrays) as [|a tl IH]; simpl; [discriminate|].
  destruct (is_full (s (PLoc a))) eqn:E; simpl.
  - intros _. exists a. split; auto.
  - intros H. destruct (IH H) as [b [Hb Hf]]. exists b. split; auto.
Qed.

(* finalise_ok is what the correspondence run compares with the real command's exit status
   (Model/Dispatch: "refused" = no `Fill PZmeta` among the steps) *)
Definition is_fz (st : step) : bool := match st with Fill PZmeta => true | _ => false end.
Lemma not_z_no_fz l : Forall not_z l -> existsb is_fz l = false.
Proof.
  induction 1 as [|st l Hst _ IH]; [reflexivity|]. simpl. rewrite IH.
  destruct st as [q|q|q|b b' i|i a c]; simpl in *; try contradiction; [|reflexivity].
  destruct q; simpl in *; try contradiction; reflexivity.
Qed.
Theorem finalise_ok_marker s : existsb is_fz (steps s Finalise) = finalise_ok s.
Proof.
  unfold finalise_ok, VczProtocol.steps.
  destruct (is_full (s PMeta) && all_fin nparts s) eqn:Eg; [|reflexivity]. simpl.
  destruct (no_array_out s) eqn:Eno.
  - destruct (finalise_arrays_ends s (seq 0 narrays)) as [pre E].
    { intros a Ha. unfold no_array_out in Eno. rewrite forallb_forall in Eno. specialize (Eno a Ha).
      destruct (is_full (s (PLoc a))); simpl in *; congruence. }
    rewrite E, existsb_app. simpl. apply orb_true_r.
  - apply not_z_no_fz. apply finalise_arrays_stops. apply no_array_out_false. exact Eno.
Qed.

(* re-running finalise (after an interrupted one, or at any other time): it either runs to the end --
   then the store is finished AND complete -- or it stops with an error and the finished marker is
   untouched.  finalise_ok is exactly "the real command returns without raising". *)
Theorem finalise_total_or_error s : Inv s ->
  let s' := run1 s (Finalise, None) in
  if finalise_ok s then finished s' /\ complete s' else s' PZmeta = s PZmeta.
Proof.
  intros HI s'. destruct (finalise_ok s) eqn:Eok.
  - assert (Hz: finished s').
    { unfold finalise_ok in Eok. apply andb_true_iff in Eok. destruct Eok as [Eg Eno].
      unfold s', finished. rewrite run1_unfold. simpl prefix_of. unfold VczProtocol.steps. rewrite Eg.
      destruct (finalise_arrays_ends s (seq 0 narrays)) as [pre E].
      { intros a Ha. unfold no_array_out in Eno. rewrite forallb_forall in Eno. specialize (Eno a Ha).
        destruct (is_full (s (PLoc a))); simpl in *; congruence. }
      rewrite E, exec_app. unfold exec at 1. simpl. unfold exec1. apply upd_same. }
    split; [exact Hz|].
    assert (I': Inv s').
    { unfold s'. rewrite run1_unfold. simpl prefix_of.
      pose proof (finalise_inv nparts narrays nent true s (length (steps s Finalise)) HI) as G.
      rewrite firstn_all in G. exact G. }
    destruct I' as [_ [J2 J3]]. intros a j c Ha Hj Hc. apply J2; [repeat split; assumption|]. apply J3; assumption.
  - unfold s'. rewrite run1_unfold. simpl prefix_of. unfold VczProtocol.steps.
    destruct (is_full (s PMeta) && all_fin nparts s) eqn:Eg; [|reflexivity].
    unfold finalise_ok in Eok. rewrite Eg in Eok. simpl in Eok.
    apply exec_not_z. apply finalise_arrays_stops. apply no_array_out_false. exact Eok.
Qed.

(* ---- histories of partition commands ---- *)
Definition is_part (ck : cmd * option nat) : bool := match fst ck with Partition _ _ => true | _ => false end.
Definition uninterrupted (k : option nat) : bool := match k with None => true | Some _ => false end.
(* was the LAST `Partition j` command of h an uninterrupted one (acc: p<j> in place before h) *)
Fixpoint last_full (j : nat) (h : list (cmd * option nat)) (acc : bool) : bool :=
  match h with
  | [] => acc
  | (Partition i _, k) :: tl => if Nat.eqb i j then last_full j tl (uninterrupted k) else last_full j tl acc
  | _ :: tl => last_full j tl acc
  end.

Lemma partitions_run : forall h s, forallb is_part h = true -> s PMeta = Full ->
  run s h PMeta = Full /\ (forall a, run s h (PLoc a) = s (PLoc a)) /\
  (forall j b, j < nparts -> (b = true -> s (PFinDir j) = Full) -> last_full j h b = true -> run s h (PFinDir j) = Full).
Proof.
  induction h as [|[c k] tl IH]; intros s Hp Hm.
  - simpl. split; [exact Hm|]. split; [reflexivity|]. intros j b _ Hb E. apply Hb. exact E.
  - simpl in Hp. apply andb_true_iff in Hp. destruct Hp as [Hc Hp].
    destruct c as [|i rm|]; try discriminate Hc.
    change (run s ((Partition i rm, k) :: tl)) with (run (run1 s (Partition i rm, k)) tl).
    set (s1 := run1 s (Partition i rm, k)).
    assert (M1: s1 PMeta = Full) by (unfold s1; rewrite partition_frame by reflexivity; exact Hm).
    destruct (IH s1 Hp M1) as [R1 [R2 R3]].
    split; [exact R1|]. split.
    + intros a. rewrite R2. unfold s1. apply partition_frame. reflexivity.
    + intros j b Hj Hb E. simpl in E. destruct (Nat.eqb_spec i j) as [->|Hij].
      * apply (R3 j (uninterrupted k)); auto. intros Hk. destruct k; [discriminate|].
        unfold s1. apply partition_complete_fin; assumption.
      * apply (R3 j b); auto. intros Hb'. unfold s1. rewrite partition_frame; [apply Hb; exact Hb'|].
        simpl. apply Nat.eqb_neq. congruence.
Qed.

Lemma all_fin_intro (s : state) : (forall j, j < nparts -> s (PFinDir j) = Full) -> all_fin nparts s = true.
Proof.
  intros H. unfold all_fin. apply forallb_forall. intros j Hj. apply in_seq in Hj. rewrite H by lia. reflexivity.
Qed.

(* C06, recovery: from ANY state satisfying the invariant in which init has completed and no array
   has been moved out of wip/ yet (in particular: any state reached by init followed by any history of
   partition commands and kills, and by finalise commands that were refused or killed before the
   first array was renamed), any further history of partition commands -- interrupted anywhere, in
   any order, any number of times -- in which the last run of every partition is uninterrupted, followed
   by finalise, ends finished and complete. *)
Theorem rerun_recovers : forall h s, Inv s -> s PMeta = Full -> no_array_out s = true ->
  forallb is_part h = true ->
  (forall j, j < nparts -> last_full j h (is_full (s (PFinDir j))) = true) ->
  let s' := run s (h ++ [(Finalise, None)]) in finished s' /\ complete s'.
Proof.
  intros h s HI Hm Hno Hp Hlast s'.
  destruct (partitions_run h s Hp Hm) as [R1 [R2 R3]].
  unfold s', VczProtocol.run. rewrite fold_left_app. simpl.
  change (fold_left run1 h s) with (run s h).
  assert (I1: Inv (run s h)) by (apply run_inv; [reflexivity|exact HI]).
  assert (Ok: finalise_ok (run s h) = true).
  { unfold finalise_ok. rewrite R1. simpl. apply andb_true_iff. split.
    - apply all_fin_intro. intros j Hj. apply (R3 j (is_full (s (PFinDir j)))); auto.
      intros E. destruct (s (PFinDir j)); simpl in E; congruence.
    - unfold no_array_out in *. rewrite forallb_forall in *. intros a Ha. rewrite R2. apply Hno. exact Ha. }
  pose proof (finalise_total_or_error (run s h) I1) as T. simpl in T. rewrite Ok in T. exact T.
Qed.

(* the same from the empty directory: init, then the history *)
Corollary rerun_recovers_from_scratch : forall h,
  forallb is_part h = true -> (forall j, j < nparts -> last_full j h false = true) ->
  let s' := run empty ((Init, None) :: h ++ [(Finalise, None)]) in finished s' /\ complete s'.
Proof.
  intros h Hp Hl.
  change (run empty ((Init, None) :: h ++ [(Finalise, None)])) with (run (run1 empty (Init, None)) (h ++ [(Finalise, None)])).
  apply rerun_recovers; [ | | | exact Hp | exact Hl].
  - change (run1 empty (Init, None)) with (run empty [(Init, None)]). apply run_inv; [reflexivity|apply Inv_empty].
  - reflexivity.
  - unfold no_array_out. apply forallb_forall. intros a _. reflexivity.
Qed.
End VczRecovery.

(* non-vacuity: two partitions, the first interrupted twice at different points before its last run *)
Example rerun_recovers_instance2 :
  let h := [(Partition 0 [], Some 2); (Partition 1 [], None); (Partition 0 [], None); (Partition 0 [], Some 4);
            (Partition 0 [], None)] in
  forallb is_part h = true /\ last_full 0 h false = true /\ last_full 1 h false = true.
Proof. vm_compute. repeat split. Qed.
