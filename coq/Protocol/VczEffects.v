(* Protocol/VczEffects.v -- meaning of an effect list (Base/Eff.v) of the distributed encode over
   the abstract file system of Protocol/VczProtocol.v, and the loop lemma the bridge needs.

   `denote l s` executes the effects in program order: a guard that fails ends the command, a
   mutation is appended and the following effects (guards, directory listings) see the state after
   it.  `None` = an effect without meaning here, or a precondition of a mutation that the source
   does not establish first:
   * `Mkdir wip_p<j>` needs a preceding `RmtreeIfExists wip_p<j>` (mkdir raises on a leftover
     directory; the F9 repair is that the partition starts from an empty directory);
   * `RenameIfExists p<j> stale_p<j>` needs a preceding `RmtreeIfExists stale_p<j>` (rename onto a
     non-empty directory raises);
   * `Consolidate` needs a preceding `Rmtree wip` (consolidating while wip/ exists would list the
     work-in-progress arrays as part of the store: C02).
   What the model does not represent, and how the corresponding effects are read:
   * the root, wip/, wip/arrays, wip/partitions directories, the root group / sample / filter /
     contig arrays and the array templates written by init -- no steps; "the root exists" is read
     as "wip metadata exists in some form";
   * array sub-directories of a partition: present whenever the partition directory is;
   * rmtree(wip) in finalise and the removal of stale_p<j> -- no steps (they only remove paths that
     no observation of the model reads; the model's MoveDir overwrites its destination). *)
From Coq Require Import Arith List Bool Lia.
From B2Z Require Import Base.Eff Protocol.VczProtocol.
Import ListNotations.

Section VczEffects.
Variable nparts narrays : nat.
Variable nent : nat -> nat -> nat.
Variable j : nat.                  (* the partition a partition command is about *)

Notation state := (VczProtocol.state).
Notation exec := (VczProtocol.exec).
Notation present := (VczProtocol.present nent).
Notation entries := (VczProtocol.entries narrays nent).
Notation all_fin := (VczProtocol.all_fin nparts).

Definition andthen (a : list step) (s : state) (k : state -> option (list step)) : option (list step) :=
  match k (exec s a) with Some r => Some (a ++ r) | None => None end.

(* for l in range(num_partitions): [if not src.exists(): raise]; move every listed entry *)
Fixpoint denote_parts (body : list peff) (a : nat) (ls : list nat) (s : state) : option (list step) :=
  match ls with
  | [] => Some []
  | l :: ls' =>
      match body with
      | [PGuardPresent ZSrcArr; PMoveEntries ZSrcArr ZArrTmpl] =>
          andthen (map (fun c => MoveEntry l a c) (present s l a)) s (denote_parts body a ls')
      | _ => None
      end
  end.

(* finalise_array(a): steps, and whether it returned normally *)
Definition denote_array (body : list aeff) (a : nat) (s : state) : option (list step * bool) :=
  match body with
  | AGuardAbsent ZFinalArr :: AForParts pb :: ARename ZArrTmpl ZFinalArr :: rest =>
      if forallb (fun e => match e with APure => true | _ => false end) rest then
        if is_full (s (PLoc a)) then Some ([], false)
        else match denote_parts pb a (seq 0 nparts) s with
             | Some mv => Some (mv ++ [Fill (PLoc a)], true)
             | None => None
             end
      else None
  | _ => None
  end.

Fixpoint denote_arrays (body : list aeff) (arrays : list nat) (s : state) : option (list step * bool) :=
  match arrays with
  | [] => Some ([], true)
  | a :: tl =>
      match denote_array body a s with
      | Some (l, true) =>
          match denote_arrays body tl (exec s l) with
          | Some (r, ok) => Some (l ++ r, ok)
          | None => None
          end
      | Some (l, false) => Some (l, false)
      | None => None
      end
  end.

(* wipclean / staleclean: the source has removed a leftover wip_p<j> / stale_p<j>;
   wipgone: finalise has removed wip/ (with the array templates, the partition directories and the
   wip metadata in it), so that the consolidated metadata can only list what belongs to the store *)
Fixpoint denote (l : list eff) (wipclean staleclean wipgone : bool) (s : state) : option (list step) :=
  match l with
  | [] => Some []
  | e :: tl =>
    match e with
    | GuardAbsent ZRoot => if is_absent (s PMeta) then denote tl wipclean staleclean wipgone s else Some []
    | PureCheck | Mkdir ZRoot | Mkdir ZWip | Mkdir ZArrays | Mkdir ZParts | ZarrRootInit | ZarrArrayTemplates =>
        denote tl wipclean staleclean wipgone s
    | Rmtree ZWip => denote tl wipclean staleclean true s
    | WriteFile ZMeta => andthen [Trunc PMeta; Fill PMeta] s (denote tl wipclean staleclean wipgone)
    | ReadFile ZMeta => if is_full (s PMeta) then denote tl wipclean staleclean wipgone s else Some []
    | GuardRange => if j <? nparts then denote tl wipclean staleclean wipgone s else Some []
    | RmtreeIfExists ZWipDirCur => denote tl true staleclean wipgone s
    | Mkdir ZWipDirCur => if wipclean then andthen [Fill (PWipDir j)] s (denote tl false staleclean wipgone) else None
    | WriteData =>
        andthen (flat_map (fun ac => [Trunc (PWipE j (fst ac) (snd ac)); Fill (PWipE j (fst ac) (snd ac))]) (entries j))
                s (denote tl wipclean staleclean wipgone)
    | RmtreeIfExists ZStaleDirCur => denote tl wipclean true wipgone s
    | RenameIfExists ZFinDirCur ZStaleDirCur =>
        if staleclean then
          if is_absent (s (PFinDir j)) then denote tl wipclean staleclean wipgone s
          else andthen [MoveDir false true j] s (denote tl wipclean false wipgone)
        else None
    | Rename ZWipDirCur ZFinDirCur => andthen [MoveDir true false j] s (denote tl wipclean staleclean wipgone)
    | GuardAllPresent ZFinDirLoop => if all_fin s then denote tl wipclean staleclean wipgone s else Some []
    | ForArrays body =>
        match denote_arrays body (seq 0 narrays) s with
        | Some (l, true) => andthen l s (denote tl wipclean staleclean wipgone)
        | Some (l, false) => Some l
        | None => None
        end
    | Consolidate => if wipgone then andthen [Fill PZmeta] s (denote tl wipclean staleclean wipgone) else None
    | _ => None
    end
  end.

(* ------------------------------------------------------------------------------------------ *)
(* The array loop, executed on the evolving state, issues exactly the steps the model computes
   from the state at loop entry: arrays (and partitions within an array) do not see each other's
   moves. *)

Definition about (a : nat) (p : path) : Prop :=
  match p with PFinE _ a' _ | PArrE a' _ _ | PLoc a' => a' = a | _ => False end.
Definition array_step (a : nat) (st : step) : Prop :=
  match st with MoveEntry _ a' _ => a' = a | Fill (PLoc a') => a' = a | _ => False end.

Lemma exec1_other_array a a' st s p : array_step a' st -> a' <> a -> about a p -> exec1 s st p = s p.
Proof.
  intros Hs Hne Hp. destruct st as [q|q|q|fw ts jj|jj aa cc]; simpl in Hs; try contradiction.
  - destruct q; try contradiction. subst. simpl. apply upd_other.
    destruct p; simpl in Hp; try contradiction; congruence.
  - subst. simpl. rewrite !upd_other; auto; destruct p; simpl in Hp; try contradiction; congruence.
Qed.

Lemma exec_other_array a a' l : forall s p, Forall (array_step a') l -> a' <> a -> about a p -> exec s l p = s p.
Proof.
  induction l as [|st l IH]; intros s p HF Hne Hp; [reflexivity|].
  inversion HF; subst. unfold VczProtocol.exec in *. simpl. rewrite IH by assumption.
  eapply exec1_other_array; eauto.
Qed.

Lemma present_ext s s' l a : (forall c, s' (PFinE l a c) = s (PFinE l a c)) -> present s' l a = present s l a.
Proof. intros H. unfold VczProtocol.present. apply filter_ext. intros c. rewrite H. reflexivity. Qed.

(* moves of partition l' leave the entries of another partition of the same array alone *)
Lemma exec_moves_other_part a l' cs : forall s l c, l' <> l ->
  exec s (map (fun c' => MoveEntry l' a c') cs) (PFinE l a c) = s (PFinE l a c).
Proof.
  induction cs as [|c0 cs IH]; intros s l c Hne; [reflexivity|].
  unfold VczProtocol.exec in *. simpl. rewrite IH by assumption.
  rewrite !upd_other; auto; congruence.
Qed.

Lemma denote_parts_spec a : forall ls s0 s, NoDup ls ->
  (forall l c, In l ls -> s (PFinE l a c) = s0 (PFinE l a c)) ->
  denote_parts [PGuardPresent ZSrcArr; PMoveEntries ZSrcArr ZArrTmpl] a ls s
  = Some (flat_map (fun l => map (fun c => MoveEntry l a c) (present s0 l a)) ls).
Proof.
  induction ls as [|l ls IH]; intros s0 s ND H; [reflexivity|].
  inversion ND as [|? ? Hnin ND']; subst.
  cbn [denote_parts flat_map]. unfold andthen.
  assert (E : present s l a = present s0 l a) by (apply present_ext; intros c; apply H; left; reflexivity).
  rewrite E.
  rewrite (IH s0); [reflexivity|assumption|].
  intros l2 c Hin. rewrite exec_moves_other_part by (intros ->; contradiction).
  apply H. right. assumption.
Qed.

Lemma moves_are_array_steps a (ls : list nat) (s0 : state) :
  Forall (array_step a) (flat_map (fun l => map (fun c => MoveEntry l a c) (present s0 l a)) ls).
Proof.
  apply Forall_forall. intros st Hin. apply in_flat_map in Hin. destruct Hin as [l [_ Hin]].
  apply in_map_iff in Hin. destruct Hin as [c [<- _]]. reflexivity.
Qed.

Definition std_body : list aeff :=
  [AGuardAbsent ZFinalArr; AForParts [PGuardPresent ZSrcArr; PMoveEntries ZSrcArr ZArrTmpl]; ARename ZArrTmpl ZFinalArr].

(* the model's finalise_arrays, split into the array phase and whether it ran to the end *)
Fixpoint fa_steps (s0 : state) (arrays : list nat) : list step * bool :=
  match arrays with
  | [] => ([], true)
  | a :: tl =>
      if is_full (s0 (PLoc a)) then ([], false)
      else let moves := flat_map (fun l => map (fun c => MoveEntry l a c) (present s0 l a)) (seq 0 nparts) in
           (moves ++ Fill (PLoc a) :: fst (fa_steps s0 tl), snd (fa_steps s0 tl))
  end.

Lemma fa_steps_spec s0 arrays :
  finalise_arrays nparts nent s0 arrays = fst (fa_steps s0 arrays) ++ (if snd (fa_steps s0 arrays) then [Fill PZmeta] else []).
Proof.
  induction arrays as [|a tl IH]; [reflexivity|].
  cbn [finalise_arrays fa_steps]. destruct (is_full (s0 (PLoc a))); [reflexivity|].
  cbn [fst snd]. rewrite IH. rewrite <- app_assoc. reflexivity.
Qed.

Lemma denote_arrays_spec rest : forallb (fun e => match e with APure => true | _ => false end) rest = true ->
  forall arrays s0 s, NoDup arrays ->
  (forall a p, In a arrays -> about a p -> s p = s0 p) ->
  denote_arrays (std_body ++ rest) arrays s = Some (fa_steps s0 arrays).
Proof.
  intros Hrest. induction arrays as [|a tl IH]; intros s0 s ND H; [reflexivity|].
  inversion ND as [|? ? Hnin ND']; subst.
  cbn [denote_arrays fa_steps]. unfold denote_array. cbn [std_body app]. rewrite Hrest.
  rewrite (H a (PLoc a)) by (simpl; auto).
  destruct (is_full (s0 (PLoc a))); [reflexivity|].
  rewrite (denote_parts_spec a (seq 0 nparts) s0 s (seq_NoDup _ _))
    by (intros l c _; apply (H a); simpl; auto).
  set (mv := flat_map (fun l => map (fun c => MoveEntry l a c) (present s0 l a)) (seq 0 nparts)).
  rewrite (IH s0); [|assumption|].
  - destruct (fa_steps s0 tl) as [r ok]. cbn [fst snd]. rewrite <- app_assoc. reflexivity.
  - intros a2 p Hin Hp.
    transitivity (s p); [|apply (H a2); simpl; auto].
    apply (exec_other_array a2 a); [|intros ->; contradiction|assumption].
    apply Forall_app. split; [apply moves_are_array_steps|]. constructor; [reflexivity|constructor].
Qed.

End VczEffects.

(* order facts read off an effect list (used over the regenerated lists, by evaluation) *)
Fixpoint consolidated_clean (l : list eff) (gone : bool) : bool :=
  match l with
  | [] => true
  | Rmtree ZWip :: tl => consolidated_clean tl true
  | Consolidate :: tl => gone && consolidated_clean tl gone
  | _ :: tl => consolidated_clean tl gone
  end.
Definition eff_is_mutation (e : eff) : bool :=
  match e with
  | Mkdir _ | MkdirFields | WriteFile _ | UnlinkIfExists _ | RmtreeIfExists _ | Rmtree _ | Rename _ _ | RenameIfExists _ _
  | WriteData | ZarrRootInit | ZarrArrayTemplates | ForArrays _ | Consolidate => true
  | _ => false
  end.
(* the last mutation of the list is `e`, and nothing but `e` itself writes after the others *)
Definition last_mutation (l : list eff) : option eff := hd_error (rev (filter eff_is_mutation l)).
