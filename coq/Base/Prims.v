(* Base/Prims.v -- meaning of the Python / numpy primitives that the translator
   (translator/py2coq.py) maps source constructs to.  Executable definitions only. *)
From Coq Require Import ZArith List Bool.
Import ListNotations.
Open Scope Z_scope.

(* Outcome of a Python call: a value or a raised exception (small enum). *)
Inductive res (A : Type) : Type := Ok (a : A) | Err (e : Z).
Arguments Ok {A} a.
Arguments Err {A} e.

Definition E_ValueError := 1.
Definition E_OverflowError := 2.
Definition E_AssertionError := 3.
Definition E_IndexError := 4.
Definition E_RuntimeError := 5.
Definition E_Other := 9.

Definition bind {A B} (r : res A) (f : A -> res B) : res B :=
  match r with Ok a => f a | Err e => Err e end.

(* int(np.ceil(a / b)) for b > 0: exact ceiling division (agrees with the binary64
   computation for a < 2^53, see DESIGN C11 float note; validated differentially). *)
Definition ceil_truediv (a b : Z) : Z := - ((- a) / b).

(* np.array_split(np.arange(n), k): k sections, the first (n mod k) of size n/k+1,
   the others of size n/k.  A section is kept as (first, last); an empty section has
   last = first - 1.  numpy raises ValueError when k <= 0. *)
Fixpoint sections (start q r : Z) (k : nat) : list (Z * Z) :=
  match k with
  | O => []
  | S k' => let sz := q + (if 0 <? r then 1 else 0) in
            (start, start + sz - 1) :: sections (start + sz) q (r - 1) k'
  end.
Definition array_split_arange (n k : Z) : res (list (Z * Z)) :=
  if k <=? 0 then Err E_ValueError
  else Ok (sections 0 (n / k) (n mod k) (Z.to_nat k)).

(* split[0] and split[-1] on a section: IndexError when it is empty *)
Definition sec_first (s : Z * Z) : res Z := if snd s <? fst s then Err E_IndexError else Ok (fst s).
Definition sec_last (s : Z * Z) : res Z := if snd s <? fst s then Err E_IndexError else Ok (snd s).

(* monadic map: the body of a `for x in xs: ...; acc.append(e)` loop *)
Fixpoint mapM {A B} (f : A -> res B) (l : list A) : res (list B) :=
  match l with
  | [] => Ok []
  | x :: tl => bind (f x) (fun y => bind (mapM f tl) (fun ys => Ok (y :: ys)))
  end.

(* for i in range(1, len(xs)): body(xs[i-1], xs[i])  -- body may raise *)
Fixpoint adj_iter {A} (f : A -> A -> res unit) (l : list A) : res unit :=
  match l with
  | a :: ((b :: _) as tl) => bind (f a b) (fun _ => adj_iter f tl)
  | _ => Ok tt
  end.

(* for i in range(hi, -1, -1): if c(i): return i    -- else fall through (raise) *)
Fixpoint search_down (c : Z -> bool) (fuel : nat) (i : Z) : option Z :=
  match fuel with
  | O => None
  | S f => if c i then Some i else search_down c f (i - 1)
  end.
Definition range_down_find (c : Z -> bool) (hi : Z) : option Z :=
  if hi <? 0 then None else search_down c (S (Z.to_nat hi)) hi.

(* np.iinfo("i<k>") *)
Definition iinfo_min (code : Z) : Z := - 2 ^ (8 * code - 1).
Definition iinfo_max (code : Z) : Z := 2 ^ (8 * code - 1) - 1.

(* Region record used by check_overlapping_partitions *)
(* r_start is an int for every partition the scanner produces (_filter_empty_and_refine
   sets region.start = var.POS); r_end is None until finalise sets it. *)
Record region := { r_contig : Z; r_start : Z; r_end : option Z }.
