(* Base/PlinkOps.v -- the row-program language translator/plink2coq.py emits for the body of the
   per-row loop of plink.encode_genotypes_slice, and its meaning.

   The three output buffers (core.BufferedArray over call_genotype, call_genotype_mask,
   call_genotype_phased, all created at the slice's start offset) are seen as logs: the k-th call of
   `next_buffer_row` of a buffer hands out its LOGICAL row k (array row start + k -- that is what
   Bridge/BridgeBuffer.v proves about the translated BufferedArray).  A store through an index variable is
   meaningful only if that index names the row most recently handed out by the buffer stored into
   (or read from): an index obtained from ANOTHER buffer is accepted exactly when the two logical row
   numbers coincide, which is the lock-step the source relies on.  Anything else has no meaning
   (None), so the bridge lemmas fail. *)
From Coq Require Import ZArith List Bool.
Import ListNotations.
Open Scope Z_scope.

Inductive buf := BGt | BMask | BPhased.
Definition buf_eqb (a b : buf) : bool :=
  match a, b with BGt, BGt | BMask, BMask | BPhased, BPhased => true | _, _ => false end.

Inductive rowop :=
| Next (b : buf)                              (* j = b.next_buffer_row() *)
| StoreCall (b at_ : buf)                     (* b.buff[j] = g            (j from at_) *)
| StoreConst (b at_ : buf) (v : bool)         (* b.buff[j] = v *)
| StoreEq (b at_ src srcat : buf) (k : Z).    (* b.buff[j] = src.buff[j'] == k   (j from at_, j' from srcat) *)

Record rstate := {
  cnt : buf -> Z;                             (* rows handed out so far *)
  last : buf -> option Z;                     (* logical row most recently handed out in THIS iteration *)
  cell_gt : option (list (Z * Z));            (* what this iteration stored in its genotype row *)
  cell_mask : option (list (bool * bool));
  cell_ph : option (list bool) }.

Definition upd {A} (f : buf -> A) (b : buf) (v : A) : buf -> A := fun x => if buf_eqb x b then v else f x.
Definition same_row (s : rstate) (a b : buf) : bool :=
  match last s a, last s b with Some x, Some y => x =? y | _, _ => false end.

Definition start_iteration (c : buf -> Z) : rstate :=
  {| cnt := c; last := fun _ => None; cell_gt := None; cell_mask := None; cell_ph := None |}.

Definition exec_op (call : Z -> Z * Z) (values : list Z) (s : rstate) (o : rowop) : option rstate :=
  match o with
  | Next b =>
      match last s b with
      | Some _ => None                         (* two rows of one buffer per input row *)
      | None => Some {| cnt := upd (cnt s) b (cnt s b + 1); last := upd (last s) b (Some (cnt s b));
                        cell_gt := cell_gt s; cell_mask := cell_mask s; cell_ph := cell_ph s |}
      end
  | StoreCall BGt a =>
      if same_row s a BGt then Some {| cnt := cnt s; last := last s; cell_gt := Some (map call values);
                                       cell_mask := cell_mask s; cell_ph := cell_ph s |} else None
  | StoreConst BPhased a v =>
      if same_row s a BPhased then Some {| cnt := cnt s; last := last s; cell_gt := cell_gt s;
                                           cell_mask := cell_mask s; cell_ph := Some (map (fun _ => v) values) |} else None
  | StoreEq BMask a BGt a' k =>
      if same_row s a BMask && same_row s a' BGt then
        match cell_gt s with
        | Some g => Some {| cnt := cnt s; last := last s; cell_gt := cell_gt s;
                            cell_mask := Some (map (fun c => (fst c =? k, snd c =? k)) g); cell_ph := cell_ph s |}
        | None => None                         (* mask computed before the genotype row was stored *)
        end
      else None
  | _ => None
  end.

Fixpoint exec_ops (call : Z -> Z * Z) (values : list Z) (s : rstate) (l : list rowop) : option rstate :=
  match l with
  | [] => Some s
  | o :: tl => match exec_op call values s o with Some s' => exec_ops call values s' tl | None => None end
  end.

(* rows [c, e) as a list *)
Definition zrange (c e : Z) : list Z := map (fun i => c + Z.of_nat i) (seq 0 (Z.to_nat (e - c))).
