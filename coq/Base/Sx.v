(* Base/Sx.v -- wire type between the harness and the extracted model.
   Every executable entry point is  sx -> sx ; argument decoding is written in Gallina
   so the OCaml driver is a generic reader/printer with no per-property code. *)
From Coq Require Import ZArith List Bool.
Import ListNotations.
Open Scope Z_scope.

Inductive sx := A (z : Z) | L (l : list sx).

Definition err_sx (code : Z) : sx := L [A (-999); A code].

Definition as_Z (s : sx) : option Z := match s with A z => Some z | _ => None end.
Fixpoint as_Zs (l : list sx) : option (list Z) :=
  match l with
  | [] => Some []
  | A z :: tl => match as_Zs tl with Some r => Some (z :: r) | None => None end
  | _ => None
  end.
Definition as_ZL (s : sx) : option (list Z) := match s with L l => as_Zs l | _ => None end.
Definition as_L (s : sx) : option (list sx) := match s with L l => Some l | _ => None end.
Fixpoint as_LL (l : list sx) : option (list (list Z)) :=
  match l with
  | [] => Some []
  | x :: tl => match as_ZL x, as_LL tl with Some a, Some r => Some (a :: r) | _, _ => None end
  end.
Definition as_ZLL (s : sx) : option (list (list Z)) := match s with L l => as_LL l | _ => None end.
(* optional integer:  ()  = None,  (z) = Some z *)
Definition as_optZ (s : sx) : option (option Z) :=
  match s with L [] => Some None | L [A z] => Some (Some z) | _ => None end.
Fixpoint as_pairs (l : list sx) : option (list (Z * Z)) :=
  match l with
  | [] => Some []
  | L [A a; A b] :: tl => match as_pairs tl with Some r => Some ((a, b) :: r) | None => None end
  | _ => None
  end.
Definition as_PL (s : sx) : option (list (Z * Z)) := match s with L l => as_pairs l | _ => None end.

Definition of_bool (b : bool) : sx := A (if b then 1 else 0).
Definition of_Zs (l : list Z) : sx := L (map A l).
Definition of_ZLL (l : list (list Z)) : sx := L (map of_Zs l).
Definition of_pairs (l : list (Z * Z)) : sx := L (map (fun p => L [A (fst p); A (snd p)]) l).
Definition of_optZ (o : option Z) : sx := match o with None => L [] | Some z => L [A z] end.

(* helpers for the driver's decimal reader / printer (extracted Z arithmetic, so values
   beyond OCaml's 63-bit int survive) *)
Definition z_push (acc d : Z) : Z := acc * 10 + d.
Definition z_neg (z : Z) : Z := - z.
Definition z_div10 (z : Z) : Z := z / 10.
Definition z_mod10 (z : Z) : Z := z mod 10.
Definition z_sign (z : Z) : Z := Z.sgn z.
Definition z_abs (z : Z) : Z := Z.abs z.
