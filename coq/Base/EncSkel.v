(* Base/EncSkel.v -- the driving skeleton translator/enc2coq.py extracts from each partition encoder of
   vcz.py, the executable well-formedness check, and the per-buffer trace of an encoder run over n values. *)
From Coq Require Import Arith List Bool.
Import ListNotations.

Inductive off := OffPartStart | OffOther.           (* BufferedArray(array, partition.start) / anything else *)
Inductive srcr := SrcPartition | SrcOther.          (* iter_values(partition.start, partition.stop) / anything else *)
Inductive eop :=
| ENext (b : nat)                                   (* j = B.next_buffer_row() *)
| EWrite (b from : nat)                             (* B.buff[j ..] = .. / sanitiser(B.buff, j, ..), j handed out by `from` *)
| ERead (b from : nat).                             (* .. B.buff[j ..] .. on a right-hand side *)

Record skel := {
  nbufs : nat; offs : list off; arrays : list nat; inits : list nat; srcs : list srcr;
  body : list eop; finals : list nat; finalised : list nat }.

Inductive bop := PNext | PFlush.
Definition bop_eqb (a b : bop) : bool := match a, b with PNext, PNext | PFlush, PFlush => true | _, _ => false end.
Fixpoint bops_eqb (a b : list bop) : bool :=
  match a, b with [], [] => true | x :: a', y :: b' => bop_eqb x y && bops_eqb a' b' | _, _ => false end.

(* what buffer b sees of one loop iteration / of the statements after the loop *)
Definition project (b : nat) (l : list eop) : list bop :=
  flat_map (fun o => match o with ENext b' => if Nat.eqb b b' then [PNext] else [] | _ => [] end) l.
Definition fproject (b : nat) (l : list nat) : list bop := flat_map (fun f => if Nat.eqb b f then [PFlush] else []) l.

(* the whole run over n values, as buffer b sees it *)
Definition trace (s : skel) (n : nat) (b : nat) : list bop := concat (repeat (project b (body s)) n) ++ fproject b (finals s).

(* a row is written / read only after BOTH the buffer it belongs to and the buffer whose next_buffer_row
   produced the index have handed out their row of this iteration (all buffers of an encoder start at the same
   offset and advance once per value, so the two row numbers coincide) *)
Fixpoint mem (x : nat) (l : list nat) : bool := match l with [] => false | y :: tl => Nat.eqb x y || mem x tl end.
Fixpoint body_ok (seen : list nat) (l : list eop) : bool :=
  match l with
  | [] => true
  | ENext b :: tl => negb (mem b seen) && body_ok (b :: seen) tl
  | EWrite b f :: tl | ERead b f :: tl => mem b seen && mem f seen && body_ok seen tl
  end.
Definition subset (a b : list nat) : bool := forallb (fun x => mem x b) a.
Definition same_set (a b : list nat) : bool := subset a b && subset b a.
Definition written (l : list eop) : list nat := flat_map (fun o => match o with EWrite b _ => [b] | _ => [] end) l.

Definition skel_ok (s : skel) : bool :=
  Nat.eqb (length (offs s)) (nbufs s) && Nat.eqb (length (arrays s)) (nbufs s)
  && forallb (fun o => match o with OffPartStart => true | OffOther => false end) (offs s)
  && negb (match srcs s with [] => true | _ => false end)
  && forallb (fun o => match o with SrcPartition => true | SrcOther => false end) (srcs s)
  && forallb (fun b => bops_eqb (project b (body s)) [PNext] && bops_eqb (fproject b (finals s)) [PFlush]) (seq 0 (nbufs s))
  && body_ok [] (body s)
  && subset (seq 0 (nbufs s)) (written (body s))           (* every buffer's row is written *)
  && same_set (arrays s) (inits s) && same_set (inits s) (finalised s).

Lemma bops_eqb_eq : forall a b, bops_eqb a b = true -> a = b.
Proof.
  induction a as [|x a IH]; intros [|y b] H; try discriminate; [reflexivity|].
  cbn [bops_eqb] in H. apply andb_prop in H. destruct H as [H1 H2]. f_equal; [|apply IH; exact H2].
  destruct x, y; try discriminate; reflexivity.
Qed.

Lemma concat_repeat_single : forall (x : bop) n, concat (repeat [x] n) = repeat x n.
Proof. induction n as [|n IH]; [reflexivity|]. cbn [repeat concat app]. rewrite IH. reflexivity. Qed.

(* the generic statement: a skeleton that passes the check makes every one of its buffers see exactly
   n calls of next_buffer_row followed by one flush, whatever n *)
Lemma skel_ok_trace : forall s, skel_ok s = true -> forall b, b < nbufs s -> forall n,
  trace s n b = repeat PNext n ++ [PFlush].
Proof.
  intros s H b Hb n. unfold skel_ok in H.
  repeat match type of H with (_ && _) = true => apply andb_prop in H; destruct H as [H ?] end.
  match goal with Hf : forallb _ (seq 0 (nbufs s)) = true |- _ =>
    pose proof (proj1 (forallb_forall _ _) Hf b (proj2 (in_seq _ _ _) (conj (Nat.le_0_l b) Hb))) as Hbb end.
  apply andb_prop in Hbb. destruct Hbb as [Hp Hf'].
  unfold trace. rewrite (bops_eqb_eq _ _ Hp), (bops_eqb_eq _ _ Hf'), concat_repeat_single. reflexivity.
Qed.

Lemma skel_ok_offsets : forall s, skel_ok s = true ->
  Forall (fun o => o = OffPartStart) (offs s) /\ length (offs s) = nbufs s /\ srcs s <> [] /\ Forall (fun o => o = SrcPartition) (srcs s).
Proof.
  intros s H. unfold skel_ok in H.
  repeat match type of H with (_ && _) = true => apply andb_prop in H; destruct H as [H ?] end.
  repeat split.
  - apply Forall_forall. intros o Ho.
    match goal with Hf : forallb _ (offs s) = true |- _ => pose proof (proj1 (forallb_forall _ _) Hf o Ho) as Hx end.
    destruct o; [reflexivity|discriminate].
  - apply Nat.eqb_eq. assumption.
  - destruct (srcs s); [discriminate|discriminate].
  - apply Forall_forall. intros o Ho.
    match goal with Hf : forallb _ (srcs s) = true |- _ => pose proof (proj1 (forallb_forall _ _) Hf o Ho) as Hx end.
    destruct o; [reflexivity|discriminate].
Qed.

(* row[i] = v (numpy raises IndexError beyond the row: not reachable for an index taken from the header's own list) *)
Fixpoint set_nth {A} (i : nat) (v : A) (l : list A) : list A :=
  match l, i with
  | [], _ => []
  | _ :: tl, O => v :: tl
  | x :: tl, S i' => x :: set_nth i' v tl
  end.
