(* Base/NpPrims.v -- meaning of the numpy idioms translator/ridx2coq.py emits (C12).
   Integer arrays are lists of Z; indexes are Z (Python ints); numpy's int32 arithmetic is written
   out as wrap32.  np.diff on a narrow integer dtype wraps too, but a difference of two values of one
   dtype wraps to zero only if they are equal, so "nonzero" is the same in Z -- np_diff_append is
   stated in Z. *)
From Coq Require Import ZArith List Bool.
From B2Z Require Import Base.Prims.
Import ListNotations.
Open Scope Z_scope.

Definition wrap32 (x : Z) : Z := (x + 2147483648) mod 4294967296 - 2147483648.

(* np.diff(c, append=a): c[i+1] - c[i], the last one against a *)
Fixpoint np_diff_append (c : list Z) (a : Z) : list Z :=
  match c with
  | [] => []
  | x :: tl => (match tl with [] => a | y :: _ => y end - x) :: np_diff_append tl a
  end.

(* np.nonzero(d)[0]: the indexes of the non-zero entries, ascending *)
Fixpoint nonzero_from (off : Z) (d : list Z) : list Z :=
  match d with
  | [] => []
  | x :: tl => if x =? 0 then nonzero_from (off + 1) tl else off :: nonzero_from (off + 1) tl
  end.
Definition np_nonzero (d : list Z) : list Z := nonzero_from 0 d.

Definition zidx (l : list Z) (i : Z) : Z := nth (Z.to_nat i) l 0.
Definition zslice (l : list Z) (a b : Z) : list Z := firstn (Z.to_nat (b - a)) (skipn (Z.to_nat a) l).
(* np.max of a non-empty array *)
Definition np_max (l : list Z) : Z := match l with [] => 0 | x :: tl => fold_left Z.max tl x end.

Fixpoint map3 {A} (f : Z -> Z -> Z -> A) (a b c : list Z) : list A :=
  match a, b, c with
  | x :: a', y :: b', z :: c' => f x y z :: map3 f a' b' c'
  | _, _, _ => []
  end.

(* s = s0; for t in ends: row = body s t; s = next s t *)
Fixpoint for_ends (ends : list Z) (s : Z) (body : Z -> Z -> res (list Z)) (next : Z -> Z -> Z) : res (list (list Z)) :=
  match ends with
  | [] => Ok []
  | t :: tl =>
      match body s t with
      | Err x => Err x
      | Ok row => match for_ends tl (next s t) body next with Err x => Err x | Ok rows => Ok (row :: rows) end
      end
  end.
