(* Base/RegionStr.v -- tokens of an htslib region string, as Region.__str__ builds it (translator/refine2coq.py). *)
From Coq Require Import ZArith.
Inductive rtoken := TContig (c : Z) | TColon | TNum (v : Z) | TDash.
