(* Base/SanPrims.v -- meaning of the numpy row operations translator/san2coq.py emits for the value
   sanitisers (C01).  A buffer row is a list of cells; float cells are binary32 bit patterns in
   [0, 2^32). *)
From Coq Require Import ZArith List Bool.
From B2Z Require Import Base.Prims.
Import ListNotations.
Open Scope Z_scope.

Inductive vcf_type := TInteger | TFloat | TFlag | TString.
Inductive sanitiser := S_bool | S_float_scalar | S_float_1d | S_float_2d | S_int_scalar | S_int_1d | S_int_2d
                     | S_string_scalar | S_string_1d | S_string_2d.

(* buff[j] = c : every cell of the row *)
Definition row_full (w : nat) (c : Z) : list Z := repeat c w.
Definition rows_full (n w : nat) (c : Z) : list (list Z) := repeat (repeat c w) n.

(* buff[j, :len(v)] = v : numpy raises ValueError when v is longer than the row *)
Definition row_set_prefix (row v : list Z) : res (list Z) :=
  if Nat.leb (length v) (length row) then Ok (v ++ skipn (length v) row) else Err E_ValueError.
(* buff[j, :, :k] = v : v has one row per sample, all of length k *)
Fixpoint rows_set_prefix (rows v : list (list Z)) : res (list (list Z)) :=
  match rows, v with
  | [], [] => Ok []
  | r :: rows', x :: v' =>
      match row_set_prefix r x, rows_set_prefix rows' v' with
      | Ok a, Ok b => Ok (a :: b)
      | Err e, _ | _, Err e => Err e
      end
  | _, _ => Err E_ValueError           (* sample counts differ: not broadcastable *)
  end.

(* np.isnan on a binary32 bit pattern: exponent all ones, mantissa non-zero *)
Definition is_nan (b : Z) : bool := (b mod 2147483648) >? 2139095040.

(* interned strings: the two sentinel strings "." and "" (every other string has another id) *)
Definition str_missing : Z := -1.
Definition str_fill : Z := -2.

(* x[0] *)
Definition py_index0 (x : list Z) : res Z := match x with [] => Err E_IndexError | a :: _ => Ok a end.
