(* Base/Eff.v -- the effect language translator/proto2coq.py emits for the protocol commands
   (distributed explode: icf.py; distributed encode: vcz.py).

   A command's source is reduced, statement by statement and in program order, to the sequence of
   its file-system effects and of the guards that can make it raise; every path expression is
   resolved (through __init__ and the path helper methods) to a canonical component tuple and then
   to one of the symbols below.  Protocol/IcfEffects.v and Protocol/VczEffects.v give the effect
   lists a meaning over the abstract file systems of the protocol models; Bridge/BridgeProtocol.v
   proves, for EVERY state, that the denotation of the regenerated lists is the step list of the
   models the C05 / C06 theorems are about. *)
From Coq Require Import List.
Import ListNotations.

Inductive sym :=
(* <icf>/ *)
| IRoot | IWip | IHeader | IWipMeta | IFinalMeta
| ISummaryCur            (* wip/p<j>.json for the command's own partition *)
| ISummaryLoop           (* wip/p<l>.json for a loop variable over all partitions *)
(* <vcz>/ *)
| ZRoot | ZWip | ZArrays | ZParts | ZMeta
| ZWipDirCur | ZFinDirCur | ZStaleDirCur    (* wip/partitions/{wip_p,p,stale_p}<j> *)
| ZFinDirLoop                               (* wip/partitions/p<l> *)
| ZSrcArr                                   (* wip/partitions/p<l>/<a> *)
| ZArrTmpl                                  (* wip/arrays/<a> *)
| ZFinalArr.                                (* <a> *)

(* inside `for partition in range(num_partitions)` of finalise_array *)
Inductive peff :=
| PGuardPresent (p : sym)                   (* if not p.exists(): raise *)
| PMoveEntries (src dst : sym).             (* for f in src.iterdir() (non-hidden): os.rename(f, dst / f.name) *)

(* inside finalise_array(name) *)
Inductive aeff :=
| AGuardAbsent (p : sym)                    (* if p.exists(): raise *)
| AForParts (body : list peff)
| ARename (a b : sym)
| APure.

Inductive eff :=
| GuardAbsent (p : sym)                     (* if p.exists(): raise *)
| GuardRange                                (* if j < 0 or j >= num_partitions: raise *)
| ReadFile (p : sym)                        (* with open(p) as f: parse -- raises unless p is complete *)
| ReadAllSummaries                          (* load_partition_summaries: raises unless every wip/p<l>.json parses *)
| GuardAllPresent (p : sym)                 (* collect the l for which p does not exist; raise if any *)
| PureCheck                                 (* a call / assert that can raise but touches nothing in the output *)
| Mkdir (p : sym)
| MkdirFields                               (* for field: field_path.mkdir(parents=True) *)
| WriteFile (p : sym)                       (* with open(p, "w") as f: f.write / json.dump *)
| UnlinkIfExists (p : sym)
| RmtreeIfExists (p : sym)
| Rmtree (p : sym)
| Rename (a b : sym)
| RenameIfExists (a b : sym)                (* if a.exists(): os.rename(a, b) *)
| WriteData                                 (* the partition's data: IcfPartitionWriter block / the encode_*_partition calls *)
| ZarrRootInit                              (* zarr.open(root) + attrs + sample / filter / contig arrays *)
| ZarrArrayTemplates                        (* for field: init_array(...) under wip/arrays *)
| ForArrays (body : list aeff)              (* for field in schema.fields: finalise_array(field.name) *)
| Consolidate.                              (* zarr.consolidate_metadata(root) *)
