(* Base/OffPrims.v -- meaning of the Python / numpy idioms translator/offs2coq.py emits (C04). *)
From Coq Require Import ZArith List Bool.
From B2Z Require Import Base.Prims.
Import ListNotations.
Open Scope Z_scope.

(* sorted(list of (int, int) tuples): ascending lexicographic order (insertion sort; the result of a
   sort by a total order that identifies only identical pairs does not depend on the algorithm) *)
Definition pair_leb (a b : Z * Z) : bool := (fst a <? fst b) || ((fst a =? fst b) && (snd a <=? snd b)).
Fixpoint pair_insert (x : Z * Z) (l : list (Z * Z)) : list (Z * Z) :=
  match l with [] => [x] | y :: tl => if pair_leb x y then x :: y :: tl else y :: pair_insert x tl end.
Fixpoint py_sorted_pairs (l : list (Z * Z)) : list (Z * Z) :=
  match l with [] => [] | x :: tl => pair_insert x (py_sorted_pairs tl) end.

(* for i, x in enumerate(l), as a monadic map *)
Fixpoint mapM_i {A B} (f : Z -> A -> res B) (i : Z) (l : list A) : res (list B) :=
  match l with
  | [] => Ok []
  | x :: tl => match f i x with Err e => Err e | Ok y => match mapM_i f (i + 1) tl with Err e => Err e | Ok ys => Ok (y :: ys) end end
  end.
Fixpoint mapi_from {A B} (i : Z) (f : Z -> A -> B) (l : list A) : list B :=
  match l with [] => [] | x :: tl => f i x :: mapi_from (i + 1) f tl end.

Definition np_hstack {A} (l : list (list A)) : list A := concat l.
Definition zlen {A} (l : list A) : Z := Z.of_nat (length l).
Definition np_full (n v : Z) : list Z := repeat v (Z.to_nat n).
Definition np_arange (n : Z) : list Z := map Z.of_nat (seq 0 (Z.to_nat n)).
Fixpoint zip3 (a b c : list Z) : list (Z * (Z * Z)) :=
  match a, b, c with x :: a', y :: b', z :: c' => (x, (y, z)) :: zip3 a' b' c' | _, _, _ => [] end.
