(* Base/ExtZ.v -- integers extended with the two infinities (the defaults of VcfFieldSummary's min_value / max_value) and
   Python's min / max on them; the running summary translator/summ2coq.py talks about. *)
From Coq Require Import ZArith.
Open Scope Z_scope.

Inductive ext := NegInf | Fin (z : Z) | PosInf.
Definition ext_max (a b : ext) : ext :=
  match a, b with
  | PosInf, _ | _, PosInf => PosInf
  | NegInf, x | x, NegInf => x
  | Fin x, Fin y => Fin (Z.max x y)
  end.
Definition ext_min (a b : ext) : ext :=
  match a, b with
  | NegInf, _ | _, NegInf => NegInf
  | PosInf, x | x, PosInf => x
  | Fin x, Fin y => Fin (Z.min x y)
  end.
Record gsum := { g_max_number : Z; g_max_value : ext; g_min_value : ext }.
