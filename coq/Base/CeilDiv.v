(* int(np.ceil(a / b)) for Python ints a, b: `a / b` is the correctly rounded (nearest-even)
   binary64 quotient.  For 0 <= a < 2^53 and 1 <= b < 2^53 its ceiling is the exact ceiling
   of the rational a/b -- the meaning Base/Prims.ceil_truediv gives to the expression. *)
From Coq Require Import ZArith Reals Lia Lra Psatz.
From Flocq Require Import Core.
Open Scope R_scope.

Definition emin := (-1074)%Z.
Definition prec := 53%Z.
#[global] Instance prec_gt_0 : Prec_gt_0 prec. Proof. unfold Prec_gt_0, prec. lia. Qed.
Definition fexp := FLT_exp emin prec.
Definition format := generic_format radix2 fexp.
Definition fl (x : R) : R := round radix2 fexp ZnearestE x.

Lemma format_int (n : Z) : (Z.abs n < 2 ^ 53)%Z -> format (IZR n).
Proof.
  intros H. apply generic_format_FLT. exists (Float radix2 n 0).
  - unfold F2R. simpl. lra.
  - simpl. exact H.
  - simpl. unfold emin. lia.
Qed.

Lemma format_dyadic (m t : Z) : (0 <= t <= 1074)%Z -> (Z.abs m < 2 ^ 53)%Z -> format (IZR m * bpow radix2 (- t)).
Proof.
  intros Ht Hm. apply generic_format_FLT. exists (Float radix2 m (- t)).
  - reflexivity.
  - simpl. exact Hm.
  - simpl. unfold emin. lia.
Qed.

Theorem ceil_fdiv (a b : Z) : (0 <= a < 2 ^ 53)%Z -> (1 <= b < 2 ^ 53)%Z ->
  Zceil (fl (IZR a / IZR b)) = (- ((- a) / b))%Z.
Proof.
  intros Ha Hb.
  assert (P53: (2 ^ 53 = 9007199254740992)%Z) by reflexivity.
  set (k := (- ((- a) / b))%Z).
  assert (Hk: ((k - 1) * b < a <= k * b)%Z).
  { unfold k. pose proof (Z.div_mod (- a) b ltac:(lia)). pose proof (Z.mod_pos_bound (- a) b ltac:(lia)). nia. }
  assert (Hk0: (0 <= k <= a)%Z) by nia.
  assert (Bpos: 0 < IZR b) by (apply IZR_lt; lia).
  set (q := IZR a / IZR b).
  assert (Hq1: IZR (k - 1) < q).
  { unfold q. apply Rmult_lt_reg_r with (IZR b); [exact Bpos|]. unfold Rdiv. rewrite Rmult_assoc, Rinv_l, Rmult_1_r by lra.
    rewrite <- mult_IZR. apply IZR_lt. lia. }
  assert (Hq2: q <= IZR k).
  { unfold q. apply Rmult_le_reg_r with (IZR b); [exact Bpos|]. unfold Rdiv. rewrite Rmult_assoc, Rinv_l, Rmult_1_r by lra.
    rewrite <- mult_IZR. apply IZR_le. lia. }
  (* upper bound *)
  assert (Fk: format (IZR k)) by (apply format_int; rewrite P53; lia).
  assert (Fk1: format (IZR (k - 1))) by (apply format_int; rewrite P53; lia).
  assert (U: fl q <= IZR k).
  { unfold fl. rewrite <- (round_generic radix2 fexp ZnearestE (IZR k) Fk). apply round_le; [apply FLT_exp_valid; apply prec_gt_0|apply valid_rnd_N|exact Hq2]. }
  assert (L0: IZR (k - 1) <= fl q).
  { unfold fl. rewrite <- (round_generic radix2 fexp ZnearestE (IZR (k - 1)) Fk1). apply round_le; [apply FLT_exp_valid; apply prec_gt_0|apply valid_rnd_N|lra]. }
  (* strict lower bound: a representable g strictly between k-1 and (k-1) + 2 (q - (k-1)) *)
  assert (L: IZR (k - 1) < fl q).
  { destruct (Z.eq_dec k 0) as [K0|K0].
    { assert (a = 0)%Z by nia. subst a. unfold q, fl. unfold Rdiv. rewrite Rmult_0_l, round_0 by apply valid_rnd_N.
      rewrite K0. simpl. lra. }
    destruct (Rle_lt_or_eq_dec _ _ L0) as [Hlt|Heq]; [exact Hlt|exfalso].
    set (t := Z.log2 b).
    assert (Ht: (0 <= t)%Z) by apply Z.log2_nonneg.
    assert (Hlog: (2 ^ t <= b < 2 ^ (t + 1))%Z).
    { unfold t. pose proof (Z.log2_spec b ltac:(lia)). rewrite <- Z.add_1_r in H. exact H. }
    assert (Ht53: (t < 53)%Z).
    { destruct (Z_lt_ge_dec t 53); [assumption|]. assert (2 ^ 53 <= 2 ^ t)%Z by (apply Z.pow_le_mono_r; lia). lia. }
    set (g := IZR ((k - 1) * 2 ^ t + 1) * bpow radix2 (- t)).
    assert (Fg: format g).
    { apply format_dyadic; [lia|]. rewrite P53. rewrite P53 in Ha, Hb. assert ((k - 1) * 2 ^ t <= (k - 1) * b)%Z by (apply Z.mul_le_mono_nonneg_l; lia).
      assert (0 <= (k - 1) * 2 ^ t)%Z by (apply Z.mul_nonneg_nonneg; lia).
      rewrite Z.abs_eq by lia. lia. }
    assert (Bt: bpow radix2 (- t) * IZR (2 ^ t) = 1).
    { replace (IZR (2 ^ t)) with (bpow radix2 t) by (symmetry; apply (IZR_Zpower radix2); exact Ht). rewrite <- bpow_plus. replace (- t + t)%Z with 0%Z by lia. reflexivity. }
    assert (Bt0: 0 < bpow radix2 (- t)) by apply bpow_gt_0.
    assert (Eg: g = IZR (k - 1) + bpow radix2 (- t)).
    { unfold g. rewrite plus_IZR, mult_IZR. simpl (IZR 1). rewrite Rmult_plus_distr_r, Rmult_1_l.
      rewrite Rmult_assoc. rewrite (Rmult_comm (IZR (2 ^ t))). rewrite Bt. lra. }
    (* 2^-t < 2 / b <= 2 (q - (k-1)) *)
    assert (Hb2: IZR b < 2 * IZR (2 ^ t)).
    { rewrite <- mult_IZR. apply IZR_lt. rewrite Z.pow_add_r in Hlog by lia. lia. }
    assert (Hgap: / IZR b <= q - IZR (k - 1)).
    { apply Rmult_le_reg_r with (IZR b); [exact Bpos|]. rewrite Rinv_l by lra.
      unfold q. unfold Rdiv. rewrite Rmult_minus_distr_r. rewrite Rmult_assoc, Rinv_l, Rmult_1_r by lra.
      rewrite <- mult_IZR, <- minus_IZR. apply IZR_le. lia. }
    assert (Hsmall: bpow radix2 (- t) < 2 * / IZR b).
    { apply Rmult_lt_reg_r with (IZR b); [exact Bpos|]. rewrite Rmult_assoc, Rinv_l, Rmult_1_r by lra.
      apply Rmult_lt_reg_r with (IZR (2 ^ t)); [apply IZR_lt; apply Z.pow_pos_nonneg; lia|].
      replace (bpow radix2 (- t) * IZR b * IZR (2 ^ t)) with (IZR b * (bpow radix2 (- t) * IZR (2 ^ t))) by ring.
      rewrite Bt. lra. }
    (* nearest-ness *)
    pose proof (round_N_pt radix2 fexp (fun z => negb (Z.even z)) q) as [_ N].
    specialize (N g Fg). fold (fl q) in N. unfold fl in Heq. change (round radix2 fexp ZnearestE q) with (fl q) in *.
    rewrite <- Heq in N.
    rewrite Eg in N.
    assert (A1: Rabs (IZR (k - 1) - q) = q - IZR (k - 1)) by (rewrite Rabs_left by lra; lra).
    rewrite A1 in N.
    destruct (Rle_lt_dec (IZR (k - 1) + bpow radix2 (- t)) q) as [C|C].
    - rewrite Rabs_left1 in N by lra. lra.
    - rewrite Rabs_pos_eq in N by lra. lra. }
  apply Zceil_imp. split; [rewrite minus_IZR in *; simpl (IZR 1) in *; lra|exact U].
Qed.
Print Assumptions ceil_fdiv.
