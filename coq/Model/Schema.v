(* Model/Schema.v -- dtype selection, array specs from field summaries, schema generation
   (vcz.py ZarrArraySpec.from_field / VcfZarrSchema.generate, icf.py smallest_dtype),
   integer cast.  Executable definitions + boolean checkers only.  (C10, C02) *)
From Coq Require Import ZArith List Bool.
From B2Z Require Import Base.Prims.
Import ListNotations.
Open Scope Z_scope.

(* dtype codes: 1,2,4,8 = i1..i8 ; 14 = f4 ; 10 = bool ; 11 = U1 ; 12 = O *)
Definition DT_F4 := 14.
Definition DT_BOOL := 10.
Definition DT_U1 := 11.
Definition DT_O := 12.
Definition is_int_dtype (d : Z) : bool := (d =? 1) || (d =? 2) || (d =? 4) || (d =? 8).

Definition fits (code lo hi : Z) : bool := (iinfo_min code <=? lo) && (hi <=? iinfo_max code).
(* core.min_int_dtype *)
Definition min_int_dtype (lo hi : Z) : res Z :=
  if hi <? lo then Err E_ValueError
  else if fits 1 lo hi then Ok 1 else if fits 2 lo hi then Ok 2
  else if fits 4 lo hi then Ok 4 else if fits 8 lo hi then Ok 8 else Err E_OverflowError.

(* numpy astype between integer widths wraps (two's complement) *)
Definition cast (code x : Z) : Z := (x + 2 ^ (8 * code - 1)) mod 2 ^ (8 * code) - 2 ^ (8 * code - 1).

(* VCF Type: 0 Integer, 1 Float, 2 Flag, 3 Character, 4 String.
   VCF Number: n >= 0, or -1 R, -2 A, -3 G, -4 '.' (and anything else) *)
Record fsummary := { s_max_number : Z; s_bounds : option (Z * Z) }. (* None: min/max are +-inf *)
Record vfield := {
  f_cat : Z;          (* 0 fixed, 1 INFO, 2 FORMAT *)
  f_id : Z;           (* interned name *)
  f_number : Z; f_type : Z;
  f_is_laa : bool;    (* full_name == "FORMAT/LAA" *)
  f_sum : fsummary }.

(* VcfField.smallest_dtype *)
Definition smallest_dtype (f : vfield) : res Z :=
  if f_type f =? 1 then Ok DT_F4
  else if f_type f =? 0 then
    match s_bounds (f_sum f) with
    | None => Ok 1
    | Some (lo, hi) => min_int_dtype lo hi
    end
  else if f_type f =? 2 then Ok DT_BOOL
  else if f_type f =? 3 then Ok DT_U1
  else if f_type f =? 4 then Ok DT_O
  else Err E_AssertionError.

Inductive dim := DVariants | DSamples | DFilters | DAlleles | DAltAlleles | DGenotypes | DPloidy
               | DField (cat id : Z).
Definition dim_eqb (a b : dim) : bool :=
  match a, b with
  | DVariants, DVariants | DSamples, DSamples | DFilters, DFilters | DAlleles, DAlleles
  | DAltAlleles, DAltAlleles | DGenotypes, DGenotypes | DPloidy, DPloidy => true
  | DField c f, DField c' f' => (c =? c') && (f =? f')
  | _, _ => false
  end.

(* array names: the fixed arrays by number, field arrays by (category, id) *)
Inductive aname := AFixed (k : Z) | AField (cat id : Z).
(* 0 variant_contig 1 variant_filter 2 variant_allele 3 variant_id 4 variant_id_mask
   5 variant_quality 6 variant_position 7 variant_length
   8 call_genotype_phased 9 call_genotype 10 call_genotype_mask *)

Record spec := { sp_name : aname; sp_dtype : Z; sp_shape : list Z; sp_chunks : list Z; sp_dims : list dim;
                 sp_field : option (Z * Z) }.

Record gen_params := {
  g_m : Z; g_n : Z; g_vcs : Z; g_scs : Z; g_num_contigs : Z; g_num_filters : Z;
  g_max_alleles : Z;      (* ALT.summary.max_number + 1 *)
  g_gsize : Z }.          (* max max_number over all Number=G fields, default 0 *)

Definition shared_dim (p : gen_params) (f : vfield) : option (dim * Z) :=
  if f_number f =? -1 then Some (DAlleles, g_max_alleles p)
  else if f_number f =? -2 then Some (DAltAlleles, g_max_alleles p - 1)
  else if f_number f =? -3 then Some (DGenotypes, g_gsize p)
  else None.

(* ZarrArraySpec.from_field (with shared_dimension_sizes, i.e. after the F3 fix) *)
Definition from_field (p : gen_params) (f : vfield) (name : aname) : res spec :=
  bind (smallest_dtype f) (fun dt =>
  let fmt := f_cat f =? 2 in
  let shape := g_m p :: (if fmt then [g_n p] else []) in
  let chunks := g_vcs p :: (if fmt then [g_scs p] else []) in
  let dims := DVariants :: (if fmt then [DSamples] else []) in
  let mn := s_max_number (f_sum f) in
  if (1 <? mn) || f_is_laa f then
    let d := match shared_dim p f with
             | Some (nm, size) => if size =? mn then nm else DField (f_cat f) (f_id f)
             | None => DField (f_cat f) (f_id f) end in
    Ok {| sp_name := name; sp_dtype := dt; sp_shape := shape ++ [mn]; sp_chunks := chunks ++ [mn];
          sp_dims := dims ++ [d]; sp_field := Some (f_cat f, f_id f) |}
  else
    Ok {| sp_name := name; sp_dtype := dt; sp_shape := shape; sp_chunks := chunks; sp_dims := dims;
          sp_field := Some (f_cat f, f_id f) |}).

Definition fixed_spec (p : gen_params) (k dt : Z) (shape chunks : list Z) (dims : list dim) : spec :=
  {| sp_name := AFixed k; sp_dtype := dt; sp_shape := shape; sp_chunks := chunks; sp_dims := dims; sp_field := None |}.

Definition field_name (f : vfield) : aname := AField (f_cat f) (f_id f).

(* VcfZarrSchema.generate.  qual/pos/rlen: the three fixed fields mapped one-to-one;
   infos, formats: metadata.info_fields / format_fields without GT; gt: the GT field *)
Definition generate (p : gen_params) (qual pos rlen : vfield) (infos formats : list vfield) (gt : option vfield)
  : res (list spec) :=
  let m := g_m p in let vcs := g_vcs p in
  bind (min_int_dtype 0 (g_num_contigs p)) (fun cdt =>
  let fixed := [
    fixed_spec p 0 cdt [m] [vcs] [DVariants];
    fixed_spec p 1 DT_BOOL [m; g_num_filters p] [vcs; g_num_filters p] [DVariants; DFilters];
    fixed_spec p 2 DT_O [m; g_max_alleles p] [vcs; g_max_alleles p] [DVariants; DAlleles];
    fixed_spec p 3 DT_O [m] [vcs] [DVariants];
    fixed_spec p 4 DT_BOOL [m] [vcs] [DVariants] ] in
  bind (from_field p qual (AFixed 5)) (fun sq =>
  bind (from_field p pos (AFixed 6)) (fun sp =>
  bind (from_field p rlen (AFixed 7)) (fun sl =>
  bind (mapM (fun f => from_field p f (field_name f)) infos) (fun si =>
  bind (mapM (fun f => from_field p f (field_name f)) formats) (fun sf =>
  bind (match gt with
        | None => Ok []
        | Some g =>
            bind (smallest_dtype g) (fun gdt =>
            let ploidy := Z.max (s_max_number (f_sum g) - 1) 1 in
            let sh := [m; g_n p] in let ch := [vcs; g_scs p] in let ds := [DVariants; DSamples] in
            Ok [ fixed_spec p 8 DT_BOOL sh ch ds;
                 fixed_spec p 9 gdt (sh ++ [ploidy]) (ch ++ [ploidy]) (ds ++ [DPloidy]);
                 fixed_spec p 10 DT_BOOL (sh ++ [ploidy]) (ch ++ [ploidy]) (ds ++ [DPloidy]) ])
        end) (fun sg =>
  Ok (fixed ++ [sq; sp; sl] ++ si ++ sf ++ sg)))))))).

(* ---- boolean statements ------------------------------------------------------------------ *)
(* every integer value v of a field lies in the chosen dtype's range, sentinels too *)
Definition in_dtype (code v : Z) : bool := (iinfo_min code <=? v) && (v <=? iinfo_max code).

(* C02 dims_coherent: lookup of a dimension name in a spec *)
Fixpoint lookup_dim (d : dim) (ds : list dim) (sh : list Z) : option Z :=
  match ds, sh with
  | d' :: ds', s :: sh' => if dim_eqb d d' then Some s else lookup_dim d ds' sh'
  | _, _ => None
  end.
Definition all_dims : list spec -> list dim := flat_map sp_dims.
Definition dims_coherent_b (specs : list spec) : bool :=
  forallb (fun a => forallb (fun b => forallb (fun d =>
    match lookup_dim d (sp_dims a) (sp_shape a), lookup_dim d (sp_dims b) (sp_shape b) with
    | Some x, Some y => x =? y
    | _, _ => true end) (sp_dims a)) specs) specs.
