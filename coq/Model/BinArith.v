(* Model/BinArith.v -- CSI bin arithmetic in closed (power-of-two) form.  (C09, C04) *)
From Coq Require Import ZArith List Bool.
From B2Z Require Import Base.Prims.
Import ListNotations.
Open Scope Z_scope.

Definition first_bin (l : Z) : Z := (2 ^ (3 * l) - 1) / 7.
Definition level_size (l : Z) : Z := 2 ^ (3 * l).
Definition bin_limit (depth : Z) : Z := (2 ^ (3 * (depth + 1)) - 1) / 7.
Definition level_for_bin (depth bin : Z) : option Z :=
  range_down_find (fun i => first_bin i <=? bin) depth.
Definition first_locus (min_shift depth bin : Z) : option Z :=
  match level_for_bin depth bin with
  | Some l => Some ((bin - first_bin l) * (2 ^ (min_shift + 3 * depth) / level_size l) + 1)
  | None => None
  end.
Definition file_offset (v : Z) : Z := (v / 65536) mod 281474976710656.
