(* Model/Partitions.v -- encode work partitions and PLINK slices (C11).
   Executable definitions and boolean checkers only. *)
From Coq Require Import ZArith List Bool.
From B2Z Require Import Base.Prims.
Import ListNotations.
Open Scope Z_scope.

Definition msections (n k : Z) : list (Z * Z) :=
  sections 0 (n / k) (n mod k) (Z.to_nat k).

Definition capped_chunks (nr cs : Z) (mc : option Z) : Z :=
  let nc := ceil_truediv nr cs in
  match mc with None => nc | Some m => Z.min nc m end.

(* vcz.py VcfZarrPartition.generate_partitions *)
Definition generate_partitions (nr cs np : Z) (mc : option Z) : list (Z * Z) :=
  let nc := capped_chunks nr cs mc in
  map (fun sl => (fst sl * cs, Z.min ((snd sl + 1) * cs) nr))
      (msections nc (Z.min np nc)).

(* core.py chunk_aligned_slices (z.chunks[0], z.shape[0], n, max_chunks) *)
Definition chunk_aligned_slices (cs shape0 n : Z) (mc : option Z) : list (Z * Z) :=
  generate_partitions shape0 cs n mc.

(* number of records that must be covered *)
Definition total_records (nr cs : Z) (mc : option Z) : Z :=
  match mc with None => nr | Some m => Z.min nr (m * cs) end.

(* boolean statement of C11 for a candidate partition list *)
Fixpoint chain_ok (cs a : Z) (l : list (Z * Z)) (b : Z) : bool :=
  match l with
  | [] => a =? b
  | (s, e) :: tl => (s =? a) && (s <? e) && (s mod cs =? 0) && chain_ok cs e tl b
  end.

Definition check_C11 (nr cs np : Z) (mc : option Z) (ps : list (Z * Z)) : bool :=
  chain_ok cs 0 ps (total_records nr cs mc)
  && (1 <=? Z.of_nat (length ps)) && (Z.of_nat (length ps) <=? np).
