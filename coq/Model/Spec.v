(* Model/Spec.v -- the reference VCF -> VCF Zarr encoder (C01): an abstract VCF (header: contigs,
   filters with the position of PASS, samples, INFO / FORMAT definitions; records: contig, pos,
   id, ref, alts, qual, filters, typed INFO values with per-element missingness, FORMAT vectors
   per sample incl. '.', GT alleles + phase) is mapped to the arrays of the store, written
   directly from the VCF Zarr encoding:  absent => missing sentinel, short vector => fill
   padding, ints with -1 / -2, floats as 32-bit patterns with 0x7F800001 / 0x7F800002, strings
   "." / "" (interned: 0 and 1), flags as bool, filters by canonical order (PASS first), alleles
   padded with "", genotype / mask / phased, integer dtypes by C10's rule, inner widths by the
   widest value, records ordered by (header contig index, file order).
   Cells that the input does not determine are DONTCARE.  Executable definitions only. *)
From Coq Require Import ZArith List Bool.
From B2Z Require Import Base.Prims Model.Schema.
Import ListNotations.
Open Scope Z_scope.

Definition DONTCARE : Z := -777777777.
Definition STR_MISSING : Z := 0.
Definition STR_FILL : Z := 1.
Definition F32_MISSING : Z := 2139095041.
Definition F32_FILL : Z := 2139095042.

(* type codes: 0 Integer, 1 Float, 2 Flag, 3 Character, 4 String *)
Definition missv (ty : Z) : Z := if ty =? 0 then -1 else if ty =? 1 then F32_MISSING else STR_MISSING.
Definition fillv (ty : Z) : Z := if ty =? 0 then -2 else if ty =? 1 then F32_FILL else STR_FILL.
Definition is_numeric (ty : Z) : bool := (ty =? 0) || (ty =? 1).

Definition vec := list (option Z).                 (* a vector value with per-element missingness *)
Inductive infoval := IAbsent | IFlag | IVec (v : vec).
Inductive fmtval := FAbsent | FSamples (per : list (option vec)).   (* None = '.' / dropped trailing key *)

Record record := {
  r_contig : Z; r_pos : Z; r_id : option Z; r_ref : Z; r_reflen : Z; r_alts : list Z;
  r_qual : option Z; r_filters : option (list Z);      (* canonical filter indexes *)
  r_info : list infoval; r_fmt : list fmtval;
  r_gt : option (list (list (option Z) * bool)) }.

Record header := {
  h_ncontigs : Z; h_nfilters : Z; h_nsamples : nat;
  h_infos : list (Z * Z);        (* (number code, type code) -- only the type matters *)
  h_fmts : list (Z * Z);
  h_has_gt : bool }.

Inductive aname := AFixed (k : Z) | AInfo (i : Z) | AFmt (i : Z).
Record array := { a_name : aname; a_dtype : Z; a_shape : list Z; a_vals : list Z }.

(* ---- ordering: stable sort by contig index ---------------------------------------------------- *)
Fixpoint insert_rec (x : record) (l : list record) : list record :=
  match l with
  | [] => [x]
  | y :: tl => if r_contig y <? r_contig x then y :: insert_rec x tl else x :: l     (* x goes before equal keys: stable *)
  end.
Definition sort_records (l : list record) : list record := fold_right insert_rec [] l.

(* ---- cells and rows --------------------------------------------------------------------------- *)
Definition enc_cell (ty : Z) (x : option Z) : Z := match x with None => missv ty | Some v => v end.
Definition zrepeat (x : Z) (n : Z) : list Z := repeat x (Z.to_nat n).
Definition zlen {A} (l : list A) : Z := Z.of_nat (length l).
Definition maxl (l : list Z) (d : Z) : Z := fold_left Z.max l d.

Definition whole_missing (v : vec) : bool := match v with [None] => true | _ => false end.
(* cyvcf2 reports an INFO Integer/Float value consisting solely of '.' as absent *)
Definition info_effective (ty : Z) (iv : infoval) : infoval :=
  match iv with
  | IVec v => if whole_missing v && is_numeric ty then IAbsent else iv
  | _ => iv
  end.
Definition info_width (ty : Z) (vals : list infoval) : Z :=
  maxl (map (fun iv => match info_effective ty iv with IVec v => zlen v | _ => 0 end) vals) 0.
Definition info_row (ty w : Z) (iv : infoval) : list Z :=
  let w1 := Z.max w 1 in
  match info_effective ty iv with
  | IVec v => if whole_missing v then missv ty :: zrepeat DONTCARE (w1 - 1)
              else map (enc_cell ty) v ++ zrepeat (fillv ty) (w1 - zlen v)
  | _ => zrepeat (missv ty) w1
  end.

Definition int_values_dtype (vals : list Z) : res Z :=
  match vals with
  | [] => Ok 1
  | x :: tl => min_int_dtype (fold_left Z.min tl x) (fold_left Z.max tl x)
  end.
Definition type_dtype (ty : Z) (ints : list Z) : res Z :=
  if ty =? 0 then int_values_dtype ints
  else if ty =? 1 then Ok DT_F4 else if ty =? 2 then Ok DT_BOOL else if ty =? 3 then Ok DT_U1 else Ok DT_O.
Definition somes (v : vec) : list Z := flat_map (fun x => match x with Some z => [z] | None => [] end) v.

Definition info_array (i : Z) (ty : Z) (recs : list record) : res array :=
  let vals := map (fun r => nth (Z.to_nat i) (r_info r) IAbsent) recs in
  let m := zlen recs in
  if ty =? 2 then
    Ok {| a_name := AInfo i; a_dtype := DT_BOOL; a_shape := [m];
          a_vals := map (fun iv => match iv with IAbsent => 0 | _ => 1 end) vals |}
  else
    let w := info_width ty vals in
    bind (type_dtype ty (flat_map (fun iv => match iv with IVec v => somes v | _ => [] end) vals)) (fun dt =>
    Ok {| a_name := AInfo i; a_dtype := dt; a_shape := if 1 <? w then [m; w] else [m];
          a_vals := flat_map (info_row ty w) vals |}).

(* FORMAT: per record the per-sample vectors *)
Definition fmt_rec_width (fv : fmtval) : option Z :=
  match fv with
  | FAbsent => None
  | FSamples per => Some (maxl (map (fun s => match s with Some v => zlen v | None => 0 end) per) 1)
  end.
Definition fmt_width (vals : list fmtval) : Z :=
  maxl (flat_map (fun fv => match fmt_rec_width fv with Some w => [w] | None => [] end) vals) 0.
Definition fmt_row (ty w : Z) (ns : nat) (fv : fmtval) : list Z :=
  let w1 := Z.max w 1 in
  match fv with
  | FAbsent => zrepeat (missv ty) (Z.of_nat ns * w1)
  | FSamples per =>
      flat_map (fun s => match s with
                         | None => missv ty :: zrepeat (fillv ty) (w1 - 1)
                         | Some v => map (enc_cell ty) v ++ zrepeat (fillv ty) (w1 - zlen v)
                         end) per
  end.
Definition fmt_array (i : Z) (ty : Z) (ns : nat) (recs : list record) : res array :=
  let vals := map (fun r => nth (Z.to_nat i) (r_fmt r) FAbsent) recs in
  let m := zlen recs in
  let w := fmt_width vals in
  bind (type_dtype ty (flat_map (fun fv => match fv with
                                           | FSamples per => flat_map (fun s => match s with Some v => somes v | None => [] end) per
                                           | FAbsent => [] end) vals)) (fun dt =>
  Ok {| a_name := AFmt i; a_dtype := dt; a_shape := if 1 <? w then [m; Z.of_nat ns; w] else [m; Z.of_nat ns];
        a_vals := flat_map (fmt_row ty w ns) vals |}).

(* genotypes *)
Definition gt_ploidy (recs : list record) : Z :=
  maxl (flat_map (fun r => match r_gt r with Some calls => map (fun c : list (option Z) * bool => zlen (fst c)) calls | None => [] end) recs) 1.
Definition gt_rows (pl : Z) (ns : nat) (r : record) : list Z * list Z :=   (* (genotype cells, phased cells) *)
  match r_gt r with
  | None => (zrepeat (-1) (Z.of_nat ns * pl), zrepeat 0 (Z.of_nat ns))
  | Some calls =>
      (flat_map (fun c : list (option Z) * bool => map (enc_cell 0) (fst c) ++ zrepeat (-2) (pl - zlen (fst c))) calls,
       map (fun c : list (option Z) * bool => if 2 <=? zlen (fst c) then (if snd c then 1 else 0) else DONTCARE) calls)
  end.

(* the fixed-field arrays *)
Definition max_alleles (recs : list record) : Z := maxl (map (fun r => zlen (r_alts r)) recs) 0 + 1.
Definition allele_row (ma : Z) (r : record) : list Z := r_ref r :: r_alts r ++ zrepeat STR_FILL (ma - 1 - zlen (r_alts r)).
Definition filter_row (nf : Z) (r : record) : list Z :=
  map (fun f => match r_filters r with
                | Some fs => if existsb (Z.eqb f) fs then 1 else 0
                | None => 0 end)
      (map Z.of_nat (seq 0 (Z.to_nat nf))).
Definition fixed_arrays (h : header) (recs : list record) (cdt pdt ldt : Z) : list array :=
  let m := zlen recs in
  let ma := max_alleles recs in
  [ {| a_name := AFixed 0; a_dtype := cdt; a_shape := [m]; a_vals := map r_contig recs |};
    {| a_name := AFixed 1; a_dtype := pdt; a_shape := [m]; a_vals := map r_pos recs |};
    {| a_name := AFixed 2; a_dtype := ldt; a_shape := [m]; a_vals := map r_reflen recs |};
    {| a_name := AFixed 3; a_dtype := DT_O; a_shape := [m]; a_vals := map (fun r => match r_id r with Some s => s | None => STR_MISSING end) recs |};
    {| a_name := AFixed 4; a_dtype := DT_BOOL; a_shape := [m]; a_vals := map (fun r => match r_id r with Some _ => 0 | None => 1 end) recs |};
    {| a_name := AFixed 5; a_dtype := DT_O; a_shape := [m; ma]; a_vals := flat_map (allele_row ma) recs |};
    {| a_name := AFixed 6; a_dtype := DT_F4; a_shape := [m]; a_vals := map (fun r => match r_qual r with Some q => q | None => F32_MISSING end) recs |};
    {| a_name := AFixed 7; a_dtype := DT_BOOL; a_shape := [m; h_nfilters h]; a_vals := flat_map (filter_row (h_nfilters h)) recs |} ].

Definition gt_dtype_values (pl : Z) (recs : list record) : list Z :=
  flat_map (fun r => match r_gt r with
                     | Some calls => flat_map (fun c : list (option Z) * bool => map (enc_cell 0) (fst c) ++ (if zlen (fst c) <? pl then [-2] else [])) calls
                     | None => [-1] end) recs.
Definition gt_arrays (ns : nat) (recs : list record) : res (list array) :=
  let m := zlen recs in
  let pl := gt_ploidy recs in
  let rows := map (gt_rows pl ns) recs in
  let g := flat_map fst rows in
  bind (int_values_dtype (gt_dtype_values pl recs)) (fun gdt =>
  Ok [ {| a_name := AFixed 8; a_dtype := gdt; a_shape := [m; Z.of_nat ns; pl]; a_vals := g |};
       {| a_name := AFixed 9; a_dtype := DT_BOOL; a_shape := [m; Z.of_nat ns]; a_vals := flat_map snd rows |};
       {| a_name := AFixed 10; a_dtype := DT_BOOL; a_shape := [m; Z.of_nat ns; pl]; a_vals := map (fun a => if a <? 0 then 1 else 0) g |} ]).

Definition spec_encode (h : header) (recs0 : list record) : res (list array) :=
  let recs := sort_records recs0 in
  let ns := h_nsamples h in
  bind (min_int_dtype 0 (h_ncontigs h)) (fun cdt =>
  bind (int_values_dtype (map r_pos recs)) (fun pdt =>
  bind (int_values_dtype (map r_reflen recs)) (fun ldt =>
  bind (mapM (fun it => info_array (Z.of_nat (fst it)) (snd (snd it)) recs) (combine (seq 0 (length (h_infos h))) (h_infos h))) (fun infos =>
  bind (if Nat.eqb ns 0 then Ok [] else
        mapM (fun it => fmt_array (Z.of_nat (fst it)) (snd (snd it)) ns recs) (combine (seq 0 (length (h_fmts h))) (h_fmts h))) (fun fmts =>
  bind (if h_has_gt h && negb (Nat.eqb ns 0) then gt_arrays ns recs else Ok []) (fun gts =>
  Ok (fixed_arrays h recs cdt pdt ldt ++ infos ++ fmts ++ gts))))))).

(* comparison of a stored array with the specification: equal except on DONTCARE cells *)
Fixpoint vals_match (got want : list Z) : bool :=
  match got, want with
  | [], [] => true
  | g :: gt, w :: wt => ((w =? DONTCARE) || (g =? w)) && vals_match gt wt
  | _, _ => false
  end.
