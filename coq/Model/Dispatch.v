(* Model/Dispatch.v -- the single extracted entry point.  op numbers: <property>*100 + k *)
From Coq Require Import ZArith List Bool.
From B2Z Require Import Base.Prims Base.Sx Model.Partitions Model.IndexParse Model.BinArith Model.Schema Model.Overlap Model.Icf Model.RegionIndex Model.Plink Model.LocalAlleles.
From B2Z Require Model.Regions Model.Workers Model.Footprint Protocol.Exec Model.Spec.
Import ListNotations.
Open Scope Z_scope.

Definition d_C11 (k : Z) (arg : sx) : sx :=
  match k, arg with
  | 0, L [A nr; A cs; A np; mc] =>          (* model generate_partitions *)
      match as_optZ mc with Some mc => of_pairs (generate_partitions nr cs np mc) | None => err_sx 1 end
  | 1, L [A nr; A cs; A np; mc; ps] =>      (* check_C11 on a candidate list *)
      match as_optZ mc, as_PL ps with
      | Some mc, Some ps => of_bool (check_C11 nr cs np mc ps)
      | _, _ => err_sx 1 end
  | _, _ => err_sx 2
  end.

(* ---- C09 ---- *)
Definition sx_csi_bin (x : csi_bin) : sx := L [A (cb_id x); A (cb_loff x); of_pairs (cb_chunks x)].
Definition sx_tbx_bin (x : tbx_bin) : sx := L [A (tb_id x); of_pairs (tb_chunks x)].
Definition sx_csi (i : csi_index) : sx :=
  L [A 1; A (ci_min_shift i); A (ci_depth i); of_Zs (ci_aux i);
     L (map (fun bs => L (map sx_csi_bin bs)) (ci_bins i));
     of_Zs (map rcount_Z (ci_counts i)); A (ci_n_no_coor i)].
Definition sx_tbi (i : tbx_index) : sx :=
  L [A 1; of_Zs (ti_header i); of_ZLL (ti_names i);
     L (map (fun bs => L (map sx_tbx_bin bs)) (ti_bins i));
     of_ZLL (ti_linear i); of_Zs (map rcount_Z (ti_counts i)); A (ti_n_no_coor i)].
Definition un_csi_bin (s : sx) : option csi_bin :=
  match s with
  | L [A id; A loff; cs] => match as_PL cs with Some cs => Some {| cb_id := id; cb_loff := loff; cb_chunks := cs |} | None => None end
  | _ => None end.
Definition un_tbx_bin (s : sx) : option tbx_bin :=
  match s with
  | L [A id; cs] => match as_PL cs with Some cs => Some {| tb_id := id; tb_chunks := cs |} | None => None end
  | _ => None end.
Fixpoint mapO {X Y} (f : X -> option Y) (l : list X) : option (list Y) :=
  match l with
  | [] => Some []
  | x :: tl => match f x, mapO f tl with Some y, Some ys => Some (y :: ys) | _, _ => None end
  end.
Definition un_list {Y} (f : sx -> option Y) (s : sx) : option (list Y) :=
  match s with L l => mapO f l | _ => None end.
Definition un_csi_file (s : sx) : option csi_file :=
  match s with
  | L [A ms; A d; aux; contigs; tail] =>
      match as_ZL aux, un_list (un_list un_csi_bin) contigs, as_optZ tail with
      | Some aux, Some cs, Some t => Some {| cf_min_shift := ms; cf_depth := d; cf_aux := aux; cf_contigs := cs; cf_tail := t |}
      | _, _, _ => None end
  | _ => None end.
Definition un_tbx_contig (s : sx) : option (list tbx_bin * list Z) :=
  match s with
  | L [bins; lin] => match un_list un_tbx_bin bins, as_ZL lin with Some b, Some l => Some (b, l) | _, _ => None end
  | _ => None end.
Definition un_tbx_file (s : sx) : option tbx_file :=
  match s with
  | L [fmt; names; contigs; tail] =>
      match as_ZL fmt, as_ZLL names, un_list un_tbx_contig contigs, as_optZ tail with
      | Some fmt, Some ns, Some cs, Some t => Some {| tf_fmt := fmt; tf_names := ns; tf_contigs := cs; tf_tail := t |}
      | _, _, _, _ => None end
  | _ => None end.

Definition d_C09 (k : Z) (arg : sx) : sx :=
  match k with
  | 0 => match as_ZL arg with Some b => match parse_csi b with Some i => sx_csi i | None => L [A 0] end | None => err_sx 1 end
  | 1 => match as_ZL arg with Some b => match parse_tbi b with Some i => sx_tbi i | None => L [A 0] end | None => err_sx 1 end
  | 2 => match un_csi_file arg with Some f => L [of_Zs (ser_csi f); sx_csi (view_csi f)] | None => err_sx 1 end
  | 3 => match un_tbx_file arg with Some f => L [of_Zs (ser_tbi f); sx_tbi (view_tbi f)] | None => err_sx 1 end
  | 10 => match arg with L [A l] => A (first_bin l) | _ => err_sx 1 end
  | 11 => match arg with L [A l] => A (level_size l) | _ => err_sx 1 end
  | 12 => match arg with L [A d] => A (bin_limit d) | _ => err_sx 1 end
  | 13 => match arg with L [A d; A b] => of_optZ (level_for_bin d b) | _ => err_sx 1 end
  | 14 => match arg with L [A ms; A d; A b] => of_optZ (first_locus ms d b) | _ => err_sx 1 end
  | 15 => match arg with L [A v] => A (file_offset v) | _ => err_sx 1 end
  | _ => err_sx 2
  end.

(* ---- C10 / C02 : schema ---- *)
Definition un_field (s : sx) : option vfield :=
  match s with
  | L [A cat; A id; A num; A ty; A laa; A mn; bounds] =>
      match bounds with
      | L [] => Some {| f_cat := cat; f_id := id; f_number := num; f_type := ty; f_is_laa := negb (laa =? 0);
                        f_sum := {| s_max_number := mn; s_bounds := None |} |}
      | L [A lo; A hi] => Some {| f_cat := cat; f_id := id; f_number := num; f_type := ty; f_is_laa := negb (laa =? 0);
                        f_sum := {| s_max_number := mn; s_bounds := Some (lo, hi) |} |}
      | _ => None end
  | _ => None end.
Definition sx_dim (d : dim) : sx :=
  match d with
  | DVariants => L [A 0] | DSamples => L [A 1] | DFilters => L [A 2] | DAlleles => L [A 3]
  | DAltAlleles => L [A 4] | DGenotypes => L [A 5] | DPloidy => L [A 6] | DField c i => L [A 7; A c; A i] end.
Definition sx_aname (n : aname) : sx := match n with AFixed k => L [A 0; A k] | AField c i => L [A 1; A c; A i] end.
Definition sx_spec (s : spec) : sx :=
  L [sx_aname (sp_name s); A (sp_dtype s); of_Zs (sp_shape s); of_Zs (sp_chunks s); L (map sx_dim (sp_dims s));
     match sp_field s with None => L [] | Some (c, i) => L [A c; A i] end].
Definition sx_resZ (r : res Z) : sx := match r with Ok v => L [A 1; A v] | Err e => L [A 0; A e] end.
Definition un_params (s : sx) : option gen_params :=
  match s with
  | L [A m; A n; A vcs; A scs; A nc; A nf; A ma; A gs] =>
      Some {| g_m := m; g_n := n; g_vcs := vcs; g_scs := scs; g_num_contigs := nc; g_num_filters := nf;
              g_max_alleles := ma; g_gsize := gs |}
  | _ => None end.
Definition d_C10 (k : Z) (arg : sx) : sx :=
  match k, arg with
  | 0, L [A lo; A hi] => sx_resZ (min_int_dtype lo hi)
  | 1, f => match un_field f with Some f => sx_resZ (smallest_dtype f) | None => err_sx 1 end
  | 2, L [p; q; po; rl; infos; fmts; gt] =>
      match un_params p, un_field q, un_field po, un_field rl, un_list un_field infos, un_list un_field fmts, un_list un_field gt with
      | Some p, Some q, Some po, Some rl, Some infos, Some fmts, Some gt =>
          match generate p q po rl infos fmts (hd_error gt) with
          | Ok specs => L [A 1; L (map sx_spec specs); of_bool (dims_coherent_b specs)]
          | Err e => L [A 0; A e] end
      | _, _, _, _, _, _, _ => err_sx 1 end
  | 3, L [A d; A v] => L [of_bool (in_dtype d v); A (cast d v)]
  | _, _ => err_sx 2
  end.

(* ---- C13 ---- *)
Definition un_part (s : sx) : option part :=
  match s with L [A c; A st; A e] => Some {| p_contig := c; p_start := st; p_end := e |} | _ => None end.
Definition sx_unit_res (r : res unit) : sx := match r with Ok _ => L [A 1] | Err e => L [A 0; A e] end.
Definition d_C13 (k : Z) (arg : sx) : sx :=
  match k, arg with
  | 0, ps => match un_list un_part ps with
             | Some l => L [of_bool (accept l); of_bool (pairwise_disjoint_b l);
                            L (map (fun p => L [A (p_contig p); A (p_start p); A (p_end p)]) (isort l))]
             | None => err_sx 1 end
  | 1, L [paths; headers] => match as_ZL paths, as_ZL headers with
                             | Some p, Some h => sx_unit_res (scan_checks p h) | _, _ => err_sx 1 end
  | 2, L [infos; formats; A gt] => match as_ZL infos, as_ZL formats with
                             | Some i, Some f => sx_unit_res (convert_name_checks i f (negb (gt =? 0))) | _, _ => err_sx 1 end
  | 3, L [declared; used] => match as_ZL declared, as_ZLL used with
                             | Some d, Some u => sx_unit_res (filters_check d u) | _, _ => err_sx 1 end
  | _, _ => err_sx 2
  end.

(* ---- C08 ---- *)
Definition un_item (s : sx) : option (sx * Z) := match s with L [v; A sz] => Some (v, sz) | _ => None end.
Definition un_range (s : sx) : option (nat * nat) := match s with L [A a; A b] => Some (Z.to_nat a, Z.to_nat b) | _ => None end.
Definition un_ival (s : sx) : option (Z * list Z) :=
  match s with L [A n; ints] => match as_ZL ints with Some l => Some (n, l) | None => None end | _ => None end.
Definition sx_isum (s : isum) : sx :=
  L [A (i_maxnum s); match i_bounds s with None => L [] | Some (lo, hi) => L [A lo; A hi] end].
Definition d_C08 (k : Z) (arg : sx) : sx :=
  match k, arg with
  | 0, L [A thr; parts; ranges] =>
      match un_list (un_list un_item) parts, un_list un_range ranges with
      | Some ps, Some rs =>
          let st := map (write_partition thr) ps in
          L [ L (map (fun p => L (map L p)) st);
              L (map (fun p => of_Zs (map Z.of_nat (cri p))) st);
              of_Zs (map Z.of_nat (pri st));
              L (all_values st);
              L (map (fun r => L (iter_values st (fst r) (snd r))) rs) ]
      | _, _ => err_sx 1 end
  | 1, parts =>
      match un_list (un_list un_ival) parts with
      | Some ps => L [sx_isum (summarise_parts ps); sx_isum (summarise (concat ps))]
      | None => err_sx 1 end
  | _, _ => err_sx 2
  end.

(* ---- C12 ---- *)
Definition un_rec (s : sx) : option rec := match s with L [A c; A p; A l] => Some (c, p, l) | _ => None end.
Definition d_C12 (k : Z) (arg : sx) : sx :=
  match k, arg with
  | 0, L [A cs; recs] => match un_list un_rec recs with
                         | Some rs => L [of_ZLL (create_index (Z.to_nat cs) rs); of_ZLL (spec_index (Z.to_nat cs) rs)]
                         | None => err_sx 1 end
  | 1, L [A cs; recs; rows] => match un_list un_rec recs, as_ZLL rows with
                         | Some rs, Some rw => of_bool (check_C12 (Z.to_nat cs) rs rw)
                         | _, _ => err_sx 1 end
  | _, _ => err_sx 2
  end.

(* ---- C16 ---- *)
Definition d_C16 (k : Z) (arg : sx) : sx :=
  match k, arg with
  | 0, L [bytes; A n; A m] =>
      match as_ZL bytes with
      | Some b => match decode_bed_any b (Z.to_nat n) (Z.to_nat m) with
                  | Some codes => L [A 1; L (map (fun row => L (map (fun c => let p := call c in L [A (fst p); A (snd p)]) row)) codes)]
                  | None => L [A 0] end
      | None => err_sx 1 end
  | 1, L [rows; pads] =>
      match as_ZLL rows, as_ZLL pads with Some r, Some p => of_Zs (encode_bed r p) | _, _ => err_sx 1 end
  | 2, L [rows; A n; pads] =>
      match as_ZLL rows, as_ZLL pads with Some r, Some p => of_Zs (encode_bed_sample_major r (Z.to_nat n) p) | _, _ => err_sx 1 end
  | _, _ => err_sx 2
  end.

(* ---- C17 ---- *)
Definition sx_resLL (r : res (list (list Z))) : sx := match r with Ok v => L [A 1; of_ZLL v] | Err e => L [A 0; A e] end.
Definition d_C17 (k : Z) (arg : sx) : sx :=
  match k, arg with
  | 0, L [A nalt; gts] => match as_ZLL gts with Some g => of_ZLL (compute_laa (Z.to_nat nalt) g) | None => err_sx 1 end
  | 1, L [A ploidy; A has_pl; laa; pl] =>
      match as_ZLL laa, as_ZLL pl with
      | Some la, Some p => sx_resLL (compute_lpl ploidy (negb (has_pl =? 0)) la p)
      | _, _ => err_sx 1 end
  | 2, L [A nalt; gt; row] => match as_ZL gt, as_ZL row with
                              | Some g, Some r => of_bool (check_laa_row (Z.to_nat nalt) g r) | _, _ => err_sx 1 end
  | 3, L [A ploidy; A width; alts; pl] =>
      match as_ZL alts with
      | Some a => match pl with
                  | L [] => of_Zs (spec_lpl_row ploidy (Z.to_nat width) a None)
                  | L [p] => match as_ZL p with Some p => of_Zs (spec_lpl_row ploidy (Z.to_nat width) a (Some p)) | None => err_sx 1 end
                  | _ => err_sx 1 end
      | None => err_sx 1 end
  | _, _ => err_sx 2
  end.

(* ---- C04 ---- *)
Definition un_frec (s : sx) : option (nat * Z) := match s with L [A c; A p] => Some (Z.to_nat c, p) | _ => None end.
Definition un_region (s : sx) : option Regions.region :=
  match s with
  | L [A c; st; en] => match as_optZ st, as_optZ en with
                       | Some st, Some en => Some (Regions.R (Z.to_nat c) st en) | _, _ => None end
  | _ => None end.
Definition sx_region (r : Regions.region) : sx := L [A (Z.of_nat (Regions.rc r)); of_optZ (Regions.rs r); of_optZ (Regions.re r)].
Definition un_off (s : sx) : option (Z * (nat * Z)) := match s with L [A fo; A c; A p] => Some (fo, (Z.to_nat c, p)) | _ => None end.
Definition un_key (s : sx) : option (Z * Z) := match s with L [A a; A b] => Some (a, b) | _ => None end.
Definition sx_off (o : Z * (nat * Z)) : sx := L [A (fst o); A (Z.of_nat (fst (snd o))); A (snd (snd o))].
Definition d_C04 (k : Z) (arg : sx) : sx :=
  match k, arg with
  | 0, L [A flen; A nparts; offs; A ncontigs; counts] =>
      match un_list un_off offs, as_ZL counts with
      | Some offs, Some counts =>
          L (map sx_region (Regions.partition_regions flen nparts offs (Z.to_nat ncontigs)
                              (fun c => negb (nth c counts 0 =? 0))))
      | _, _ => err_sx 1 end
  | 1, L [A ncontigs; file; regions] =>
      match un_list un_frec file, un_list un_region regions with
      | Some f, Some rs => of_bool (Regions.check_C04 (Z.to_nat ncontigs) f rs)
      | _, _ => err_sx 1 end
  | 2, contigs => match un_list (un_list un_key) contigs with Some cs => L (map sx_off (Regions.offsets_csi cs)) | None => err_sx 1 end
  | 3, linear => match as_ZLL linear with Some l => L (map sx_off (Regions.offsets_tbi l)) | None => err_sx 1 end
  | 4, L [file; regions] =>
      match un_list un_frec file, un_list un_region regions with
      | Some f, Some rs => L (map sx_region (Regions.refine f rs))
      | _, _ => err_sx 1 end
  | _, _ => err_sx 2
  end.

(* ---- C14 ---- *)
Definition un_outcome (s : sx) : option Workers.outcome :=
  match s with
  | L [A 0] => Some Workers.Done | L [A 1; A e] => Some (Workers.Raised e) | L [A 2] => Some Workers.Broken | L [A 3] => Some Workers.Exited | _ => None end.
Definition d_C14 (k : Z) (arg : sx) : sx :=
  match k with
  | 0 => match un_list un_outcome arg with
         | Some l => let r := Workers.driver l in
                     L [A (match fst r with Workers.ROk => 0 | Workers.RReraise _ => 1 | Workers.RRuntime => 2 end); of_bool (snd r)]
         | None => err_sx 1 end
  | _ => err_sx 2
  end.

(* ---- C07 ---- *)
Definition un_path (s : sx) : option Footprint.path :=
  match s with
  | L [A 0; A f; A j] => Some (Footprint.IcfFieldPart f j)
  | L [A 1; A j] => Some (Footprint.IcfSummary j)
  | L [A 2] => Some Footprint.IcfWipMeta
  | L [A 3] => Some Footprint.IcfFinalMeta
  | L [A 4] => Some Footprint.IcfOther
  | L [A 10; A j] => Some (Footprint.VczWipPart j)
  | L [A 11; A j] => Some (Footprint.VczPart j)
  | L [A 12; A j] => Some (Footprint.VczStalePart j)
  | L [A 13] => Some Footprint.VczWipArrays
  | L [A 14] => Some Footprint.VczWipMeta
  | L [A 15] => Some Footprint.VczFinal
  | L [A 20; A a; A k] => Some (Footprint.PlinkChunk a k)
  | L [A 21] => Some Footprint.PlinkMeta
  | L [A 30] => Some Footprint.Input
  | _ => None end.
Definition un_task (s : sx) : option Footprint.task :=
  match s with
  | L [A 0; A j] => Some (Footprint.Explode j)
  | L [A 1; A j] => Some (Footprint.Encode j)
  | L [A 2; A a; A b; A cs] => Some (Footprint.PlinkSlice a b cs)
  | _ => None end.
Definition d_C07 (k : Z) (arg : sx) : sx :=
  match k, arg with
  | 0, L [t; ps] =>        (* per path: (in write set, in read set) *)
      match un_task t, un_list un_path ps with
      | Some t, Some ps => L (map (fun p => L [of_bool (Footprint.writes t p); of_bool (Footprint.reads t p)]) ps)
      | _, _ => err_sx 1 end
  | 1, L [t; u; ps] =>
      match un_task t, un_task u, un_list un_path ps with
      | Some t, Some u, Some ps => of_bool (Footprint.independent_b t u ps)
      | _, _, _ => err_sx 1 end
  | _, _ => err_sx 2
  end.

(* ---- C05 / C06 : protocol step machines ---- *)
Definition un_pv {P} (f : sx -> option P) (s : sx) : option (P * Z) :=
  match s with L [p; A v] => match f p with Some p => Some (p, v) | None => None end | _ => None end.
Definition nfun (l : list Z) (j : nat) : nat := Z.to_nat (nth j l 0).
Definition nfun2 (l : list (list Z)) (j a : nat) : nat := Z.to_nat (nth a (nth j l []) 0).
Definition d_C05 (k : Z) (arg : sx) : sx :=
  match k, arg with
  (* one command (not killed) from an abstract state: new state, refused?, invariant, loads *)
  | 0, L [nfiles; st; c] =>
      match as_ZL nfiles, un_list (un_pv Exec.icf_un_path) st with
      | Some nf, Some st =>
          let np := length nf in let nfl := nfun nf in
          let s := Exec.icf_state_of st in
          match Exec.icf_cmd np nfl c with
          | Some cmd =>
              let steps := IcfProtocol.steps np true s cmd in
              let s' := IcfProtocol.exec s steps in
              L [Exec.icf_dump np nfl s'; of_bool (match steps with [] => true | _ => false end);
                 of_bool (Exec.icf_inv_b np nfl s'); of_bool (Exec.icf_loads_b s'); of_bool (Exec.icf_complete_b np nfl s')]
          | None => err_sx 1 end
      | _, _ => err_sx 1 end
  (* observations of an abstract state *)
  | 1, L [nfiles; st] =>
      match as_ZL nfiles, un_list (un_pv Exec.icf_un_path) st with
      | Some nf, Some st =>
          let np := length nf in let nfl := nfun nf in let s := Exec.icf_state_of st in
          L [of_bool (Exec.icf_inv_b np nfl s); of_bool (Exec.icf_loads_b s); of_bool (Exec.icf_complete_b np nfl s)]
      | _, _ => err_sx 1 end
  | _, _ => err_sx 2
  end.
Definition d_C06 (k : Z) (arg : sx) : sx :=
  match k, arg with
  | 0, L [nent; st; c] =>
      match as_ZLL nent, un_list (un_pv Exec.vcz_un_path) st with
      | Some ne, Some st =>
          let np := length ne in let na := length (hd [] ne) in let nef := nfun2 ne in
          let s := Exec.vcz_state_of st in
          match Exec.vcz_cmd c with
          | Some cmd =>
              let steps := VczProtocol.steps np na nef true s cmd in
              let s' := VczProtocol.exec s steps in
              L [Exec.vcz_dump np na nef s';
                 of_bool (match cmd with
                          | VczProtocol.Finalise => negb (existsb (fun st => match st with VczProtocol.Fill VczProtocol.PZmeta => true | _ => false end) steps)
                          | _ => match steps with [] => true | _ => false end end);
                 of_bool (Exec.vcz_inv_b np na nef s'); of_bool (Exec.vfull (s' VczProtocol.PZmeta)); of_bool (Exec.vcz_complete_b np na nef s')]
          | None => err_sx 1 end
      | _, _ => err_sx 1 end
  | 1, L [nent; st] =>
      match as_ZLL nent, un_list (un_pv Exec.vcz_un_path) st with
      | Some ne, Some st =>
          let np := length ne in let na := length (hd [] ne) in let nef := nfun2 ne in let s := Exec.vcz_state_of st in
          L [of_bool (Exec.vcz_inv_b np na nef s); of_bool (Exec.vfull (s VczProtocol.PZmeta)); of_bool (Exec.vcz_complete_b np na nef s)]
      | _, _ => err_sx 1 end
  | _, _ => err_sx 2
  end.

(* ---- C01 : reference encoder ---- *)
Definition un_vec (s : sx) : option Spec.vec :=
  match s with L l => mapO as_optZ l | _ => None end.
Definition un_infoval (s : sx) : option Spec.infoval :=
  match s with
  | L [] => Some Spec.IAbsent
  | L [A 1] => Some Spec.IFlag
  | L [A 2; v] => match un_vec v with Some v => Some (Spec.IVec v) | None => None end
  | _ => None end.
Definition un_optvec (s : sx) : option (option Spec.vec) :=
  match s with L [] => Some None | L [v] => match un_vec v with Some v => Some (Some v) | None => None end | _ => None end.
Definition un_fmtval (s : sx) : option Spec.fmtval :=
  match s with
  | L [] => Some Spec.FAbsent
  | L [A 1; per] => match un_list un_optvec per with Some p => Some (Spec.FSamples p) | None => None end
  | _ => None end.
Definition un_call (s : sx) : option (list (option Z) * bool) :=
  match s with L [al; A ph] => match un_vec al with Some a => Some (a, negb (ph =? 0)) | None => None end | _ => None end.
Definition un_srecord (s : sx) : option Spec.record :=
  match s with
  | L [A c; A p; id; A rf; A rl; alts; qual; filt; info; fmt; gt] =>
      match as_optZ id, as_ZL alts, as_optZ qual,
            (match filt with L [] => Some None | L [f] => match as_ZL f with Some f => Some (Some f) | None => None end | _ => None end),
            un_list un_infoval info, un_list un_fmtval fmt,
            (match gt with L [] => Some None | L [g] => match un_list un_call g with Some g => Some (Some g) | None => None end | _ => None end) with
      | Some id, Some alts, Some qual, Some filt, Some info, Some fmt, Some gt =>
          Some {| Spec.r_contig := c; Spec.r_pos := p; Spec.r_id := id; Spec.r_ref := rf; Spec.r_reflen := rl; Spec.r_alts := alts;
                  Spec.r_qual := qual; Spec.r_filters := filt; Spec.r_info := info; Spec.r_fmt := fmt; Spec.r_gt := gt |}
      | _, _, _, _, _, _, _ => None end
  | _ => None end.
Definition un_header (s : sx) : option Spec.header :=
  match s with
  | L [A nc; A nf; A ns; infos; fmts; A hg] =>
      match as_PL infos, as_PL fmts with
      | Some i, Some f => Some {| Spec.h_ncontigs := nc; Spec.h_nfilters := nf; Spec.h_nsamples := Z.to_nat ns;
                                  Spec.h_infos := i; Spec.h_fmts := f; Spec.h_has_gt := negb (hg =? 0) |}
      | _, _ => None end
  | _ => None end.
Definition sx_sname (n : Spec.aname) : sx :=
  match n with Spec.AFixed k => L [A 0; A k] | Spec.AInfo i => L [A 1; A i] | Spec.AFmt i => L [A 2; A i] end.
Definition sx_sarray (a : Spec.array) : sx :=
  L [sx_sname (Spec.a_name a); A (Spec.a_dtype a); of_Zs (Spec.a_shape a); of_Zs (Spec.a_vals a)].
Definition d_C01 (k : Z) (arg : sx) : sx :=
  match k, arg with
  | 0, L [h; recs] =>
      match un_header h, un_list un_srecord recs with
      | Some h, Some rs => match Spec.spec_encode h rs with Ok arrs => L [A 1; L (map sx_sarray arrs)] | Err e => L [A 0; A e] end
      | _, _ => err_sx 1 end
  | 1, L [got; want] => match as_ZL got, as_ZL want with Some g, Some w => of_bool (Spec.vals_match g w) | _, _ => err_sx 1 end
  | _, _ => err_sx 2
  end.

Definition dispatch (op : Z) (arg : sx) : sx :=
  let p := op / 100 in
  let k := op mod 100 in
  match p with
  | 11 => d_C11 k arg
  | 1 => d_C01 k arg
  | 4 => d_C04 k arg
  | 5 => d_C05 k arg
  | 6 => d_C06 k arg
  | 7 => d_C07 k arg
  | 8 => d_C08 k arg
  | 9 => d_C09 k arg
  | 10 => d_C10 k arg
  | 12 => d_C12 k arg
  | 13 => d_C13 k arg
  | 14 => d_C14 k arg
  | 16 => d_C16 k arg
  | 17 => d_C17 k arg
  | _ => err_sx 3
  end.
