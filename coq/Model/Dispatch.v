(* Model/Dispatch.v -- the single extracted entry point.  op numbers: <property>*100 + k *)
From Coq Require Import ZArith List Bool.
From B2Z Require Import Base.Prims Base.Sx Model.Partitions.
Import ListNotations.
Open Scope Z_scope.

Definition d_C11 (k : Z) (arg : sx) : sx :=
  match k, arg with
  | 0, L [A nr; A cs; A np; mc] =>          (* model generate_partitions *)
      match as_optZ mc with Some mc => of_pairs (generate_partitions nr cs np mc) | None => err_sx 1 end
  | 1, L [A nr; A cs; A np; mc; ps] =>      (* check_C11 on a candidate list *)
      match as_optZ mc, as_PL ps with
      | Some mc, Some ps => of_bool (check_C11 nr cs np mc ps)
      | _, _ => err_sx 1 end
  | _, _ => err_sx 2
  end.

Definition dispatch (op : Z) (arg : sx) : sx :=
  let p := op / 100 in
  let k := op mod 100 in
  match p with
  | 11 => d_C11 k arg
  | _ => err_sx 3
  end.
