(* Model/Dispatch.v -- the single extracted entry point.  op numbers: <property>*100 + k *)
From Coq Require Import ZArith List Bool.
From B2Z Require Import Base.Prims Base.Sx Model.Partitions Model.IndexParse.
Import ListNotations.
Open Scope Z_scope.

Definition d_C11 (k : Z) (arg : sx) : sx :=
  match k, arg with
  | 0, L [A nr; A cs; A np; mc] =>          (* model generate_partitions *)
      match as_optZ mc with Some mc => of_pairs (generate_partitions nr cs np mc) | None => err_sx 1 end
  | 1, L [A nr; A cs; A np; mc; ps] =>      (* check_C11 on a candidate list *)
      match as_optZ mc, as_PL ps with
      | Some mc, Some ps => of_bool (check_C11 nr cs np mc ps)
      | _, _ => err_sx 1 end
  | _, _ => err_sx 2
  end.

(* ---- C09 ---- *)
Definition sx_csi_bin (x : csi_bin) : sx := L [A (cb_id x); A (cb_loff x); of_pairs (cb_chunks x)].
Definition sx_tbx_bin (x : tbx_bin) : sx := L [A (tb_id x); of_pairs (tb_chunks x)].
Definition sx_csi (i : csi_index) : sx :=
  L [A 1; A (ci_min_shift i); A (ci_depth i); of_Zs (ci_aux i);
     L (map (fun bs => L (map sx_csi_bin bs)) (ci_bins i));
     of_Zs (map rcount_Z (ci_counts i)); A (ci_n_no_coor i)].
Definition sx_tbi (i : tbx_index) : sx :=
  L [A 1; of_Zs (ti_header i); of_ZLL (ti_names i);
     L (map (fun bs => L (map sx_tbx_bin bs)) (ti_bins i));
     of_ZLL (ti_linear i); of_Zs (map rcount_Z (ti_counts i)); A (ti_n_no_coor i)].
Definition un_csi_bin (s : sx) : option csi_bin :=
  match s with
  | L [A id; A loff; cs] => match as_PL cs with Some cs => Some {| cb_id := id; cb_loff := loff; cb_chunks := cs |} | None => None end
  | _ => None end.
Definition un_tbx_bin (s : sx) : option tbx_bin :=
  match s with
  | L [A id; cs] => match as_PL cs with Some cs => Some {| tb_id := id; tb_chunks := cs |} | None => None end
  | _ => None end.
Fixpoint mapO {X Y} (f : X -> option Y) (l : list X) : option (list Y) :=
  match l with
  | [] => Some []
  | x :: tl => match f x, mapO f tl with Some y, Some ys => Some (y :: ys) | _, _ => None end
  end.
Definition un_list {Y} (f : sx -> option Y) (s : sx) : option (list Y) :=
  match s with L l => mapO f l | _ => None end.
Definition un_csi_file (s : sx) : option csi_file :=
  match s with
  | L [A ms; A d; aux; contigs; tail] =>
      match as_ZL aux, un_list (un_list un_csi_bin) contigs, as_optZ tail with
      | Some aux, Some cs, Some t => Some {| cf_min_shift := ms; cf_depth := d; cf_aux := aux; cf_contigs := cs; cf_tail := t |}
      | _, _, _ => None end
  | _ => None end.
Definition un_tbx_contig (s : sx) : option (list tbx_bin * list Z) :=
  match s with
  | L [bins; lin] => match un_list un_tbx_bin bins, as_ZL lin with Some b, Some l => Some (b, l) | _, _ => None end
  | _ => None end.
Definition un_tbx_file (s : sx) : option tbx_file :=
  match s with
  | L [fmt; names; contigs; tail] =>
      match as_ZL fmt, as_ZLL names, un_list un_tbx_contig contigs, as_optZ tail with
      | Some fmt, Some ns, Some cs, Some t => Some {| tf_fmt := fmt; tf_names := ns; tf_contigs := cs; tf_tail := t |}
      | _, _, _, _ => None end
  | _ => None end.

Definition d_C09 (k : Z) (arg : sx) : sx :=
  match k with
  | 0 => match as_ZL arg with Some b => match parse_csi b with Some i => sx_csi i | None => L [A 0] end | None => err_sx 1 end
  | 1 => match as_ZL arg with Some b => match parse_tbi b with Some i => sx_tbi i | None => L [A 0] end | None => err_sx 1 end
  | 2 => match un_csi_file arg with Some f => L [of_Zs (ser_csi f); sx_csi (view_csi f)] | None => err_sx 1 end
  | 3 => match un_tbx_file arg with Some f => L [of_Zs (ser_tbi f); sx_tbi (view_tbi f)] | None => err_sx 1 end
  | _ => err_sx 2
  end.

Definition dispatch (op : Z) (arg : sx) : sx :=
  let p := op / 100 in
  let k := op mod 100 in
  match p with
  | 11 => d_C11 k arg
  | 9 => d_C09 k arg
  | _ => err_sx 3
  end.
