(* Model/LocalAlleles.v -- compute_laa_field / compute_lpl_field (C17), as the code computes
   them (Python negative indexing, the all-missing broadcast, fill masking on b only), and the
   specification they are compared with.  Executable definitions only. *)
From Coq Require Import ZArith Arith List Bool.
From B2Z Require Import Base.Prims.
Import ListNotations.
Open Scope Z_scope.

Definition INT_MISSING := -1.
Definition INT_FILL := -2.

(* ---- LAA ---------------------------------------------------------------------------------- *)
(* one call: the alleles of the genotype (negatives are clipped to 0 = reference, which is not
   counted); bincount + nonzero = the ascending allele numbers 1..nalt that occur *)
Definition zseq (lo n : nat) : list Z := map Z.of_nat (seq lo n).
Definition local_alts (nalt : nat) (gt : list Z) : list Z :=
  filter (fun a => existsb (Z.eqb a) gt) (zseq 1 nalt).
Definition pad_to (n : nat) (l : list Z) : list Z := l ++ repeat INT_FILL (n - length l).
Definition laa_width (nalt : nat) (gts : list (list Z)) : nat :=
  fold_left Nat.max (map (fun g => length (local_alts nalt g)) gts) 1%nat.
(* compute_laa_field: rows padded to max(1, nalt) then cut to the widest call (at least 1) *)
Definition compute_laa (nalt : nat) (gts : list (list Z)) : list (list Z) :=
  let w := laa_width nalt gts in
  map (fun g => firstn w (pad_to (Nat.max 1 nalt) (local_alts nalt g))) gts.

(* ---- LPL ---------------------------------------------------------------------------------- *)
(* (c, r) pairs in the order np.repeat / np.tril_indices produce them: r-major, c <= r *)
Definition pairs (L : nat) : list (nat * nat) :=
  flat_map (fun r => map (fun c => (c, r)) (seq 0 (S r))) (seq 0 L).
Definition tri (n : nat) : nat := n * (n + 1) / 2.

(* Python list indexing with negative indexes *)
Definition py_index (l : list Z) (i : Z) : res Z :=
  let n := Z.of_nat (length l) in
  if (0 <=? i) && (i <? n) then Ok (nth (Z.to_nat i) l 0)
  else if (- n <=? i) && (i <? 0) then Ok (nth (Z.to_nat (n + i)) l 0)
  else Err E_IndexError.

Definition la_of (laa_row : list Z) : list Z := 0 :: laa_row.

(* per call: the (a, b) allele pairs *)
Definition ab_pairs (ploidy : Z) (la : list Z) : res (list (Z * Z)) :=
  if ploidy =? 1 then Ok (map (fun a => (a, 0)) la)
  else if ploidy =? 2 then
    Ok (map (fun cr => (nth (fst cr) la 0, nth (snd cr) la 0)) (pairs (length la)))
  else Err E_ValueError.
Definition pl_index (ab : Z * Z) : Z := snd ab * (snd ab + 1) / 2 + fst ab.

(* one call: index the (broadcast) PL row with Python semantics, THEN mask the cells whose b
   is fill -- an out-of-range index raises even for a cell that would be masked *)
Definition mask_cell (vab : Z * (Z * Z)) : Z := if snd (snd vab) =? INT_FILL then INT_FILL else fst vab.
Definition lpl_row (plrow : list Z) (ab : list (Z * Z)) : res (list Z) :=
  bind (mapM (py_index plrow) (map pl_index ab)) (fun vals => Ok (map mask_cell (combine vals ab))).

(* pl rows: per sample the PL vector as cyvcf2 returns it with VCF_INT_MISSING already mapped
   to -1 (all rows have the same width).  has_pl = "PL" in variant.FORMAT *)
Definition compute_lpl (ploidy : Z) (has_pl : bool) (laa : list (list Z)) (pl : list (list Z)) : res (list (list Z)) :=
  let las := map la_of laa in
  bind (mapM (ab_pairs ploidy) las) (fun abs =>
  if negb has_pl then Ok (map (fun ab => map (fun _ => INT_MISSING) ab) abs)
  else
    let ns := map (map pl_index) abs in
    let width := match ns with [] => 0%nat | r :: _ => length r end in
    let nmax := fold_left Z.max (concat ns) (match concat ns with [] => 0 | x :: _ => x end) in
    let need := Z.max (Z.of_nat width) (nmax + 1) in
    let plw := match pl with [] => 0%nat | r :: _ => length r end in
    bind (if Z.of_nat plw <? need
          then (if Nat.eqb plw 1 then Ok (map (fun r => repeat (hd 0 r) (Z.to_nat need)) pl) else Err E_ValueError)
          else Ok pl) (fun plb =>
    mapM (fun ra => lpl_row (fst ra) (snd ra)) (combine plb abs))).

(* ---- specification --------------------------------------------------------------------------- *)
(* the call's local genotypes, in VCF order, as indexes into the original PL vector *)
Definition spec_lpl_row (ploidy : Z) (width : nat) (alts : list Z) (pl : option (list Z)) : list Z :=
  let la := 0 :: alts in
  let gl := if ploidy =? 1 then map (fun a => a) la
            else map (fun cr => let a := nth (fst cr) la 0 in let b := nth (snd cr) la 0 in b * (b + 1) / 2 + a) (pairs (length la)) in
  let vals := match pl with None => map (fun _ => INT_MISSING) gl | Some p => map (fun i => nth (Z.to_nat i) p INT_MISSING) gl end in
  vals ++ repeat INT_FILL (width - length vals).

(* check of an LAA row against the genotype: ascending distinct positive alleles, then fill *)
Definition check_laa_row (nalt : nat) (gt row : list Z) : bool :=
  let alts := local_alts nalt gt in
  (if list_eq_dec Z.eq_dec (firstn (length alts) row) alts then true else false)
  && forallb (Z.eqb INT_FILL) (skipn (length alts) row).
