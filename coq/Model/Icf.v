(* Model/Icf.v -- the intermediate columnar store (C08): buffered field writer, store layout
   (partitions x chunks x values), whole-column read, two-level searchsorted range read,
   field summaries.  Generic in the value type.  Executable definitions only. *)
From Coq Require Import ZArith Arith List Bool.
Import ListNotations.

Section Icf.
Context {A : Type}.
Notation chunk := (list A).
Notation partition := (list (list A)).
Notation store := (list (list (list A))).

(* IcfFieldWriter.append / write_chunk / flush: values are buffered until the accumulated
   sys.getsizeof reaches the threshold; sizes are inputs, so this holds for any size function *)
Fixpoint write_chunks (thr : Z) (buf : list A) (bytes : Z) (items : list (A * Z)) : list (list A) :=
  match items with
  | [] => match buf with [] => [] | _ => [rev buf] end
  | (x, sz) :: tl =>
      let buf' := x :: buf in
      let b' := (bytes + sz)%Z in
      if (thr <=? b')%Z then rev buf' :: write_chunks thr [] 0%Z tl
      else write_chunks thr buf' b' tl
  end.
Definition write_partition (thr : Z) (items : list (A * Z)) : partition := write_chunks thr [] 0%Z items.

Fixpoint cum_from (acc : nat) (ls : list nat) : list nat :=
  match ls with [] => [acc] | x :: tl => acc :: cum_from (acc + x) tl end.
Definition cum ls := cum_from 0 ls.           (* np.cumsum([0, *ls]) *)

Definition plen (p : partition) : nat := length (concat p).
Definition pri (s : store) : list nat := cum (map plen s).            (* partition_record_index *)
Definition cri (p : partition) : list nat := cum (map (@length A) p). (* chunk_index; chunk k is the file named cri[k+1] *)

(* np.searchsorted(l, x, side="right") on a sorted l = number of elements <= x *)
Definition ss_right (l : list nat) (x : nat) : nat := length (filter (fun y => y <=? x) l).

Definition all_values (s : store) : list A := concat (map (@concat A) s).   (* .values *)
Definition num_records (s : store) : nat := length (all_values s).

(* the generator body of iter_values: the first partition's loop has the >= start test *)
Fixpoint scan1 (rid start stop : nat) (l : list A) : list A * nat * bool :=
  match l with
  | [] => ([], rid, false)
  | x :: tl => if rid =? stop then ([], rid, true)
               else let '(out, r, fin) := scan1 (S rid) start stop tl in
                    ((if start <=? rid then x :: out else out), r, fin)
  end.
Fixpoint scan2 (rid stop : nat) (l : list A) : list A :=
  match l with
  | [] => []
  | x :: tl => if rid =? stop then [] else x :: scan2 (S rid) stop tl
  end.

Definition iter_values (s : store) (start stop : nat) : list A :=
  let sp := ss_right (pri s) start - 1 in
  let offset := nth sp (pri s) 0 in
  let p := nth sp s [] in
  let sc := ss_right (cri p) (start - offset) - 1 in
  let rid0 := offset + nth sc (cri p) 0 in
  let '(out, rid, fin) := scan1 rid0 start stop (concat (skipn sc p)) in
  if fin then out else out ++ scan2 rid stop (concat (map (@concat A) (skipn (S sp) s))).
End Icf.

(* ---- integer field summaries -------------------------------------------------------- *)
Local Open Scope Z_scope.
Definition MIN_INT_VALUE : Z := -2147483646.
Record isum := { i_maxnum : Z; i_bounds : option (Z * Z) }.
Definition isum0 : isum := {| i_maxnum := 0; i_bounds := None |}.

Definition join_bounds (a b : option (Z * Z)) : option (Z * Z) :=
  match a, b with
  | None, x | x, None => x
  | Some (l1, h1), Some (l2, h2) => Some (Z.min l1 l2, Z.max h1 h2)
  end.
Definition list_bounds (l : list Z) : option (Z * Z) :=
  match l with [] => None | x :: tl => Some (fold_left Z.min tl x, fold_left Z.max tl x) end.
(* IntegerValueTransformer.update_bounds on one value: number = value.shape[-1], ints = all
   entries of the array; sentinels (< MIN_INT_VALUE) are masked out *)
Definition upd (s : isum) (v : Z * list Z) : isum :=
  {| i_maxnum := Z.max (i_maxnum s) (fst v);
     i_bounds := join_bounds (i_bounds s) (list_bounds (filter (fun x => MIN_INT_VALUE <=? x) (snd v))) |}.
(* VcfFieldSummary.update (merge of partition summaries) *)
Definition merge (s t : isum) : isum :=
  {| i_maxnum := Z.max (i_maxnum s) (i_maxnum t); i_bounds := join_bounds (i_bounds s) (i_bounds t) |}.
Definition summarise (vs : list (Z * list Z)) : isum := fold_left upd vs isum0.
Definition summarise_parts (parts : list (list (Z * list Z))) : isum :=
  fold_left merge (map summarise parts) isum0.
