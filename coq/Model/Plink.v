(* Model/Plink.v -- bit-level PLINK .bed decoding and the documented call mapping (C16).
   An independent decoder written from the format description: 3 magic bytes, variant-major,
   ceil(n/4) bytes per variant, 2 bits per sample LSB first; padding bits are never read. *)
From Coq Require Import ZArith List Bool.
Import ListNotations.
Open Scope Z_scope.

Definition bed_magic : list Z := [108; 27; 1].

Definition unpack_byte (b : Z) : list Z := [b mod 4; (b / 4) mod 4; (b / 16) mod 4; (b / 64) mod 4].
Definition unpack_row (n : nat) (row : list Z) : list Z := firstn n (flat_map unpack_byte row).
Definition bytes_per_variant (n : nat) : nat := (n + 3) / 4.

Fixpoint split_rows (m bpv : nat) (body : list Z) : list (list Z) :=
  match m with O => [] | S m' => firstn bpv body :: split_rows m' bpv (skipn bpv body) end.

(* what bed_reader(count_A1=False) reports for a 2-bit code, then encode_genotypes_slice:
   00 -> 0 -> [0,0] ; 10 -> 1 -> [1,0] ; 11 -> 2 -> [1,1] ; 01 -> -127 -> [-1,-1] *)
Definition a2_count (code : Z) : Z :=
  if code =? 0 then 0 else if code =? 2 then 1 else if code =? 3 then 2 else -127.
Definition call_of_count (v : Z) : Z * Z :=
  if v =? -127 then (-1, -1) else if v =? 2 then (1, 1) else if v =? 1 then (1, 0) else (0, 0).
Definition call (code : Z) : Z * Z := call_of_count (a2_count code).

Definition decode_bed (bytes : list Z) (n m : nat) : option (list (list Z)) :=
  match bytes with
  | a :: b :: c :: body =>
      if (a =? 108) && (b =? 27) && (c =? 1) && (Nat.eqb (length body) (m * bytes_per_variant n))
      then Some (map (unpack_row n) (split_rows m (bytes_per_variant n) body))
      else None
  | _ => None
  end.

(* call_genotype rows: per variant, per sample, the pair; mask = (allele = -1); phased = false *)
Definition genotype_rows (codes : list (list Z)) : list (list (Z * Z)) := map (map call) codes.

(* ---- independent writer (for the round-trip theorem and for generating filesets) ---------- *)
Definition pack4 (c0 c1 c2 c3 : Z) : Z := c0 + 4 * c1 + 16 * c2 + 64 * c3.
Fixpoint pack_codes (l : list Z) : list Z :=
  match l with
  | c0 :: c1 :: c2 :: c3 :: tl => pack4 c0 c1 c2 c3 :: pack_codes tl
  | [] => []
  | [c0] => [pack4 c0 0 0 0]
  | [c0; c1] => [pack4 c0 c1 0 0]
  | [c0; c1; c2] => [pack4 c0 c1 c2 0]
  end.
(* a row of n codes followed by arbitrary padding codes up to a multiple of four *)
Definition pad_len (n : nat) : nat := (4 - n mod 4) mod 4.
Definition pack_row (cs pad : list Z) : list Z := pack_codes (cs ++ firstn (pad_len (length cs)) pad).
Definition encode_bed (rows : list (list Z)) (pads : list (list Z)) : list Z :=
  bed_magic ++ concat (map (fun rp => pack_row (fst rp) (snd rp)) (combine rows pads)).

(* ---- the other layout the format allows: third magic byte 0 = individual-major ("sample-major"):
        one row of ceil(m/4) bytes per SAMPLE, 2 bits per variant ------------------------------ *)
Definition transpose (k : nat) (rows : list (list Z)) : list (list Z) :=
  map (fun c => map (fun row => nth c row 0) rows) (seq 0 k).

(* layout-independent decoder: code matrix variant-major whatever the file's layout *)
Definition decode_bed_any (bytes : list Z) (n m : nat) : option (list (list Z)) :=
  match bytes with
  | a :: b :: c :: body =>
      if c =? 1 then decode_bed bytes n m
      else if (a =? 108) && (b =? 27) && (c =? 0) && (Nat.eqb (length body) (n * bytes_per_variant m))
      then Some (transpose m (map (unpack_row m) (split_rows n (bytes_per_variant m) body)))
      else None
  | _ => None
  end.

(* independent writer for the individual-major layout: rows are per sample *)
Definition encode_bed_sample_major (rows : list (list Z)) (n : nat) (pads : list (list Z)) : list Z :=
  [108; 27; 0] ++ concat (map (fun rp => pack_row (fst rp) (snd rp)) (combine (transpose n rows) pads)).
