(* Model/RegionIndex.v -- VcfZarrWriter.create_index (C12): per variant chunk, one row per
   maximal run of equal contig: (chunk, contig, first pos, last pos, max end, count).
   The end position is computed as the code does, in int32 (after the F2 fix), with the wrap
   written into the model; the specification computes it in Z. *)
From Coq Require Import ZArith List Bool.
Import ListNotations.
Open Scope Z_scope.

Notation rec := (Z * Z * Z)%type.            (* contig id, position, length *)
Definition ctg (r : rec) := fst (fst r).
Definition pos (r : rec) := snd (fst r).
Definition len (r : rec) := snd r.

Definition wrap32 (x : Z) : Z := (x + 2147483648) mod 4294967296 - 2147483648.
Definition end_impl (r : rec) : Z := wrap32 (pos r + len r - 1).   (* p.astype(int32) + length - 1 *)
Definition end_spec (r : rec) : Z := pos r + len r - 1.

(* np.diff(c, append=-1) != 0 at i  <=>  i is the last index of its run *)
Fixpoint runs (l : list rec) : list (list rec) :=
  match l with
  | [] => []
  | r :: tl => match runs tl with
               | (r' :: g) :: gs => if ctg r =? ctg r' then (r :: r' :: g) :: gs else [r] :: (r' :: g) :: gs
               | [] :: gs => [r] :: gs          (* unreachable: groups are never empty *)
               | [] => [[r]]
               end
  end.
Definition maxZ (l : list Z) (d : Z) : Z := fold_left Z.max l d.

Definition row_of (endf : rec -> Z) (chunk_no : Z) (g : list rec) : list Z :=
  match g with
  | [] => []
  | r :: _ => [chunk_no; ctg r; pos r; pos (last g r); maxZ (map endf g) (endf r); Z.of_nat (length g)]
  end.

Fixpoint chunks_of (fuel cs : nat) (l : list rec) : list (list rec) :=
  match fuel with
  | O => []
  | S f => match l with [] => [] | _ => firstn cs l :: chunks_of f cs (skipn cs l) end
  end.

Fixpoint index_from (endf : rec -> Z) (k : Z) (chunks : list (list rec)) : list (list Z) :=
  match chunks with
  | [] => []
  | c :: tl => map (row_of endf k) (runs c) ++ index_from endf (k + 1) tl
  end.

Definition create_index (cs : nat) (recs : list rec) : list (list Z) :=
  index_from end_impl 0 (chunks_of (length recs) cs recs).
Definition spec_index (cs : nat) (recs : list rec) : list (list Z) :=
  index_from end_spec 0 (chunks_of (length recs) cs recs).

Fixpoint rows_eqb (a b : list (list Z)) : bool :=
  match a, b with
  | [], [] => true
  | x :: a', y :: b' => (if list_eq_dec Z.eq_dec x y then true else false) && rows_eqb a' b'
  | _, _ => false
  end.
(* the property for a candidate index: it is the specification index *)
Definition check_C12 (cs : nat) (recs : list rec) (rows : list (list Z)) : bool := rows_eqb rows (spec_index cs recs).
