(* Model/Workers.v -- futures bookkeeping of the worker pool (C14), executable copy used by the
   correspondence run; Bridge/BridgeWorkers.v proves it equal to the translated skeleton. *)
From Coq Require Import ZArith List Bool.
Import ListNotations.

(* outcome codes on the wire: 0 = finished normally, 1 = raised an Exception (id e), 2 = pool broken,
   3 = raised SystemExit / KeyboardInterrupt *)
Inductive outcome := Done | Raised (e : Z) | Broken | Exited.
Inductive result := ROk | RReraise (e : Z) | RRuntime.

Fixpoint wait_on_futures (completed : list outcome) : result :=
  match completed with
  | [] => ROk
  | Done :: tl => wait_on_futures tl
  | Raised e :: _ => RReraise e
  | Broken :: _ => RRuntime
  | Exited :: _ => RRuntime
  end.
Definition pwm_exit (body_exc : option Z) (completed : list outcome) : result :=
  match body_exc with None => wait_on_futures completed | Some e => RReraise e end.
(* returns the result and whether the statements after the with-block (finalise) ran *)
Definition driver (completed : list outcome) : result * bool :=
  match pwm_exit None completed with ROk => (ROk, true) | r => (r, false) end.
