(* Model/Regions.v -- index-derived region partitions (C04): the offsets tables of the two
   index kinds, the searchsorted / delete / unique selection, the region-building loop of
   partition_into_regions (contig changes, skipped contigs, the `end >= 1` test, trailing
   contigs with positive or unknown counts), htslib's region query as a contract (records of
   the contig overlapping [start,end], in file order) followed by the POS >= start filter, and
   _filter_empty_and_refine.  Executable definitions + the boolean statement of C04. *)
From Coq Require Import ZArith Arith List Bool.
Import ListNotations.
Open Scope Z_scope.

(* ---- abstract indexed file ---- *)
Notation rec := (nat * Z)%type.            (* (contig index, POS) ; end is irrelevant after the POS>=start filter *)
Record region := R { rc : nat; rs : option Z; re : option Z }.

Definition lo (r : region) : Z := match rs r with Some s => s | None => 1 end.
Definition in_region (r : region) (x : rec) : bool :=
  (Nat.eqb (fst x) (rc r)) && (lo r <=? snd x) && (match re r with Some e => snd x <=? e | None => true end).
(* htslib query + the `var.POS >= start` filter, in file order *)
Definition query (file : list rec) (r : region) : list rec := filter (in_region r) file.

Definition whole (c : nat) : region := R c None None.

(* the loop of partition_into_regions over the selected (contig, start) cuts *)
Fixpoint build (cuts : list (nat * Z)) : list region :=
  match cuts with
  | [] => []
  | (c, s) :: tl =>
      match tl with
      | [] => [R c (Some s) None]
      | (c', s') :: _ =>
          let e := s' - 1 in
          (if Nat.eqb c c' then [R c (Some s) (Some e)]
           else R c (Some s) None :: map whole (seq (S c) (c' - S c)) ++ (if 1 <=? e then [R c' (Some 1) (Some e)] else []))
          ++ build tl
      end
  end.

Definition last_contig (cuts : list (nat * Z)) : nat := fst (last cuts (0%nat, 0)).
Definition trailing (ncontigs : nat) (count_pos : nat -> bool) (cuts : list (nat*Z)) : list region :=
  map whole (filter count_pos (seq (S (last_contig cuts)) (ncontigs - S (last_contig cuts)))).

Definition regions ncontigs count_pos cuts := build cuts ++ trailing ncontigs count_pos cuts.


(* ---- offsets tables ------------------------------------------------------------------------- *)
(* ---- the CSI side of `offsets()` for ONE contig (post-fix): (loffset, first locus) pairs sorted lexicographically ---- *)
Notation key := (Z * Z)%type.                       (* (loffset, position) *)
Definition key_leb (a b : key) : bool := (fst a <? fst b) || ((fst a =? fst b) && (snd a <=? snd b)).
Fixpoint insert (x : key) (l : list key) : list key :=
  match l with [] => [x] | y :: tl => if key_leb x y then x :: y :: tl else y :: insert x tl end.
Fixpoint isort (l : list key) : list key := match l with [] => [] | x :: tl => insert x (isort tl) end.   (* sorted(keyed_bins) *)


Definition file_offset (v : Z) := v / 65536.
(* np.searchsorted(side="left") on a non-decreasing haystack: index of the first element >= x *)
Fixpoint ss_left (l : list Z) (x : Z) : nat := match l with [] => 0%nat | y :: tl => if y <? x then S (ss_left tl x) else 0%nat end.

(* CSIIndex.offsets (post-fix): per contig the (loffset, first locus) keys of the non-pseudo bins,
   sorted; emitted as (file offset, contig, position) *)
Definition offsets_csi (contigs : list (list key)) : list (Z * (nat * Z)) :=
  concat (map (fun ck => map (fun k => (file_offset (fst k), (fst ck, snd k))) (isort (snd ck)))
              (combine (seq 0 (length contigs)) contigs)).
(* TabixIndex.offsets: every linear-index slot i of contig c -> (file offset, c, i*16384+1) *)
Definition offsets_tbi (linear : list (list Z)) : list (Z * (nat * Z)) :=
  concat (map (fun cl => map (fun iv => (file_offset (snd iv), (fst cl, Z.of_nat (fst iv) * 16384 + 1)))
                           (combine (seq 0 (length (snd cl))) (snd cl)))
              (combine (seq 0 (length linear)) linear)).

(* ---- selection: part boundaries -> indexes into the offsets table ------------------------------ *)
Fixpoint dedup_sorted (l : list nat) : list nat :=
  match l with
  | a :: ((b :: _) as tl) => if Nat.eqb a b then dedup_sorted tl else a :: dedup_sorted tl
  | _ => l
  end.
Fixpoint insert_nat (x : nat) (l : list nat) : list nat :=
  match l with [] => [x] | y :: tl => if Nat.leb x y then x :: l else y :: insert_nat x tl end.
Definition sort_nat (l : list nat) : list nat := fold_right insert_nat [] l.
(* ind = unique(delete(searchsorted(file_offsets, part_lengths), >= len)) *)
Definition select (file_length num_parts : Z) (fo : list Z) : list nat :=
  let tps := file_length / num_parts in
  let parts := map (fun i => tps * Z.of_nat i) (seq 0 (Z.to_nat num_parts)) in
  dedup_sorted (sort_nat (filter (fun i => Nat.ltb i (length fo)) (map (ss_left fo) parts))).

Definition cuts_of (offs : list (Z * (nat * Z))) (ind : list nat) : list (nat * Z) :=
  map (fun i => snd (nth i offs (0, (0%nat, 0)))) ind.

(* the regions partition_into_regions hands to _filter_empty_and_refine *)
Definition partition_regions (file_length num_parts : Z) (offs : list (Z * (nat * Z)))
                             (ncontigs : nat) (count_pos : nat -> bool) : list region :=
  regions ncontigs count_pos (cuts_of offs (select file_length num_parts (map fst offs))).

(* _filter_empty_and_refine: drop regions without records, move start to the first record *)
Definition refine (file : list rec) (rs : list region) : list region :=
  flat_map (fun r => match query file r with
                     | [] => []
                     | x :: _ => [R (rc r) (Some (snd x)) (re r)]
                     end) rs.

(* ---- the statement of C04 for a candidate region list ------------------------------------------ *)
Definition rec_eqb (a b : rec) : bool := Nat.eqb (fst a) (fst b) && (snd a =? snd b).
Fixpoint recs_eqb (a b : list rec) : bool :=
  match a, b with [], [] => true | x :: a', y :: b' => rec_eqb x y && recs_eqb a' b' | _, _ => false end.
Definition of_contig (c : nat) (file : list rec) := filter (fun x => Nat.eqb (fst x) c) file.
(* ordered and disjoint inside a contig: each later region of the same contig starts after the
   previous one ends *)
Fixpoint ordered_disjoint (rs : list region) : bool :=
  match rs with
  | a :: ((b :: _) as tl) =>
      (if Nat.eqb (rc a) (rc b) then match re a with Some e => e <? lo b | None => false end else true)
      && ordered_disjoint tl
  | _ => true
  end.
(* records are compared by (contig, POS) in order: duplicates at one position are interchangeable *)
Definition check_C04 (ncontigs : nat) (file : list rec) (rs : list region) : bool :=
  recs_eqb (flat_map (query file) rs) (flat_map (fun c => of_contig c file) (seq 0 ncontigs))
  && forallb (fun r => match query file r with [] => false | _ => true end) rs
  && ordered_disjoint rs.
