(* Model/Footprint.v -- write / read footprints of the partition tasks (C07) over structured
   paths.  Executable predicates; the harness parses every real path into these constructors
   (an unparseable path is a disagreement). *)
From Coq Require Import ZArith List Bool.
Import ListNotations.
Open Scope Z_scope.

Inductive path :=
  (* intermediate store *)
  | IcfFieldPart (field : Z) (j : Z)        (* <FIELD>/p<j> and everything below it *)
  | IcfSummary (j : Z)                       (* wip/p<j>.json *)
  | IcfWipMeta                               (* wip/metadata.json *)
  | IcfFinalMeta                             (* metadata.json / header.txt *)
  | IcfOther                                 (* any other path of the store (field directories, wip/) *)
  (* zarr store *)
  | VczWipPart (j : Z)                       (* wip/partitions/wip_p<j> and below *)
  | VczPart (j : Z)                          (* wip/partitions/p<j> and below *)
  | VczStalePart (j : Z)                     (* wip/partitions/stale_p<j> and below *)
  | VczWipArrays                             (* wip/arrays/... (array templates) *)
  | VczWipMeta                               (* wip/metadata.json *)
  | VczFinal                                 (* final arrays, .zattrs, .zgroup, .zmetadata *)
  (* plink: chunk k of a genotype array along the variants axis *)
  | PlinkChunk (array : Z) (k : Z)
  | PlinkMeta                                (* .zarray / .zattrs / other arrays *)
  (* inputs *)
  | Input.

Inductive task :=
  | Explode (j : Z)
  | Encode (j : Z)
  | PlinkSlice (start stop cs : Z).         (* variants [start, stop), chunk size cs *)

Definition writes (t : task) (p : path) : bool :=
  match t, p with
  | Explode j, IcfFieldPart _ k => j =? k
  | Explode j, IcfSummary k => j =? k
  | Encode j, VczWipPart k | Encode j, VczPart k | Encode j, VczStalePart k => j =? k
  | PlinkSlice a b cs, PlinkChunk _ k => (a / cs <=? k) && (k <? (b + cs - 1) / cs)
  | _, _ => false
  end.
Definition reads (t : task) (p : path) : bool :=
  match t, p with
  | Explode _, IcfWipMeta | Explode _, IcfFinalMeta | Explode _, Input => true   (* final metadata: existence test only *)
  | Encode _, VczWipMeta | Encode _, VczWipArrays | Encode _, Input => true
  | PlinkSlice _ _ _, PlinkMeta | PlinkSlice _ _ _, Input => true
  | _, _ => false
  end.
Definition touches (t : task) (p : path) : bool := writes t p || reads t p.

(* two tasks do not interfere: neither writes what the other touches *)
Definition independent_b (t u : task) (universe : list path) : bool :=
  forallb (fun p => negb (writes t p && touches u p) && negb (writes u p && touches t p)) universe.
