(* Model/IndexParse.v -- byte-level model of vcf_utils.read_csi / read_tabix (after gzip
   decoding), mirroring the reader field by field, and INDEPENDENT serialisers written
   from the CSI / tabix specifications.  Executable definitions only.  (C09) *)
From Coq Require Import ZArith List Bool.
From B2Z Require Import Base.Prims.
Import ListNotations.
Open Scope Z_scope.

Notation bytes := (list Z).

(* ---- little-endian fixed-width fields ------------------------------------------ *)
Fixpoint le (n : nat) (v : Z) : bytes :=
  match n with O => [] | S n' => (v mod 256) :: le n' (v / 256) end.
Fixpoint rd (n : nat) (b : bytes) : option (Z * bytes) :=
  match n with
  | O => Some (0, b)
  | S n' => match b with
            | [] => None
            | x :: tl => match rd n' tl with Some (v, rest) => Some (x + 256 * v, rest) | None => None end
            end
  end.
Definition rd_u32 := rd 4.
Definition rd_u64 := rd 8.
(* struct "<i": two's complement *)
Definition rd_i32 (b : bytes) : option (Z * bytes) :=
  match rd 4 b with
  | Some (u, rest) => Some ((if u <? 2147483648 then u else u - 4294967296), rest)
  | None => None
  end.
Definition le_i32 (v : Z) : bytes := le 4 (if v <? 0 then v + 4294967296 else v).

Fixpoint take (n : nat) (b : bytes) : option (bytes * bytes) :=
  match n with
  | O => Some ([], b)
  | S n' => match b with [] => None | x :: tl =>
              match take n' tl with Some (h, r) => Some (x :: h, r) | None => None end end
  end.

Fixpoint bytes_eqb (a b : bytes) : bool :=
  match a, b with
  | [], [] => true
  | x :: a', y :: b' => (x =? y) && bytes_eqb a' b'
  | _, _ => false
  end.

(* A count read from the data: a negative count means `range(n)` is empty; a count the
   remaining bytes cannot possibly hold is an error (the reader would hit end of data),
   and is refused *before* it becomes a nat. *)
Definition guarded_count (v unit : Z) (b : bytes) : option nat :=
  if v <=? 0 then Some O
  else if v * unit <=? Z.of_nat (length b) then Some (Z.to_nat v) else None.

Section Many.
  Context {T : Type} (p : bytes -> option (T * bytes)).
  Fixpoint pmany (n : nat) (b : bytes) : option (list T * bytes) :=
    match n with
    | O => Some ([], b)
    | S n' => match p b with
              | Some (x, b1) => match pmany n' b1 with Some (xs, rest) => Some (x :: xs, rest) | None => None end
              | None => None end
    end.
End Many.

(* ---- shared pieces --------------------------------------------------------------- *)
Definition chunk := (Z * Z)%type.
Definition parse_chunk (b : bytes) : option (chunk * bytes) :=
  match rd_u64 b with
  | Some (cb, b1) => match rd_u64 b1 with Some (ce, b2) => Some ((cb, ce), b2) | None => None end
  | None => None end.
Definition parse_chunks (nc : Z) (b : bytes) : option (list chunk * bytes) :=
  match guarded_count nc 16 b with Some n => pmany parse_chunk n b | None => None end.

(* record count of a contig: Known c | Unknown.  On the wire: c or -1 *)
Inductive rcount := Known (c : Z) | Unknown.
Definition rcount_Z (r : rcount) : Z := match r with Known c => c | Unknown => -1 end.

(* the reader's running update over a contig's bins; None = assertion error *)
Definition count_step (pseudo : Z) (acc : option rcount) (bin_id : Z) (chunks : list chunk) : option rcount :=
  match acc with
  | None => None
  | Some r =>
      if bin_id =? pseudo then
        match chunks with
        | [_; (n_mapped, n_unmapped)] => Some (Known (n_mapped + n_unmapped))
        | _ => None
        end
      else Some r
  end.

(* names.split(b"\x00")[:-1] *)
Fixpoint split0_aux (cur : bytes) (b : bytes) : list bytes :=
  match b with
  | [] => []                                   (* the last piece is dropped *)
  | x :: tl => if x =? 0 then rev cur :: split0_aux [] tl else split0_aux (x :: cur) tl
  end.
Definition split0 (b : bytes) : list bytes := split0_aux [] b.

(* trailing n_no_coor (optional) and end of data *)
Definition parse_tail (b : bytes) : option Z :=
  match b with
  | [] => Some 0
  | _ => match rd_u64 b with Some (v, []) => Some v | _ => None end
  end.

(* ---- CSI ------------------------------------------------------------------------- *)
Record csi_bin := { cb_id : Z; cb_loff : Z; cb_chunks : list chunk }.
Record csi_index := {
  ci_min_shift : Z; ci_depth : Z; ci_aux : bytes;
  ci_bins : list (list csi_bin); ci_counts : list rcount; ci_n_no_coor : Z }.

Definition csi_magic : bytes := [67; 83; 73; 1].
Definition m_bin_limit (depth : Z) : Z := (2 ^ ((depth + 1) * 3) - 1) / 7.

Definition parse_csi_bin (b : bytes) : option (csi_bin * bytes) :=
  match rd_u32 b with
  | Some (id, b1) => match rd_u64 b1 with
    | Some (loff, b2) => match rd_i32 b2 with
      | Some (nc, b3) => match parse_chunks nc b3 with
        | Some (cs, rest) => Some ({| cb_id := id; cb_loff := loff; cb_chunks := cs |}, rest)
        | None => None end
      | None => None end
    | None => None end
  | None => None end.

Definition csi_contig_count (pseudo n_bin : Z) (bins : list csi_bin) : option rcount :=
  fold_left (fun acc x => count_step pseudo acc (cb_id x) (cb_chunks x)) bins
            (Some (if n_bin =? 0 then Known 0 else Unknown)).

Definition parse_csi_contig (pseudo : Z) (b : bytes) : option ((list csi_bin * rcount) * bytes) :=
  match rd_i32 b with
  | Some (n_bin, b1) =>
      match guarded_count n_bin 16 b1 with
      | Some n => match pmany parse_csi_bin n b1 with
                  | Some (bins, rest) =>
                      match csi_contig_count pseudo n_bin bins with
                      | Some c => Some ((bins, c), rest)
                      | None => None end
                  | None => None end
      | None => None end
  | None => None end.

Definition parse_csi (b : bytes) : option csi_index :=
  match take 4 b with
  | Some (magic, b0) =>
    if negb (bytes_eqb magic csi_magic) then None else
    match rd_i32 b0 with
    | Some (min_shift, b1) => match rd_i32 b1 with
      | Some (depth, b2) => match rd_i32 b2 with
        | Some (l_aux, b3) =>
          if l_aux <? 0 then None else
          match (if Z.of_nat (length b3) <? l_aux then None else take (Z.to_nat l_aux) b3) with
          | Some (aux, b4) => match rd_i32 b4 with
            | Some (n_ref, b5) =>
              if depth <? -1 then None else      (* 1 << negative raises *)
              let pseudo := m_bin_limit depth + 1 in
              match guarded_count n_ref 4 b5 with
              | Some n => match pmany (parse_csi_contig pseudo) n b5 with
                | Some (cs, b6) => match parse_tail b6 with
                  | Some nnc => Some {| ci_min_shift := min_shift; ci_depth := depth; ci_aux := aux;
                                        ci_bins := map fst cs; ci_counts := map snd cs; ci_n_no_coor := nnc |}
                  | None => None end
                | None => None end
              | None => None end
            | None => None end
          | None => None end
        | None => None end
      | None => None end
    | None => None end
  | None => None end.

(* ---- tabix ----------------------------------------------------------------------- *)
Record tbx_bin := { tb_id : Z; tb_chunks : list chunk }.
Record tbx_index := {
  ti_header : list Z;                 (* n_ref format col_seq col_beg col_end meta skip l_nm *)
  ti_names : list bytes;
  ti_bins : list (list tbx_bin); ti_linear : list (list Z);
  ti_counts : list rcount; ti_n_no_coor : Z }.

Definition tbi_magic : bytes := [84; 66; 73; 1].
Definition tbx_pseudo : Z := 37450.

Definition parse_tbx_bin (b : bytes) : option (tbx_bin * bytes) :=
  match rd_u32 b with
  | Some (id, b1) => match rd_i32 b1 with
    | Some (nc, b2) => match parse_chunks nc b2 with
      | Some (cs, rest) => Some ({| tb_id := id; tb_chunks := cs |}, rest)
      | None => None end
    | None => None end
  | None => None end.

Definition tbx_contig_count (n_bin : Z) (bins : list tbx_bin) : option rcount :=
  fold_left (fun acc x => count_step tbx_pseudo acc (tb_id x) (tb_chunks x)) bins
            (Some (if n_bin =? 0 then Known 0 else Unknown)).

Definition parse_tbx_contig (b : bytes) : option ((list tbx_bin * list Z * rcount) * bytes) :=
  match rd_i32 b with
  | Some (n_bin, b1) =>
      match guarded_count n_bin 8 b1 with
      | Some n => match pmany parse_tbx_bin n b1 with
        | Some (bins, b2) =>
            match tbx_contig_count n_bin bins with
            | Some c =>
                match rd_i32 b2 with
                | Some (n_intv, b3) =>
                    match guarded_count n_intv 8 b3 with
                    | Some k => match pmany rd_u64 k b3 with
                                | Some (lin, rest) => Some ((bins, lin, c), rest)
                                | None => None end
                    | None => None end
                | None => None end
            | None => None end
        | None => None end
      | None => None end
  | None => None end.

Definition parse_tbi (b : bytes) : option tbx_index :=
  match take 4 b with
  | Some (magic, b0) =>
    if negb (bytes_eqb magic tbi_magic) then None else
    match pmany rd_i32 8 b0 with
    | Some (hdr, b1) =>
      let n_ref := nth 0 hdr 0 in
      let l_nm := nth 7 hdr 0 in
      if l_nm <=? 0 then
        match parse_tail b1 with
        | Some nnc => Some {| ti_header := hdr; ti_names := []; ti_bins := []; ti_linear := [];
                              ti_counts := []; ti_n_no_coor := nnc |}
        | None => None end
      else
      match (if Z.of_nat (length b1) <? l_nm then None else take (Z.to_nat l_nm) b1) with
      | Some (names, b2) =>
        match guarded_count n_ref 8 b2 with
        | Some n => match pmany parse_tbx_contig n b2 with
          | Some (cs, b3) => match parse_tail b3 with
            | Some nnc => Some {| ti_header := hdr; ti_names := split0 names;
                                  ti_bins := map (fun c => fst (fst c)) cs;
                                  ti_linear := map (fun c => snd (fst c)) cs;
                                  ti_counts := map snd cs; ti_n_no_coor := nnc |}
            | None => None end
          | None => None end
        | None => None end
      | None => None end
    | None => None end
  | None => None end.

(* ==== independent serialisers (from the format specifications) ==================== *)
Definition ser_chunk (c : chunk) : bytes := le 8 (fst c) ++ le 8 (snd c).
Definition ser_chunks (cs : list chunk) : bytes := concat (map ser_chunk cs).

(* CSI spec: magic, min_shift, depth, l_aux, aux, n_ref, { n_bin, { bin:u32 loffset:u64
   n_chunk:i32 { chunk_beg:u64 chunk_end:u64 } } }, [ n_no_coor:u64 ] *)
Definition ser_csi_bin (x : csi_bin) : bytes :=
  le 4 (cb_id x) ++ le 8 (cb_loff x) ++ le_i32 (Z.of_nat (length (cb_chunks x))) ++ ser_chunks (cb_chunks x).
Definition ser_csi_contig (bins : list csi_bin) : bytes :=
  le_i32 (Z.of_nat (length bins)) ++ concat (map ser_csi_bin bins).
Record csi_file := {
  cf_min_shift : Z; cf_depth : Z; cf_aux : bytes; cf_contigs : list (list csi_bin);
  cf_tail : option Z }.
Definition ser_csi (f : csi_file) : bytes :=
  csi_magic ++ le_i32 (cf_min_shift f) ++ le_i32 (cf_depth f) ++ le_i32 (Z.of_nat (length (cf_aux f))) ++ cf_aux f
  ++ le_i32 (Z.of_nat (length (cf_contigs f))) ++ concat (map ser_csi_contig (cf_contigs f))
  ++ match cf_tail f with Some v => le 8 v | None => [] end.

(* what the spec says the per-contig count is: n_mapped + n_unmapped of the (last)
   pseudo-bin if one is present, 0 if the contig has no bins, otherwise not recorded *)
Fixpoint spec_count (pseudo : Z) (ids : list (Z * list chunk)) (acc : rcount) : rcount :=
  match ids with
  | [] => acc
  | (id, cs) :: tl =>
      spec_count pseudo tl (if id =? pseudo then match cs with [_; (a, b)] => Known (a + b) | _ => acc end else acc)
  end.
Definition csi_spec_count (pseudo : Z) (bins : list csi_bin) : rcount :=
  spec_count pseudo (map (fun x => (cb_id x, cb_chunks x)) bins) (match bins with [] => Known 0 | _ => Unknown end).

Definition view_csi (f : csi_file) : csi_index :=
  {| ci_min_shift := cf_min_shift f; ci_depth := cf_depth f; ci_aux := cf_aux f;
     ci_bins := cf_contigs f;
     ci_counts := map (csi_spec_count (m_bin_limit (cf_depth f) + 1)) (cf_contigs f);
     ci_n_no_coor := match cf_tail f with Some v => v | None => 0 end |}.

(* tabix spec: magic, 8 x i32 header (l_nm last), names, per contig: n_bin, { bin:u32
   n_chunk:i32 chunks }, n_intv, { ioff:u64 }, [ n_no_coor ] *)
Definition ser_tbx_bin (x : tbx_bin) : bytes :=
  le 4 (tb_id x) ++ le_i32 (Z.of_nat (length (tb_chunks x))) ++ ser_chunks (tb_chunks x).
Definition ser_tbx_contig (c : list tbx_bin * list Z) : bytes :=
  le_i32 (Z.of_nat (length (fst c))) ++ concat (map ser_tbx_bin (fst c))
  ++ le_i32 (Z.of_nat (length (snd c))) ++ concat (map (le 8) (snd c)).
Record tbx_file := {
  tf_fmt : list Z;                    (* format col_seq col_beg col_end meta skip *)
  tf_names : list bytes;              (* one per contig, no zero bytes *)
  tf_contigs : list (list tbx_bin * list Z);
  tf_tail : option Z }.
Definition ser_names (ns : list bytes) : bytes := concat (map (fun n => n ++ [0]) ns).
Definition tbx_header (f : tbx_file) : list Z :=
  Z.of_nat (length (tf_contigs f)) :: tf_fmt f ++ [Z.of_nat (length (ser_names (tf_names f)))].
Definition ser_tbi (f : tbx_file) : bytes :=
  tbi_magic ++ concat (map le_i32 (tbx_header f)) ++ ser_names (tf_names f)
  ++ concat (map ser_tbx_contig (tf_contigs f))
  ++ match tf_tail f with Some v => le 8 v | None => [] end.
Definition tbx_spec_count (bins : list tbx_bin) : rcount :=
  spec_count tbx_pseudo (map (fun x => (tb_id x, tb_chunks x)) bins) (match bins with [] => Known 0 | _ => Unknown end).
Definition view_tbi (f : tbx_file) : tbx_index :=
  {| ti_header := tbx_header f; ti_names := tf_names f;
     ti_bins := map fst (tf_contigs f); ti_linear := map snd (tf_contigs f);
     ti_counts := map (fun c => tbx_spec_count (fst c)) (tf_contigs f);
     ti_n_no_coor := match tf_tail f with Some v => v | None => 0 end |}.
