(* Model/Overlap.v -- input-set checks of the explode phase (C13): duplicate paths, header
   compatibility, sorting partitions by (contig index, start), the adjacent overlap check,
   reserved-name clashes.  Executable definitions + boolean checkers only. *)
From Coq Require Import ZArith List Bool.
From B2Z Require Import Base.Prims.
Import ListNotations.
Open Scope Z_scope.

(* a scanned partition after finalise set region.end := last position *)
Record part := { p_contig : Z; p_start : Z; p_end : Z }.

Definition key_leb (a b : part) : bool :=
  (p_contig a <? p_contig b) || ((p_contig a =? p_contig b) && (p_start a <=? p_start b)).

(* list.sort(key=(contig index, start)) : stable insertion sort *)
Fixpoint insert (x : part) (l : list part) : list part :=
  match l with
  | [] => [x]
  | y :: tl => if key_leb y x then y :: insert x tl else x :: l     (* keeps equal keys in order *)
  end.
Fixpoint isort (l : list part) : list part :=
  match l with [] => [] | x :: tl => insert x (isort tl) end.
(* Python's sort is stable; this insertion sort may order EQUAL keys differently, which the
   overlap check cannot observe: two partitions with equal (contig, start) are adjacent after any
   sort and are rejected as overlapping (start <= end). *)

(* check_overlapping_partitions: true = accepted *)
Fixpoint check_overlap (l : list part) : bool :=
  match l with
  | a :: ((b :: _) as tl) => (if p_contig a =? p_contig b then p_end a <? p_start b else true) && check_overlap tl
  | _ => true
  end.

Definition accept (l : list part) : bool := check_overlap (isort l).

Definition disjoint_b (a b : part) : bool :=
  negb (p_contig a =? p_contig b) || (p_end a <? p_start b) || (p_end b <? p_start a).
Fixpoint pairwise_disjoint_b (l : list part) : bool :=
  match l with [] => true | a :: tl => forallb (disjoint_b a) tl && pairwise_disjoint_b tl end.

(* scan_vcfs checks: duplicate paths (by identity), headers equal to the first one *)
Fixpoint count_occ_Z (x : Z) (l : list Z) : Z :=
  match l with [] => 0 | y :: tl => (if x =? y then 1 else 0) + count_occ_Z x tl end.
Definition scan_checks (paths headers : list Z) : res unit :=
  if existsb (fun p => 1 <? count_occ_Z p paths) paths then Err E_ValueError
  else match headers with
       | [] => Ok tt
       | h :: tl => if forallb (Z.eqb h) tl then Ok tt else Err E_ValueError
       end.

(* reserved array names.  INFO keys 0..7 = contig id id_mask position allele filter quality
   length ; FORMAT keys 0..2 = genotype genotype_phased genotype_mask; any other key >= 100 *)
Definition info_checked (k : Z) : bool := (0 <=? k) && (k <=? 6).     (* check_field_clobbering's set *)
Definition format_checked (k : Z) : bool := (0 <=? k) && (k <=? 2).
Definition info_reserved (k : Z) : bool := (0 <=? k) && (k <=? 7).
Definition format_reserved (k : Z) : bool := (0 <=? k) && (k <=? 2).
(* explode-init: check_field_clobbering *)
Definition clobber_check (infos formats : list Z) : res unit :=
  if existsb info_checked infos || existsb format_checked formats then Err E_ValueError else Ok tt.
(* encode-init creates one array per schema entry; creating an array that exists fails *)
Fixpoint create_arrays (existing : list (Z * Z)) (names : list (Z * Z)) : res unit :=
  match names with
  | [] => Ok tt
  | (c, k) :: tl => if existsb (fun e => (fst e =? c) && (snd e =? k)) existing then Err E_Other
                    else create_arrays ((c, k) :: existing) tl
  end.
(* fixed arrays as (category, key): variant_* are (1, k) k=0..7, call_genotype* are (2, 0..2) *)
Definition fixed_arrays : list (Z * Z) :=
  [(1,0); (1,5); (1,4); (1,1); (1,2); (1,6); (1,3); (1,7); (2,1); (2,0); (2,2)].
Definition convert_name_checks (infos formats : list Z) (has_gt : bool) : res unit :=
  bind (clobber_check infos formats) (fun _ =>
  create_arrays [] ((if has_gt then fixed_arrays else firstn 8 fixed_arrays)
                    ++ map (fun k => (1, k)) infos ++ map (fun k => (2, k)) formats)).

(* undeclared filters: encode_filters looks each used filter up in the header list *)
Definition filters_check (declared : list Z) (used : list (list Z)) : res unit :=
  if forallb (forallb (fun f => existsb (Z.eqb f) declared)) used then Ok tt else Err E_ValueError.
