(* Extraction of the TRANSLATED definitions of one unit (Gen/GenPartitions.v) so that the translator's output is
   itself run against the real functions (validates translator + Base/Prims.v).  One file and one
   binary per unit: a unit that no longer translates does not take the others down. *)
From Coq Require Import ZArith List Bool.
From B2Z Require Import Base.Prims Base.Sx.
From B2Z Require Gen.GenPartitions.
Import ListNotations.
Open Scope Z_scope.

Definition sx_res {T} (f : T -> sx) (r : res T) : sx :=
  match r with Ok v => L [A 1; f v] | Err e => L [A 0; A e] end.

Definition gen_dispatch (op : Z) (arg : sx) : sx :=
  match op, arg with
  | 10, L [A nr; A cs; A np; mc] =>
      match as_optZ mc with Some mc => sx_res of_pairs (GenPartitions.generate_partitions nr cs np mc) | None => err_sx 1 end
  | 11, L [A cs; A sh; A n; mc] =>
      match as_optZ mc with Some mc => sx_res of_pairs (GenPartitions.chunk_aligned_slices cs sh n mc) | None => err_sx 1 end
  | _, _ => err_sx 2
  end.

Require Extraction.
Require Import ExtrOcamlBasic.
Extraction "../extract/gen/Partitions/model.ml" gen_dispatch z_push z_neg z_div10 z_mod10 z_sign z_abs.
