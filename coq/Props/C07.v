(* C07 -- Concurrent partition tasks cannot interfere with one another. *)
From Coq Require Import ZArith List Bool.
From B2Z Require Import Model.Footprint Proofs.FootprintProofs.
Import ListNotations.

(* For ANY path, value and operation types with honest footprints (an operation changes only
   what it writes; what it writes depends only on what it touches -- the file-system model's
   assumption), EVERY interleaving of any number of pairwise non-interfering tasks ends in the
   state of the sequential run (induction on interleavings by adjacent swaps). *)
Theorem noninterference_serialisable : forall (path V op : Type) (apply : op -> (path -> V) -> path -> V)
  (touches writes : op -> path -> bool),
  (forall o p, writes o p = true -> touches o p = true) ->
  (forall o s p, writes o p = false -> apply o s p = s p) ->
  (forall o s t, (forall p, touches o p = true -> s p = t p) -> forall p, writes o p = true -> apply o s p = apply o t p) ->
  forall ts l, interleaving op ts l -> pairwise op (tasks_independent path op touches writes) ts ->
  forall s, eqv path V (exec path V op apply l s) (exec path V op apply (concat ts) s).
Proof. exact noninterference_serialisable_lemma. Qed.
Print Assumptions noninterference_serialisable.

Open Scope Z_scope.
(* the concrete write sets are private: two different explode (encode) partitions never write
   what the other reads or writes, for all field / array names *)
Theorem explode_footprints_disjoint : forall i j p, i <> j ->
  writes (Explode i) p = true -> touches (Explode j) p = false.
Proof. exact explode_footprints_disjoint_lemma. Qed.
Print Assumptions explode_footprints_disjoint.

Theorem encode_footprints_disjoint : forall i j p, i <> j ->
  writes (Encode i) p = true -> touches (Encode j) p = false.
Proof. exact encode_footprints_disjoint_lemma. Qed.
Print Assumptions encode_footprints_disjoint.

(* PLINK slices as C11 delivers them (chunk-aligned, ordered, non-empty) write disjoint chunks *)
Theorem plink_footprints_disjoint : forall a b c d cs p, 1 <= cs -> a mod cs = 0 -> c mod cs = 0 -> a < b -> b <= c -> c < d ->
  (writes (PlinkSlice a b cs) p = true -> touches (PlinkSlice c d cs) p = false) /\
  (writes (PlinkSlice c d cs) p = true -> touches (PlinkSlice a b cs) p = false).
Proof. exact plink_footprints_disjoint_lemma. Qed.
Print Assumptions plink_footprints_disjoint.

(* the inputs a phase's tasks read are written by no task of that phase *)
Theorem phase_inputs_not_written : forall t u p, reads t p = true ->
  match t, u with Explode _, Explode _ | Encode _, Encode _ | PlinkSlice _ _ _, PlinkSlice _ _ _ => writes u p = false | _, _ => True end.
Proof. exact phase_inputs_not_written_lemma. Qed.
Print Assumptions phase_inputs_not_written.

Example c07_instance :
  writes (Explode 3) (IcfFieldPart 7 3) = true /\ touches (Explode 4) (IcfFieldPart 7 3) = false /\
  writes (Encode 1) (VczStalePart 1) = true /\ writes (Encode 1) (VczStalePart 10) = false /\
  writes (PlinkSlice 20 35 10) (PlinkChunk 0 3) = true /\ writes (PlinkSlice 20 35 10) (PlinkChunk 0 4) = false.
Proof. vm_compute. repeat split; reflexivity. Qed.
