(* C07 -- Concurrent partition tasks cannot interfere with one another. *)
From Coq Require Import ZArith List Bool.
From B2Z Require Import Model.Footprint Proofs.FootprintProofs Base.Eff Gen.GenIcfProtocol Gen.GenVczProtocol Bridge.BridgeFootprint Base.PlinkOps Gen.GenPlink Bridge.BridgePlink.
Import ListNotations.

(* For ANY path, value and operation types with honest footprints (an operation changes only
   what it writes; what it writes depends only on what it touches -- the file-system model's
   assumption), EVERY interleaving of any number of pairwise non-interfering tasks ends in the
   state of the sequential run (induction on interleavings by adjacent swaps). *)
Theorem noninterference_serialisable : forall (path V op : Type) (apply : op -> (path -> V) -> path -> V)
  (touches writes : op -> path -> bool),
  (forall o p, writes o p = true -> touches o p = true) ->
  (forall o s p, writes o p = false -> apply o s p = s p) ->
  (forall o s t, (forall p, touches o p = true -> s p = t p) -> forall p, writes o p = true -> apply o s p = apply o t p) ->
  forall ts l, interleaving op ts l -> pairwise op (tasks_independent path op touches writes) ts ->
  forall s, eqv path V (exec path V op apply l s) (exec path V op apply (concat ts) s).
Proof. exact noninterference_serialisable_lemma. Qed.
Print Assumptions noninterference_serialisable.

Open Scope Z_scope.
(* the concrete write sets are private: two different explode (encode) partitions never write
   what the other reads or writes, for all field / array names *)
Theorem explode_footprints_disjoint : forall i j p, i <> j ->
  writes (Explode i) p = true -> touches (Explode j) p = false.
Proof. exact explode_footprints_disjoint_lemma. Qed.
Print Assumptions explode_footprints_disjoint.

Theorem encode_footprints_disjoint : forall i j p, i <> j ->
  writes (Encode i) p = true -> touches (Encode j) p = false.
Proof. exact encode_footprints_disjoint_lemma. Qed.
Print Assumptions encode_footprints_disjoint.

(* PLINK slices as C11 delivers them (chunk-aligned, ordered, non-empty) write disjoint chunks *)
Theorem plink_footprints_disjoint : forall a b c d cs p, 1 <= cs -> a mod cs = 0 -> c mod cs = 0 -> a < b -> b <= c -> c < d ->
  (writes (PlinkSlice a b cs) p = true -> touches (PlinkSlice c d cs) p = false) /\
  (writes (PlinkSlice c d cs) p = true -> touches (PlinkSlice a b cs) p = false).
Proof. exact plink_footprints_disjoint_lemma. Qed.
Print Assumptions plink_footprints_disjoint.

(* the inputs a phase's tasks read are written by no task of that phase *)
Theorem phase_inputs_not_written : forall t u p, reads t p = true ->
  match t, u with Explode _, Explode _ | Encode _, Encode _ | PlinkSlice _ _ _, PlinkSlice _ _ _ => writes u p = false | _, _ => True end.
Proof. exact phase_inputs_not_written_lemma. Qed.
Print Assumptions phase_inputs_not_written.

(* TRANSLATOR TIE.  The effect lists of the two partition commands as regenerated from the source on
   this run (explode_partition / encode_partition; translator/proto2coq.py) stay inside the footprints
   the theorems above are about: every effect has a footprint reading, everything it mutates lies in
   the task's write set and everything it inspects in the task's touch set, for EVERY partition j. *)
Theorem translated_explode_within_footprint : forall j, Forall (eff_within PExplode j) icf_partition.
Proof. exact translated_explode_within_footprint_lemma. Qed.
Print Assumptions translated_explode_within_footprint.

Theorem translated_encode_within_footprint : forall j, Forall (eff_within PEncode j) vcz_partition.
Proof. exact translated_encode_within_footprint_lemma. Qed.
Print Assumptions translated_encode_within_footprint.

(* hence: no effect of the translated command of partition i mutates a path that any effect of the
   translated command of another partition j mutates or inspects *)
Theorem translated_explode_commands_disjoint : forall i j, i <> j -> forall e f, In e icf_partition -> In f icf_partition ->
  forall wi ri wj rj, eff_footprint PExplode i e = Some (wi, ri) -> eff_footprint PExplode j f = Some (wj, rj) ->
  forall c d p, In c wi -> In d (wj ++ rj) -> in_class c p = true -> in_class d p = true -> False.
Proof. exact (translated_commands_disjoint_lemma PExplode icf_partition translated_explode_within_footprint_lemma explode_footprints_disjoint_lemma). Qed.
Print Assumptions translated_explode_commands_disjoint.

Theorem translated_encode_commands_disjoint : forall i j, i <> j -> forall e f, In e vcz_partition -> In f vcz_partition ->
  forall wi ri wj rj, eff_footprint PEncode i e = Some (wi, ri) -> eff_footprint PEncode j f = Some (wj, rj) ->
  forall c d p, In c wi -> In d (wj ++ rj) -> in_class c p = true -> in_class d p = true -> False.
Proof. exact (translated_commands_disjoint_lemma PEncode vcz_partition translated_encode_within_footprint_lemma encode_footprints_disjoint_lemma). Qed.
Print Assumptions translated_encode_commands_disjoint.

(* the PLINK worker task as translated from plink.encode_genotypes_slice (translator/plink2coq.py): every
   row its read loop delivers -- hence every row it writes through buffers created at `start` -- lies in
   a chunk of the task's write footprint, for every array, slice and chunk size *)
Theorem translated_slice_within_footprint : forall start stop cs arr i, 1 <= cs -> 0 <= start -> start mod cs = 0 -> start <= stop ->
  In i (concat (map (fun p => zrange (fst p) (snd p)) (gen_slice_reads (Z.to_nat (stop - start)) start stop cs))) ->
  writes (PlinkSlice start stop cs) (PlinkChunk arr (i / cs)) = true.
Proof. exact translated_slice_within_footprint_lemma. Qed.
Print Assumptions translated_slice_within_footprint.

(* sensitivity: a partition command that rewrote the shared plan, or used a loop symbol, would NOT be
   inside the footprint (so the two theorems above are not vacuous about what they exclude) *)
Example shared_write_is_outside : ~ eff_within PExplode 3 (WriteFile IWipMeta) /\ ~ eff_within PEncode 3 (Rmtree ZParts).
Proof.
  split; intros [w [r [E [Hw _]]]]; simpl in E; inversion E; subst.
  specialize (Hw (Exactly IcfWipMeta) IcfWipMeta (or_introl eq_refl) eq_refl). discriminate.
Qed.

Example c07_instance :
  writes (Explode 3) (IcfFieldPart 7 3) = true /\ touches (Explode 4) (IcfFieldPart 7 3) = false /\
  writes (Encode 1) (VczStalePart 1) = true /\ writes (Encode 1) (VczStalePart 10) = false /\
  writes (PlinkSlice 20 35 10) (PlinkChunk 0 3) = true /\ writes (PlinkSlice 20 35 10) (PlinkChunk 0 4) = false.
Proof. vm_compute. repeat split; reflexivity. Qed.
