(* C01 -- VCF/BCF to VCF Zarr conversion preserves every record and every field value. *)
From Coq Require Import ZArith Arith List Bool Permutation Sorting.Sorted.
From B2Z Require Import Base.Prims Model.Spec Model.Icf Pipeline.Rows Pipeline.Buf Pipeline.Pipe Proofs.SpecProofs.
Import ListNotations.
Open Scope nat_scope.

(* the row encoding is lossless, generically in the two sentinels (ints -1/-2, float32 patterns
   0x7F800001/2, strings "."/""): decoding an encoded row returns the value -- a full-width
   all-missing vector being THE encoding of "absent" *)
Theorem vec_roundtrip : forall (miss fill : Z), miss <> fill -> forall w v, (0 < w)%nat ->
  match v with None => True | Some xs => Forall (cell_ok miss fill) xs /\ (length xs <= w)%nat /\ xs <> [] end ->
  dec_vec miss fill (enc_vec miss fill w v) =
  match v with
  | Some xs => if all_missing xs && (length xs =? w)%nat then None else Some xs
  | None => None
  end.
Proof. exact vec_roundtrip. Qed.
Print Assumptions vec_roundtrip.

(* the reference encoder writes exactly that row encoding for INFO values *)
Theorem spec_rows_use_row_encoder : forall ty w v, whole_missing v = false -> (1 <= w)%Z -> (zlen v <= w)%Z ->
  info_row ty w (IVec v) = enc_vec (missv ty) (fillv ty) (Z.to_nat w) (Some v).
Proof. exact info_row_is_enc_vec. Qed.
Print Assumptions spec_rows_use_row_encoder.
Theorem spec_sentinels_distinct : forall ty, missv ty <> fillv ty.
Proof. exact sentinels_distinct. Qed.
Print Assumptions spec_sentinels_distinct.

(* order: the stored records are the input's records (a permutation), sorted by header contig
   index, file order preserved inside every contig *)
Theorem spec_order : forall l,
  Permutation l (sort_records l) /\ StronglySorted by_contig (sort_records l) /\
  forall c, filter (fun r => (r_contig r =? c)%Z) (sort_records l) = filter (fun r => (r_contig r =? c)%Z) l.
Proof. intros l. split; [apply sort_records_perm|]. split; [apply sort_records_sorted|]. intros c. apply sort_records_stable. Qed.
Print Assumptions spec_order.

(* the chunk buffer: pushing rows from a chunk-aligned offset writes row i at offset+i, touches
   nothing else, and every flush is chunk-aligned *)
Theorem buffered_array_spec : forall (A : Type) (cs : nat), 0 < cs -> forall o a0 rs,
  (forall i, out A (encode A cs o a0 rs) i = if (o <=? i) && (i <? o + length rs) then nth_error rs (i - o) else a0 i) /\
  Forall (fun sl => exists k, fst sl = o + k * cs /\ 0 < snd sl <= cs) (flushes A (encode A cs o a0 rs)).
Proof. exact encode_spec. Qed.
Print Assumptions buffered_array_spec.

(* the pipeline: for ANY contiguous partitioning of 0..n (what C11 proves of the encode
   partitions) and ANY order of execution of the partition tasks, over ANY intermediate store
   shape (C08's range reads), every row i < n of the array holds enc(values[i]) *)
Theorem pipeline_refines_spec : forall (A Row : Type) (enc : A -> Row) (cs : nat), 0 < cs ->
  forall (s : list (list (list A))) l l' a0,
  chain 0 l (length (all_values s)) -> Permutation l l' -> forall i, i < length (all_values s) ->
  fold_left (run_partition A Row enc cs s) l' a0 i = option_map enc (nth_error (all_values s) i).
Proof. exact pipeline_rows. Qed.
Print Assumptions pipeline_refines_spec.

Example c01_instance :
  enc_vec (-1)%Z (-2)%Z 3 (Some [Some 7%Z; None]) = [7; -1; -2]%Z /\ dec_vec (-1)%Z (-2)%Z [7; -1; -2]%Z = Some [Some 7%Z; None] /\
  enc_vec (-1)%Z (-2)%Z 3 None = [-1; -1; -1]%Z.
Proof. vm_compute. repeat split; reflexivity. Qed.
