(* C01 -- VCF/BCF to VCF Zarr conversion preserves every record and every field value. *)
From Coq Require Import ZArith Arith List Bool Permutation Sorting.Sorted.
From B2Z Require Import Base.Prims Model.Spec Model.Icf Pipeline.Rows Pipeline.Buf Pipeline.Pipe Proofs.SpecProofs Proofs.SpecRoundtrip Bridge.BridgeBuffer.
From B2Z Require Gen.GenBuffer.
From B2Z Require Import Base.SanPrims Gen.GenSanitise Bridge.BridgeSanitise.
From B2Z Require Import Base.EncSkel Gen.GenEncoders Bridge.BridgeEncoders.
From B2Z Require Gen.GenExplode Bridge.BridgeExplode.
From B2Z Require Import Gen.GenTransform Bridge.BridgeTransform.
Import ListNotations.
Open Scope nat_scope.

(* the row encoding is lossless, generically in the two sentinels (ints -1/-2, float32 patterns
   0x7F800001/2, strings "."/""): decoding an encoded row returns the value -- a full-width
   all-missing vector being THE encoding of "absent" *)
Theorem vec_roundtrip : forall (miss fill : Z), miss <> fill -> forall w v, (0 < w)%nat ->
  match v with None => True | Some xs => Forall (cell_ok miss fill) xs /\ (length xs <= w)%nat /\ xs <> [] end ->
  dec_vec miss fill (enc_vec miss fill w v) =
  match v with
  | Some xs => if all_missing xs && (length xs =? w)%nat then None else Some xs
  | None => None
  end.
Proof. exact vec_roundtrip. Qed.
Print Assumptions vec_roundtrip.

(* the reference encoder writes exactly that row encoding for INFO values *)
Theorem spec_rows_use_row_encoder : forall ty w v, whole_missing v = false -> (1 <= w)%Z -> (zlen v <= w)%Z ->
  info_row ty w (IVec v) = enc_vec (missv ty) (fillv ty) (Z.to_nat w) (Some v).
Proof. exact info_row_is_enc_vec. Qed.
Print Assumptions spec_rows_use_row_encoder.
Theorem spec_sentinels_distinct : forall ty, missv ty <> fillv ty.
Proof. exact sentinels_distinct. Qed.
Print Assumptions spec_sentinels_distinct.

(* order: the stored records are the input's records (a permutation), sorted by header contig
   index, file order preserved inside every contig *)
Theorem spec_order : forall l,
  Permutation l (sort_records l) /\ StronglySorted by_contig (sort_records l) /\
  forall c, filter (fun r => (r_contig r =? c)%Z) (sort_records l) = filter (fun r => (r_contig r =? c)%Z) l.
Proof. intros l. split; [apply sort_records_perm|]. split; [apply sort_records_sorted|]. intros c. apply sort_records_stable. Qed.
Print Assumptions spec_order.

(* the chunk buffer: pushing rows from a chunk-aligned offset writes row i at offset+i, touches
   nothing else, and every flush is chunk-aligned *)
Theorem buffered_array_spec : forall (A : Type) (cs : nat), 0 < cs -> forall o a0 rs,
  (forall i, out A (encode A cs o a0 rs) i = if (o <=? i) && (i <? o + length rs) then nth_error rs (i - o) else a0 i) /\
  Forall (fun sl => exists k, fst sl = o + k * cs /\ 0 < snd sl <= cs) (flushes A (encode A cs o a0 rs)).
Proof. exact encode_spec. Qed.
Print Assumptions buffered_array_spec.

(* the pipeline: for ANY contiguous partitioning of 0..n (what C11 proves of the encode
   partitions) and ANY order of execution of the partition tasks, over ANY intermediate store
   shape (C08's range reads), every row i < n of the array holds enc(values[i]) *)
Theorem pipeline_refines_spec : forall (A Row : Type) (enc : A -> Row) (cs : nat), 0 < cs ->
  forall (s : list (list (list A))) l l' a0,
  chain 0 l (length (all_values s)) -> Permutation l l' -> forall i, i < length (all_values s) ->
  fold_left (run_partition A Row enc cs s) l' a0 i = option_map enc (nth_error (all_values s) i).
Proof. exact pipeline_rows. Qed.
Print Assumptions pipeline_refines_spec.

(* THE WHOLE STORE.  decode_store is a function of the stored arrays (and the header) only; for every
   header and every list of well-formed records -- any number of records, contigs in any order, any
   INFO / FORMAT fields of any type and width, any ploidy -- decoding the arrays the reference encoder
   produces returns the records' view: the records in header-contig order (file order inside a contig),
   each with its contig, position, length, ID, alleles, quality, filters, every INFO value, every
   per-sample FORMAT value and every genotype call with its phasing, up to exactly the documented
   identifications (absent = full-width all-missing vector = bare '.' of a numeric field; a sample given
   as '.' reads back as [missing]; the phase of a call with fewer than two alleles is undetermined).
   So the store determines the records, and nothing else. *)
Theorem spec_roundtrip : forall h recs0 arrs,
  spec_encode h recs0 = Ok arrs -> records_ok h (sort_records recs0) ->
  decode_store h arrs = records_view h (sort_records recs0).
Proof. exact spec_roundtrip_lemma. Qed.
Print Assumptions spec_roundtrip.

(* non-vacuity: a header with an integer INFO vector, a flag, a float FORMAT field and genotypes; three
   records on two contigs given out of header order, with missing values, a '.' sample, mixed ploidy *)
Definition ex_header : header :=
  {| h_ncontigs := 2; h_nfilters := 2; h_nsamples := 2; h_infos := [(5, 0); (0, 2)]; h_fmts := [(1, 1)]; h_has_gt := true |}%Z.
Definition ex_records : list record :=
  [ {| r_contig := 1; r_pos := 7; r_id := None; r_ref := 10; r_reflen := 1; r_alts := [11; 12]; r_qual := Some 1103626240; r_filters := Some [1];
       r_info := [IVec [Some 3; None; Some 5]; IFlag]; r_fmt := [FSamples [Some [Some 1065353216]; None]];
       r_gt := Some [([Some 0; Some 2], true); ([Some 1], false)] |};
    {| r_contig := 0; r_pos := 100; r_id := Some 20; r_ref := 10; r_reflen := 3; r_alts := []; r_qual := None; r_filters := None;
       r_info := [IAbsent; IAbsent]; r_fmt := [FAbsent]; r_gt := None |};
    {| r_contig := 0; r_pos := 100; r_id := None; r_ref := 13; r_reflen := 1; r_alts := [11]; r_qual := Some 0; r_filters := Some [0];
       r_info := [IVec [None]; IAbsent]; r_fmt := [FSamples [Some [None]; Some [Some 0]]];
       r_gt := Some [([None; None], false); ([Some 1; None], true)] |} ]%Z.
Example spec_roundtrip_instance :
  match spec_encode ex_header ex_records with
  | Ok arrs => decode_store ex_header arrs = records_view ex_header (sort_records ex_records) /\ length arrs = 14
  | Err _ => False
  end.
Proof. vm_compute. split; reflexivity. Qed.

(* core.BufferedArray as TRANSLATED from the source on every run (Gen/GenBuffer.v) refines the chunk-buffer
   model of buffered_array_spec: driven as the encoders drive it (n calls of next_buffer_row from an offset,
   then flush), the row-range writes it hands to the flush helpers are exactly the model's flushes ... *)
Theorem translated_buffer_is_the_model : forall (A : Type) (cs : nat), 0 < cs -> forall o a0 (rs : list A),
  snd (gen_encode cs (length rs) (Z.of_nat o)) = map to_event (flushes A (Buf.encode A cs o a0 rs)).
Proof. exact translated_buffer_flushes. Qed.
Print Assumptions translated_buffer_is_the_model.
(* ... each write is chunk-aligned and at most one chunk long ... *)
Theorem translated_buffer_writes_aligned : forall (cs : nat), 0 < cs -> forall (o n : nat),
  Forall (fun e => match e with GenBuffer.Write st len => exists k, st = Z.of_nat (o + k * cs) /\ (0 < len <= Z.of_nat cs)%Z end)
         (snd (gen_encode cs n (Z.of_nat o))).
Proof. exact translated_buffer_aligned. Qed.
Print Assumptions translated_buffer_writes_aligned.
(* ... the buffer row next_buffer_row returns is the position the model appends at, one step at a time ... *)
Theorem translated_buffer_step : forall (A : Type) (cs : nat), 0 < cs -> forall s (b : Buf.st A) r,
  R A s b -> length (rows A b) <= cs ->
  let '(s', row, ev) := GenBuffer.next_buffer_row (Z.of_nat cs) s in
  R A s' (Buf.push A cs b r) /\ row = Z.of_nat (length (rows A (Buf.push A cs b r)) - 1) /\
  map to_event (flushes A (Buf.push A cs b r)) = map to_event (flushes A b) ++ ev.
Proof. intros A cs H s b r. exact (push_sim A cs H s b r). Qed.
Print Assumptions translated_buffer_step.
(* ... and the column loop of sync_flush_2d_array writes consecutive, non-empty column ranges of at most one
   sample chunk from 0 to the array's width: every column exactly once *)
Theorem flush_columns_cover : forall step width, (1 <= step)%Z -> (0 <= width)%Z ->
  col_chain 0 (GenBuffer.flush_cols (S (Z.to_nat width)) 0 step width) width step.
Proof. exact flush_cols_cover. Qed.
Print Assumptions flush_columns_cover.

(* ---- TRANSLATOR TIE: the value sanitisers of icf.py (the functions that write one record's value into a
   row of the encode buffer) and their dispatch, as regenerated from the source on this run
   (translator/san2coq.py -> Gen/GenSanitise.v), ARE the row encoder enc_vec that vec_roundtrip,
   pipeline_refines_spec and spec_roundtrip are about.  The premises spell out how a value reaches a
   sanitiser (cyvcf2 / htslib conventions, kept by the intermediate store). ------------------------ *)

(* INFO integers: for EVERY width, every vector of cells (absent cells arriving as INT32_MIN or -1), any
   end-of-vector padding and whatever the row held before: absent -> all missing; else the cells in order,
   then fill *)
Theorem translated_int_1d_is_row_encoder : forall w old raw cells k, Forall2 int_raw raw cells -> (length cells + k <= w)%nat ->
  gen_int_1d w old (Some (raw ++ repeat c_VCF_INT_FILL k)) = Ok (enc_vec c_INT_MISSING c_INT_FILL w (Some cells)) /\
  gen_int_1d w old None = Ok (enc_vec c_INT_MISSING c_INT_FILL w None).
Proof. exact translated_int_1d_lemma. Qed.
Print Assumptions translated_int_1d_is_row_encoder.

(* INFO floats (bit patterns): every NaN cell is stored as THE missing NaN, every other pattern -- +-inf,
   denormals, -0.0 -- unchanged; then fill *)
Theorem translated_float_1d_is_row_encoder : forall w old raw cells, Forall2 float_raw raw cells -> (length cells <= w)%nat ->
  gen_float_1d w old (Some raw) = Ok (enc_vec c_FLOAT32_MISSING c_FLOAT32_FILL w (Some cells)) /\
  gen_float_1d w old None = Ok (enc_vec c_FLOAT32_MISSING c_FLOAT32_FILL w None).
Proof. exact translated_float_1d_lemma. Qed.
Print Assumptions translated_float_1d_is_row_encoder.

(* FORMAT integers / floats: one row per sample, each the row encoding of that sample's cells *)
Theorem translated_int_2d_is_row_encoder : forall w old rows cellss m, Forall2 (int_row m) rows cellss -> (m <= w)%nat ->
  gen_int_2d (length rows) w old (Some rows) = Ok (map (fun cells => enc_vec c_INT_MISSING c_INT_FILL w (Some cells)) cellss) /\
  gen_int_2d (length rows) w old None = Ok (repeat (enc_vec c_INT_MISSING c_INT_FILL w None) (length rows)).
Proof. exact translated_int_2d_lemma. Qed.
Print Assumptions translated_int_2d_is_row_encoder.

Theorem translated_float_2d_is_row_encoder : forall w old rows cellss m, Forall2 (float_row m) rows cellss -> (m <= w)%nat ->
  gen_float_2d (length rows) w old (Some rows) = Ok (map (fun cells => enc_vec c_FLOAT32_MISSING c_FLOAT32_FILL w (Some cells)) cellss) /\
  gen_float_2d (length rows) w old None = Ok (repeat (enc_vec c_FLOAT32_MISSING c_FLOAT32_FILL w None) (length rows)).
Proof. exact translated_float_2d_lemma. Qed.
Print Assumptions translated_float_2d_is_row_encoder.

(* strings (interned ids; "." = missing, "" = fill): INFO strings, per-sample strings -- rectangular or RAGGED rows, each
   sample's values written as a prefix of its own row --, scalars *)
Theorem translated_string_1d_is_row_encoder : forall w old raw cells, Forall2 str_raw raw cells -> (length cells <= w)%nat ->
  gen_string_1d w old (Some raw) = Ok (enc_vec str_missing str_fill w (Some cells)) /\
  gen_string_1d w old None = Ok (enc_vec str_missing str_fill w None).
Proof. exact translated_string_1d_lemma. Qed.
Print Assumptions translated_string_1d_is_row_encoder.

Theorem translated_string_2d_is_row_encoder : forall w old rows cellss, Forall2 (Forall2 str_raw) rows cellss ->
  Forall (fun x => (length x <= w)%nat) rows ->
  gen_string_2d (length rows) w old (Some rows) = Ok (map (fun cells => enc_vec str_missing str_fill w (Some cells)) cellss) /\
  gen_string_2d (length rows) w old None = Ok (repeat (enc_vec str_missing str_fill w None) (length rows)).
Proof. exact translated_string_2d_lemma. Qed.
Print Assumptions translated_string_2d_is_row_encoder.

Theorem translated_string_scalar :
  (forall r c rest, str_raw r c -> gen_string_scalar (Some (r :: rest)) = Ok (enc_cell str_missing c)) /\
  gen_string_scalar None = Ok str_missing.
Proof. exact translated_string_scalar_lemma. Qed.
Print Assumptions translated_string_scalar.

(* explode THEN encode, both translated: a tuple-valued INFO value as cyvcf2 hands it over (None for '.') goes through the
   translated transformer (missing_value_map, VcfValueTransformer.transform: translator/transf2coq.py) and the translated
   sanitiser to exactly the VCF Zarr row encoding -- the premises int_raw / float_raw of the sanitiser theorems are discharged
   from the source for these fields *)
Theorem translated_info_tuple_pipeline : forall w old value,
  match value with Some cells => Forall int_cell_ok cells /\ (length cells <= w)%nat | None => True end ->
  gen_int_1d w old (gen_transform_opt gen_transform_int value) = Ok (enc_vec c_INT_MISSING c_INT_FILL w value).
Proof. exact translated_info_tuple_pipeline_lemma. Qed.
Print Assumptions translated_info_tuple_pipeline.

Theorem translated_info_tuple_pipeline_float : forall w old value,
  match value with Some cells => Forall float_cell_ok cells /\ (length cells <= w)%nat | None => True end ->
  gen_float_1d w old (gen_transform_opt gen_transform_float value) = Ok (enc_vec c_FLOAT32_MISSING c_FLOAT32_FILL w value).
Proof. exact translated_info_tuple_pipeline_float_lemma. Qed.
Print Assumptions translated_info_tuple_pipeline_float.

(* scalars (Number=1) and flags *)
Theorem translated_scalars :
  (forall r c rest, int_raw r c -> gen_int_scalar (Some (r :: rest)) = Ok (enc_cell c_INT_MISSING c)) /\
  gen_int_scalar None = Ok c_INT_MISSING /\
  (forall b rest, gen_float_scalar (Some (b :: rest)) = Ok b) /\
  gen_float_scalar None = Ok c_FLOAT32_MISSING /\
  (forall v, gen_bool (Some v) = true) /\ gen_bool None = false.
Proof. exact translated_scalars_lemma. Qed.
Print Assumptions translated_scalars.

(* the sanitiser is chosen by the field's VCF TYPE and the rank of the destination, never by the
   destination's dtype (a user schema may widen an integer array into a float dtype) *)
Theorem translated_sanitiser_dispatch : forall ty rank, gen_dispatch ty rank = expected_sanitiser ty rank.
Proof. exact translated_dispatch_lemma. Qed.
Print Assumptions translated_sanitiser_dispatch.

(* what a buffer row held before (the previous variant chunk) never shows *)
Theorem translated_rows_ignore_stale_data : forall w n old old' old2 old2' v v2,
  gen_int_1d w old v = gen_int_1d w old' v /\ gen_float_1d w old v = gen_float_1d w old' v /\
  gen_int_2d n w old2 v2 = gen_int_2d n w old2' v2 /\ gen_float_2d n w old2 v2 = gen_float_2d n w old2' v2.
Proof. exact translated_rows_ignore_stale_data_lemma. Qed.
Print Assumptions translated_rows_ignore_stale_data.

(* the sentinels read from constants.py are the VCF Zarr ones *)
Example translated_constants :
  (c_INT_MISSING, c_INT_FILL, c_FLOAT32_MISSING, c_FLOAT32_FILL, c_VCF_INT_MISSING, c_VCF_INT_FILL)
  = ((-1)%Z, (-2)%Z, 2139095041%Z, 2139095042%Z, (- 2 ^ 31)%Z, (- 2 ^ 31 + 1)%Z).
Proof. vm_compute. reflexivity. Qed.

Example translated_sanitiser_instance :
  gen_int_1d 4 [9; 9; 9; 9]%Z (Some [5; -2147483648; -2147483647]%Z) = Ok [5; -1; -2; -2]%Z /\
  gen_float_1d 3 [7; 7; 7]%Z (Some [2139095040; 2143289344]%Z) = Ok [2139095040; 2139095041; 2139095042]%Z /\
  gen_int_1d 2 [] (Some [1; 2; 3]%Z) = Err E_ValueError.
Proof. vm_compute. repeat split; reflexivity. Qed.

(* ---- TRANSLATOR TIE: the six partition encoders of vcz.py (encode_array / genotypes / alleles / id /
   filters / contig _partition) as regenerated from the source on this run (translator/enc2coq.py ->
   Gen/GenEncoders.v).  Every skeleton passes the executable check skel_ok: buffers created at
   partition.start, values taken from iter_values(partition.start, partition.stop), one next_buffer_row per
   value and buffer, rows written / read only after they were handed out, one flush per buffer after the
   loop, arrays initialised = arrays buffered = arrays finalised ... *)
Theorem translated_encoders_well_formed : forallb skel_ok gen_encoders = true.
Proof. exact gen_encoders_ok_lemma. Qed.
Print Assumptions translated_encoders_well_formed.

(* ... hence, for EVERY number n of values in the partition, every chunk size and every partition start o,
   every buffer of every encoder performs exactly the run gen_encode cs n o of the translated BufferedArray,
   which translated_buffer_is_the_model shows to be the chunk-buffer model's flushes of rows [o, o + n):
   record i of the partition lands in row o + i of the array, nothing else is written *)
Theorem translated_encoders_drive_buffers : forall s, In s gen_encoders -> forall b, (b < nbufs s)%nat -> forall cs n o,
  let '(_, rws, ev) := run_trace (Z.of_nat cs) (trace s n b) {| GenBuffer.array_offset := o; GenBuffer.buffer_row := 0 |} in
  (rws, ev) = gen_encode cs n o.
Proof. exact translated_encoders_drive_buffers_lemma. Qed.
Print Assumptions translated_encoders_drive_buffers.

Theorem translated_encoders_use_partition_range : forall s, In s gen_encoders ->
  Forall (fun o => o = OffPartStart) (offs s) /\ length (offs s) = nbufs s /\ srcs s <> [] /\ Forall (fun o => o = SrcPartition) (srcs s).
Proof. exact translated_encoders_ranges_lemma. Qed.
Print Assumptions translated_encoders_use_partition_range.

(* the genotype trio (encode_genotypes_partition as translated): cyvcf2 delivers, per sample, the allele numbers followed by
   the phase flag; call_genotype is fed all columns but the last (through the 2-d integer sanitiser), call_genotype_phased the
   last column (through the 1-d one), and call_genotype_mask is "stored allele < 0" -- missing (-1) and padding (-2) alike *)
Theorem translated_genotype_split : forall (calls : list (list Z * Z)),
  gen_gt_alleles (map (fun c => fst c ++ [snd c]) calls) = map fst calls /\
  gen_gt_phase (map (fun c => fst c ++ [snd c]) calls) = map snd calls.
Proof. exact translated_genotype_split_lemma. Qed.
Print Assumptions translated_genotype_split.

Theorem translated_genotype_mask : forall stored s k,
  nth k (nth s (gen_gt_mask stored) []) false = (nth k (nth s stored []) 0 <? 0)%Z \/ (length (nth s stored []) <= k)%nat \/ (length stored <= s)%nat.
Proof. exact translated_genotype_mask_lemma. Qed.
Print Assumptions translated_genotype_mask.

(* sensitivity of the check: a buffer created at 0, a second next_buffer_row, a missing flush, a write before
   the row is handed out are all refused *)
Example skel_check_refuses :
  skel_ok {| nbufs := 1; offs := [OffOther]; arrays := [0]; inits := [0]; srcs := [SrcPartition]; body := [ENext 0; EWrite 0 0]; finals := [0]; finalised := [0] |} = false /\
  skel_ok {| nbufs := 1; offs := [OffPartStart]; arrays := [0]; inits := [0]; srcs := [SrcPartition]; body := [ENext 0; ENext 0; EWrite 0 0]; finals := [0]; finalised := [0] |} = false /\
  skel_ok {| nbufs := 1; offs := [OffPartStart]; arrays := [0]; inits := [0]; srcs := [SrcPartition]; body := [ENext 0; EWrite 0 0]; finals := []; finalised := [0] |} = false /\
  skel_ok {| nbufs := 2; offs := [OffPartStart; OffPartStart]; arrays := [0; 1]; inits := [0; 1]; srcs := [SrcPartition]; body := [ENext 0; EWrite 1 0; ENext 1; EWrite 0 0]; finals := [0; 1]; finalised := [0; 1] |} = false.
Proof. vm_compute. repeat split; reflexivity. Qed.

(* ---- TRANSLATOR TIE: the explode side.  The record loop of process_partition and fixed_vcf_field_definitions as read off the
   source on this run (translator/explode2coq.py): the records are those of ivcf.variants(partition.region), each counted
   once; every defined fixed field (CHROM POS QUAL ID FILTERS REF ALT rlen, with the VCF types / numbers the mapping assumes)
   gets exactly one append per record, from the record attribute of the same name (rlen = end - start); every INFO field
   (an absent key as None), GT when the header has it (a record without GT as None) and every other FORMAT field get exactly
   one append per record; LAA is computed before LPL.  So every column of the intermediate store has one value per record,
   in record order -- the premise of the pipeline theorems. *)
Theorem translated_record_loop : (BridgeExplode.fixed_fields_once && BridgeExplode.per_field_once && BridgeExplode.fixed_fields_typed)%bool = true.
Proof. exact BridgeExplode.translated_record_loop_lemma. Qed.
Print Assumptions translated_record_loop.

Example c01_instance :
  enc_vec (-1)%Z (-2)%Z 3 (Some [Some 7%Z; None]) = [7; -1; -2]%Z /\ dec_vec (-1)%Z (-2)%Z [7; -1; -2]%Z = Some [Some 7%Z; None] /\
  enc_vec (-1)%Z (-2)%Z 3 None = [-1; -1; -1]%Z.
Proof. vm_compute. repeat split; reflexivity. Qed.
