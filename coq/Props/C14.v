(* C14 -- A failing or dying worker always surfaces as an error, never silent success.
   Statements are about the control skeleton TRANSLATED from core.py / icf.py / vcz.py /
   plink.py (Gen/GenWorkers.v). *)
From Coq Require Import Arith List Bool Permutation.
From B2Z Require Import Bridge.BridgeWorkers.
From B2Z Require Gen.GenWorkers.
Import ListNotations.
Module G := GenWorkers.

(* driver success => every submitted task finished normally *)
Theorem success_implies_all_done : forall completed, G.wait_on_futures completed = G.Ok -> Forall (fun o => o = G.Done) completed.
Proof. exact success_implies_all_done_lemma. Qed.
Print Assumptions success_implies_all_done.

(* for every task count, every non-empty failing set, every kind (exception / dead process) and
   EVERY completion order: the wait raises *)
Theorem any_failure_errors : forall submitted completed, Permutation submitted completed ->
  (exists o, In o submitted /\ o <> G.Done) -> G.wait_on_futures completed <> G.Ok.
Proof. exact any_failure_errors_lemma. Qed.
Print Assumptions any_failure_errors.

(* ... and the statements after the with-block (finalise, consolidate) do not run: no finished
   marker after a failed task *)
Theorem no_finalise_after_error : forall submitted completed, Permutation submitted completed ->
  (exists o, In o submitted /\ o <> G.Done) -> snd (G.driver completed) = false /\ fst (G.driver completed) <> G.Ok.
Proof. exact no_finalise_after_error_lemma. Qed.
Print Assumptions no_finalise_after_error.

Theorem all_done_succeeds : forall completed, Forall (fun o => o = G.Done) completed -> G.driver completed = (G.Ok, true).
Proof. exact all_done_succeeds_lemma. Qed.
Print Assumptions all_done_succeeds.

Theorem first_failure_decides : forall pre o post, Forall (fun x => x = G.Done) pre -> o <> G.Done ->
  G.wait_on_futures (pre ++ o :: post) = match o with G.Raised e => G.ErrReraise e | _ => G.ErrRuntime end.
Proof. exact first_failure_decides_lemma. Qed.
Print Assumptions first_failure_decides.

Theorem body_exception_propagates : forall e completed, G.pwm_exit (Some e) completed = G.ErrReraise e.
Proof. exact body_exception_propagates_lemma. Qed.
Print Assumptions body_exception_propagates.

(* the executable model used by the correspondence run is the translated skeleton *)
Theorem model_is_skeleton : forall l, G.driver (map to_gen l) = (res_to_gen (fst (Model.Workers.driver l)), snd (Model.Workers.driver l)).
Proof. exact gen_driver_eq. Qed.
Print Assumptions model_is_skeleton.

(* a task that raises SystemExit / KeyboardInterrupt (outcome Exited) is reported as a RuntimeError:
   the only exceptions the wait re-raises unchanged are Exceptions, so the driving command can never
   end as a normal exit because of what a task raised (F14) *)
Theorem task_exit_is_an_error : forall pre post, Forall (fun x => x = G.Done) pre ->
  G.driver (pre ++ G.Exited :: post) = (G.ErrRuntime, false).
Proof.
  intros pre post H. unfold G.driver, G.pwm_exit.
  rewrite (first_failure_decides_lemma pre G.Exited post H) by discriminate. reflexivity.
Qed.
Print Assumptions task_exit_is_an_error.

Example c14_instance : G.driver [G.Done; G.Broken; G.Raised 3] = (G.ErrRuntime, false) /\ G.driver [G.Done; G.Done] = (G.Ok, true).
Proof. split; reflexivity. Qed.
