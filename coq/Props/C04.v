(* C04 -- Index-derived region partitions cover every record exactly once. *)
From Coq Require Import ZArith Arith List Bool Sorting.Sorted.
From B2Z Require Import Model.Regions Proofs.RegionsProofs Proofs.RegionsRefine.
From B2Z Require Import Base.NpPrims Gen.GenRegions Bridge.BridgeRegions.
From B2Z Require Import Base.Prims Base.OffPrims Gen.GenOffsets Bridge.BridgeOffsets.
From B2Z Require Gen.GenBins.
From B2Z Require Import Base.RegionStr Gen.GenRefine Bridge.BridgeRefine.
From B2Z Require Gen.GenIndexedVcf.
Import ListNotations.
Open Scope Z_scope.

(* The region-building loop: for ANY list of (contig, start) cuts that is strictly increasing
   (so: for every num_parts, every target size, and whatever the searchsorted/unique selection
   returned), whose first cut is at or before the first record, in a file whose records are
   sorted by position inside each contig and whose trailing contigs are reported with a
   positive / unknown count whenever they hold records: querying the regions in order (htslib
   contract: records of the contig overlapping the range, in file order; then POS >= start)
   yields exactly the file's records, contig by contig, each record once. *)
Theorem regions_cover : forall ncontigs count_pos file c0 s0 cuts,
  file_ok file -> cuts_inc ((c0, s0) :: cuts) ->
  (last_contig ((c0, s0) :: cuts) < ncontigs)%nat ->
  (forall x, In x file -> (fst x < ncontigs)%nat) ->
  (forall x, In x file -> (c0 <= fst x)%nat /\ (fst x = c0 -> s0 <= snd x)) ->
  (forall x, In x file -> (last_contig ((c0, s0) :: cuts) < fst x)%nat -> count_pos (fst x) = true) ->
  flat_map (query file) (regions ncontigs count_pos ((c0, s0) :: cuts))
  = flat_map (fun c => of_contig c file) (seq 0 ncontigs).
Proof. exact regions_cover. Qed.
Print Assumptions regions_cover.

(* _filter_empty_and_refine: moving each start to the first record the region yields and dropping
   the regions that yield nothing does not change what the list yields (records sorted by position
   inside each contig) *)
Theorem refine_cover : forall file rs, file_ok file ->
  flat_map (query file) (refine file rs) = flat_map (query file) rs.
Proof. exact refine_cover. Qed.
Print Assumptions refine_cover.

(* The whole statement of C04 for the list partition_into_regions returns (loop + trailing contigs +
   refine), for ANY strictly increasing cut list: every record exactly once, in file order contig by
   contig; no empty region; strictly ordered, and inside a contig each region ends before the next
   one starts (`before`); hence the boolean check_C04 -- what the correspondence run evaluates on
   the real region list -- is true. *)
Theorem partition_correct : forall ncontigs count_pos file c0 s0 cuts,
  file_ok file -> cuts_inc ((c0, s0) :: cuts) ->
  (last_contig ((c0, s0) :: cuts) < ncontigs)%nat ->
  (forall x, In x file -> (fst x < ncontigs)%nat) ->
  (forall x, In x file -> (c0 <= fst x)%nat /\ (fst x = c0 -> s0 <= snd x)) ->
  (forall x, In x file -> (last_contig ((c0, s0) :: cuts) < fst x)%nat -> count_pos (fst x) = true) ->
  let rs := refine file (regions ncontigs count_pos ((c0, s0) :: cuts)) in
  flat_map (query file) rs = flat_map (fun c => of_contig c file) (seq 0 ncontigs) /\
  (forall r, In r rs -> query file r <> []) /\
  StronglySorted (fun a b => (rc a < rc b)%nat \/ (rc a = rc b /\ exists e, re a = Some e /\ e < lo b)) rs /\
  check_C04 ncontigs file rs = true.
Proof. exact partition_correct. Qed.
Print Assumptions partition_correct.

(* ---- TRANSLATOR TIE: the region-building part of IndexedVcf.partition_into_regions as regenerated from
   the source on this run (translator/regions2coq.py -> Gen/GenRegions.v): the index-based loop over
   region_contigs / region_starts (`i == len - 1`, the `i + 1` look-ahead, `next_contig == contig`), the
   skipped-contig loop, the `end >= 1` test and the trailing-contig loop.  For EVERY non-empty cut list,
   every number of contigs and every record-count table it appends exactly the regions of the model
   (sequence names carried as their indexes; names are distinct). *)
Theorem translated_regions_are_the_model : forall ncontigs counts cuts, cuts <> [] ->
  gen_regions (Z.of_nat ncontigs) counts (rcs cuts) (rss cuts)
  = map conv (regions ncontigs (fun c => counts (Z.of_nat c) >? 0) cuts).
Proof. exact translated_regions_are_the_model_lemma. Qed.
Print Assumptions translated_regions_are_the_model.

(* hence the whole statement for the translated source: refining the regions the translated loop appends
   (read back through conv, which is injective) yields every record once, no empty region, ordered and
   disjoint, check_C04 = true *)
Theorem translated_partition_correct : forall ncontigs counts file c0 s0 cuts rs0,
  file_ok file -> cuts_inc ((c0, s0) :: cuts) ->
  (last_contig ((c0, s0) :: cuts) < ncontigs)%nat ->
  (forall x, In x file -> (fst x < ncontigs)%nat) ->
  (forall x, In x file -> (c0 <= fst x)%nat /\ (fst x = c0 -> s0 <= snd x)) ->
  (forall x, In x file -> (last_contig ((c0, s0) :: cuts) < fst x)%nat -> counts (Z.of_nat (fst x)) >? 0 = true) ->
  map conv rs0 = gen_regions (Z.of_nat ncontigs) counts (rcs ((c0, s0) :: cuts)) (rss ((c0, s0) :: cuts)) ->
  let rs := refine file rs0 in
  flat_map (query file) rs = flat_map (fun c => of_contig c file) (seq 0 ncontigs) /\
  (forall r, In r rs -> query file r <> []) /\
  check_C04 ncontigs file rs = true.
Proof.
  intros ncontigs counts file c0 s0 cuts rs0 H1 H2 H3 H4 H5 H6 E.
  rewrite translated_regions_are_the_model_lemma in E by discriminate.
  assert (Inj : forall a b, map conv a = map conv b -> a = b).
  { induction a as [|x a IH]; intros [|y b] Hab; try discriminate; [reflexivity|].
    destruct x as [xc xs xe], y as [yc ys ye]. cbn [map] in Hab. unfold conv at 1 3 in Hab. cbn [rc rs re] in Hab.
    inversion Hab as [[A B C D]]. apply Nat2Z.inj in A. subst. f_equal. apply IH. exact D. }
  apply Inj in E. subst rs0.
  destruct (partition_correct ncontigs (fun c => counts (Z.of_nat c) >? 0) file c0 s0 cuts H1 H2 H3 H4 H5 H6) as [A [B [_ D]]].
  cbv zeta. split; [exact A|]. split; [exact B|exact D].
Qed.
Print Assumptions translated_partition_correct.

Example translated_regions_instance :
  gen_regions 5 (fun c => if c =? 4 then 7 else 0) (rcs [(0%nat, 1); (0%nat, 200); (2%nat, 50)]) (rss [(0%nat, 1); (0%nat, 200); (2%nat, 50)])
  = [GR 0 (Some 1) (Some 199); GR 0 (Some 200) None; GR 1 None None; GR 2 (Some 1) (Some 49); GR 2 (Some 50) None; GR 4 None None].
Proof. vm_compute. reflexivity. Qed.

(* ---- TRANSLATOR TIE: the offsets tables, CSIIndex.offsets and TabixIndex.offsets as regenerated from the
   source on this run (translator/offs2coq.py -> Gen/GenOffsets.v; the bin helpers are the py2coq translations).
   CSI: for EVERY index geometry, any number of contigs and bins in ANY on-disk order (pseudo-bins skipped), with
   loffsets below 2^64 and bins the first-locus helper accepts, the translated function returns the model's table
   -- per contig the (loffset, first locus) keys sorted LEXICOGRAPHICALLY (the repair of F1), emitted as (file
   offset, contig, position). *)
Theorem translated_offsets_csi : forall min_shift depth fl bins, Forall (contig_ok min_shift depth fl) bins ->
  gen_offsets_csi min_shift depth bins
  = Ok (map conv_entry (offsets_csi (map (keys_of (GenBins.bin_limit min_shift depth + 1) fl) bins))).
Proof. exact translated_offsets_csi_lemma. Qed.
Print Assumptions translated_offsets_csi.

(* tabix: the vectorised construction (hstack / full / arange) is the model's table: slot i of contig c at position
   i * 16384 + 1 *)
Theorem translated_offsets_tbi : forall linear, Forall (Forall in64) linear ->
  gen_offsets_tbi linear = map conv_entry (offsets_tbi linear).
Proof. exact translated_offsets_tbi_lemma. Qed.
Print Assumptions translated_offsets_tbi.

(* F1's input class on the translated source: a level-5 bin stored BEFORE its level-4 ancestor with the same
   loffset comes out after it *)
Example translated_offsets_instance :
  gen_offsets_csi 14 5 [[(4682, 6553600); (585, 6553600); (37450, 0)]; []; [(4681, 13107200)]]
  = Ok [(100, (0, 1)); (100, (0, 16385)); (200, (2, 1))] /\
  gen_offsets_tbi [[65536; 131072]; []; [196608]] = [(1, (0, 1)); (2, (0, 16385)); (3, (2, 1))].
Proof. vm_compute. split; reflexivity. Qed.

(* CSI: with the (fixed) lexicographic sort of (loffset, first locus) and htslib's monotone
   loffsets, the emitted positions of a contig are non-decreasing ... *)
Theorem csi_positions_sorted : forall bins, loff_monotone bins ->
  StronglySorted (fun a b => snd a <= snd b) (isort bins).
Proof. exact positions_sorted. Qed.
Print Assumptions csi_positions_sorted.

(* ... and two emitted entries with different file offsets -- the only ones the selection can
   pick in one contig -- have strictly increasing positions: the cut list is strictly increasing *)
Theorem csi_selected_strict : forall bins i j d, loff_monotone bins -> (forall b, In b bins -> 0 <= fst b) ->
  (i < j < length (isort bins))%nat ->
  file_offset (fst (nth i (isort bins) d)) < file_offset (fst (nth j (isort bins) d)) ->
  snd (nth i (isort bins) d) < snd (nth j (isort bins) d).
Proof. exact selected_strict. Qed.
Print Assumptions csi_selected_strict.

(* distinct searchsorted(side="left") hits on a sorted haystack select strictly increasing values *)
Theorem selection_strict : forall fo a b, StronglySorted Z.le fo ->
  (ss_left fo a < ss_left fo b < length fo)%nat -> nth (ss_left fo a) fo 0 < nth (ss_left fo b) fo 0.
Proof. exact selected_offsets_strict. Qed.
Print Assumptions selection_strict.

(* regression witness for F1 (pre-fix key = loffset only): a parent bin and a later leaf bin
   share a loffset; emitted in on-disk order (leaf first) the first cut is the leaf's start and
   the record before it is lost; with the fixed key the cut is at the parent's start *)
Example csi_ties_refuted :
  let file := [(0%nat, 3707); (0%nat, 23707); (0%nat, 93707)] in
  let on_disk := [(100, 23553); (100, 1); (200, 93185)] in     (* (loffset, first locus): leaf, parent, leaf *)
  flat_map (query file) (regions 1 (fun _ => true) [(0%nat, snd (hd (0, 0) on_disk))]) = [(0%nat, 23707); (0%nat, 93707)] /\
  flat_map (query file) (regions 1 (fun _ => true) [(0%nat, snd (hd (0, 0) (isort on_disk)))]) = file.
Proof. vm_compute. split; reflexivity. Qed.

Example c04_instance :
  let file := [(0%nat, 5); (0%nat, 20000); (0%nat, 20000); (2%nat, 7)] in
  let rs := regions 3 (fun _ => true) [(0%nat, 1); (0%nat, 16385)] in
  check_C04 3 file (refine file rs) = true /\ length (refine file rs) = 3%nat.
Proof. vm_compute. split; reflexivity. Qed.

(* ---- TRANSLATOR TIE: Region.__str__, IndexedVcf.variants and _filter_empty_and_refine as regenerated from the source on
   this run (translator/refine2coq.py -> Gen/GenRefine.v).  Under htslib's region-query contract (hts_contract: after
   dropping the records that start before the region, the query returns, in file order, the records of the contig with
   start <= POS <= end) the translated `variants` is the model's `query` and the translated refinement its `refine` ... *)
Theorem translated_variants_is_query : forall hts file, hts_contract hts file -> forall r, gen_variants hts r = query file r.
Proof. exact translated_variants_lemma. Qed.
Print Assumptions translated_variants_is_query.

Theorem translated_refine_is_the_model : forall hts file, hts_contract hts file -> forall rs, gen_refine hts rs = refine file rs.
Proof. exact translated_refine_lemma. Qed.
Print Assumptions translated_refine_is_the_model.

(* ... the three region forms are printed as htslib's `contig`, `contig:start-`, `contig:start-end`, and the builder never
   produces the fourth form (an end without a start), whose string would not be a region ... *)
Theorem translated_region_strings : forall c s e,
  gen_region_str c None None = [TContig c] /\
  gen_region_str c (Some s) None = [TContig c; TColon; TNum s; TDash] /\
  gen_region_str c (Some s) (Some e) = [TContig c; TColon; TNum s; TDash; TNum e].
Proof. exact translated_region_strings_lemma. Qed.
Print Assumptions translated_region_strings.

Theorem builder_region_forms : forall ncontigs count_pos cuts r, In r (regions ncontigs count_pos cuts) -> rs r = None -> re r = None.
Proof. exact regions_forms. Qed.
Print Assumptions builder_region_forms.

(* ... so the WHOLE partitioning as translated -- offsets table aside: cut loop, trailing contigs, region query with its
   filter, refinement -- yields every record exactly once, with no empty region, ordered and disjoint *)
Theorem translated_partition_pipeline_correct : forall hts ncontigs counts file c0 s0 cuts rs0,
  hts_contract hts file ->
  file_ok file -> cuts_inc ((c0, s0) :: cuts) ->
  (last_contig ((c0, s0) :: cuts) < ncontigs)%nat ->
  (forall x, In x file -> (fst x < ncontigs)%nat) ->
  (forall x, In x file -> (c0 <= fst x)%nat /\ (fst x = c0 -> s0 <= snd x)) ->
  (forall x, In x file -> (last_contig ((c0, s0) :: cuts) < fst x)%nat -> counts (Z.of_nat (fst x)) >? 0 = true) ->
  map conv rs0 = gen_regions (Z.of_nat ncontigs) counts (rcs ((c0, s0) :: cuts)) (rss ((c0, s0) :: cuts)) ->
  let rs := gen_refine hts rs0 in
  flat_map (gen_variants hts) rs = flat_map (fun c => of_contig c file) (seq 0 ncontigs) /\
  (forall r, In r rs -> gen_variants hts r <> []) /\
  check_C04 ncontigs file rs = true.
Proof.
  intros hts ncontigs counts file c0 s0 cuts rs0 Hh H1 H2 H3 H4 H5 H6 E. cbv zeta.
  rewrite (translated_refine_lemma hts file Hh rs0).
  destruct (translated_partition_correct ncontigs counts file c0 s0 cuts rs0 H1 H2 H3 H4 H5 H6 E) as [A [B C]].
  split; [|split; [|exact C]].
  - rewrite <- A. clear - Hh. induction (refine file rs0) as [|r l IH]; [reflexivity|]. cbn [flat_map]. rewrite IH, (translated_variants_lemma hts file Hh r). reflexivity.
  - intros r Hr. rewrite (translated_variants_lemma hts file Hh r). exact (B r Hr).
Qed.
Print Assumptions translated_partition_pipeline_correct.

(* the decisions of IndexedVcf.__init__ and contig_record_counts (recognised in the source text on every run and emitted as the
   decision functions of Gen/GenIndexedVcf.v, translator/ivcf2coq.py): a .tbi beside the file is preferred to a .csi; a tabix
   index means text VCF; a CSI index means BCF exactly when its aux block is empty; the sequence names come from the index
   (tabix: the name block, CSI: the aux block) and from the header only for BCF; zero counts are dropped for BCF only *)
Module IV := GenIndexedVcf.
Theorem translated_index_decisions :
  (forall c, IV.gen_pick_index true c = Some IV.KTabix) /\ IV.gen_pick_index false true = Some IV.KCsi /\ IV.gen_pick_index false false = None /\
  (forall a, IV.gen_file_kind IV.KTabix a = IV.FVcf) /\ (forall a, IV.gen_file_kind IV.KCsi a = IV.FBcf <-> a = false) /\
  (forall a, IV.gen_names_from IV.KTabix a = IV.NIndex) /\ (forall a, IV.gen_names_from IV.KCsi a = IV.NHeader <-> a = false) /\
  (forall counts, IV.gen_contig_record_counts IV.FVcf counts = counts) /\
  (forall counts kv, In kv (IV.gen_contig_record_counts IV.FBcf counts) <-> In kv counts /\ 0 < snd kv).
Proof.
  split; [intros c; reflexivity|]. split; [reflexivity|]. split; [reflexivity|]. split; [intros a; reflexivity|].
  split; [intros a; destruct a; cbn; split; intros E; (reflexivity || discriminate)|].
  split; [intros a; reflexivity|].
  split; [intros a; destruct a; cbn; split; intros E; (reflexivity || discriminate)|].
  split; [intros counts; reflexivity|].
  intros counts kv. cbn [IV.gen_contig_record_counts]. rewrite filter_In, Z.ltb_lt. reflexivity.
Qed.
Print Assumptions translated_index_decisions.
