(* C11 -- Work partitions are an exact, chunk-aligned cover of the records.
   Statements are about the definitions REGENERATED from /repo (Gen/GenPartitions.v). *)
From Coq Require Import ZArith List Bool.
From Flocq Require Raux.
From B2Z Require Import Base.Prims Model.Partitions Proofs.PartitionsProofs Bridge.BridgePartitions.
From B2Z Require Gen.GenPartitions Gen.GenBuffer.
From B2Z Require Base.CeilDiv.
Import ListNotations.
Open Scope Z_scope.

(* For every record count, chunk size, requested partition count >= 1 and optional chunk
   cap >= 1, the encode partitions computed by the translated source are a chain
   0 = s0 < e0 = s1 < ... = e_last = min(nr, cap*cs) with chunk-aligned starts, and
   there are exactly min(np, number of chunks) of them (so between 1 and np). *)
Theorem generate_partitions_cover : forall nr cs np mc,
  1 <= nr -> 1 <= cs -> 1 <= np -> mc_ok mc ->
  exists ps, GenPartitions.generate_partitions nr cs np mc = Ok ps /\
    rchain cs 0 ps (total_records nr cs mc) /\
    Z.of_nat (length ps) = Z.min np (capped_chunks nr cs mc) /\
    check_C11 nr cs np mc ps = true.
Proof. exact C11_generate_partitions_cover. Qed.
Print Assumptions generate_partitions_cover.

(* the same for the PLINK conversion's slices *)
Theorem chunk_aligned_slices_cover : forall cs shape0 n mc,
  1 <= shape0 -> 1 <= cs -> 1 <= n -> mc_ok mc ->
  exists ps, GenPartitions.chunk_aligned_slices cs shape0 n mc = Ok ps /\
    rchain cs 0 ps (total_records shape0 cs mc) /\
    Z.of_nat (length ps) = Z.min n (capped_chunks shape0 cs mc) /\
    check_C11 shape0 cs n mc ps = true.
Proof. exact C11_chunk_aligned_slices_cover. Qed.
Print Assumptions chunk_aligned_slices_cover.

(* what a chain means: every record index is in some partition, partitions are
   nonempty, chunk-aligned, ordered and disjoint, and no two of them share a chunk *)
Theorem chain_every_record_once : forall cs l b, rchain cs 0 l b ->
  (forall i, 0 <= i < b -> exists p, In p l /\ in_part i p) /\
  (forall p, In p l -> 0 <= fst p /\ snd p <= b /\ fst p < snd p /\ fst p mod cs = 0) /\
  (forall i j p q, nth_error l i = Some p -> nth_error l j = Some q -> (i < j)%nat -> snd p <= fst q).
Proof. exact C11_chain_every_record_once. Qed.
Print Assumptions chain_every_record_once.

Theorem no_chunk_shared : forall cs l b, 1 <= cs -> rchain cs 0 l b ->
  forall i j p q x y, nth_error l i = Some p -> nth_error l j = Some q -> (i < j)%nat ->
  in_part x p -> in_part y q -> x / cs < y / cs.
Proof. exact C11_no_chunk_shared. Qed.
Print Assumptions no_chunk_shared.

(* zero records: the code raises (matches C01's "at least one record") *)
Theorem zero_records_rejected : forall cs np mc, 1 <= cs ->
  GenPartitions.generate_partitions 0 cs np mc = Err E_ValueError.
Proof. exact gen_generate_partitions_zero. Qed.
Print Assumptions zero_records_rejected.

(* non-vacuity: a concrete non-trivial instance *)
Example c11_instance :
  GenPartitions.generate_partitions 9 2 3 (Some 4) = Ok [(0, 4); (4, 6); (6, 8)].
Proof. vm_compute. reflexivity. Qed.

(* `num_chunks = int(np.ceil(num_records / chunk_size))` in the source is binary64 arithmetic: `/` is the
   correctly rounded (nearest-even) quotient of the two Python ints.  For 0 <= a < 2^53 and
   1 <= b < 2^53 its ceiling IS the exact ceiling of the rational a/b, the meaning
   Base/Prims.ceil_truediv gives to the expression the translator emits (Flocq's binary64 format:
   radix 2, precision 53, emin -1074; this theorem depends on the real-number axioms of the standard
   library, listed in the trusted base -- no other theorem of the development does) *)
Theorem float_ceil_division_exact : forall a b, 0 <= a < 2 ^ 53 -> 1 <= b < 2 ^ 53 ->
  Raux.Zceil (CeilDiv.fl (Rdefinitions.Rdiv (Rdefinitions.IZR a) (Rdefinitions.IZR b))) = ceil_truediv a b.
Proof. exact CeilDiv.ceil_fdiv. Qed.
Print Assumptions float_ceil_division_exact.

(* the chunk buffer refuses an offset that is not on a chunk boundary (TRANSLATED BufferedArray.__init__),
   and the partitions above only ever start on one *)
Theorem buffer_requires_aligned_offset : forall chunk0 shape0 offset, 1 <= chunk0 ->
  (exists st, GenBuffer.init chunk0 shape0 offset = Ok st) <-> offset mod chunk0 = 0.
Proof.
  intros chunk0 shape0 offset H. unfold GenBuffer.init. destruct (Z.eqb_spec (offset mod chunk0) 0) as [E|E]; split; intros H1.
  - exact E.
  - eexists. reflexivity.
  - destruct H1 as [st H1]. discriminate.
  - contradiction.
Qed.
Print Assumptions buffer_requires_aligned_offset.
