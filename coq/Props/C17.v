(* C17 -- Local-allele fields are a faithful projection and change nothing else. *)
From Coq Require Import ZArith Arith List Bool Sorting.Sorted.
From B2Z Require Import Base.Prims Model.LocalAlleles Proofs.LocalAllelesProofs.
From B2Z Require Import Gen.GenLpl.
From Coq Require Import Lia.
Import ListNotations.
Open Scope Z_scope.

(* each call's local-allele list is exactly the ascending distinct alternate alleles of its
   genotype (missing / reference alleles do not count) ... *)
Theorem laa_sorted_distinct_alts : forall nalt gt,
  StronglySorted Z.lt (local_alts nalt gt) /\
  (forall a, In a (local_alts nalt gt) <-> (1 <= a <= Z.of_nat nalt /\ In a gt)).
Proof. exact local_alts_spec. Qed.
Print Assumptions laa_sorted_distinct_alts.

(* ... padded with fill to the record's common width (the widest call, at least 1) *)
Theorem laa_rows_padded : forall nalt gts gt, In gt gts ->
  let w := laa_width nalt gts in
  (length (local_alts nalt gt) <= w)%nat /\
  firstn w (pad_to (Nat.max 1 nalt) (local_alts nalt gt)) = local_alts nalt gt ++ repeat INT_FILL (w - length (local_alts nalt gt)).
Proof. exact laa_row_spec. Qed.
Print Assumptions laa_rows_padded.

(* the (c, r) enumeration built with np.repeat / np.tril_indices is the VCF genotype order:
   position r(r+1)/2 + c holds the pair (c, r), for every number of alleles *)
Theorem genotype_index_bijection : forall L c r, (c <= r)%nat -> (r < L)%nat ->
  nth (tri r + c) (pairs L) (0%nat, 0%nat) = (c, r).
Proof. exact genotype_index_bijection_lemma. Qed.
Print Assumptions genotype_index_bijection.

(* diploid: LPL[k] = PL[G(la[c_k], la[r_k])] for the call's local genotypes (G(a,b) = b(b+1)/2+a,
   so missing stays missing), fill for every later cell -- for any number of local alleles and
   any padding, provided PL has the Number=G width of the record (at least one ALT allele) *)
Theorem lpl_projection : forall plrow alts k maxalt,
  Forall (fun a => 1 <= a <= maxalt) alts -> 1 <= maxalt ->
  maxalt + 2 <= Z.of_nat (length plrow) -> maxalt * (maxalt + 1) / 2 + maxalt < Z.of_nat (length plrow) ->
  let la := 0 :: alts ++ repeat INT_FILL k in
  let m := S (length alts) in
  ab_pairs 2 la = Ok (map (fun cr => (nth (fst cr) la 0, nth (snd cr) la 0)) (pairs (length la))) /\
  lpl_row plrow (map (fun cr => (nth (fst cr) la 0, nth (snd cr) la 0)) (pairs (length la))) =
    Ok (map (fun cr => nth (Z.to_nat (nth (snd cr) (0 :: alts) 0 * (nth (snd cr) (0 :: alts) 0 + 1) / 2 + nth (fst cr) (0 :: alts) 0)) plrow 0) (pairs m)
        ++ repeat INT_FILL (tri (length la) - tri m)).
Proof.
  intros plrow alts k maxalt H1 H2 H3 H4 la m. split; [apply ab_pairs_diploid|].
  exact (lpl_projection_diploid_lemma plrow alts k maxalt H1 H2 H3 H4).
Qed.
Print Assumptions lpl_projection.

(* haploid, the part that holds of the code as it is: cells below the call's local genotype
   count hold PL[la[k]] *)
Theorem lpl_projection_haploid_partial : forall plrow alts k maxalt,
  Forall (fun a => 1 <= a <= maxalt) alts -> 1 <= maxalt -> maxalt + 2 <= Z.of_nat (length plrow) ->
  let la := 0 :: alts ++ repeat INT_FILL k in
  exists row, lpl_row plrow (map (fun a => (a, 0)) la) = Ok row /\ length row = length la /\
    forall i, (i < S (length alts))%nat -> nth i row 0 = nth (Z.to_nat (nth i (0 :: alts) 0)) plrow 0.
Proof. exact lpl_haploid_partial_lemma. Qed.
Print Assumptions lpl_projection_haploid_partial.

(* ... and the full statement ("fill beyond the call's local genotypes") is FALSE for ploidy 1:
   finding F5, witness GT 0 / PL 0,0,30,0 with row width 2: the padded cell holds PL[-2] = 30 *)
Theorem lpl_haploid_fill_refuted :
  exists plrow laa, compute_lpl 1 true [laa] [plrow] = Ok [[0; 30]] /\ laa = [INT_FILL] /\
                    spec_lpl_row 1 2 [] (Some plrow) = [0; INT_FILL].
Proof. exists [0; 0; 30; 0], [INT_FILL]. vm_compute. repeat split; reflexivity. Qed.
Print Assumptions lpl_haploid_fill_refuted.

(* ploidies that cannot be localised are rejected *)
Theorem ploidy_rejected : forall ploidy la, ploidy <> 1 -> ploidy <> 2 -> ab_pairs ploidy la = Err E_ValueError.
Proof. exact ab_pairs_rejects. Qed.
Print Assumptions ploidy_rejected.

(* ---- TRANSLATOR TIE (the scalar skeleton of compute_lpl_field as read off the source on this run, translator/lpl2coq.py;
   the vectorised index arithmetic itself is the hand-written model): both dispatches on the record's ploidy -- the one that
   sizes the all-missing result of a record without PL and the one in front of the a / b index construction -- accept exactly
   the ploidies the model localises and reject every other with ValueError ... *)
Theorem translated_ploidy_dispatch : forall ploidy la n,
  (gen_index_ploidy_ok ploidy = Ok tt <-> exists x, ab_pairs ploidy la = Ok x) /\
  (ploidy <> 1 -> ploidy <> 2 -> gen_index_ploidy_ok ploidy = Err E_ValueError /\ gen_local_genotype_count ploidy n = Err E_ValueError).
Proof.
  intros ploidy la n. unfold gen_index_ploidy_ok, gen_local_genotype_count, ab_pairs.
  destruct (ploidy =? 1) eqn:E1; [split; [split; [eexists; reflexivity|reflexivity]|lia]|].
  destruct (ploidy =? 2) eqn:E2; [split; [split; [eexists; reflexivity|reflexivity]|lia]|].
  split; [split; [discriminate|intros [x Hx]; discriminate]|]. intros _ _. split; reflexivity.
Qed.
Print Assumptions translated_ploidy_dispatch.

(* ... the number of local genotypes of a record without PL is the number of (a, b) pairs the model builds for the same
   number of local alleles ... *)
Theorem translated_local_genotype_count : forall ploidy la l, ab_pairs ploidy la = Ok l ->
  gen_local_genotype_count ploidy (Z.of_nat (length la)) = Ok (Z.of_nat (length l)).
Proof.
  intros ploidy la l H. unfold gen_local_genotype_count, ab_pairs in *.
  destruct (ploidy =? 1); [inversion H; subst; rewrite map_length; reflexivity|].
  destruct (ploidy =? 2); [|discriminate]. inversion H; subst. rewrite map_length, pairs_length. f_equal.
  unfold tri. rewrite Nat2Z.inj_div. f_equal. lia.
Qed.
Print Assumptions translated_local_genotype_count.

(* ... and the local-allele row starts with the reference allele, negative entries (htslib's missing / end-of-vector
   sentinels in a carried LAA; the repair of F12) being fill *)
Theorem translated_la_row : forall laa, gen_la_row laa = la_of (map (fun x => if x <? 0 then INT_FILL else x) laa).
Proof. intros laa. reflexivity. Qed.
Print Assumptions translated_la_row.

(* regression witness for F4 (all-missing PL with a call on high allele numbers): post-fix the
   broadcast covers every index *)
Example lpl_allmissing_instance :
  compute_lpl 2 true [[1; 3]] [[-1]] = Ok [[-1; -1; -1; -1; -1; -1]].
Proof. vm_compute. reflexivity. Qed.

Example c17_instance :
  compute_laa 3 [[0; 2]; [3; 1]; [-1; 0]] = [[2; INT_FILL]; [1; 3]; [INT_FILL; INT_FILL]] /\
  compute_lpl 2 true [[2; INT_FILL]; [1; 3]] [[0; 1; 2; 3; 4; 5; 6; 7; 8; 9]; [10; 11; 12; 13; 14; 15; 16; 17; 18; 19]]
    = Ok [[0; 3; 5; -2; -2; -2]; [10; 11; 12; 16; 17; 19]].
Proof. vm_compute. split; reflexivity. Qed.
