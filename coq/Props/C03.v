(* C03 -- Output is invariant under how the work is decomposed, scheduled or split. *)
From Coq Require Import ZArith Arith List Bool Permutation.
From B2Z Require Import Base.Prims Model.Icf Model.Partitions Model.Overlap Pipeline.Buf Pipeline.Pipe
                        Proofs.IcfProofs Proofs.PartitionsProofs Proofs.OverlapProofs.
From B2Z Require Import Bridge.BridgePartitions Base.EncSkel Gen.GenEncoders Bridge.BridgeEncoders Bridge.BridgeBuffer Gen.GenScan Bridge.BridgeScan.
From B2Z Require Gen.GenPartitions Gen.GenBuffer.
Import ListNotations.
Open Scope nat_scope.

(* two configurations -- ANY two contiguous partitionings of the rows (whatever the requested
   partition count), each executed in ANY order, over ANY two chunkings / partitionings of the
   same column in the intermediate store -- produce the same rows *)
Theorem pipeline_cfg_invariant : forall (A Row : Type) (enc : A -> Row) (cs1 cs2 : nat), 0 < cs1 -> 0 < cs2 ->
  forall (s1 s2 : list (list (list A))), all_values s1 = all_values s2 ->
  forall l1 l1' l2 l2' a1 a2,
  chain 0 l1 (length (all_values s1)) -> Permutation l1 l1' ->
  chain 0 l2 (length (all_values s2)) -> Permutation l2 l2' ->
  forall i, i < length (all_values s1) ->
  fold_left (run_partition A Row enc cs1 s1) l1' a1 i = fold_left (run_partition A Row enc cs2 s2) l2' a2 i.
Proof.
  intros A Row enc cs1 cs2 H1 H2 s1 s2 E l1 l1' l2 l2' a1 a2 C1 P1 C2 P2 i Hi.
  rewrite (pipeline_rows A Row enc cs1 H1 s1 l1 l1' a1 C1 P1 i Hi).
  rewrite (pipeline_rows A Row enc cs2 H2 s2 l2 l2' a2 C2 P2 i ltac:(rewrite <- E; exact Hi)).
  rewrite E. reflexivity.
Qed.
Print Assumptions pipeline_cfg_invariant.

(* the store's column does not depend on the explode decomposition: whole-column read = the
   appended values for every partitioning and every flush threshold (C08) *)
Theorem icf_decomposition_invariant : forall (A : Type) (thr1 thr2 : Z) (parts1 parts2 : list (list (A * Z))),
  map fst (concat parts1) = map fst (concat parts2) ->
  all_values (map (write_partition thr1) parts1) = all_values (map (write_partition thr2) parts2).
Proof. intros A t1 t2 p1 p2 E. rewrite !values_roundtrip_lemma. exact E. Qed.
Print Assumptions icf_decomposition_invariant.

(* a variant-chunk cap yields exactly the corresponding prefix: the partitions then cover
   0 .. min(n, cap * chunk_size) (C11), so every row below that bound is written, by the same
   value as without the cap *)
Theorem max_chunks_prefix : forall nr cs np m,
  (1 <= nr)%Z -> (1 <= cs)%Z -> (1 <= np)%Z -> (1 <= m)%Z ->
  rchain cs 0 (generate_partitions nr cs np (Some m)) (Z.min nr (m * cs)).
Proof. intros nr cs np m H1 H2 H3 H4. exact (proj1 (generate_partitions_chain nr cs np (Some m) H1 H2 H3 H4)). Qed.
Print Assumptions max_chunks_prefix.

(* split files: whatever the order in which the files are given, the accepted partition list is
   sorted into strictly ordered blocks and is a permutation of what was given (C13) *)
Theorem split_files_sorted : forall l, accept l = true -> blocks_ordered (isort l) /\ Permutation l (isort l).
Proof. exact accepted_sorted_lemma. Qed.
Print Assumptions split_files_sorted.

(* ---- TRANSLATOR TIES (the definitions regenerated from the source on this run) ------------------------------------ *)

(* the plan does not matter: for ANY two requested partition counts the partitions computed by the TRANSLATED
   generate_partitions are chains of chunk-aligned, non-empty ranges over the SAME rows 0 .. min(nr, cap * cs) *)
Theorem translated_plans_cover_the_same_rows : forall nr cs np np' mc,
  (1 <= nr)%Z -> (1 <= cs)%Z -> (1 <= np)%Z -> (1 <= np')%Z -> mc_ok mc ->
  exists ps ps', GenPartitions.generate_partitions nr cs np mc = Ok ps /\ GenPartitions.generate_partitions nr cs np' mc = Ok ps' /\
                 rchain cs 0 ps (total_records nr cs mc) /\ rchain cs 0 ps' (total_records nr cs mc).
Proof.
  intros nr cs np np' mc H1 H2 H3 H3' H4.
  destruct (C11_generate_partitions_cover nr cs np mc H1 H2 H3 H4) as [ps [E [R _]]].
  destruct (C11_generate_partitions_cover nr cs np' mc H1 H2 H3' H4) as [ps' [E' [R' _]]].
  exists ps, ps'. repeat split; assumption.
Qed.
Print Assumptions translated_plans_cover_the_same_rows.

(* what a partition task does depends on nothing but its own range: every buffer of every TRANSLATED encoder, for every
   partition start o and number n of values, performs the run gen_encode cs n o of the translated BufferedArray -- so the rows
   [o, o + n) receive the same values whichever plan the partition belongs to and whenever it runs (with
   translated_buffer_is_the_model and pipeline_cfg_invariant) *)
Theorem translated_partition_tasks_depend_on_their_range_only : forall s, In s gen_encoders -> forall b, (b < nbufs s)%nat -> forall cs n o,
  let '(_, rws, ev) := run_trace (Z.of_nat cs) (trace s n b) {| GenBuffer.array_offset := o; GenBuffer.buffer_row := 0 |} in
  (rws, ev) = gen_encode cs n o.
Proof. exact translated_encoders_drive_buffers_lemma. Qed.
Print Assumptions translated_partition_tasks_depend_on_their_range_only.

(* split files: the scan results are sorted by path before the reference header is taken and the partitions are sorted by
   (header contig index, start) afterwards -- the order in which the files are given or complete does not enter *)
Theorem translated_scan_is_order_independent :
  (before SSortResultsByPath STakeFirstHeader && before STakeFirstHeader SHeadersEqualFirst && before SHeadersEqualFirst SSortPartitions)%bool = true.
Proof. vm_compute. reflexivity. Qed.
Print Assumptions translated_scan_is_order_independent.
