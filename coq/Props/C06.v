(* C06 -- Distributed encode is crash-safe: never falsely finished, reruns recover.
   Step machine with subtree-moving renames (wip_p<j> -> p<j>, p<j> -> stale_p<j>, entries into
   wip/arrays/a, arrays out of wip/); histories are ANY list of commands with kills after any
   prefix of steps. *)
From Coq Require Import Arith List Bool.
From B2Z Require Import Protocol.VczProtocol.
Import ListNotations.

Theorem never_falsely_finished : forall (nparts narrays : nat) (nent : nat -> nat -> nat) h,
  finished (run nparts narrays nent true empty h) -> complete nparts narrays nent (run nparts narrays nent true empty h).
Proof. intros nparts narrays nent h. exact (never_falsely_finished nparts narrays nent true eq_refl h). Qed.
Print Assumptions never_falsely_finished.

Theorem invariant_preserved : forall (nparts narrays : nat) (nent : nat -> nat -> nat) h s,
  Inv nparts narrays nent s -> Inv nparts narrays nent (run nparts narrays nent true s h).
Proof. intros nparts narrays nent h s. exact (run_inv nparts narrays nent true eq_refl h s). Qed.
Print Assumptions invariant_preserved.

(* finalise refuses (no step) while any partition directory is not in place *)
Theorem finalise_guard : forall (nparts narrays : nat) (nent : nat -> nat -> nat) s,
  steps nparts narrays nent true s Finalise <> [] -> all_fin nparts s = true.
Proof.
  intros nparts narrays nent s H. unfold steps in H.
  destruct (is_full (s PMeta) && all_fin nparts s) eqn:E; [|congruence].
  apply andb_true_iff in E. tauto.
Qed.
Print Assumptions finalise_guard.

(* regression witness (F7) and the behaviour of the repaired protocol on the same history *)
Theorem vcz_partial_partition_refuted : st_F7 PZmeta = Full /\ st_F7 (PArrE 0 1 0) = Absent.
Proof. exact vcz_partial_partition_refuted. Qed.
Print Assumptions vcz_partial_partition_refuted.
Theorem rerun_recovers_instance :
  run 3 1 nent1 true empty hist_F7 PZmeta = Absent /\
  let s := run 3 1 nent1 true empty (hist_F7 ++ [(Partition 1 [(0,0)], None); (Finalise, None)]) in
  s PZmeta = Full /\ s (PArrE 0 0 0) = Full /\ s (PArrE 0 1 0) = Full /\ s (PArrE 0 2 0) = Full.
Proof. split; [exact F7_fixed_refuses|exact F7_fixed_recovers]. Qed.
Print Assumptions rerun_recovers_instance.
