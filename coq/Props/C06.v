(* C06 -- Distributed encode is crash-safe: never falsely finished, reruns recover.
   Step machine with subtree-moving renames (wip_p<j> -> p<j>, p<j> -> stale_p<j>, entries into
   wip/arrays/a, arrays out of wip/); histories are ANY list of commands with kills after any
   prefix of steps. *)
From Coq Require Import Arith List Bool.
From B2Z Require Import Protocol.VczProtocol Protocol.VczRecovery Base.Eff Protocol.VczEffects Gen.GenVczProtocol Bridge.BridgeVczProtocol.
Import ListNotations.

Theorem never_falsely_finished : forall (nparts narrays : nat) (nent : nat -> nat -> nat) h,
  finished (run nparts narrays nent true empty h) -> complete nparts narrays nent (run nparts narrays nent true empty h).
Proof. intros nparts narrays nent h. exact (never_falsely_finished nparts narrays nent true eq_refl h). Qed.
Print Assumptions never_falsely_finished.

Theorem invariant_preserved : forall (nparts narrays : nat) (nent : nat -> nat -> nat) h s,
  Inv nparts narrays nent s -> Inv nparts narrays nent (run nparts narrays nent true s h).
Proof. intros nparts narrays nent h s. exact (run_inv nparts narrays nent true eq_refl h s). Qed.
Print Assumptions invariant_preserved.

(* finalise refuses (no step) while any partition directory is not in place *)
Theorem finalise_guard : forall (nparts narrays : nat) (nent : nat -> nat -> nat) s,
  steps nparts narrays nent true s Finalise <> [] -> all_fin nparts s = true.
Proof.
  intros nparts narrays nent s H. unfold steps in H.
  destruct (is_full (s PMeta) && all_fin nparts s) eqn:E; [|congruence].
  apply andb_true_iff in E. tauto.
Qed.
Print Assumptions finalise_guard.

(* recovery, in general: from ANY state satisfying the invariant in which init has completed and no
   array has been moved out of wip/ yet, ANY history of partition commands -- interrupted anywhere,
   repeated, in any order -- in which the last run of every partition is an uninterrupted one,
   followed by finalise, ends finished and complete (every entry of every array Full = equal to the
   uninterrupted run) *)
Theorem rerun_recovers : forall (nparts narrays : nat) (nent : nat -> nat -> nat) h s,
  Inv nparts narrays nent s -> s PMeta = Full -> no_array_out narrays s = true ->
  forallb is_part h = true ->
  (forall j, j < nparts -> last_full j h (is_full (s (PFinDir j))) = true) ->
  let s' := run nparts narrays nent true s (h ++ [(Finalise, None)]) in
  finished s' /\ complete nparts narrays nent s'.
Proof. exact rerun_recovers. Qed.
Print Assumptions rerun_recovers.

Theorem rerun_recovers_from_scratch : forall (nparts narrays : nat) (nent : nat -> nat -> nat) h,
  forallb is_part h = true -> (forall j, j < nparts -> last_full j h false = true) ->
  let s' := run nparts narrays nent true empty ((Init, None) :: h ++ [(Finalise, None)]) in
  finished s' /\ complete nparts narrays nent s'.
Proof. exact rerun_recovers_from_scratch. Qed.
Print Assumptions rerun_recovers_from_scratch.

(* a re-run finalise (after an interrupted one, or at any other time) either runs to the end -- then
   the store is finished and complete -- or stops with an error and leaves the finished marker
   alone: never a silent partial result.  finalise_ok is the model's "returns without raising",
   which the correspondence run compares with the real exit status (finalise_ok_marker). *)
Theorem finalise_total_or_error : forall (nparts narrays : nat) (nent : nat -> nat -> nat) s,
  Inv nparts narrays nent s ->
  let s' := run1 nparts narrays nent true s (Finalise, None) in
  if finalise_ok nparts narrays s then finished s' /\ complete nparts narrays nent s' else s' PZmeta = s PZmeta.
Proof. exact finalise_total_or_error. Qed.
Print Assumptions finalise_total_or_error.

Theorem finalise_ok_marker : forall (nparts narrays : nat) (nent : nat -> nat -> nat) s,
  existsb is_fz (steps nparts narrays nent true s Finalise) = finalise_ok nparts narrays s.
Proof. exact finalise_ok_marker. Qed.
Print Assumptions finalise_ok_marker.

(* regression witness (F7) and the behaviour of the repaired protocol on the same history *)
Theorem vcz_partial_partition_refuted : st_F7 PZmeta = Full /\ st_F7 (PArrE 0 1 0) = Absent.
Proof. exact vcz_partial_partition_refuted. Qed.
Print Assumptions vcz_partial_partition_refuted.
Theorem rerun_recovers_instance :
  run 3 1 nent1 true empty hist_F7 PZmeta = Absent /\
  let s := run 3 1 nent1 true empty (hist_F7 ++ [(Partition 1 [(0,0)], None); (Finalise, None)]) in
  s PZmeta = Full /\ s (PArrE 0 0 0) = Full /\ s (PArrE 0 1 0) = Full /\ s (PArrE 0 2 0) = Full.
Proof. split; [exact F7_fixed_refuses|exact F7_fixed_recovers]. Qed.
Print Assumptions rerun_recovers_instance.

(* TIE TO THE SOURCE.  Gen.GenProtocol.vcz_init / vcz_partition / vcz_finalise are the effect
   sequences translator/proto2coq.py regenerates from VcfZarrWriter.init / encode_partition /
   finalise (with finalise_array inlined as the body of the array loop) on every run.  In EVERY
   state of the abstract file system what they denote -- guards and directory listings evaluated on
   the state as the preceding effects left it -- is exactly the step list of the model the theorems
   above are about.  The denotation also demands that a leftover wip_p<j> / stale_p<j> is removed
   before mkdir / rename and that wip/ is removed before the metadata is consolidated. *)
Theorem source_effects_are_model_steps : forall (nparts narrays : nat) (nent : nat -> nat -> nat) (j : nat) (rm : list (nat * nat)) s,
  VczEffects.denote nparts narrays nent j vcz_init false false false s = Some (steps nparts narrays nent true s Init) /\
  VczEffects.denote nparts narrays nent j vcz_partition false false false s = Some (steps nparts narrays nent true s (Partition j rm)) /\
  VczEffects.denote nparts narrays nent j vcz_finalise false false false s = Some (steps nparts narrays nent true s Finalise).
Proof.
  intros nparts narrays nent j rm s.
  exact (conj (vcz_init_denotes nparts narrays nent j s)
        (conj (vcz_partition_denotes nparts narrays nent j rm s) (vcz_finalise_denotes nparts narrays nent j s))).
Qed.
Print Assumptions source_effects_are_model_steps.

(* init writes the wip metadata -- the file whose presence the partition and finalise commands take
   as "init completed" -- after everything else it creates (root group, fixed arrays, array templates) *)
Theorem init_writes_metadata_last : last_mutation vcz_init = Some (WriteFile ZMeta) /\ In ZarrArrayTemplates vcz_init /\ In ZarrRootInit vcz_init.
Proof. repeat split; vm_compute; auto 20. Qed.
Print Assumptions init_writes_metadata_last.
(* finalise consolidates last, after wip/ is gone *)
Theorem finalise_consolidates_last : last_mutation vcz_finalise = Some Consolidate /\ consolidated_clean vcz_finalise false = true.
Proof. split; reflexivity. Qed.
Print Assumptions finalise_consolidates_last.
