(* C06 -- Distributed encode is crash-safe: never falsely finished, reruns recover.
   Step machine with subtree-moving renames (wip_p<j> -> p<j>, p<j> -> stale_p<j>, entries into
   wip/arrays/a, arrays out of wip/); histories are ANY list of commands with kills after any
   prefix of steps. *)
From Coq Require Import Arith List Bool.
From B2Z Require Import Protocol.VczProtocol Protocol.VczRecovery.
Import ListNotations.

Theorem never_falsely_finished : forall (nparts narrays : nat) (nent : nat -> nat -> nat) h,
  finished (run nparts narrays nent true empty h) -> complete nparts narrays nent (run nparts narrays nent true empty h).
Proof. intros nparts narrays nent h. exact (never_falsely_finished nparts narrays nent true eq_refl h). Qed.
Print Assumptions never_falsely_finished.

Theorem invariant_preserved : forall (nparts narrays : nat) (nent : nat -> nat -> nat) h s,
  Inv nparts narrays nent s -> Inv nparts narrays nent (run nparts narrays nent true s h).
Proof. intros nparts narrays nent h s. exact (run_inv nparts narrays nent true eq_refl h s). Qed.
Print Assumptions invariant_preserved.

(* finalise refuses (no step) while any partition directory is not in place *)
Theorem finalise_guard : forall (nparts narrays : nat) (nent : nat -> nat -> nat) s,
  steps nparts narrays nent true s Finalise <> [] -> all_fin nparts s = true.
Proof.
  intros nparts narrays nent s H. unfold steps in H.
  destruct (is_full (s PMeta) && all_fin nparts s) eqn:E; [|congruence].
  apply andb_true_iff in E. tauto.
Qed.
Print Assumptions finalise_guard.

(* recovery, in general: from ANY state satisfying the invariant in which init has completed and no
   array has been moved out of wip/ yet, ANY history of partition commands -- interrupted anywhere,
   repeated, in any order -- in which the last run of every partition is an uninterrupted one,
   followed by finalise, ends finished and complete (every entry of every array Full = equal to the
   uninterrupted run) *)
Theorem rerun_recovers : forall (nparts narrays : nat) (nent : nat -> nat -> nat) h s,
  Inv nparts narrays nent s -> s PMeta = Full -> no_array_out narrays s = true ->
  forallb is_part h = true ->
  (forall j, j < nparts -> last_full j h (is_full (s (PFinDir j))) = true) ->
  let s' := run nparts narrays nent true s (h ++ [(Finalise, None)]) in
  finished s' /\ complete nparts narrays nent s'.
Proof. exact rerun_recovers. Qed.
Print Assumptions rerun_recovers.

Theorem rerun_recovers_from_scratch : forall (nparts narrays : nat) (nent : nat -> nat -> nat) h,
  forallb is_part h = true -> (forall j, j < nparts -> last_full j h false = true) ->
  let s' := run nparts narrays nent true empty ((Init, None) :: h ++ [(Finalise, None)]) in
  finished s' /\ complete nparts narrays nent s'.
Proof. exact rerun_recovers_from_scratch. Qed.
Print Assumptions rerun_recovers_from_scratch.

(* a re-run finalise (after an interrupted one, or at any other time) either runs to the end -- then
   the store is finished and complete -- or stops with an error and leaves the finished marker
   alone: never a silent partial result.  finalise_ok is the model's "returns without raising",
   which the correspondence run compares with the real exit status (finalise_ok_marker). *)
Theorem finalise_total_or_error : forall (nparts narrays : nat) (nent : nat -> nat -> nat) s,
  Inv nparts narrays nent s ->
  let s' := run1 nparts narrays nent true s (Finalise, None) in
  if finalise_ok nparts narrays s then finished s' /\ complete nparts narrays nent s' else s' PZmeta = s PZmeta.
Proof. exact finalise_total_or_error. Qed.
Print Assumptions finalise_total_or_error.

Theorem finalise_ok_marker : forall (nparts narrays : nat) (nent : nat -> nat -> nat) s,
  existsb is_fz (steps nparts narrays nent true s Finalise) = finalise_ok nparts narrays s.
Proof. exact finalise_ok_marker. Qed.
Print Assumptions finalise_ok_marker.

(* regression witness (F7) and the behaviour of the repaired protocol on the same history *)
Theorem vcz_partial_partition_refuted : st_F7 PZmeta = Full /\ st_F7 (PArrE 0 1 0) = Absent.
Proof. exact vcz_partial_partition_refuted. Qed.
Print Assumptions vcz_partial_partition_refuted.
Theorem rerun_recovers_instance :
  run 3 1 nent1 true empty hist_F7 PZmeta = Absent /\
  let s := run 3 1 nent1 true empty (hist_F7 ++ [(Partition 1 [(0,0)], None); (Finalise, None)]) in
  s PZmeta = Full /\ s (PArrE 0 0 0) = Full /\ s (PArrE 0 1 0) = Full /\ s (PArrE 0 2 0) = Full.
Proof. split; [exact F7_fixed_refuses|exact F7_fixed_recovers]. Qed.
Print Assumptions rerun_recovers_instance.
