(* C08 -- The intermediate columnar store is lossless, ordered and randomly addressable. *)
From Coq Require Import ZArith Arith List Bool.
From B2Z Require Import Model.Icf Proofs.IcfProofs Gen.GenIcfWriter Bridge.BridgeIcfWriter.
From B2Z Require Import Gen.GenIterValues Bridge.BridgeIterValues.
From B2Z Require Import Base.ExtZ Gen.GenSummary Bridge.BridgeSummary.
From B2Z Require Gen.GenExplode Bridge.BridgeExplode.
Import ListNotations.
Open Scope nat_scope.

(* whole-column read returns exactly the appended values, in order, for every partitioning of
   the input into partitions and every flush threshold / size function (down to one record
   per chunk); every chunk written is non-empty *)
Theorem values_roundtrip : forall (A : Type) (thr : Z) (parts : list (list (A * Z))),
  all_values (map (write_partition thr) parts) = map fst (concat parts).
Proof. exact values_roundtrip_lemma. Qed.
Print Assumptions values_roundtrip.

Theorem chunks_nonempty : forall (A : Type) (thr : Z) (items : list (A * Z)),
  Forall (fun c => c <> []) (write_partition thr items).
Proof. intros. apply write_chunks_nonempty. Qed.
Print Assumptions chunks_nonempty.

(* the two-level searchsorted range read equals the slice, for EVERY store shape (including
   empty partitions and chunks) and every 0 <= a < b <= n *)
Theorem range_read : forall (A : Type) (s : list (list (list A))) (a b : nat),
  a < b -> b <= length (all_values s) ->
  iter_values s a b = firstn (b - a) (skipn a (all_values s)).
Proof. exact range_read. Qed.
Print Assumptions range_read.

(* TRANSLATOR TIE: IntermediateColumnarFormatField.iter_values as regenerated from the source on this run
   (translator/iter2coq.py -> Gen/GenIterValues.v: the two searchsorted(side="right") - 1 look-ups, the first partition's
   record loop with its `== stop: return` / `>= start: yield` / `+= 1` statements, the later partitions' loop) is the
   model's function ... *)
Theorem translated_iter_values_is_the_model : forall (A : Type) (s : list (list (list A))) (start stop : nat),
  gen_iter_values A s start stop = iter_values s start stop.
Proof. exact translated_iter_values_lemma. Qed.
Print Assumptions translated_iter_values_is_the_model.

(* ... hence the range read of the TRANSLATED source equals the slice, for every store shape and every a < b *)
Theorem translated_range_read : forall (A : Type) (s : list (list (list A))) (a b : nat),
  a < b -> b <= length (all_values s) ->
  gen_iter_values A s a b = firstn (b - a) (skipn a (all_values s)).
Proof. intros A s a b H1 H2. rewrite translated_iter_values_lemma. apply IcfProofs.range_read; assumption. Qed.
Print Assumptions translated_range_read.

Example translated_iter_values_instance :
  gen_iter_values nat [[[1; 2]; [3]]; []; [[4]; []; [5; 6; 7]]] 2 6 = [3; 4; 5; 6].
Proof. vm_compute. reflexivity. Qed.

Theorem num_records_eq : forall (A : Type) (thr : Z) (parts : list (list (A * Z))),
  Icf.num_records (map (write_partition thr) parts) = length (concat parts).
Proof. intros. unfold Icf.num_records. rewrite values_roundtrip_lemma, map_length. reflexivity. Qed.
Print Assumptions num_records_eq.

(* summaries: min/max bound every non-sentinel integer and are attained (None iff there is
   none), max_number is the maximum inner length *)
Theorem summary_bounds : forall vs,
  bounds_of (unmasked vs) (i_bounds (summarise vs)) /\ i_maxnum (summarise vs) = max_number_of vs.
Proof. exact summary_bounds_lemma. Qed.
Print Assumptions summary_bounds.

(* ... independently of how the records were partitioned *)
Theorem summary_partition_independent : forall parts, summarise_parts parts = summarise (concat parts).
Proof. exact summary_partition_independent_lemma. Qed.
Print Assumptions summary_partition_independent.

Example c08_instance :
  let s := map (write_partition 10%Z) [[(1, 6%Z); (2, 6%Z); (3, 1%Z)]; []; [(4, 20%Z); (5, 1%Z)]] in
  s = [[[1; 2]; [3]]; []; [[4]; [5]]] /\ iter_values s 1 4 = [2; 3; 4].
Proof. vm_compute. split; reflexivity. Qed.

(* ---- the tie to the source: Gen/GenIcfWriter.v is regenerated from IcfFieldWriter on every run ---- *)
(* Driven as IcfPartitionWriter drives it (append for every value, one flush on a clean exit), the
   TRANSLATED writer writes exactly the chunks of the model's write_partition, in order, names each chunk
   file by the cumulative record count the model's chunk index gives it, writes the index file once, last,
   with exactly the model's index, and leaves num_records / num_chunks / uncompressed_size equal to the
   number of values, the number of chunks and the sum of the sizes -- for every value sequence, every size
   function and every threshold *)
Theorem translated_writer_is_the_model : forall (A : Type) (thr : Z) (items : list (A * Z)),
  let '(s, ev) := run thr items in
  let P := write_partition thr items in
  chunk_contents ev = P /\
  chunk_file_names ev = map Z.of_nat (tl (cri P)) /\
  index_writes ev = [map Z.of_nat (cri P)] /\
  (exists pre, ev = pre ++ [WriteIndex (map Z.of_nat (cri P))]) /\
  GenIcfWriter.num_records s = Z.of_nat (length items) /\
  sum_num_chunks s = Z.of_nat (length P) /\
  sum_uncompressed s = sizes items.
Proof. intros A thr items. exact (translated_writer_is_the_model_lemma thr items). Qed.
Print Assumptions translated_writer_is_the_model.

(* the index arithmetic matched at the head of the source's iter_values is the head of the model's
   iter_values (which range_read is about), and a task that fails flushes nothing *)
Theorem translated_read_head_is_the_model : forall (A : Type) (s : list (list (list A))) (start : nat),
  iter_head (pri s) (fun p => cri (nth p s [])) start =
  (let sp := ss_right (pri s) start - 1 in
   let offset := nth sp (pri s) 0 in
   let p := nth sp s [] in
   let sc := ss_right (cri p) (start - offset) - 1 in
   (sp, sc, offset + nth sc (cri p) 0)).
Proof. intros A s start. exact (iter_head_is_model_head s start). Qed.
Print Assumptions translated_read_head_is_the_model.

Theorem failed_task_flushes_nothing : flush_on_exit true = false /\ flush_on_exit false = true.
Proof. exact (conj no_flush_on_error flush_on_clean_exit). Qed.
Print Assumptions failed_task_flushes_nothing.

Example c08_writer_instance :
  let '(s, ev) := run 10%Z [(1, 6%Z); (2, 6%Z); (3, 1%Z)] in
  ev = [WriteChunk 2%Z [1; 2]; WriteChunk 3%Z [3]; WriteIndex [0%Z; 2%Z; 3%Z]] /\ GenIcfWriter.num_records s = 3%Z.
Proof. vm_compute. split; reflexivity. Qed.

(* TRANSLATOR TIE: the integer field summaries as regenerated from the source on this run (translator/summ2coq.py ->
   Gen/GenSummary.v): IntegerValueTransformer.update_bounds folds one record's value into the running summary, and
   VcfFieldSummary.update merges the partitions' summaries at finalise.  Through the abstraction "min / max are both at
   their infinite defaults or both finite" they ARE the model's upd / merge that summary_bounds and
   summary_partition_independent are about; well-formedness is preserved from the dataclass defaults on. *)
Theorem translated_update_bounds_is_the_model : forall s v, wf s ->
  wf (gen_update_bounds s v) /\ abs (gen_update_bounds s v) = upd (abs s) v.
Proof. exact translated_update_bounds_lemma. Qed.
Print Assumptions translated_update_bounds_is_the_model.

Theorem translated_summary_merge_is_the_model : forall s t, wf s -> wf t ->
  wf (gen_update s t) /\ abs (gen_update s t) = merge (abs s) (abs t).
Proof. exact translated_update_lemma. Qed.
Print Assumptions translated_summary_merge_is_the_model.

(* a whole partition: folding the translated update over its values from the defaults gives the model's summary *)
Theorem translated_partition_summary : forall vs,
  abs (fold_left gen_update_bounds vs gen_summary0) = summarise vs.
Proof. intros vs. destruct (translated_summarise_lemma vs gen_summary0 (proj1 wf0)) as [_ E]. rewrite E, (proj2 wf0). reflexivity. Qed.
Print Assumptions translated_partition_summary.

Example translated_summary_instance :
  abs (fold_left gen_update_bounds [(2, [5; -2147483648]); (3, [-7; 9; -2147483647])]%Z gen_summary0)
  = {| i_maxnum := 3; i_bounds := Some (-7, 9)%Z |}.
Proof. vm_compute. reflexivity. Qed.

(* what goes INTO the columns (the record loop of process_partition as read off the source, translator/explode2coq.py): every
   defined fixed field gets exactly one append per record from the record attribute of the same name -- rlen from end - start,
   not from the REF string --, every INFO / FORMAT field and GT exactly one append per record *)
Theorem translated_record_loop : (BridgeExplode.fixed_fields_once && BridgeExplode.per_field_once && BridgeExplode.fixed_fields_typed)%bool = true.
Proof. exact BridgeExplode.translated_record_loop_lemma. Qed.
Print Assumptions translated_record_loop.
