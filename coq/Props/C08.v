(* C08 -- The intermediate columnar store is lossless, ordered and randomly addressable. *)
From Coq Require Import ZArith Arith List Bool.
From B2Z Require Import Model.Icf Proofs.IcfProofs.
Import ListNotations.
Open Scope nat_scope.

(* whole-column read returns exactly the appended values, in order, for every partitioning of
   the input into partitions and every flush threshold / size function (down to one record
   per chunk); every chunk written is non-empty *)
Theorem values_roundtrip : forall (A : Type) (thr : Z) (parts : list (list (A * Z))),
  all_values (map (write_partition thr) parts) = map fst (concat parts).
Proof. exact values_roundtrip_lemma. Qed.
Print Assumptions values_roundtrip.

Theorem chunks_nonempty : forall (A : Type) (thr : Z) (items : list (A * Z)),
  Forall (fun c => c <> []) (write_partition thr items).
Proof. intros. apply write_chunks_nonempty. Qed.
Print Assumptions chunks_nonempty.

(* the two-level searchsorted range read equals the slice, for EVERY store shape (including
   empty partitions and chunks) and every 0 <= a < b <= n *)
Theorem range_read : forall (A : Type) (s : list (list (list A))) (a b : nat),
  a < b -> b <= length (all_values s) ->
  iter_values s a b = firstn (b - a) (skipn a (all_values s)).
Proof. exact range_read. Qed.
Print Assumptions range_read.

Theorem num_records_eq : forall (A : Type) (thr : Z) (parts : list (list (A * Z))),
  num_records (map (write_partition thr) parts) = length (concat parts).
Proof. intros. unfold num_records. rewrite values_roundtrip_lemma, map_length. reflexivity. Qed.
Print Assumptions num_records_eq.

(* summaries: min/max bound every non-sentinel integer and are attained (None iff there is
   none), max_number is the maximum inner length *)
Theorem summary_bounds : forall vs,
  bounds_of (unmasked vs) (i_bounds (summarise vs)) /\ i_maxnum (summarise vs) = max_number_of vs.
Proof. exact summary_bounds_lemma. Qed.
Print Assumptions summary_bounds.

(* ... independently of how the records were partitioned *)
Theorem summary_partition_independent : forall parts, summarise_parts parts = summarise (concat parts).
Proof. exact summary_partition_independent_lemma. Qed.
Print Assumptions summary_partition_independent.

Example c08_instance :
  let s := map (write_partition 10%Z) [[(1, 6%Z); (2, 6%Z); (3, 1%Z)]; []; [(4, 20%Z); (5, 1%Z)]] in
  s = [[[1; 2]; [3]]; []; [[4]; [5]]] /\ iter_values s 1 4 = [2; 3; 4].
Proof. vm_compute. split; reflexivity. Qed.
