(* C18 -- A damaged intermediate store is detected, not silently mis-read.
   Statements are about the read-path skeleton TRANSLATED from icf.py (Gen/GenReadPath.v); the
   decoders are parameters and their rejection of truncated input is an explicit premise. *)
From Coq Require Import Arith List Bool.
From B2Z Require Import Bridge.BridgeReadPath.
From B2Z Require Gen.GenReadPath.
Import ListNotations.
Module G := GenReadPath.

Theorem damage_detected : forall (bytes value : Type) (decode : bytes -> option (list value))
  (decode_index : bytes -> option (list nat)) (prefix_of : bytes -> bytes -> Prop),
  (forall b b', prefix_of b' b -> decode b <> None -> decode b' = None) ->
  (forall b b', prefix_of b' b -> decode_index b <> None -> decode_index b' = None) ->
  forall (p p' : G.pstore bytes) vs, G.read_partition bytes value decode decode_index p = Some vs ->
  (exists d, damage_of bytes prefix_of (G.idx _ p) d /\ p' = G.Build_pstore _ d (G.chunks _ p)) \/
  (exists k b d cum, G.idx _ p = Some b /\ decode_index b = Some cum /\ (k < length (G.diffs cum))%nat /\
                     nth_error (G.chunks _ p) k = Some (Some (fst d)) /\ damage_of bytes prefix_of (Some (fst d)) (snd d) /\
                     p' = G.Build_pstore _ (G.idx _ p) (firstn k (G.chunks _ p) ++ snd d :: skipn (S k) (G.chunks _ p))) ->
  G.read_partition bytes value decode decode_index p' = None.
Proof. exact damage_detected_lemma. Qed.
Print Assumptions damage_detected.

Theorem length_check_catches : forall (bytes value : Type) (decode : bytes -> option (list value)) n counts b cs vs,
  decode b = Some vs -> length vs <> n -> G.read_chunks bytes value decode (n :: counts) (Some b :: cs) = None.
Proof. exact length_check_catches_lemma. Qed.
Print Assumptions length_check_catches.

Theorem read_success_reads_every_announced_chunk : forall (bytes value : Type) (decode : bytes -> option (list value)) counts cs vs,
  G.read_chunks bytes value decode counts cs = Some vs -> length vs = list_sum counts /\ (length counts <= length cs)%nat.
Proof. exact read_success_all_decoded. Qed.
Print Assumptions read_success_reads_every_announced_chunk.

(* non-vacuity: a toy instance (bytes = list nat, a chunk decodes iff it carries its full length) *)
Example c18_instance :
  let decode := fun b : list nat => match b with n :: tl => if Nat.eqb n (length tl) then Some tl else None | [] => None end in
  let p := G.Build_pstore (list nat) (Some [3; 0; 2; 3]) [Some [2; 7; 8]; Some [1; 9]] in
  G.read_partition (list nat) nat decode decode p = Some [7; 8; 9] /\
  G.read_partition (list nat) nat decode decode (G.Build_pstore _ (Some [3; 0; 2; 3]) [Some [2; 7]; Some [1; 9]]) = None.
Proof. vm_compute. split; reflexivity. Qed.
