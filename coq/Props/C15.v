(* C15 -- Command-line commands have exactly the effect of the library operations.
   All statements are about the tables REGENERATED from bio2zarr/cli.py (Gen/GenCli.v); the
   domain is finite, so each is decided by complete evaluation (vm_compute), not a sample. *)
From Coq Require Import String List Bool.
From B2Z Require Import Gen.GenCli.
Import ListNotations.
Open Scope string_scope.

Definition expr_eqb (a b : expr) : bool :=
  match a, b with
  | Opt x, Opt y => String.eqb x y
  | Codec (Opt x), Codec (Opt y) => String.eqb x y
  | Local x, Local y => String.eqb x y
  | _, _ => false
  end.
Definition mem (x : string) (l : list string) : bool := existsb (String.eqb x) l.

(* the documented option mapping: a keyword receives the option of the same name, except for
   these renames; the compressor name goes through get_compressor *)
Definition documented (kw : string) : expr :=
  if String.eqb kw "target_num_partitions" then Opt "num_partitions"
  else if String.eqb kw "schema_path" then Opt "schema"
  else if String.eqb kw "show_progress" then Opt "progress"
  else if String.eqb kw "compressor" then Codec (Opt "compressor")
  else Opt kw.
Definition call_of (c : command) : list expr * list (string * expr) :=
  match c_call c with Some (_, pos, kw) => (pos, kw) | None => ([], []) end.

(* 1. every keyword of every library call is bound as documented *)
Definition kw_flow_ok (c : command) : bool := forallb (fun ke => expr_eqb (snd ke) (documented (fst ke))) (snd (call_of c)).
Theorem cli_option_flow : forallb kw_flow_ok commands = true.
Proof. vm_compute. reflexivity. Qed.
Print Assumptions cli_option_flow.

(* 2. every parameter of a command (other than the CLI-only ones) reaches its library call *)
Definition cli_only : list string := ["verbose"; "force"; "json"; "one_based"].
Definition occurs (p : string) (c : command) : bool :=
  existsb (fun e => expr_eqb e (Opt p) || expr_eqb e (Codec (Opt p))) (fst (call_of c) ++ map snd (snd (call_of c))).
Definition params_reach_call (c : command) : bool :=
  match c_call c with
  | None => true
  | Some _ => forallb (fun p => mem p cli_only || occurs p c) (c_params c)
  end.
Theorem options_reach_operation : forallb params_reach_call commands = true.
Proof. vm_compute. reflexivity. Qed.
Print Assumptions options_reach_operation.

(* 3. option declarations do not transform values: no callback, only the plain attributes, and
   the memory option is passed as the string the user typed *)
Definition plain_attrs : list string := ["default"; "type"; "is_flag"; "flag_value"; "count"; "nargs"; "required"].
Definition decl_ok (o : optdecl) : bool := forallb (fun a => mem (fst a) plain_attrs) (o_attrs o).
Theorem option_declarations_plain : forallb decl_ok options = true.
Proof. vm_compute. reflexivity. Qed.
Print Assumptions option_declarations_plain.
Theorem max_memory_is_passed_verbatim :
  existsb (fun o => String.eqb (o_var o) "max_memory" && negb (existsb (fun a => String.eqb (fst a) "type") (o_attrs o))) options = true.
Proof. vm_compute. reflexivity. Qed.
Print Assumptions max_memory_is_passed_verbatim.

(* 4. one-based partition numbers: exactly the commands declaring --one-based adjust the index
   (partition -= 1 under the flag) immediately before a call that passes it on *)
Definition stmt_is_adjust (s : stmt) : bool := match s with OneBasedAdjust => true | _ => false end.
Definition one_based_ok (c : command) : bool :=
  let has_opt := mem "one_based" (c_options c) in
  let adjusts := existsb stmt_is_adjust (c_pre c ++ c_post c) in
  Bool.eqb has_opt adjusts &&
  (negb has_opt || (match rev (c_pre c) with OneBasedAdjust :: _ => true | _ => false end
                    && occurs "partition" c && negb (existsb stmt_is_adjust (c_post c)))).
Theorem one_based_offset : forallb one_based_ok commands = true /\
  map c_name (filter (fun c => mem "one_based" (c_options c)) commands) = ["dexplode_partition"; "dencode_partition"].
Proof. vm_compute. split; reflexivity. Qed.
Print Assumptions one_based_offset.

(* 5. an existing output path: every command that takes a NEW output path calls the overwrite
   guard on it, with --force, before the library operation *)
Definition is_guard_on (p : string) (s : stmt) : bool := match s with CheckOverwrite q => String.eqb p q | _ => false end.
Definition guard_ok (c : command) : bool :=
  (negb (mem "new_icf_path" (c_options c)) || (existsb (is_guard_on "icf_path") (c_pre c) && mem "force" (c_options c))) &&
  (negb (mem "new_zarr_path" (c_options c)) || (existsb (is_guard_on "zarr_path") (c_pre c) && mem "force" (c_options c))).
Theorem overwrite_guard_called : forallb guard_ok commands = true.
Proof. vm_compute. reflexivity. Qed.
Print Assumptions overwrite_guard_called.

(* ... and the guard never touches an existing path without --force or an affirmative answer *)
Theorem overwrite_guard : forall exists_ force confirmed,
  (exists_ = true -> force = false -> confirmed = false -> check_overwrite_dir exists_ force confirmed = None) /\
  (exists_ = false -> check_overwrite_dir exists_ force confirmed = Some []) /\
  (exists_ = true -> (force = true \/ confirmed = true) -> check_overwrite_dir exists_ force confirmed = Some [Rename; Rmtree]).
Proof. intros [|] [|] [|]; cbn; repeat split; intros; try reflexivity; try discriminate; try (destruct H0; discriminate). Qed.
Print Assumptions overwrite_guard.

(* 6. the init commands require -n and print the work summary the library returned *)
Definition stmt_is (t : stmt) (s : stmt) : bool :=
  match t, s with CheckPartitions, CheckPartitions | ShowWorkSummary, ShowWorkSummary => true | _, _ => false end.
Definition init_ok (c : command) : bool :=
  negb (String.eqb (c_name c) "dexplode_init" || String.eqb (c_name c) "dencode_init")
  || (existsb (stmt_is CheckPartitions) (c_pre c) && match c_post c with [ShowWorkSummary] => true | _ => false end
      && occurs "num_partitions" c).
Theorem init_commands_print_summary : forallb init_ok commands = true.
Proof. vm_compute. reflexivity. Qed.
Print Assumptions init_commands_print_summary.

(* the commands covered *)
Example c15_commands : map c_name commands =
  ["explode"; "dexplode_init"; "dexplode_partition"; "dexplode_finalise"; "inspect"; "mkschema"; "encode"; "dencode_init";
   "dencode_partition"; "dencode_finalise"; "convert_vcf:convert"; "convert_plink:convert"; "vcfpartition"].
Proof. vm_compute. reflexivity. Qed.
