(* C10 -- Generated schemas always fit the data; user schemas are honoured exactly. *)
From Coq Require Import ZArith List Bool.
From B2Z Require Import Base.Prims Model.Schema Proofs.SchemaProofs Bridge.BridgeDtype.
From B2Z Require Gen.GenDtype.
From B2Z Require Import Gen.GenSchema Bridge.BridgeSchema.
From B2Z Require Gen.GenInitArray Bridge.BridgeInitArray.
Import ListNotations.
Open Scope Z_scope.

(* about the TRANSLATED core.min_int_dtype: the result is the narrowest of i1,i2,i4,i8 that
   contains [lo,hi] *)
Theorem min_int_dtype_fits_minimal : forall lo hi d, GenDtype.min_int_dtype lo hi = Ok d ->
  int_code d /\ lo <= hi /\ iinfo_min d <= lo /\ hi <= iinfo_max d /\
  (forall d', int_code d' -> d' < d -> ~ (iinfo_min d' <= lo /\ hi <= iinfo_max d')).
Proof. intros lo hi d H. rewrite gen_min_int_dtype_eq in H. exact (min_int_dtype_fits_minimal_lemma lo hi d H). Qed.
Print Assumptions min_int_dtype_fits_minimal.

(* ... and an error iff lo > hi (ValueError) or no 64-bit type holds the range (OverflowError) *)
Theorem min_int_dtype_errors : forall lo hi e, GenDtype.min_int_dtype lo hi = Err e ->
  (hi < lo /\ e = E_ValueError) \/ (lo <= hi /\ e = E_OverflowError /\ ~ (iinfo_min 8 <= lo /\ hi <= iinfo_max 8)).
Proof. intros lo hi e H. rewrite gen_min_int_dtype_eq in H. exact (min_int_dtype_error_lemma lo hi e H). Qed.
Print Assumptions min_int_dtype_errors.

Theorem sentinels_representable : forall d, int_code d -> iinfo_min d <= -2 /\ -1 <= iinfo_max d.
Proof. exact sentinels_representable_lemma. Qed.
Print Assumptions sentinels_representable.

(* For a schema generated from a store: every integer stored for a field (a value within the
   summary's [min,max], or a sentinel) is inside the chosen dtype, so the cast applied when
   encoding is the identity -- a generated schema never clips *)
Theorem generated_schema_fits : forall f dt v, f_type f = 0 -> smallest_dtype f = Ok dt -> stored_int f v ->
  in_dtype dt v = true /\ cast dt v = v.
Proof. exact generated_dtype_fits_lemma. Qed.
Print Assumptions generated_schema_fits.

Theorem contig_dtype_fits : forall nc dt c, min_int_dtype 0 nc = Ok dt -> 0 <= c < nc ->
  in_dtype dt c = true /\ in_dtype dt (-1) = true.
Proof. exact contig_dtype_fits_lemma. Qed.
Print Assumptions contig_dtype_fits.

(* shape: the array's dtype is the field's smallest dtype, rank of shape = chunks = dims,
   one row per record, and a field with max_number > 1 gets an inner dimension of exactly
   max_number (rows are never truncated) *)
Theorem generated_shape_fits : forall p f name s, from_field p f name = Ok s ->
  smallest_dtype f = Ok (sp_dtype s) /\
  length (sp_shape s) = length (sp_dims s) /\ length (sp_chunks s) = length (sp_dims s) /\
  hd 0 (sp_shape s) = g_m p /\
  (1 < s_max_number (f_sum f) -> last (sp_shape s) 0 = s_max_number (f_sum f)
                                 /\ last (sp_chunks s) 0 = s_max_number (f_sum f)).
Proof. exact from_field_shape_lemma. Qed.
Print Assumptions generated_shape_fits.

(* widening a dtype in a user schema changes no value: the cast is the identity on every
   value that fitted the narrower type *)
Theorem widening_preserves_values : forall d d' v, int_code d -> int_code d' -> d <= d' ->
  in_dtype d v = true -> cast d' v = v.
Proof. exact widening_lemma. Qed.
Print Assumptions widening_preserves_values.

(* ---- TRANSLATOR TIE: VcfField.smallest_dtype and ZarrArraySpec.from_field (with the shared-dimension table of
   VcfZarrSchema.generate) as regenerated from the source on this run (translator/schema2coq.py ->
   Gen/GenSchema.v) are the model's functions, for every field and every parameter set ... *)
Theorem translated_smallest_dtype_is_the_model : forall f, gen_smallest_dtype f = smallest_dtype f.
Proof. exact translated_smallest_dtype_lemma. Qed.
Print Assumptions translated_smallest_dtype_is_the_model.

Theorem translated_from_field_is_the_model : forall p f name, gen_from_field p f name = from_field p f name.
Proof. exact translated_from_field_lemma. Qed.
Print Assumptions translated_from_field_is_the_model.

(* ... hence the two "fits" statements hold of the translated source: the dtype it chooses holds every stored integer
   and both sentinels (the encode-time cast is the identity), and the array it lays out has one row per record and an
   inner dimension of exactly max_number *)
Theorem translated_schema_fits : forall f dt v, f_type f = 0 -> gen_smallest_dtype f = Ok dt -> stored_int f v ->
  in_dtype dt v = true /\ cast dt v = v.
Proof. intros f dt v H1 H2 H3. rewrite translated_smallest_dtype_lemma in H2. exact (generated_dtype_fits_lemma f dt v H1 H2 H3). Qed.
Print Assumptions translated_schema_fits.

Theorem translated_shape_fits : forall p f name s, gen_from_field p f name = Ok s ->
  gen_smallest_dtype f = Ok (sp_dtype s) /\
  length (sp_shape s) = length (sp_dims s) /\ length (sp_chunks s) = length (sp_dims s) /\
  hd 0 (sp_shape s) = g_m p /\
  (1 < s_max_number (f_sum f) -> last (sp_shape s) 0 = s_max_number (f_sum f)
                                 /\ last (sp_chunks s) 0 = s_max_number (f_sum f)).
Proof. intros p f name s H. rewrite translated_from_field_lemma in H. rewrite translated_smallest_dtype_lemma. exact (from_field_shape_lemma p f name s H). Qed.
Print Assumptions translated_shape_fits.

Example translated_from_field_instance :
  let p := {| g_m := 7; g_n := 3; g_vcs := 4; g_scs := 2; g_num_contigs := 2; g_num_filters := 1; g_max_alleles := 3; g_gsize := 6 |} in
  let f := {| f_cat := 2; f_id := 5; f_number := -1; f_type := 0; f_is_laa := false; f_sum := {| s_max_number := 3; s_bounds := Some (-3, 300) |} |} in
  let g := {| f_cat := 2; f_id := 6; f_number := -1; f_type := 0; f_is_laa := false; f_sum := {| s_max_number := 2; s_bounds := None |} |} in
  gen_from_field p f (AField 2 5) = Ok {| sp_name := AField 2 5; sp_dtype := 2; sp_shape := [7; 3; 3]; sp_chunks := [4; 2; 3];
                                          sp_dims := [DVariants; DSamples; DAlleles]; sp_field := Some (2, 5) |} /\
  gen_from_field p g (AField 2 6) = Ok {| sp_name := AField 2 6; sp_dtype := 1; sp_shape := [7; 3; 2]; sp_chunks := [4; 2; 2];
                                          sp_dims := [DVariants; DSamples; DField 2 6]; sp_field := Some (2, 6) |}.
Proof. vm_compute. split; reflexivity. Qed.

(* ---- TRANSLATOR TIE for "a user schema is honoured exactly": VcfZarrWriter.init_array as read off the source on this run
   (translator/initarr2coq.py -> Gen/GenInitArray.v): every requested property of an array specification -- name, chunks,
   dtype, compressor, filters, dimension names, description -- reaches zarr VERBATIM (compressor / filters through
   numcodecs.get_codec only); the shape is the specification's with nothing but the variants axis replaced by the plan's row
   count; the object codec depends on the dtype alone; and no other keyword is passed *)
Theorem translated_array_creation_honours_spec : BridgeInitArray.honours_spec.
Proof. exact BridgeInitArray.honours_spec_lemma. Qed.
Print Assumptions translated_array_creation_honours_spec.

Example c10_instance : GenDtype.min_int_dtype (-129) 5 = Ok 2 /\ cast 1 200 = -56 /\ cast 2 200 = 200.
Proof. vm_compute. repeat split; reflexivity. Qed.
