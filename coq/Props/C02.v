(* C02 -- Every produced store is a self-consistent, openable VCF Zarr dataset. *)
From Coq Require Import ZArith List Bool.
From B2Z Require Import Base.Prims Model.Schema Proofs.SchemaProofs Proofs.DimsProofs.
From B2Z Require Import Base.Eff Protocol.VczEffects Gen.GenVczProtocol.
From B2Z Require Import Model.Partitions Proofs.PartitionsProofs Bridge.BridgePartitions.
From B2Z Require Gen.GenPartitions.
From B2Z Require Import Gen.GenSchema Bridge.BridgeSchema.
Import ListNotations.
Open Scope Z_scope.

(* any two arrays of a generated schema (after the F3 fix) that share a dimension name agree on
   its length -- variants, samples, filters, ploidy, alleles, alt_alleles, genotypes and the
   per-field names -- for every set of INFO / FORMAT fields with distinct names *)
Theorem dims_coherent : forall p qual pos rlen infos formats gt specs a b d sa sb,
  ids_unique (all_fields qual pos rlen infos formats) ->
  generate p qual pos rlen infos formats gt = Ok specs ->
  In a specs -> In b specs ->
  lookup_dim d (sp_dims a) (sp_shape a) = Some sa -> lookup_dim d (sp_dims b) (sp_shape b) = Some sb -> sa = sb.
Proof. exact dims_coherent_lemma. Qed.
Print Assumptions dims_coherent.

(* every array has the variants axis first, with one row per record *)
Theorem rows_cols : forall p qual pos rlen infos formats gt specs s,
  generate p qual pos rlen infos formats gt = Ok specs -> ids_unique (all_fields qual pos rlen infos formats) ->
  In s specs -> hd_error (sp_dims s) = Some DVariants /\ hd_error (sp_shape s) = Some (g_m p).
Proof. exact rows_cols_lemma. Qed.
Print Assumptions rows_cols.

(* integer arrays use types in which both sentinels are representable *)
Theorem sentinels_representable : forall d, int_code d -> iinfo_min d <= -2 /\ -1 <= iinfo_max d.
Proof. exact sentinels_representable_lemma. Qed.
Print Assumptions sentinels_representable.

(* regression witness for F3: naming by Number alone (pre-fix) gives two arrays that share
   "alleles" with different sizes; the post-fix generator gives the narrow one its own name *)
Example dims_incoherent_refuted :
  let p := {| g_m := 2; g_n := 0; g_vcs := 10; g_scs := 10; g_num_contigs := 1; g_num_filters := 1; g_max_alleles := 4; g_gsize := 0 |} in
  let ad := {| f_cat := 1; f_id := 7; f_number := -1; f_type := 0; f_is_laa := false; f_sum := {| s_max_number := 3; s_bounds := Some (0, 9) |} |} in
  dims_coherent_b [ fixed_spec p 2 DT_O [2; 4] [10; 4] [DVariants; DAlleles];
                    {| sp_name := AField 1 7; sp_dtype := 1; sp_shape := [2; 3]; sp_chunks := [10; 3]; sp_dims := [DVariants; DAlleles]; sp_field := Some (1, 7) |} ] = false
  /\ match from_field p ad (AField 1 7) with Ok s => sp_dims s = [DVariants; DField 1 7] | Err _ => False end.
Proof. vm_compute. split; reflexivity. Qed.

(* "the consolidated metadata lists exactly the arrays on disk": over the effect sequence regenerated
   from VcfZarrWriter.finalise on every run -- every array is moved out of wip/ (ForArrays ... ARename
   wip/arrays/<a> -> <a>), wip/ is removed, and only then is the metadata consolidated, as the last
   mutation of the command *)
Theorem consolidated_after_wip_removed :
  consolidated_clean vcz_finalise false = true /\ last_mutation vcz_finalise = Some Consolidate /\
  exists body, In (ForArrays body) vcz_finalise /\ In (ARename ZArrTmpl ZFinalArr) body.
Proof. split; [reflexivity|split; [reflexivity|]]. eexists. split; [vm_compute; auto 10|vm_compute; auto 10]. Qed.
Print Assumptions consolidated_after_wip_removed.

(* the variants axis holds every record: the store is created with partitions[-1].stop rows, and for EVERY record
   count, chunk size and partition count the partitions computed by the TRANSLATED generate_partitions (C11) are a
   chain from 0 to the record count -- to min(nr, cap * cs) under a cap on the number of variant chunks *)
Theorem variants_axis_holds_every_record : forall nr cs np mc,
  1 <= nr -> 1 <= cs -> 1 <= np -> mc_ok mc ->
  exists ps, GenPartitions.generate_partitions nr cs np mc = Ok ps /\ rchain cs 0 ps (total_records nr cs mc) /\
             (mc = None -> total_records nr cs mc = nr).
Proof.
  intros nr cs np mc H1 H2 H3 H4. destruct (C11_generate_partitions_cover nr cs np mc H1 H2 H3 H4) as [ps [E [R _]]].
  exists ps. split; [exact E|]. split; [exact R|]. intros ->. reflexivity.
Qed.
Print Assumptions variants_axis_holds_every_record.

(* TRANSLATOR TIE: the array layout function ZarrArraySpec.from_field -- where the dimension names are chosen, incl.
   the shared names alleles / alt_alleles / genotypes that are used only when the sizes agree (the repair of F3) --
   as regenerated from the source on this run (translator/schema2coq.py) is the model's from_field that dims_coherent
   and rows_cols are about *)
Theorem translated_from_field_is_the_model : forall p f name, gen_from_field p f name = from_field p f name.
Proof. exact translated_from_field_lemma. Qed.
Print Assumptions translated_from_field_is_the_model.

(* ... and VcfZarrSchema.generate itself -- the five fixed arrays with their dtypes / shapes / chunks / dimension names,
   the three one-to-one fixed fields, one array per INFO field, one per FORMAT field other than GT, the genotype trio
   with its ploidy -- as regenerated from the source on this run equals the model's generate; so the coherence
   theorems hold OF THE TRANSLATED SOURCE: any two arrays of the schema it generates that share a dimension name
   agree on its length, and every array has the variants axis first with one row per record *)
Theorem translated_generate_is_the_model : forall p qual pos rlen infos formats gt,
  gen_generate p qual pos rlen infos formats gt = generate p qual pos rlen infos formats gt.
Proof. exact translated_generate_lemma. Qed.
Print Assumptions translated_generate_is_the_model.

Theorem translated_dims_coherent : forall p qual pos rlen infos formats gt specs a b d sa sb,
  ids_unique (all_fields qual pos rlen infos formats) ->
  gen_generate p qual pos rlen infos formats gt = Ok specs ->
  In a specs -> In b specs ->
  lookup_dim d (sp_dims a) (sp_shape a) = Some sa -> lookup_dim d (sp_dims b) (sp_shape b) = Some sb -> sa = sb.
Proof. intros until sb. intros U G. rewrite translated_generate_lemma in G. exact (dims_coherent_lemma p qual pos rlen infos formats gt specs a b d sa sb U G). Qed.
Print Assumptions translated_dims_coherent.

Theorem translated_rows_cols : forall p qual pos rlen infos formats gt specs s,
  gen_generate p qual pos rlen infos formats gt = Ok specs -> ids_unique (all_fields qual pos rlen infos formats) ->
  In s specs -> hd_error (sp_dims s) = Some DVariants /\ hd_error (sp_shape s) = Some (g_m p).
Proof. intros until s. intros G. rewrite translated_generate_lemma in G. exact (rows_cols_lemma p qual pos rlen infos formats gt specs s G). Qed.
Print Assumptions translated_rows_cols.
