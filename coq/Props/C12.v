(* C12 -- The region index exactly summarises the stored variants. *)
From Coq Require Import ZArith Arith List Bool.
From B2Z Require Import Model.RegionIndex Proofs.RegionIndexProofs.
Import ListNotations.
Open Scope Z_scope.

(* for ALL record lists whose end positions stay within int32 (the coordinate space of
   VCF/BCF) and every chunk size, the index the code builds (int32 arithmetic written into the
   model) is the specification index computed in Z *)
Theorem region_index_spec : forall cs recs, Forall in_range recs -> create_index cs recs = spec_index cs recs.
Proof. exact region_index_spec_lemma. Qed.
Print Assumptions region_index_spec.

(* the rows' runs, in order, concatenate to the record list: every record is summarised by
   exactly one row, rows are in record order *)
Theorem rows_cover_once : forall cs recs, (1 <= cs)%nat ->
  concat (groups_from (chunks_of (length recs) cs recs)) = recs /\
  length (spec_index cs recs) = length (groups_from (chunks_of (length recs) cs recs)).
Proof. intros cs recs H. split; [apply rows_cover_once_lemma; exact H|apply index_rows_count]. Qed.
Print Assumptions rows_cover_once.

(* inside a chunk the runs are non-empty, contig-uniform and maximal *)
Theorem runs_are_maximal_uniform : forall chunk,
  concat (runs chunk) = chunk /\ Forall (fun g => g <> []) (runs chunk) /\
  Forall (fun g => forall x y, In x g -> In y g -> ctg x = ctg y) (runs chunk) /\ adjacent_differ (runs chunk).
Proof. intros c. repeat split; [apply runs_concat|apply runs_nonempty|apply runs_uniform|apply runs_maximal]. Qed.
Print Assumptions runs_are_maximal_uniform.

(* a row's fields: first/last start position of the run, its size, and the exact maximum end
   (an upper bound of every record's end that is attained) *)
Theorem row_fields : forall k g r tl, g = r :: tl ->
  row_of end_spec k g = [k; ctg r; pos r; pos (last g r); maxZ (map end_spec g) (end_spec r); Z.of_nat (length g)] /\
  (forall x, In x g -> end_spec x <= maxZ (map end_spec g) (end_spec r)) /\
  (exists x, In x g /\ end_spec x = maxZ (map end_spec g) (end_spec r)).
Proof. exact row_of_spec. Qed.
Print Assumptions row_fields.

(* chunks have between 1 and cs records *)
Theorem chunk_sizes : forall cs recs, (1 <= cs)%nat ->
  Forall (fun c => (1 <= length c <= cs)%nat) (chunks_of (length recs) cs recs).
Proof. intros cs recs H. apply chunks_sizes; [exact H|apply le_n]. Qed.
Print Assumptions chunk_sizes.

(* regression witness for the pre-fix code (F2): computing the end in the arrays' own int8 *)
Definition wrap8 (x : Z) : Z := (x + 128) mod 256 - 128.
Example region_index_wrap_refuted : wrap8 (100 + 61 - 1) = -96 /\ end_impl (0, 100, 61) = 160.
Proof. vm_compute. split; reflexivity. Qed.

Example c12_instance :
  create_index 3 [(0, 10, 1); (0, 20, 5); (1, 5, 1); (1, 7, 100); (1, 8, 1)]
  = [[0; 0; 10; 20; 24; 2]; [0; 1; 5; 5; 5; 1]; [1; 1; 7; 8; 106; 2]].
Proof. vm_compute. reflexivity. Qed.
