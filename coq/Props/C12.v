(* C12 -- The region index exactly summarises the stored variants. *)
From Coq Require Import ZArith Arith List Bool.
From B2Z Require Import Base.Prims Base.NpPrims Model.RegionIndex Proofs.RegionIndexProofs Gen.GenRegionIndex Bridge.BridgeRegionIndex.
Import ListNotations.
Open Scope Z_scope.

(* for ALL record lists whose end positions stay within int32 (the coordinate space of
   VCF/BCF) and every chunk size, the index the code builds (int32 arithmetic written into the
   model) is the specification index computed in Z *)
Theorem region_index_spec : forall cs recs, Forall in_range recs -> create_index cs recs = spec_index cs recs.
Proof. exact region_index_spec_lemma. Qed.
Print Assumptions region_index_spec.

(* the rows' runs, in order, concatenate to the record list: every record is summarised by
   exactly one row, rows are in record order *)
Theorem rows_cover_once : forall cs recs, (1 <= cs)%nat ->
  concat (groups_from (chunks_of (length recs) cs recs)) = recs /\
  length (spec_index cs recs) = length (groups_from (chunks_of (length recs) cs recs)).
Proof. intros cs recs H. split; [apply rows_cover_once_lemma; exact H|apply index_rows_count]. Qed.
Print Assumptions rows_cover_once.

(* inside a chunk the runs are non-empty, contig-uniform and maximal *)
Theorem runs_are_maximal_uniform : forall chunk,
  concat (runs chunk) = chunk /\ Forall (fun g => g <> []) (runs chunk) /\
  Forall (fun g => forall x y, In x g -> In y g -> ctg x = ctg y) (runs chunk) /\ adjacent_differ (runs chunk).
Proof. intros c. repeat split; [apply runs_concat|apply runs_nonempty|apply runs_uniform|apply runs_maximal]. Qed.
Print Assumptions runs_are_maximal_uniform.

(* a row's fields: first/last start position of the run, its size, and the exact maximum end
   (an upper bound of every record's end that is attained) *)
Theorem row_fields : forall k g r tl, g = r :: tl ->
  row_of end_spec k g = [k; ctg r; pos r; pos (last g r); maxZ (map end_spec g) (end_spec r); Z.of_nat (length g)] /\
  (forall x, In x g -> end_spec x <= maxZ (map end_spec g) (end_spec r)) /\
  (exists x, In x g /\ end_spec x = maxZ (map end_spec g) (end_spec r)).
Proof. exact row_of_spec. Qed.
Print Assumptions row_fields.

(* chunks have between 1 and cs records *)
Theorem chunk_sizes : forall cs recs, (1 <= cs)%nat ->
  Forall (fun c => (1 <= length c <= cs)%nat) (chunks_of (length recs) cs recs).
Proof. intros cs recs H. apply chunks_sizes; [exact H|apply le_n]. Qed.
Print Assumptions chunk_sizes.

(* ---- TRANSLATOR TIE: VcfZarrWriter.create_index as regenerated from the source on this run
   (translator/ridx2coq.py -> Gen/GenRegionIndex.v): the chunk loop, the int32 end positions, the run
   loop over np.nonzero(np.diff(c, append=-1)) with absolute indexes, the six row fields ---------- *)

(* on the blocks zarr delivers (rows [k*cs, (k+1)*cs) of variant_contig / variant_position /
   variant_length), for EVERY record list whose contig ids are not the sentinel -1 (np.diff's appended
   value) and every chunk size, the translated function never trips its assertion and returns exactly the
   model's index *)
Theorem translated_create_index_is_the_model : forall cs recs, no_sentinel_contig recs ->
  gen_create_index (blocks_of (chunks_of (length recs) cs recs)) = Ok (create_index cs recs).
Proof. exact translated_create_index_is_the_model_lemma. Qed.
Print Assumptions translated_create_index_is_the_model.

(* hence the property for the translated source: with end positions inside int32 it returns the
   specification index computed in Z *)
Theorem translated_region_index_spec : forall cs recs, Forall in_range recs -> no_sentinel_contig recs ->
  gen_create_index (blocks_of (chunks_of (length recs) cs recs)) = Ok (spec_index cs recs).
Proof.
  intros cs recs Hr Hs. rewrite translated_create_index_is_the_model_lemma by exact Hs.
  rewrite region_index_spec_lemma by exact Hr. reflexivity.
Qed.
Print Assumptions translated_region_index_spec.

(* the end-position expression of the source, evaluated in numpy's int32 arithmetic, is the model's *)
Theorem translated_end_position : forall r, gen_end (ctg r) (pos r) (len r) = end_impl r.
Proof. exact gen_end_is_end_impl. Qed.
Print Assumptions translated_end_position.

(* the premise no_sentinel_contig is forced by the source (np.diff(c, append=-1) sees no boundary after
   a trailing record of contig -1): recorded, not hidden.  Stored contig ids are header indexes >= 0. *)
Example sentinel_contig_hypothesis_needed :
  gen_create_index (blocks_of [[(-1, 5, 1)]]) = Ok [] /\ create_index 1 [(-1, 5, 1)] = [[0; -1; 5; 5; 5; 1]].
Proof. vm_compute. split; reflexivity. Qed.

Example translated_index_instance :
  gen_create_index (blocks_of (chunks_of 5 3 [(0, 10, 1); (0, 20, 5); (1, 5, 1); (1, 7, 100); (1, 8, 1)]))
  = Ok [[0; 0; 10; 20; 24; 2]; [0; 1; 5; 5; 5; 1]; [1; 1; 7; 8; 106; 2]].
Proof. vm_compute. reflexivity. Qed.

(* regression witness for the pre-fix code (F2): computing the end in the arrays' own int8 *)
Definition wrap8 (x : Z) : Z := (x + 128) mod 256 - 128.
Example region_index_wrap_refuted : wrap8 (100 + 61 - 1) = -96 /\ end_impl (0, 100, 61) = 160.
Proof. vm_compute. split; reflexivity. Qed.

Example c12_instance :
  create_index 3 [(0, 10, 1); (0, 20, 5); (1, 5, 1); (1, 7, 100); (1, 8, 1)]
  = [[0; 0; 10; 20; 24; 2]; [0; 1; 5; 5; 5; 1]; [1; 1; 7; 8; 106; 2]].
Proof. vm_compute. reflexivity. Qed.
