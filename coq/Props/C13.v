(* C13 -- Unconvertible input sets are rejected loudly, never converted wrongly. *)
From Coq Require Import ZArith List Bool Permutation.
From B2Z Require Import Base.Prims Model.Overlap Proofs.OverlapProofs Bridge.BridgeOverlap.
From B2Z Require Gen.GenOverlap.
From B2Z Require Import Gen.GenScan Bridge.BridgeScan.
From B2Z Require Import Base.EncSkel Gen.GenEncoders Bridge.BridgeEncoders.
Import ListNotations.
Open Scope Z_scope.

(* After sorting by (contig index, start), the TRANSLATED adjacent check accepts exactly the
   partition lists in which NO two partitions (in whatever order the files were given)
   intersect on a contig: overlapping, touching (shared position), nested, interleaved and
   identical ranges are all rejected, disjoint ones accepted. *)
Theorem overlap_check_complete : forall l, Forall (fun a => p_start a <= p_end a) l ->
  (GenOverlap.check_overlapping_partitions (map to_region (isort l)) = Ok tt <-> pairwise l).
Proof.
  intros l Hw. rewrite gen_check_overlapping_eq. fold (accept l).
  rewrite <- (overlap_check_complete_lemma l Hw). destruct (accept l); split; intros H; try reflexivity; discriminate.
Qed.
Print Assumptions overlap_check_complete.

Theorem overlap_rejected_with_error : forall l, Forall (fun a => p_start a <= p_end a) l -> ~ pairwise l ->
  GenOverlap.check_overlapping_partitions (map to_region (isort l)) = Err E_ValueError.
Proof.
  intros l Hw Hn. rewrite gen_check_overlapping_eq. fold (accept l).
  destruct (accept l) eqn:E; [|reflexivity]. exfalso. apply Hn. apply (overlap_check_complete_lemma l Hw). exact E.
Qed.
Print Assumptions overlap_rejected_with_error.

(* accepted => the sorted partitions are strictly ordered blocks (so the concatenated records
   are in (contig, position) order and no position range is visited twice), and the sorted list
   is a permutation of the input (no partition lost or duplicated) *)
Theorem accepted_sorted : forall l, accept l = true -> blocks_ordered (isort l) /\ Permutation l (isort l).
Proof. exact accepted_sorted_lemma. Qed.
Print Assumptions accepted_sorted.

Theorem unset_end_never_accepted : forall a b tl, r_contig a = r_contig b -> r_end a = None ->
  GenOverlap.check_overlapping_partitions (a :: b :: tl) = Err E_AssertionError.
Proof. exact gen_check_unset_end. Qed.
Print Assumptions unset_end_never_accepted.

Theorem duplicate_path_rejected : forall a l1 l2 l3 headers,
  scan_checks (l1 ++ a :: l2 ++ a :: l3) headers = Err E_ValueError.
Proof. exact duplicate_path_rejected_lemma. Qed.
Print Assumptions duplicate_path_rejected.

Theorem incompatible_header_rejected : forall paths h hs h', In h' hs -> h' <> h ->
  scan_checks paths (h :: hs) = Err E_ValueError.
Proof. exact incompatible_header_rejected_lemma. Qed.
Print Assumptions incompatible_header_rejected.

Theorem reserved_info_name_rejected : forall k infos1 infos2 formats gt, info_reserved k = true ->
  exists e, convert_name_checks (infos1 ++ k :: infos2) formats gt = Err e.
Proof. exact reserved_info_rejected_lemma. Qed.
Print Assumptions reserved_info_name_rejected.

Theorem reserved_format_name_rejected : forall k infos formats1 formats2 gt, format_reserved k = true ->
  convert_name_checks infos (formats1 ++ k :: formats2) gt = Err E_ValueError.
Proof. exact reserved_format_rejected_lemma. Qed.
Print Assumptions reserved_format_name_rejected.

Theorem undeclared_filter_rejected : forall declared used row f,
  In row used -> In f row -> ~ In f declared -> filters_check declared used = Err E_ValueError.
Proof. exact undeclared_filter_rejected_lemma. Qed.
Print Assumptions undeclared_filter_rejected.

Example c13_instance :
  accept [ {| p_contig := 0; p_start := 50; p_end := 90 |}; {| p_contig := 0; p_start := 10; p_end := 49 |} ] = true /\
  accept [ {| p_contig := 0; p_start := 50; p_end := 90 |}; {| p_contig := 0; p_start := 10; p_end := 50 |} ] = false.
Proof. vm_compute. split; reflexivity. Qed.

(* ---- TRANSLATOR TIE (translator/scan2coq.py -> Gen/GenScan.v): tables and order read off the source on this run *)

(* every fixed array VcfZarrSchema.generate creates is protected against a clobbering field: variant_X / call_X with X in
   the reserved INFO / FORMAT names of check_field_clobbering -- variant_length being protected by array creation
   (reserved_info_name_rejected).  A fixed array added without reserving its name, or a name dropped from the reserved
   sets, makes this false. *)
Theorem translated_fixed_arrays_protected : forallb protected gen_fixed_arrays = true.
Proof. exact translated_fixed_arrays_protected_lemma. Qed.
Print Assumptions translated_fixed_arrays_protected.

(* scan_vcfs: duplicate paths are refused before any file is scanned; the scan results are sorted by path before the
   first header is taken as the reference every other file is compared with (so the verdict does not depend on the
   order the files were given or completed in); the partitions are sorted by (header contig index, start) afterwards *)
Theorem translated_scan_order :
  before SDuplicatePaths SScanAll && before SScanAll SSortResultsByPath && before SSortResultsByPath STakeFirstHeader
  && before STakeFirstHeader SHeadersEqualFirst && before SHeadersEqualFirst SSortPartitions = true.
Proof. exact translated_scan_order_lemma. Qed.
Print Assumptions translated_scan_order.

(* the encode side of "filters used but not declared are rejected": encode_filters_partition as translated on this run
   (translator/enc2coq.py): the record's row is cleared, then EVERY filter of the record is looked up in the header's filter
   list; a filter that is not declared (None) ANYWHERE in the value -- alone, or after / before declared ones in a compound
   value like q10;zz9 -- makes the conversion fail with ValueError ... *)
Theorem translated_filter_row_rejects_undeclared : forall nf value, In None value -> gen_filter_row nf value = Err E_ValueError.
Proof. exact translated_filter_row_rejects_undeclared_lemma. Qed.
Print Assumptions translated_filter_row_rejects_undeclared.

(* ... and when all are declared the row has one flag per declared filter, set exactly for the filters the record uses *)
Theorem translated_filter_row_flags : forall nf value, Forall (fun f => exists i, f = Some i /\ (i < nf)%nat) value ->
  exists row, gen_filter_row nf value = Ok row /\ length row = nf /\ forall k, (k < nf)%nat -> nth k row false = uses value k.
Proof. exact translated_filter_row_flags_lemma. Qed.
Print Assumptions translated_filter_row_flags.

Example translated_filter_row_instance :
  gen_filter_row 3 [Some 2; Some 0]%nat = Ok [true; false; true] /\ gen_filter_row 3 [Some 1; None]%nat = Err E_ValueError.
Proof. vm_compute. split; reflexivity. Qed.
