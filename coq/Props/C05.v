(* C05 -- Distributed explode is crash-safe: never falsely complete, reruns recover.
   The protocol as a step machine over an idealised file system (Absent / Torn / Full per file):
   a history is ANY list of commands (init, partition j, finalise), each possibly killed after
   any prefix of its file-system steps (a kill between the truncating open and the data is a
   torn file).  No bound on the length, the repeats, the order or the number of kills. *)
From Coq Require Import Arith List Bool.
From B2Z Require Import Protocol.IcfProtocol.
Import ListNotations.

Theorem never_falsely_complete : forall (nparts : nat) (nfiles : nat -> nat) h,
  hist_ok nfiles h -> loads (run nparts true empty h) -> complete nparts nfiles (run nparts true empty h).
Proof. intros nparts nfiles h. exact (never_falsely_complete nparts nfiles true eq_refl h). Qed.
Print Assumptions never_falsely_complete.

(* the invariant behind it holds after every history from every state that satisfies it *)
Theorem invariant_preserved : forall (nparts : nat) (nfiles : nat -> nat) h s,
  hist_ok nfiles h -> Inv nparts nfiles s -> Inv nparts nfiles (run nparts true s h).
Proof. intros nparts nfiles h s. exact (run_inv nparts nfiles true eq_refl h s). Qed.
Print Assumptions invariant_preserved.

(* finalise performs no mutation unless every partition is complete *)
Theorem finalise_guard : forall (nparts : nat) (nfiles : nat -> nat) s rm,
  Inv nparts nfiles s -> steps nparts true s (Finalise rm) <> [] -> complete nparts nfiles s.
Proof. intros nparts nfiles s rm. exact (finalise_guard nparts nfiles true s rm). Qed.
Print Assumptions finalise_guard.

(* from ANY state in which init completed and finalise has not begun -- whatever torn files and
   partial summaries earlier kills left behind -- running every partition and then finalise
   yields exactly the reference store, path by path *)
Theorem rerun_recovers : forall (nparts : nat) (nfiles : nat -> nat) s,
  recoverable nparts nfiles s -> forall p, run nparts true s (recover_history nparts nfiles) p = ref nparts nfiles p.
Proof. intros nparts nfiles s. exact (rerun_recovers nparts nfiles true eq_refl s). Qed.
Print Assumptions rerun_recovers.

(* a command issued out of protocol order is refused: its step list is empty, the state unchanged *)
Theorem out_of_order_intact : forall (nparts : nat) s c k,
  steps nparts true s c = [] -> run1 nparts true s (c, k) = s.
Proof. intros nparts s c k H. unfold run1. cbn [fst snd]. rewrite H. destruct k as [[|k]|]; reflexivity. Qed.
Print Assumptions out_of_order_intact.
Theorem partition_before_init_refused : forall (nparts : nat) j order, steps nparts true empty (Partition j order) = [].
Proof. reflexivity. Qed.
Theorem partition_after_finalise_refused : forall (nparts : nat) s j order,
  s PFinalMeta <> Absent -> steps nparts true s (Partition j order) = [].
Proof.
  intros nparts s j order H. unfold steps. destruct (s PFinalMeta) eqn:E; [congruence| |];
  cbn [is_absent negb andb]; rewrite !andb_false_r; reflexivity.
Qed.
Print Assumptions partition_after_finalise_refused.

(* regression witness (F6): without the guard the same model loads a store with a torn chunk *)
Theorem icf_finalise_window_refuted :
  st_F6 PFinalMeta = Full /\ st_F6 PHeader = Full /\ st_F6 (PData 1 0) = Torn.
Proof. exact icf_finalise_window_refuted. Qed.
Print Assumptions icf_finalise_window_refuted.
