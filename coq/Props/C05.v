(* C05 -- Distributed explode is crash-safe: never falsely complete, reruns recover.
   The protocol as a step machine over an idealised file system (Absent / Torn / Full per file):
   a history is ANY list of commands (init, partition j, finalise), each possibly killed after
   any prefix of its file-system steps (a kill between the truncating open and the data is a
   torn file).  No bound on the length, the repeats, the order or the number of kills. *)
From Coq Require Import Arith List Bool.
From B2Z Require Import Protocol.IcfProtocol Base.Eff Protocol.IcfEffects Protocol.VczEffects Gen.GenIcfProtocol Bridge.BridgeIcfProtocol.
Import ListNotations.

Theorem never_falsely_complete : forall (nparts : nat) (nfiles : nat -> nat) h,
  hist_ok nfiles h -> loads (run nparts true empty h) -> complete nparts nfiles (run nparts true empty h).
Proof. intros nparts nfiles h. exact (never_falsely_complete nparts nfiles true eq_refl h). Qed.
Print Assumptions never_falsely_complete.

(* the invariant behind it holds after every history from every state that satisfies it *)
Theorem invariant_preserved : forall (nparts : nat) (nfiles : nat -> nat) h s,
  hist_ok nfiles h -> Inv nparts nfiles s -> Inv nparts nfiles (run nparts true s h).
Proof. intros nparts nfiles h s. exact (run_inv nparts nfiles true eq_refl h s). Qed.
Print Assumptions invariant_preserved.

(* finalise performs no mutation unless every partition is complete *)
Theorem finalise_guard : forall (nparts : nat) (nfiles : nat -> nat) s rm,
  Inv nparts nfiles s -> steps nparts true s (Finalise rm) <> [] -> complete nparts nfiles s.
Proof. intros nparts nfiles s rm. exact (finalise_guard nparts nfiles true s rm). Qed.
Print Assumptions finalise_guard.

(* from ANY state in which init completed and finalise has not begun -- whatever torn files and
   partial summaries earlier kills left behind -- running every partition and then finalise
   yields exactly the reference store, path by path *)
Theorem rerun_recovers : forall (nparts : nat) (nfiles : nat -> nat) s,
  recoverable nparts nfiles s -> forall p, run nparts true s (recover_history nparts nfiles) p = ref nparts nfiles p.
Proof. intros nparts nfiles s. exact (rerun_recovers nparts nfiles true eq_refl s). Qed.
Print Assumptions rerun_recovers.

(* a command issued out of protocol order is refused: its step list is empty, the state unchanged *)
Theorem out_of_order_intact : forall (nparts : nat) s c k,
  steps nparts true s c = [] -> run1 nparts true s (c, k) = s.
Proof. intros nparts s c k H. unfold run1. cbn [fst snd]. rewrite H. destruct k as [[|k]|]; reflexivity. Qed.
Print Assumptions out_of_order_intact.
Theorem partition_before_init_refused : forall (nparts : nat) j order, steps nparts true empty (Partition j order) = [].
Proof. reflexivity. Qed.
Theorem partition_after_finalise_refused : forall (nparts : nat) s j order,
  s PFinalMeta <> Absent -> steps nparts true s (Partition j order) = [].
Proof.
  intros nparts s j order H. unfold steps. destruct (s PFinalMeta) eqn:E; [congruence| |];
  cbn [is_absent negb andb]; rewrite !andb_false_r; reflexivity.
Qed.
Print Assumptions partition_after_finalise_refused.

(* regression witness (F6): without the guard the same model loads a store with a torn chunk *)
Theorem icf_finalise_window_refuted :
  st_F6 PFinalMeta = Full /\ st_F6 PHeader = Full /\ st_F6 (PData 1 0) = Torn.
Proof. exact icf_finalise_window_refuted. Qed.
Print Assumptions icf_finalise_window_refuted.

(* TIE TO THE SOURCE.  Gen.GenProtocol.icf_init / icf_partition / icf_finalise are the effect
   sequences translator/proto2coq.py regenerates from IntermediateColumnarFormatWriter.init /
   explode_partition / finalise on every run (guards, writes, unlinks, data phase, rmtree, in program
   order, paths resolved to symbols).  In EVERY state of the abstract file system, for every
   partition number, write order and removal order, what they denote is exactly the step list of the
   model the theorems above are about: a reordered write, a dropped unlink, a guard that moved behind
   a mutation or a new effect in the source breaks this theorem. *)
Theorem source_effects_are_model_steps : forall (nparts j : nat) (order : list nat) (rm : list path) s,
  IcfEffects.denote nparts j order rm icf_init s = Some (steps nparts true s Init) /\
  IcfEffects.denote nparts j order rm icf_partition s = Some (steps nparts true s (Partition j order)) /\
  IcfEffects.denote nparts j order rm icf_finalise s = Some (steps nparts true s (Finalise rm)).
Proof.
  intros nparts j order rm s.
  exact (conj (icf_init_denotes nparts j order rm s)
        (conj (icf_partition_denotes nparts j order rm s) (icf_finalise_denotes nparts j order rm s))).
Qed.
Print Assumptions source_effects_are_model_steps.

(* init writes the plan (wip/metadata.json) last; a partition writes its summary last; finalise
   writes the completion marker before it removes anything *)
Theorem commit_records_written_last :
  last_mutation icf_init = Some (WriteFile IWipMeta) /\ last_mutation icf_partition = Some (WriteFile ISummaryCur) /\
  filter eff_is_mutation icf_finalise = [WriteFile IFinalMeta; Rmtree IWip].
Proof. repeat split; reflexivity. Qed.
Print Assumptions commit_records_written_last.
