(* C09 -- Tabix and CSI indexes are parsed faithfully. *)
From Coq Require Import ZArith List Bool.
From B2Z Require Import Base.Prims Model.IndexParse Model.BinArith Proofs.IndexParseProofs Proofs.BinsProofs Bridge.BridgeBins.
From B2Z Require Gen.GenIndexLayout Bridge.BridgeIndexLayout.
From B2Z Require Gen.GenBins.
Import ListNotations.
Open Scope Z_scope.

(* The reader (byte-level model of read_csi, tied to the code by the correspondence run)
   inverts the INDEPENDENT specification serialiser, for any number of contigs, bins,
   chunks, any min_shift/depth, with or without pseudo-bins and trailing count: the parsed
   names/aux, bins, chunks and unplaced count are what was written, and the per-contig
   counts follow the counts rule of view_csi. *)
Theorem csi_parse_serialise : forall f, csi_file_ok f -> parse_csi (ser_csi f) = Some (view_csi f).
Proof. exact csi_parse_serialise_lemma. Qed.
Print Assumptions csi_parse_serialise.

Theorem tbi_parse_serialise : forall f, tbx_file_ok f -> parse_tbi (ser_tbi f) = Some (view_tbi f).
Proof. exact tbi_parse_serialise_lemma. Qed.
Print Assumptions tbi_parse_serialise.

(* counts rule: a contig's reported count is its starting value (0 for "no bins", Unknown
   otherwise) unless a pseudo-bin is present, in which case it is that bin's
   n_mapped + n_unmapped -- never another number *)
Theorem counts_rule : forall pseudo ids acc,
  Forall (fun x => pseudo_wf pseudo (fst x) (snd x)) ids ->
  (forall x, In x ids -> fst x <> pseudo) /\ spec_count pseudo ids acc = acc
  \/ exists c1 a b, In (pseudo, [c1; (a, b)]) ids /\ spec_count pseudo ids acc = Known (a + b).
Proof. exact spec_count_cases. Qed.
Print Assumptions counts_rule.

Theorem csi_bad_magic_rejected : forall b, firstn 4 b <> csi_magic -> parse_csi b = None.
Proof. exact csi_bad_magic_lemma. Qed.
Print Assumptions csi_bad_magic_rejected.
Theorem tbi_bad_magic_rejected : forall b, firstn 4 b <> tbi_magic -> parse_tbi b = None.
Proof. exact tbi_bad_magic_lemma. Qed.
Print Assumptions tbi_bad_magic_rejected.

(* ---- bin arithmetic, about the TRANSLATED helpers, for every depth >= 0 ---------------- *)
Theorem level_unique : forall depth bin l, 0 <= depth ->
  GenBins.get_level_for_bin depth bin = Ok l ->
  0 <= l <= depth /\ GenBins.get_first_bin_in_level l <= bin /\
  (l < depth -> bin < GenBins.get_first_bin_in_level (l + 1)).
Proof.
  intros depth bin l Hd H. rewrite gen_level_for_bin_eq in H by exact Hd.
  destruct (level_for_bin depth bin) as [l'|] eqn:E; [|discriminate]. injection H as <-.
  destruct (level_unique_lemma depth bin l' Hd E) as [H1 [H2 H3]].
  rewrite !gen_first_bin_eq by (destruct H1; auto with zarith). auto.
Qed.
Print Assumptions level_unique.

Theorem level_total : forall depth bin, 0 <= depth -> 0 <= bin ->
  exists l, GenBins.get_level_for_bin depth bin = Ok l.
Proof.
  intros depth bin Hd Hb. destruct (level_total_lemma depth bin Hd Hb) as [l E].
  exists l. rewrite gen_level_for_bin_eq, E by exact Hd. reflexivity.
Qed.
Print Assumptions level_total.

Theorem first_locus_spec : forall min_shift depth bin l, 0 <= min_shift -> 0 <= depth ->
  GenBins.get_level_for_bin depth bin = Ok l ->
  GenBins.get_first_locus_in_bin depth min_shift bin =
    Ok ((bin - GenBins.get_first_bin_in_level l) * 2 ^ (min_shift + 3 * (depth - l)) + 1).
Proof.
  intros ms depth bin l Hm Hd H. rewrite gen_level_for_bin_eq in H by exact Hd.
  destruct (level_for_bin depth bin) as [l'|] eqn:E; [|discriminate]. injection H as <-.
  rewrite gen_first_locus_eq by assumption.
  rewrite (first_locus_spec_lemma ms depth bin l' Hm Hd E).
  destruct (level_unique_lemma depth bin l' Hd E) as [[H1 _] _].
  rewrite gen_first_bin_eq by exact H1. reflexivity.
Qed.
Print Assumptions first_locus_spec.

Theorem file_offset_spec : forall v, 0 <= v < 2 ^ 64 -> GenBins.get_file_offset v = v / 65536.
Proof.
  intros v H. rewrite gen_file_offset_eq by (destruct H; assumption). apply file_offset_spec_lemma. exact H.
Qed.
Print Assumptions file_offset_spec.

Theorem first_bin_closed_form : forall l, 0 <= l -> 7 * GenBins.get_first_bin_in_level l + 1 = 8 ^ l.
Proof. intros l H. rewrite gen_first_bin_eq by exact H. apply first_bin_closed. exact H. Qed.
Print Assumptions first_bin_closed_form.

(* non-vacuity: a concrete CSI file with a pseudo-bin, two contigs and a trailing count *)
Example csi_instance :
  let f := {| cf_min_shift := 14; cf_depth := 5; cf_aux := [1; 2; 3];
              cf_contigs := [[{| cb_id := 4681; cb_loff := 100; cb_chunks := [(100, 200)] |};
                              {| cb_id := 37450; cb_loff := 0; cb_chunks := [(100, 200); (7, 0)] |}]; []];
              cf_tail := Some 0 |} in
  parse_csi (ser_csi f) = Some (view_csi f) /\ ci_counts (view_csi f) = [Known 7; Known 0].
Proof. vm_compute. split; reflexivity. Qed.

(* ---- TRANSLATOR TIE for the readers: the FIELD LAYOUT of read_csi / read_tabix as read off the source on this run
   (translator/idx2coq.py -> Gen/GenIndexLayout.v): the sequence of struct reads -- magic, header fields, per reference
   sequence the bin count, per bin its id / loffset / chunk count, per chunk two 64-bit offsets, (tabix) the linear index, the
   optional trailing n_no_coor, end of data -- with their widths and signedness, and which field each loop count and guard
   refers to, IS the layout of the CSI v1 / tabix specification (written out in Bridge/BridgeIndexLayout.v), which is what
   Model/IndexParse.v parses field by field and its independent serialisers write; the tabix pseudo-bin is 37450 and both
   readers carry the record-count rule (0 for a sequence without bins, otherwise unknown unless a pseudo-bin with exactly two
   chunks gives n_mapped + n_unmapped).  The byte-level semantics of the reads (struct, gzip) stays with the differential run. *)
Theorem translated_index_layouts :
  GenIndexLayout.gen_csi_layout = BridgeIndexLayout.csi_spec_layout /\
  GenIndexLayout.gen_tbi_layout = BridgeIndexLayout.tbi_spec_layout /\
  GenIndexLayout.gen_tbi_pseudo_bin = tbx_pseudo /\ GenIndexLayout.gen_count_rule_present = true.
Proof.
  split; [exact BridgeIndexLayout.translated_csi_layout_lemma|]. split; [exact BridgeIndexLayout.translated_tbi_layout_lemma|].
  exact BridgeIndexLayout.translated_pseudo_bin_lemma.
Qed.
Print Assumptions translated_index_layouts.
