(* C16 -- PLINK conversion reproduces the bed/bim/fam contents (genotype part). *)
From Coq Require Import ZArith Arith List Bool.
From B2Z Require Import Base.Prims Model.Plink Model.Partitions Proofs.PlinkProofs Proofs.PartitionsProofs Bridge.BridgePartitions.
From B2Z Require Gen.GenPartitions.
Import ListNotations.
Open Scope Z_scope.

(* decoding a fileset written by the independent writer -- any number of samples (including
   counts not divisible by four, with ARBITRARY padding bits) and variants -- returns exactly
   the 2-bit code matrix: padding bits are never read *)
Theorem bed_decode_encode : forall n (rows pads : list (list Z)),
  length pads = length rows ->
  Forall (fun r => length r = n /\ Forall code_ok r) rows ->
  Forall (fun p => Forall code_ok p /\ (3 <= length p)%nat) pads ->
  decode_bed (encode_bed rows pads) n (length rows) = Some rows.
Proof. exact decode_encode_lemma. Qed.
Print Assumptions bed_decode_encode.

(* the same for the other layout the format allows (third magic byte 0, "individual-major": one
   row of ceil(m/4) bytes per SAMPLE): the layout-independent decoder returns the variant-major
   code matrix, for any number of variants (incl. counts not divisible by four) and samples *)
Theorem bed_decode_encode_sample_major : forall n (rows pads : list (list Z)),
  length pads = n ->
  Forall (fun r => length r = n /\ Forall code_ok r) rows ->
  Forall (fun p => Forall code_ok p /\ (3 <= length p)%nat) pads ->
  decode_bed_any (encode_bed_sample_major rows n pads) n (length rows) = Some rows.
Proof. exact decode_encode_sample_major_lemma. Qed.
Print Assumptions bed_decode_encode_sample_major.
(* and the layout-independent decoder is the variant-major one on variant-major files *)
Theorem bed_decode_any_variant_major : forall n (rows pads : list (list Z)),
  length pads = length rows ->
  Forall (fun r => length r = n /\ Forall code_ok r) rows ->
  Forall (fun p => Forall code_ok p /\ (3 <= length p)%nat) pads ->
  decode_bed_any (encode_bed rows pads) n (length rows) = Some rows.
Proof. intros n rows pads H1 H2 H3. exact (decode_encode_lemma n rows pads H1 H2 H3). Qed.
Print Assumptions bed_decode_any_variant_major.

(* the documented call mapping: 00 -> [0,0], 01 -> [-1,-1] (missing), 10 -> [1,0], 11 -> [1,1] *)
Theorem plink_calls_spec : forall code, code_ok code ->
  call code = if code =? 0 then (0, 0) else if code =? 1 then (-1, -1) else if code =? 2 then (1, 0) else (1, 1).
Proof. exact call_spec_lemma. Qed.
Print Assumptions plink_calls_spec.

(* sample s of a variant row is read from bits 2(s mod 4).. of byte s/4 of that row *)
Theorem sample_bit_position : forall n row s, (s < n)%nat -> (s / 4 < length row)%nat ->
  nth s (unpack_row n row) 0 = (nth (s / 4) row 0 / 4 ^ Z.of_nat (s mod 4)) mod 4.
Proof. exact unpack_row_nth. Qed.
Print Assumptions sample_bit_position.

(* the worker slices (TRANSLATED chunk_aligned_slices) partition the variant rows into
   chunk-aligned, non-empty, contiguous ranges: every variant row is written by exactly one
   slice and no two slices share a Zarr chunk (from C11) *)
Theorem plink_rows_once : forall cs m workers, 1 <= m -> 1 <= cs -> 1 <= workers ->
  exists ps, GenPartitions.chunk_aligned_slices cs m workers None = Ok ps /\ rchain cs 0 ps m.
Proof.
  intros cs m w H1 H2 H3. destruct (C11_chunk_aligned_slices_cover cs m w None H1 H2 H3 I) as [ps [E [R _]]].
  exists ps. split; [exact E|exact R].
Qed.
Print Assumptions plink_rows_once.

Example c16_sample_major_instance :
  decode_bed_any (encode_bed_sample_major [[0; 1; 2]; [3; 3; 0]; [1; 0; 2]; [2; 2; 2]; [0; 3; 1]] 3 [[3; 3; 3]; [1; 2; 1]; [0; 0; 0]]) 3 5
  = Some [[0; 1; 2]; [3; 3; 0]; [1; 0; 2]; [2; 2; 2]; [0; 3; 1]].
Proof. vm_compute. reflexivity. Qed.

Example c16_instance :
  decode_bed (encode_bed [[0; 1; 2; 3; 2]; [3; 3; 0; 1; 0]] [[3; 3; 3]; [1; 2; 1]]) 5 2 = Some [[0; 1; 2; 3; 2]; [3; 3; 0; 1; 0]]
  /\ map call [0; 1; 2; 3] = [(0, 0); (-1, -1); (1, 0); (1, 1)].
Proof. vm_compute. split; reflexivity. Qed.
