(* C16 -- PLINK conversion reproduces the bed/bim/fam contents (genotype part). *)
From Coq Require Import ZArith Arith List Bool.
From B2Z Require Import Base.Prims Model.Plink Model.Partitions Proofs.PlinkProofs Proofs.PartitionsProofs Bridge.BridgePartitions.
From B2Z Require Gen.GenPartitions.
From B2Z Require Import Base.PlinkOps Gen.GenPlink Bridge.BridgePlink Bridge.BridgePlinkConvert.
Import ListNotations.
Open Scope Z_scope.

(* decoding a fileset written by the independent writer -- any number of samples (including
   counts not divisible by four, with ARBITRARY padding bits) and variants -- returns exactly
   the 2-bit code matrix: padding bits are never read *)
Theorem bed_decode_encode : forall n (rows pads : list (list Z)),
  length pads = length rows ->
  Forall (fun r => length r = n /\ Forall code_ok r) rows ->
  Forall (fun p => Forall code_ok p /\ (3 <= length p)%nat) pads ->
  decode_bed (encode_bed rows pads) n (length rows) = Some rows.
Proof. exact decode_encode_lemma. Qed.
Print Assumptions bed_decode_encode.

(* the same for the other layout the format allows (third magic byte 0, "individual-major": one
   row of ceil(m/4) bytes per SAMPLE): the layout-independent decoder returns the variant-major
   code matrix, for any number of variants (incl. counts not divisible by four) and samples *)
Theorem bed_decode_encode_sample_major : forall n (rows pads : list (list Z)),
  length pads = n ->
  Forall (fun r => length r = n /\ Forall code_ok r) rows ->
  Forall (fun p => Forall code_ok p /\ (3 <= length p)%nat) pads ->
  decode_bed_any (encode_bed_sample_major rows n pads) n (length rows) = Some rows.
Proof. exact decode_encode_sample_major_lemma. Qed.
Print Assumptions bed_decode_encode_sample_major.
(* and the layout-independent decoder is the variant-major one on variant-major files *)
Theorem bed_decode_any_variant_major : forall n (rows pads : list (list Z)),
  length pads = length rows ->
  Forall (fun r => length r = n /\ Forall code_ok r) rows ->
  Forall (fun p => Forall code_ok p /\ (3 <= length p)%nat) pads ->
  decode_bed_any (encode_bed rows pads) n (length rows) = Some rows.
Proof. intros n rows pads H1 H2 H3. exact (decode_encode_lemma n rows pads H1 H2 H3). Qed.
Print Assumptions bed_decode_any_variant_major.

(* the documented call mapping: 00 -> [0,0], 01 -> [-1,-1] (missing), 10 -> [1,0], 11 -> [1,1] *)
Theorem plink_calls_spec : forall code, code_ok code ->
  call code = if code =? 0 then (0, 0) else if code =? 1 then (-1, -1) else if code =? 2 then (1, 0) else (1, 1).
Proof. exact call_spec_lemma. Qed.
Print Assumptions plink_calls_spec.

(* sample s of a variant row is read from bits 2(s mod 4).. of byte s/4 of that row *)
Theorem sample_bit_position : forall n row s, (s < n)%nat -> (s / 4 < length row)%nat ->
  nth s (unpack_row n row) 0 = (nth (s / 4) row 0 / 4 ^ Z.of_nat (s mod 4)) mod 4.
Proof. exact unpack_row_nth. Qed.
Print Assumptions sample_bit_position.

(* the worker slices (TRANSLATED chunk_aligned_slices) partition the variant rows into
   chunk-aligned, non-empty, contiguous ranges: every variant row is written by exactly one
   slice and no two slices share a Zarr chunk (from C11) *)
Theorem plink_rows_once : forall cs m workers, 1 <= m -> 1 <= cs -> 1 <= workers ->
  exists ps, GenPartitions.chunk_aligned_slices cs m workers None = Ok ps /\ rchain cs 0 ps m.
Proof.
  intros cs m w H1 H2 H3. destruct (C11_chunk_aligned_slices_cover cs m w None H1 H2 H3 I) as [ps [E [R _]]].
  exists ps. split; [exact E|exact R].
Qed.
Print Assumptions plink_rows_once.

(* ---- TRANSLATOR TIE: the worker task plink.encode_genotypes_slice as regenerated from the source on
   this run (translator/plink2coq.py -> Gen/GenPlink.v) ------------------------------------------- *)

(* the masked assignments of the source (zeros; [-127] -> -1,-1; [2] -> 1,1; [1] -> first allele 1), in
   their source order, compute the documented dosage -> call mapping for EVERY integer *)
Theorem translated_call_mapping : forall v, gen_call v = call_of_count v.
Proof. exact translated_call_mapping_lemma. Qed.
Print Assumptions translated_call_mapping.

(* the reader is opened counting the SECOND allele (count_A1=False): the contract a2_count is about *)
Theorem translated_reader_counts_a2 : (gen_count_a1 = false) /\ (gen_requires_aligned_start = true).
Proof. split; reflexivity. Qed.
Print Assumptions translated_reader_counts_a2.

(* for every input row, from ANY lock-step position r, the translated row program hands out logical
   row r of each of the three buffers exactly once and stores: the call pairs of the row's dosages,
   all-false phasing, and the mask (allele = -1) of exactly those pairs *)
Theorem translated_row_program : forall r values,
  exists s, exec_ops gen_call values (start_iteration (lockstep r)) gen_row_ops = Some s /\
    (forall b, cnt s b = r + 1) /\ (forall b, last s b = Some r) /\
    cell_gt s = Some (map call_of_count values) /\
    cell_ph s = Some (map (fun _ => false) values) /\
    cell_mask s = Some (map (fun v => (fst (call_of_count v) =? -1, snd (call_of_count v) =? -1)) values).
Proof. exact translated_row_program_lemma. Qed.
Print Assumptions translated_row_program.

(* the translated read loop reads the rows start, start+1, ..., stop-1 of the .bed, each once, in
   order, for every chunk size; from a chunk-aligned start no read crosses a chunk boundary *)
Theorem translated_slice_rows : forall start stop cs, 1 <= cs -> start <= stop ->
  concat (map (fun p => zrange (fst p) (snd p)) (gen_slice_reads (Z.to_nat (stop - start)) start stop cs)) = zrange start stop.
Proof. exact translated_slice_rows_lemma. Qed.
Print Assumptions translated_slice_rows.

Theorem translated_reads_chunk_aligned : forall start stop cs, 1 <= cs -> start mod cs = 0 ->
  Forall (fun p => fst p mod cs = 0 /\ fst p < snd p /\ snd p <= fst p + cs /\ snd p <= stop)
         (gen_slice_reads (Z.to_nat (stop - start)) start stop cs).
Proof. exact translated_reads_chunk_aligned_lemma. Qed.
Print Assumptions translated_reads_chunk_aligned.

(* every buffer is flushed after the loop *)
Theorem translated_task_flushes_every_buffer : forall b, In b gen_final_flushes.
Proof. intros b. destruct b; cbv; tauto. Qed.
Print Assumptions translated_task_flushes_every_buffer.

(* plink.convert itself as translated: the three genotype arrays have the variants axis first, chunked by the variants chunk
   size (then samples / samples chunk size), the array handed to core.chunk_aligned_slices is one of them, ploidy 2, one task
   per slice, the metadata consolidated after the pool is left ... *)
Theorem translated_convert_arrays : convert_arrays_ok = true.
Proof. exact translated_convert_arrays_lemma. Qed.
Print Assumptions translated_convert_arrays.

(* ... the metadata arrays take their data from the fileset reader's attributes themselves: sample_id <- iid (.fam),
   variant_position <- bp_position (.bim) as int32, variant_allele <- the (allele_1, allele_2) pairs stacked per variant, as
   variable-length strings (no intermediate fixed-width buffer that could truncate) ... *)
Theorem translated_convert_metadata : convert_metadata_ok = true.
Proof. exact translated_convert_metadata_lemma. Qed.
Print Assumptions translated_convert_metadata.

(* ... and for every number of variants, chunk size and worker count the slices it submits (num_slices = max(1, 4 * workers),
   through the TRANSLATED chunk_aligned_slices) are a chain of chunk-aligned, non-empty ranges from 0 to m: together with
   translated_slice_rows every variant row is read and written by exactly one worker task *)
Theorem translated_convert_rows_once : forall cs m workers, 1 <= m -> 1 <= cs -> 0 <= workers ->
  exists ps, GenPartitions.chunk_aligned_slices cs m (gen_convert_num_slices workers) None = Ok ps /\ rchain cs 0 ps m.
Proof. exact translated_convert_rows_once_lemma. Qed.
Print Assumptions translated_convert_rows_once.

Example translated_slice_instance :
  gen_slice_reads 7 10 17 5 = [(10, 15); (15, 17)] /\ map gen_call [0; 1; 2; -127] = [(0, 0); (1, 0); (1, 1); (-1, -1)].
Proof. vm_compute. split; reflexivity. Qed.

Example c16_sample_major_instance :
  decode_bed_any (encode_bed_sample_major [[0; 1; 2]; [3; 3; 0]; [1; 0; 2]; [2; 2; 2]; [0; 3; 1]] 3 [[3; 3; 3]; [1; 2; 1]; [0; 0; 0]]) 3 5
  = Some [[0; 1; 2]; [3; 3; 0]; [1; 0; 2]; [2; 2; 2]; [0; 3; 1]].
Proof. vm_compute. reflexivity. Qed.

Example c16_instance :
  decode_bed (encode_bed [[0; 1; 2; 3; 2]; [3; 3; 0; 1; 0]] [[3; 3; 3]; [1; 2; 1]]) 5 2 = Some [[0; 1; 2; 3; 2]; [3; 3; 0; 1; 0]]
  /\ map call [0; 1; 2; 3] = [(0, 0); (-1, -1); (1, 0); (1, 1)].
Proof. vm_compute. split; reflexivity. Qed.
