(* Extraction of the TRANSLATED definitions of one unit (Gen/GenOverlap.v) so that the translator's output is
   itself run against the real functions (validates translator + Base/Prims.v).  One file and one
   binary per unit: a unit that no longer translates does not take the others down. *)
From Coq Require Import ZArith List Bool.
From B2Z Require Import Base.Prims Base.Sx.
From B2Z Require Gen.GenOverlap.
Import ListNotations.
Open Scope Z_scope.

Definition sx_res {T} (f : T -> sx) (r : res T) : sx :=
  match r with Ok v => L [A 1; f v] | Err e => L [A 0; A e] end.

Definition un_region (s : sx) : option region :=
  match s with
  | L [A c; A st; e] => match as_optZ e with Some e => Some {| r_contig := c; r_start := st; r_end := e |} | None => None end
  | _ => None end.
Fixpoint un_regions (l : list sx) : option (list region) :=
  match l with
  | [] => Some []
  | x :: tl => match un_region x, un_regions tl with Some r, Some rs => Some (r :: rs) | _, _ => None end
  end.

Definition gen_dispatch (op : Z) (arg : sx) : sx :=
  match op, arg with
  | 30, L rs => match un_regions rs with Some rs => sx_res (fun _ => A 0) (GenOverlap.check_overlapping_partitions rs) | None => err_sx 1 end
  | _, _ => err_sx 2
  end.

Require Extraction.
Require Import ExtrOcamlBasic.
Extraction "../extract/gen/Overlap/model.ml" gen_dispatch z_push z_neg z_div10 z_mod10 z_sign z_abs.
