(* Proofs/SpecRoundtrip.v -- array-level losslessness of the reference encoder (C01): from the
   stored INFO / alleles / genotype arrays every record's value is recovered, up to the documented
   identifications (a full-width all-missing vector IS "absent"). *)
From Coq Require Import ZArith List Bool Lia ZifyBool.
From B2Z Require Import Base.Prims Model.Schema Model.Spec Model.Plink Pipeline.Rows Proofs.PlinkProofs Proofs.SpecProofs.
Import ListNotations.
Open Scope Z_scope.

(* ---- generic: a flat array of equal-width rows splits back into its rows -------------------- *)
Lemma split_rows_flat_map {A} (f : A -> list Z) (w : nat) (l : list A) :
  Forall (fun x => length (f x) = w) l ->
  split_rows (length l) w (flat_map f l) = map f l.
Proof.
  intros H. rewrite flat_map_concat_map. rewrite <- (map_length f l).
  apply split_rows_concat. apply Forall_forall. intros r Hr. apply in_map_iff in Hr.
  destruct Hr as [x [<- Hx]]. rewrite Forall_forall in H. apply H. exact Hx.
Qed.

Lemma maxl_ge_init l : forall d, d <= maxl l d.
Proof. unfold maxl. induction l as [|x tl IH]; intros d; cbn [fold_left]; [lia|]. specialize (IH (Z.max d x)). lia. Qed.
Lemma maxl_ge l : forall d x, In x l -> x <= maxl l d.
Proof.
  unfold maxl. induction l as [|y tl IH]; intros d x Hin; [contradiction|]. cbn [fold_left].
  destruct Hin as [->|Hin]; [|apply IH; exact Hin].
  pose proof (maxl_ge_init tl (Z.max d x)). unfold maxl in H. lia.
Qed.

(* ---- INFO ------------------------------------------------------------------------------------ *)
Definition info_value_ok (ty : Z) (iv : infoval) : Prop :=
  match iv with
  | IVec v => Forall (cell_ok (missv ty) (fillv ty)) v /\ v <> [] /\ (whole_missing v = true -> is_numeric ty = true)
  | _ => True
  end.
(* what the stored row determines: absent, a bare '.' of a numeric field and a full-width all-missing
   vector are the same stored row *)
Definition norm_info (ty : Z) (w1 : nat) (iv : infoval) : option vec :=
  match info_effective ty iv with
  | IVec v => if all_missing v && (length v =? w1)%nat then None else Some v
  | _ => None
  end.

Lemma info_row_length ty w iv : info_value_ok ty iv ->
  (match info_effective ty iv with IVec v => zlen v <= Z.max w 1 | _ => True end) ->
  length (info_row ty w iv) = Z.to_nat (Z.max w 1).
Proof.
  intros Hok Hw. unfold info_row. destruct (info_effective ty iv) as [| |v] eqn:E.
  - unfold zrepeat. apply repeat_length.
  - unfold zrepeat. apply repeat_length.
  - destruct (whole_missing v) eqn:Wm.
    + cbn [length]. unfold zrepeat. rewrite repeat_length. lia.
    + rewrite app_length, map_length. unfold zrepeat, zlen in *. rewrite repeat_length. lia.
Qed.

Lemma info_effective_vec ty iv v : info_effective ty iv = IVec v -> iv = IVec v /\ (whole_missing v && is_numeric ty = false).
Proof.
  unfold info_effective. destruct iv as [| |v0]; try discriminate.
  destruct (whole_missing v0 && is_numeric ty) eqn:E; [discriminate|]. intros H. inversion H; subst. auto.
Qed.

Lemma info_row_decodes ty w iv : info_value_ok ty iv ->
  (match info_effective ty iv with IVec v => zlen v <= Z.max w 1 | _ => True end) ->
  dec_vec (missv ty) (fillv ty) (info_row ty w iv) = norm_info ty (Z.to_nat (Z.max w 1)) iv.
Proof.
  intros Hok Hw. unfold norm_info. destruct (info_effective ty iv) as [| |v] eqn:E.
  - unfold info_row. rewrite E. unfold dec_vec, zrepeat. rewrite forallb_repeat_miss. reflexivity.
  - unfold info_row. rewrite E. unfold dec_vec, zrepeat. rewrite forallb_repeat_miss. reflexivity.
  - destruct (info_effective_vec _ _ _ E) as [-> Hnum]. cbn [info_value_ok] in Hok. destruct Hok as [Hc [Hne Hwm]].
    assert (Wm: whole_missing v = false).
    { destruct (whole_missing v) eqn:W; [|reflexivity]. rewrite (Hwm eq_refl) in Hnum. discriminate. }
    assert (E2: info_row ty w (IVec v) = info_row ty (Z.max w 1) (IVec v)).
    { unfold info_row. rewrite E. rewrite Z.max_l with (n := Z.max w 1) by lia. reflexivity. }
    rewrite E2. rewrite info_row_is_enc_vec by (try exact Wm; lia).
    rewrite (vec_roundtrip (missv ty) (fillv ty) (sentinels_distinct ty) (Z.to_nat (Z.max w 1)) (Some v)); [reflexivity|lia|].
    unfold zlen in Hw. repeat split; [exact Hc|lia|exact Hne].
Qed.

Section InfoArray.
Variables (i ty : Z) (recs : list record).
Let vals := map (fun r => nth (Z.to_nat i) (r_info r) IAbsent) recs.
Let w := info_width ty vals.
Let w1 := Z.to_nat (Z.max w 1).

Lemma width_bounds iv : In iv vals -> match info_effective ty iv with IVec v => zlen v <= Z.max w 1 | _ => True end.
Proof.
  intros Hin. destruct (info_effective ty iv) as [| |v] eqn:E; auto.
  assert (zlen v <= w); [|lia]. unfold w, info_width. apply maxl_ge. apply in_map_iff. exists iv. rewrite E. auto.
Qed.

(* every record's INFO value is recovered from the stored array *)
Theorem info_array_roundtrip_lemma a : ty <> 2 -> info_array i ty recs = Ok a ->
  Forall (info_value_ok ty) vals ->
  map (dec_vec (missv ty) (fillv ty)) (split_rows (length recs) w1 (a_vals a)) = map (norm_info ty w1) vals.
Proof.
  intros Hty Ha Hok. unfold info_array in Ha. fold vals in Ha. fold w in Ha.
  assert (ty =? 2 = false) as Hty2 by lia. rewrite Hty2 in Ha.
  destruct (type_dtype ty _) as [dt|e] eqn:Ed; cbn [bind] in Ha; [|discriminate].
  inversion Ha; subst a. cbn [a_vals]. clear Ha.
  replace (length recs) with (length vals) by (unfold vals; apply map_length).
  rewrite (split_rows_flat_map (info_row ty w) w1 vals).
  - rewrite map_map. apply map_ext_in. intros iv Hin. rewrite Forall_forall in Hok.
    apply info_row_decodes; [apply Hok; exact Hin|apply width_bounds; exact Hin].
  - apply Forall_forall. intros iv Hin. rewrite Forall_forall in Hok.
    apply info_row_length; [apply Hok; exact Hin|apply width_bounds; exact Hin].
Qed.
End InfoArray.

(* ---- FORMAT ---------------------------------------------------------------------------------- *)
(* per sample: '.' (or a dropped trailing key) is stored missing-then-fill and reads back as the
   one-element vector [missing]; an absent FORMAT key is a row of missing for every sample *)
Definition fmt_sample_ok (ty : Z) (s : option vec) : Prop :=
  match s with Some v => Forall (cell_ok (missv ty) (fillv ty)) v /\ v <> [] | None => True end.
Definition fmt_value_ok (ty : Z) (ns : nat) (fv : fmtval) : Prop :=
  match fv with FSamples per => length per = ns /\ Forall (fmt_sample_ok ty) per | FAbsent => True end.
Definition norm_sample (w1 : nat) (s : option vec) : option vec :=
  match s with
  | None => if (w1 =? 1)%nat then None else Some [None]
  | Some v => if all_missing v && (length v =? w1)%nat then None else Some v
  end.
Definition norm_fmt (w1 ns : nat) (fv : fmtval) : list (option vec) :=
  match fv with FAbsent => repeat None ns | FSamples per => map (norm_sample w1) per end.

Lemma sample_row_length ty w1 (s : option vec) : (1 <= w1)%nat ->
  match s with Some v => (length v <= w1)%nat | None => True end ->
  length (match s with
          | None => missv ty :: zrepeat (fillv ty) (Z.of_nat w1 - 1)
          | Some v => map (Spec.enc_cell ty) v ++ zrepeat (fillv ty) (Z.of_nat w1 - zlen v)
          end) = w1.
Proof.
  intros H1 Hs. destruct s as [v|]; unfold zrepeat, zlen.
  - rewrite app_length, map_length, repeat_length. lia.
  - cbn [length]. rewrite repeat_length. lia.
Qed.

Lemma sample_row_decodes ty w1 (s : option vec) : (1 <= w1)%nat -> fmt_sample_ok ty s ->
  match s with Some v => (length v <= w1)%nat | None => True end ->
  dec_vec (missv ty) (fillv ty)
    (match s with
     | None => missv ty :: zrepeat (fillv ty) (Z.of_nat w1 - 1)
     | Some v => map (Spec.enc_cell ty) v ++ zrepeat (fillv ty) (Z.of_nat w1 - zlen v)
     end) = norm_sample w1 s.
Proof.
  intros H1 Hok Hl. destruct s as [v|].
  - destruct Hok as [Hc Hne]. cbn [norm_sample].
    pose proof (vec_roundtrip (missv ty) (fillv ty) (sentinels_distinct ty) w1 (Some v) ltac:(lia)) as R.
    simpl in R. specialize (R (conj Hc (conj Hl Hne))). etransitivity; [|exact R].
    f_equal. unfold zrepeat, zlen.
    replace (Z.to_nat (Z.of_nat w1 - Z.of_nat (length v))) with (w1 - length v)%nat by lia.
    reflexivity.
  - cbn [norm_sample]. unfold dec_vec, zrepeat. cbn [forallb]. rewrite Z.eqb_refl. cbn [andb].
    replace (Z.to_nat (Z.of_nat w1 - 1)) with (w1 - 1)%nat by lia.
    destruct (Nat.eqb_spec w1 1) as [->|Hn].
    + reflexivity.
    + destruct (w1 - 1)%nat as [|k] eqn:Ek; [lia|]. cbn [repeat forallb].
      assert (missv ty =? fillv ty = false) as -> by (pose proof (sentinels_distinct ty); lia).
      cbn [strip_fill]. assert (missv ty =? fillv ty = false) as -> by (pose proof (sentinels_distinct ty); lia).
      rewrite Z.eqb_refl. cbn [map]. unfold dec_cell. rewrite Z.eqb_refl. reflexivity.
Qed.

Lemma map_repeat {A B} (f : A -> B) x n : map f (repeat x n) = repeat (f x) n.
Proof. induction n as [|n IH]; [reflexivity|]. cbn [repeat map]. rewrite IH. reflexivity. Qed.
Lemma flat_map_length_const {A} (f : A -> list Z) (k : nat) (l : list A) :
  Forall (fun x => length (f x) = k) l -> length (flat_map f l) = (length l * k)%nat.
Proof. induction 1 as [|x tl Hx _ IH]; [reflexivity|]. cbn [flat_map length]. rewrite app_length, IH, Hx. lia. Qed.

Lemma split_rows_repeat (x : Z) (w : nat) : forall n, split_rows n w (repeat x (n * w)) = repeat (repeat x w) n.
Proof.
  induction n as [|n IH]; [reflexivity|]. cbn [split_rows repeat]. replace (S n * w)%nat with (w + n * w)%nat by lia.
  rewrite repeat_app. rewrite firstn_app, repeat_length, Nat.sub_diag, firstn_all2 by (rewrite repeat_length; lia).
  cbn [firstn]. rewrite app_nil_r. rewrite skipn_app, repeat_length, Nat.sub_diag, skipn_all2 by (rewrite repeat_length; lia).
  cbn [skipn app]. rewrite IH. reflexivity.
Qed.

Section FmtArray.
Variables (i ty : Z) (ns : nat) (recs : list record).
Let vals := map (fun r => nth (Z.to_nat i) (r_fmt r) FAbsent) recs.
Let w := fmt_width vals.
Let w1 := Z.to_nat (Z.max w 1).

Lemma fmt_width_bounds fv per s v : In fv vals -> fv = FSamples per -> In s per -> s = Some v -> (length v <= w1)%nat.
Proof.
  intros Hin -> Hs ->. assert (zlen v <= w); [|unfold zlen in *; lia].
  unfold w, fmt_width. eapply Z.le_trans; [|apply maxl_ge; apply in_flat_map; exists (FSamples per); split; [exact Hin|cbn [fmt_rec_width]; left; reflexivity]].
  apply maxl_ge. apply in_map_iff. exists (Some v). auto.
Qed.

Definition sample_row (s : option vec) : list Z :=
  match s with
  | None => missv ty :: zrepeat (fillv ty) (Z.max w 1 - 1)
  | Some v => map (Spec.enc_cell ty) v ++ zrepeat (fillv ty) (Z.max w 1 - zlen v)
  end.

Lemma fmt_row_samples fv : In fv vals -> fmt_value_ok ty ns fv ->
  map (dec_vec (missv ty) (fillv ty)) (split_rows ns w1 (fmt_row ty w ns fv)) = norm_fmt w1 ns fv.
Proof.
  intros Hin Hok. assert (W1: (1 <= w1)%nat) by (unfold w1; lia).
  assert (Ew: Z.max w 1 = Z.of_nat w1) by (unfold w1; lia).
  destruct fv as [|per]; cbn [fmt_row norm_fmt].
  - unfold zrepeat. replace (Z.to_nat (Z.of_nat ns * Z.max w 1)) with (ns * w1)%nat by lia.
    rewrite split_rows_repeat. rewrite map_repeat. f_equal.
    unfold dec_vec. rewrite forallb_repeat_miss. reflexivity.
  - destruct Hok as [Hlen Hs]. rewrite <- Hlen.
    rewrite (split_rows_flat_map _ w1 per).
    + rewrite map_map. apply map_ext_in. intros s Hin_s. rewrite Forall_forall in Hs. rewrite Ew.
      apply sample_row_decodes; [exact W1|apply Hs; exact Hin_s|].
      destruct s as [v|]; [|exact I]. eapply fmt_width_bounds; eauto.
    + apply Forall_forall. intros s Hin_s. rewrite Ew. apply sample_row_length; [exact W1|].
      destruct s as [v|]; [|exact I]. eapply fmt_width_bounds; eauto.
Qed.

Lemma fmt_row_length fv : In fv vals -> fmt_value_ok ty ns fv -> length (fmt_row ty w ns fv) = (ns * w1)%nat.
Proof.
  intros Hin Hok. assert (W1: (1 <= w1)%nat) by (unfold w1; lia).
  assert (Ew: Z.max w 1 = Z.of_nat w1) by (unfold w1; lia).
  destruct fv as [|per]; cbn [fmt_row].
  - unfold zrepeat. rewrite repeat_length. lia.
  - destruct Hok as [Hlen Hs]. rewrite <- Hlen. apply flat_map_length_const.
    apply Forall_forall. intros s Hin_s. rewrite Ew. apply sample_row_length; [exact W1|].
    destruct s as [v|]; [|exact I]. eapply fmt_width_bounds; eauto.
Qed.

(* every record's per-sample FORMAT vectors are recovered from the stored array *)
Theorem fmt_array_roundtrip_lemma a : fmt_array i ty ns recs = Ok a ->
  Forall (fmt_value_ok ty ns) vals ->
  map (fun row => map (dec_vec (missv ty) (fillv ty)) (split_rows ns w1 row)) (split_rows (length recs) (ns * w1) (a_vals a))
  = map (norm_fmt w1 ns) vals.
Proof.
  intros Ha Hok. unfold fmt_array in Ha. fold vals in Ha. fold w in Ha.
  destruct (type_dtype ty _) as [dt|e] eqn:Ed; cbn [bind] in Ha; [|discriminate].
  inversion Ha; subst a. cbn [a_vals]. clear Ha.
  replace (length recs) with (length vals) by (unfold vals; apply map_length).
  rewrite Forall_forall in Hok.
  rewrite (split_rows_flat_map (fmt_row ty w ns) (ns * w1) vals).
  - rewrite map_map. apply map_ext_in. intros fv Hin. apply fmt_row_samples; [exact Hin|apply Hok; exact Hin].
  - apply Forall_forall. intros fv Hin. apply fmt_row_length; [exact Hin|apply Hok; exact Hin].
Qed.
End FmtArray.

(* ---- alleles ---------------------------------------------------------------------------------- *)
Lemma strip_fill_plain fill xs k : Forall (fun x => x <> fill) xs -> strip_fill fill (xs ++ repeat fill k) = xs.
Proof.
  induction 1 as [|x tl Hx _ IH]; cbn [app strip_fill].
  - destruct k; cbn [repeat strip_fill]; [reflexivity|]. rewrite Z.eqb_refl. reflexivity.
  - assert (x =? fill = false) as -> by lia. rewrite IH. reflexivity.
Qed.

Definition dec_alleles (row : list Z) : Z * list Z := (hd 0 row, strip_fill STR_FILL (tl row)).

Lemma alts_le_max recs r : In r recs -> zlen (r_alts r) <= max_alleles recs - 1.
Proof. intros H. unfold max_alleles. assert (zlen (r_alts r) <= maxl (map (fun r => zlen (r_alts r)) recs) 0); [|lia]. apply maxl_ge. apply in_map_iff. eauto. Qed.

Theorem alleles_roundtrip_lemma recs :
  Forall (fun r => Forall (fun x => x <> STR_FILL) (r_alts r)) recs ->
  map dec_alleles (split_rows (length recs) (Z.to_nat (max_alleles recs)) (flat_map (allele_row (max_alleles recs)) recs))
  = map (fun r => (r_ref r, r_alts r)) recs.
Proof.
  intros H. rewrite Forall_forall in H.
  rewrite (split_rows_flat_map (allele_row (max_alleles recs)) (Z.to_nat (max_alleles recs)) recs).
  - rewrite map_map. apply map_ext_in. intros r Hin. unfold dec_alleles, allele_row. cbn [hd tl]. f_equal.
    unfold zrepeat. apply strip_fill_plain. apply H. exact Hin.
  - apply Forall_forall. intros r Hin. unfold allele_row. cbn [length]. rewrite app_length. unfold zrepeat. rewrite repeat_length.
    pose proof (alts_le_max recs r Hin). unfold zlen in *. lia.
Qed.

(* ---- filters ---------------------------------------------------------------------------------- *)
Definition dec_filters (nf : Z) (row : list Z) : list Z :=
  filter (fun f => nth (Z.to_nat f) row 0 =? 1) (map Z.of_nat (seq 0 (Z.to_nat nf))).

Lemma filter_row_length nf r : length (filter_row nf r) = Z.to_nat nf.
Proof. unfold filter_row. rewrite !map_length, seq_length. reflexivity. Qed.

Lemma filter_row_nth nf r k : (k < Z.to_nat nf)%nat ->
  nth k (filter_row nf r) 0 = match r_filters r with Some fs => if existsb (Z.eqb (Z.of_nat k)) fs then 1 else 0 | None => 0 end.
Proof.
  intros Hk. unfold filter_row. rewrite map_map.
  set (g := fun x : nat => match r_filters r with Some fs => if existsb (Z.eqb (Z.of_nat x)) fs then 1 else 0 | None => 0 end).
  rewrite (nth_indep _ 0 (g 0%nat)) by (rewrite map_length, seq_length; exact Hk).
  rewrite (map_nth g). rewrite seq_nth by exact Hk. reflexivity.
Qed.

(* the stored row determines exactly which declared filters the record carries ('.' = none) *)
Theorem filters_roundtrip_lemma nf r : 0 <= nf ->
  dec_filters nf (filter_row nf r) =
  filter (fun f => match r_filters r with Some fs => existsb (Z.eqb f) fs | None => false end) (map Z.of_nat (seq 0 (Z.to_nat nf))).
Proof.
  intros Hnf. unfold dec_filters. apply filter_ext_in. intros f Hin. apply in_map_iff in Hin. destruct Hin as [k [<- Hk]].
  apply in_seq in Hk. rewrite Nat2Z.id. rewrite filter_row_nth by lia.
  destruct (r_filters r) as [fs|]; [|reflexivity]. destruct (existsb (Z.eqb (Z.of_nat k)) fs); reflexivity.
Qed.

(* ---- genotypes -------------------------------------------------------------------------------- *)
Definition call_ok (pl : Z) (c : list (option Z) * bool) : Prop :=
  Forall (cell_ok (-1) (-2)) (fst c) /\ fst c <> [] /\ zlen (fst c) <= pl.
Definition gt_ok (pl : Z) (ns : nat) (r : record) : Prop :=
  match r_gt r with Some calls => length calls = ns /\ Forall (call_ok pl) calls | None => True end.
(* absent GT, and a call whose alleles are all missing at full ploidy, read back as "no call" *)
Definition norm_gt (pl : nat) (ns : nat) (r : record) : list (option vec) :=
  match r_gt r with
  | None => repeat None ns
  | Some calls => map (fun c : list (option Z) * bool => if all_missing (fst c) && (length (fst c) =? pl)%nat then None else Some (fst c)) calls
  end.

Lemma call_row_length pl (c : list (option Z) * bool) : call_ok pl c ->
  length (map (Spec.enc_cell 0) (fst c) ++ zrepeat (-2) (pl - zlen (fst c))) = Z.to_nat pl.
Proof. intros [_ [_ Hl]]. rewrite app_length, map_length. unfold zrepeat, zlen in *. rewrite repeat_length. lia. Qed.

Lemma call_row_decodes pl (c : list (option Z) * bool) : 1 <= pl -> call_ok pl c ->
  dec_vec (-1) (-2) (map (Spec.enc_cell 0) (fst c) ++ zrepeat (-2) (pl - zlen (fst c)))
  = if all_missing (fst c) && (length (fst c) =? Z.to_nat pl)%nat then None else Some (fst c).
Proof.
  intros Hpl [Hc [Hne Hl]].
  unfold zlen in Hl.
  assert (Hl2: (length (fst c) <= Z.to_nat pl)%nat) by lia.
  assert (Hw: (0 < Z.to_nat pl)%nat) by lia.
  assert (Hd: -1 <> -2) by lia.
  pose proof (vec_roundtrip (-1) (-2) Hd (Z.to_nat pl) (Some (fst c)) Hw (conj Hc (conj Hl2 Hne))) as R.
  cbv beta iota in R. etransitivity; [|exact R]. unfold enc_vec.
  f_equal. unfold zrepeat, zlen. replace (Z.to_nat (pl - Z.of_nat (length (fst c)))) with (Z.to_nat pl - length (fst c))%nat by lia.
  reflexivity.
Qed.

Theorem gt_row_roundtrip_lemma pl ns r : 1 <= pl -> gt_ok pl ns r ->
  length (fst (gt_rows pl ns r)) = (ns * Z.to_nat pl)%nat /\
  map (dec_vec (-1) (-2)) (split_rows ns (Z.to_nat pl) (fst (gt_rows pl ns r))) = norm_gt (Z.to_nat pl) ns r.
Proof.
  intros Hpl Hok. unfold gt_rows, norm_gt, gt_ok in *. destruct (r_gt r) as [calls|]; cbn [fst].
  - destruct Hok as [Hlen Hc]. rewrite <- Hlen. rewrite Forall_forall in Hc. split.
    + apply flat_map_length_const. apply Forall_forall. intros c Hin. apply call_row_length. apply Hc. exact Hin.
    + rewrite (split_rows_flat_map _ (Z.to_nat pl) calls).
      * rewrite map_map. apply map_ext_in. intros c Hin. apply call_row_decodes; [exact Hpl|apply Hc; exact Hin].
      * apply Forall_forall. intros c Hin. apply call_row_length. apply Hc. exact Hin.
  - unfold zrepeat. replace (Z.to_nat (Z.of_nat ns * pl)) with (ns * Z.to_nat pl)%nat by lia. split; [apply repeat_length|].
    rewrite split_rows_repeat, map_repeat. f_equal. unfold dec_vec. rewrite forallb_repeat_miss. reflexivity.
Qed.

(* the phased flag of every call with at least two alleles is stored (fewer: undetermined by the input) *)
Lemma gt_phased_cells pl ns r calls : r_gt r = Some calls ->
  snd (gt_rows pl ns r) = map (fun c : list (option Z) * bool => if 2 <=? zlen (fst c) then (if snd c then 1 else 0) else DONTCARE) calls.
Proof. intros E. unfold gt_rows. rewrite E. reflexivity. Qed.

(* ---- the whole store --------------------------------------------------------------------------- *)
Lemma mapM_ok_nth {A B} (f : A -> res B) : forall l out, mapM f l = Ok out ->
  length out = length l /\ forall k x, nth_error l k = Some x -> exists y, nth_error out k = Some y /\ f x = Ok y.
Proof.
  induction l as [|x tl IH]; intros out H; cbn [mapM] in H.
  - inversion H; subst. split; [reflexivity|]. intros [|k] y Hk; discriminate.
  - destruct (f x) as [y|e] eqn:Ef; cbn [bind] in H; [|discriminate].
    destruct (mapM f tl) as [ys|e] eqn:Em; cbn [bind] in H; [|discriminate].
    inversion H; subst. destruct (IH ys eq_refl) as [L N]. split; [cbn [length]; lia|].
    intros [|k] z Hk; cbn [nth_error] in *.
    + inversion Hk; subst. eauto.
    + apply N. exact Hk.
Qed.

Definition info_items (h : header) := combine (seq 0 (length (h_infos h))) (h_infos h).
Definition fmt_items (h : header) := combine (seq 0 (length (h_fmts h))) (h_fmts h).

Lemma spec_encode_structure h recs0 arrs : spec_encode h recs0 = Ok arrs ->
  exists cdt pdt ldt infos fmts gts,
    arrs = fixed_arrays h (sort_records recs0) cdt pdt ldt ++ infos ++ fmts ++ gts /\
    mapM (fun it => info_array (Z.of_nat (fst it)) (snd (snd it)) (sort_records recs0)) (info_items h) = Ok infos /\
    (if Nat.eqb (h_nsamples h) 0 then Ok [] else
       mapM (fun it => fmt_array (Z.of_nat (fst it)) (snd (snd it)) (h_nsamples h) (sort_records recs0)) (fmt_items h)) = Ok fmts /\
    (if h_has_gt h && negb (Nat.eqb (h_nsamples h) 0) then gt_arrays (h_nsamples h) (sort_records recs0) else Ok []) = Ok gts.
Proof.
  unfold spec_encode. intros H.
  destruct (min_int_dtype 0 (h_ncontigs h)) as [cdt|] eqn:E1; cbn [bind] in H; [|discriminate].
  destruct (int_values_dtype (map r_pos (sort_records recs0))) as [pdt|] eqn:E2; cbn [bind] in H; [|discriminate].
  destruct (int_values_dtype (map r_reflen (sort_records recs0))) as [ldt|] eqn:E3; cbn [bind] in H; [|discriminate].
  fold (info_items h) in H. fold (fmt_items h) in H.
  destruct (mapM _ (info_items h)) as [infos|] eqn:E4; cbn [bind] in H; [|discriminate].
  match type of H with bind ?x _ = _ => destruct x as [fmts|] eqn:E5 end; cbn [bind] in H; [|discriminate].
  match type of H with bind ?x _ = _ => destruct x as [gts|] eqn:E6 end; cbn [bind] in H; [|discriminate].
  inversion H; subst. exists cdt, pdt, ldt, infos, fmts, gts. auto.
Qed.

(* The decoder: a function of the stored arrays (and the header) only. *)
Definition nth_arr (arrs : list array) (k : nat) : array :=
  nth k arrs {| a_name := AFixed (-1); a_dtype := 0; a_shape := []; a_vals := [] |}.
Definition shape_at (a : array) (k : nat) : nat := match nth_error (a_shape a) k with Some w => Z.to_nat w | None => 1%nat end.

Inductive info_col := FlagCol (present : list bool) | VecCol (vals : list (option vec)).

Definition dec_info_array (m : nat) (ty : Z) (a : array) : info_col :=
  if ty =? 2 then FlagCol (map (fun x => x =? 1) (a_vals a))
  else VecCol (map (dec_vec (missv ty) (fillv ty)) (split_rows m (shape_at a 1) (a_vals a))).
Definition dec_fmt_array (m ns : nat) (ty : Z) (a : array) : list (list (option vec)) :=
  map (fun row => map (dec_vec (missv ty) (fillv ty)) (split_rows ns (shape_at a 2) row))
      (split_rows m (ns * shape_at a 2) (a_vals a)).

Record view := {
  v_contig : list Z; v_pos : list Z; v_reflen : list Z; v_id : list (option Z);
  v_alleles : list (Z * list Z); v_qual : list (option Z); v_filters : list (list Z);
  v_info : list info_col; v_fmt : list (list (list (option vec)));
  v_gt : option (list (list (option vec)) * list Z) }.

Definition decode_store (h : header) (arrs : list array) : view :=
  let m := length (a_vals (nth_arr arrs 0)) in
  let ns := h_nsamples h in
  let ni := length (h_infos h) in
  let nf := if Nat.eqb ns 0 then 0%nat else length (h_fmts h) in
  {| v_contig := a_vals (nth_arr arrs 0);
     v_pos := a_vals (nth_arr arrs 1);
     v_reflen := a_vals (nth_arr arrs 2);
     v_id := map (fun p : Z * Z => if snd p =? 1 then None else Some (fst p)) (combine (a_vals (nth_arr arrs 3)) (a_vals (nth_arr arrs 4)));
     v_alleles := map dec_alleles (split_rows m (shape_at (nth_arr arrs 5) 1) (a_vals (nth_arr arrs 5)));
     v_qual := map (fun q => if q =? F32_MISSING then None else Some q) (a_vals (nth_arr arrs 6));
     v_filters := map (dec_filters (h_nfilters h)) (split_rows m (Z.to_nat (h_nfilters h)) (a_vals (nth_arr arrs 7)));
     v_info := map (fun it : nat * (Z * Z) => dec_info_array m (snd (snd it)) (nth_arr arrs (8 + fst it))) (info_items h);
     v_fmt := if Nat.eqb ns 0 then [] else
              map (fun it : nat * (Z * Z) => dec_fmt_array m ns (snd (snd it)) (nth_arr arrs (8 + ni + fst it))) (fmt_items h);
     v_gt := if h_has_gt h && negb (Nat.eqb ns 0) then
               let g := nth_arr arrs (8 + ni + nf) in
               Some (map (fun row => map (dec_vec (-1) (-2)) (split_rows ns (shape_at g 2) row)) (split_rows m (ns * shape_at g 2) (a_vals g)),
                     a_vals (nth_arr arrs (8 + ni + nf + 1)))
             else None |}.

(* What the store is specified to determine, computed from the records. *)
Definition info_column (i : nat) (recs : list record) : list infoval := map (fun r => nth i (r_info r) IAbsent) recs.
Definition fmt_column (i : nat) (recs : list record) : list fmtval := map (fun r => nth i (r_fmt r) FAbsent) recs.
Definition info_view (ty : Z) (vals : list infoval) : info_col :=
  if ty =? 2 then FlagCol (map (fun iv => match iv with IAbsent => false | _ => true end) vals)
  else VecCol (map (norm_info ty (Z.to_nat (Z.max (info_width ty vals) 1))) vals).
Definition fmt_view (ty : Z) (ns : nat) (vals : list fmtval) : list (list (option vec)) :=
  map (norm_fmt (Z.to_nat (Z.max (fmt_width vals) 1)) ns) vals.

Definition records_view (h : header) (recs : list record) : view :=
  let ns := h_nsamples h in
  {| v_contig := map r_contig recs; v_pos := map r_pos recs; v_reflen := map r_reflen recs; v_id := map r_id recs;
     v_alleles := map (fun r => (r_ref r, r_alts r)) recs;
     v_qual := map r_qual recs;
     v_filters := map (fun r => filter (fun f => match r_filters r with Some fs => existsb (Z.eqb f) fs | None => false end)
                                       (map Z.of_nat (seq 0 (Z.to_nat (h_nfilters h))))) recs;
     v_info := map (fun it : nat * (Z * Z) => info_view (snd (snd it)) (info_column (fst it) recs)) (info_items h);
     v_fmt := if Nat.eqb ns 0 then [] else map (fun it : nat * (Z * Z) => fmt_view (snd (snd it)) ns (fmt_column (fst it) recs)) (fmt_items h);
     v_gt := if h_has_gt h && negb (Nat.eqb ns 0) then
               Some (map (norm_gt (Z.to_nat (gt_ploidy recs)) ns) recs, flat_map (fun r => snd (gt_rows (gt_ploidy recs) ns r)) recs)
             else None |}.

(* well-formed input: values never collide with the sentinels, vectors are non-empty, every
   sample of a FORMAT value / genotype is there *)
Definition records_ok (h : header) (recs : list record) : Prop :=
  0 <= h_nfilters h /\
  Forall (fun r => Forall (fun x => x <> STR_FILL) (r_alts r) /\ (forall q, r_qual r = Some q -> q <> F32_MISSING)) recs /\
  (forall i nty, nth_error (h_infos h) i = Some nty -> Forall (info_value_ok (snd nty)) (info_column i recs)) /\
  (forall i nty, nth_error (h_fmts h) i = Some nty -> Forall (fmt_value_ok (snd nty) (h_nsamples h)) (fmt_column i recs)) /\
  Forall (gt_ok (gt_ploidy recs) (h_nsamples h)) recs.

(* ---- pieces of the main proof ------------------------------------------------------------------ *)
Lemma nth_arr_app_r (pre post : list array) k : nth_arr (pre ++ post) (length pre + k) = nth_arr post k.
Proof. unfold nth_arr. rewrite app_nth2 by lia. f_equal. lia. Qed.

Lemma combine_seq_nth {A} (l : list A) : forall s k x, nth_error l k = Some x ->
  nth_error (combine (seq s (length l)) l) k = Some ((s + k)%nat, x).
Proof.
  induction l as [|y tl IH]; intros s [|k] x H; cbn [nth_error length seq combine] in *; try discriminate.
  - inversion H; subst. f_equal. f_equal. lia.
  - rewrite (IH (S s) k x H). f_equal. f_equal. lia.
Qed.
Lemma combine_seq_in {A} (l : list A) : forall s it, In it (combine (seq s (length l)) l) ->
  exists k, fst it = (s + k)%nat /\ nth_error l k = Some (snd it) /\ nth_error (combine (seq s (length l)) l) k = Some it.
Proof.
  induction l as [|y tl IH]; intros s it H; cbn [length seq combine] in H; [contradiction|].
  destruct H as [<-|H].
  - exists 0%nat. cbn [fst snd nth_error]. repeat split. lia.
  - destruct (IH (S s) it H) as [k [E1 [E2 E3]]]. exists (S k). cbn [nth_error]. repeat split; [lia|exact E2|exact E3].
Qed.

Lemma id_column recs :
  map (fun p : Z * Z => if snd p =? 1 then None else Some (fst p))
      (combine (map (fun r => match r_id r with Some s => s | None => STR_MISSING end) recs)
               (map (fun r => match r_id r with Some _ => 0 | None => 1 end) recs)) = map r_id recs.
Proof. induction recs as [|r tl IH]; [reflexivity|]. cbn [map combine fst snd]. rewrite IH. destruct (r_id r); reflexivity. Qed.

Lemma qual_column recs : Forall (fun r => forall q, r_qual r = Some q -> q <> F32_MISSING) recs ->
  map (fun q => if q =? F32_MISSING then None else Some q) (map (fun r => match r_qual r with Some q => q | None => F32_MISSING end) recs) = map r_qual recs.
Proof.
  induction 1 as [|r tl Hr _ IH]; [reflexivity|]. cbn [map]. rewrite IH. f_equal.
  destruct (r_qual r) as [q|]; [|reflexivity]. specialize (Hr q eq_refl). assert (q =? F32_MISSING = false) as -> by lia. reflexivity.
Qed.

Lemma filters_column nf recs : 0 <= nf ->
  map (dec_filters nf) (split_rows (length recs) (Z.to_nat nf) (flat_map (filter_row nf) recs)) =
  map (fun r => filter (fun f => match r_filters r with Some fs => existsb (Z.eqb f) fs | None => false end) (map Z.of_nat (seq 0 (Z.to_nat nf)))) recs.
Proof.
  intros Hnf. rewrite (split_rows_flat_map (filter_row nf) (Z.to_nat nf) recs).
  - rewrite map_map. apply map_ext. intros r. apply filters_roundtrip_lemma. exact Hnf.
  - apply Forall_forall. intros r _. apply filter_row_length.
Qed.

Lemma info_column_decodes k ty recs a : info_array (Z.of_nat k) ty recs = Ok a ->
  Forall (info_value_ok ty) (info_column k recs) ->
  dec_info_array (length recs) ty a = info_view ty (info_column k recs).
Proof.
  intros Ha Hok. unfold dec_info_array, info_view. destruct (ty =? 2) eqn:Ety.
  - unfold info_array in Ha. rewrite Ety in Ha. inversion Ha; subst a. cbn [a_vals]. rewrite Nat2Z.id.
    unfold info_column. rewrite !map_map. f_equal. apply map_ext. intros r. destruct (nth k (r_info r) IAbsent); reflexivity.
  - assert (Hs: shape_at a 1 = Z.to_nat (Z.max (info_width ty (info_column k recs)) 1)).
    { unfold info_array in Ha. rewrite Ety in Ha. rewrite Nat2Z.id in Ha. fold (info_column k recs) in Ha.
      destruct (type_dtype ty _) as [dt|e]; cbn [bind] in Ha; [|discriminate]. inversion Ha; subst a. unfold shape_at. cbn [a_shape].
      destruct (1 <? info_width ty (info_column k recs)) eqn:Ew; cbn [nth_error]; lia. }
    rewrite Hs. f_equal.
    pose proof (info_array_roundtrip_lemma (Z.of_nat k) ty recs a ltac:(lia) Ha) as R. rewrite Nat2Z.id in R.
    apply R. exact Hok.
Qed.

Lemma fmt_column_decodes k ty ns recs a : fmt_array (Z.of_nat k) ty ns recs = Ok a ->
  Forall (fmt_value_ok ty ns) (fmt_column k recs) ->
  dec_fmt_array (length recs) ns ty a = fmt_view ty ns (fmt_column k recs).
Proof.
  intros Ha Hok. unfold dec_fmt_array, fmt_view.
  assert (Hs: shape_at a 2 = Z.to_nat (Z.max (fmt_width (fmt_column k recs)) 1)).
  { unfold fmt_array in Ha. rewrite Nat2Z.id in Ha. fold (fmt_column k recs) in Ha.
    destruct (type_dtype ty _) as [dt|e]; cbn [bind] in Ha; [|discriminate]. inversion Ha; subst a. unfold shape_at. cbn [a_shape].
    destruct (1 <? fmt_width (fmt_column k recs)) eqn:Ew; cbn [nth_error]; lia. }
  rewrite Hs.
  pose proof (fmt_array_roundtrip_lemma (Z.of_nat k) ty ns recs a Ha) as R. rewrite Nat2Z.id in R. apply R. exact Hok.
Qed.

Lemma gt_ploidy_pos recs : 1 <= gt_ploidy recs.
Proof. unfold gt_ploidy. apply maxl_ge_init. Qed.

Lemma gt_column_decodes ns recs : Forall (gt_ok (gt_ploidy recs) ns) recs ->
  let pl := gt_ploidy recs in
  map (fun row => map (dec_vec (-1) (-2)) (split_rows ns (Z.to_nat pl) row))
      (split_rows (length recs) (ns * Z.to_nat pl) (flat_map fst (map (gt_rows pl ns) recs)))
  = map (norm_gt (Z.to_nat pl) ns) recs.
Proof.
  intros Hok pl. rewrite Forall_forall in Hok. pose proof (gt_ploidy_pos recs) as Hpl. fold pl in Hpl.
  rewrite flat_map_concat_map, map_map, <- flat_map_concat_map.
  rewrite (split_rows_flat_map (fun r => fst (gt_rows pl ns r)) (ns * Z.to_nat pl) recs).
  - rewrite map_map. apply map_ext_in. intros r Hin. apply gt_row_roundtrip_lemma; [exact Hpl|apply Hok; exact Hin].
  - apply Forall_forall. intros r Hin. apply gt_row_roundtrip_lemma; [exact Hpl|apply Hok; exact Hin].
Qed.

(* ---- the main theorem: decoding the store returns the records' view --------------------------- *)
Theorem spec_roundtrip_lemma h recs0 arrs :
  spec_encode h recs0 = Ok arrs -> records_ok h (sort_records recs0) ->
  decode_store h arrs = records_view h (sort_records recs0).
Proof.
  intros Henc [Hnf [Hrec [Hinfo [Hfmt Hgt]]]].
  destruct (spec_encode_structure h recs0 arrs Henc) as [cdt [pdt [ldt [infos [fmts [gts [-> [Ei [Ef Eg]]]]]]]]].
  set (recs := sort_records recs0) in *.
  set (fixed := fixed_arrays h recs cdt pdt ldt).
  assert (Lfix: length fixed = 8%nat) by reflexivity.
  destruct (mapM_ok_nth _ _ _ Ei) as [Li Ni].
  assert (Lii: length (info_items h) = length (h_infos h)).
  { unfold info_items. rewrite combine_length, seq_length. lia. }
  assert (Lfi: length (fmt_items h) = length (h_fmts h)).
  { unfold fmt_items. rewrite combine_length, seq_length. lia. }
  assert (M: length (a_vals (nth_arr (fixed ++ infos ++ fmts ++ gts) 0)) = length recs).
  { cbn. apply map_length. }
  unfold decode_store. rewrite M.
  assert (A5: nth_arr (fixed ++ infos ++ fmts ++ gts) 5 = nth_arr fixed 5) by reflexivity.
  unfold records_view. f_equal.
  - (* id *) cbn. apply id_column.
  - (* alleles *) rewrite A5. cbn [nth_arr nth fixed fixed_arrays a_vals]. unfold shape_at. cbn [a_shape nth_error].
    apply alleles_roundtrip_lemma. eapply Forall_impl; [|exact Hrec]. intros r [H _]. exact H.
  - (* qual *) cbn. apply qual_column. eapply Forall_impl; [|exact Hrec]. intros r [_ H]. exact H.
  - (* filters *) cbn [nth_arr nth fixed fixed_arrays app a_vals]. apply filters_column. exact Hnf.
  - (* info *) apply map_ext_in. intros it Hin. unfold info_items in Hin.
    destruct (combine_seq_in (h_infos h) 0 it Hin) as [k [Ek [Enth Eit]]]. cbn [Nat.add] in Ek.
    destruct (Ni k it Eit) as [a [Ea Hinf]]. rewrite Ek.
    replace (nth_arr (fixed ++ infos ++ fmts ++ gts) (8 + k)) with a.
    + rewrite Ek in Hinf. apply info_column_decodes; [exact Hinf|]. apply (Hinfo k (snd it)). exact Enth.
    + rewrite <- Lfix. rewrite nth_arr_app_r. unfold nth_arr. rewrite app_nth1 by (apply nth_error_Some; congruence).
      symmetry. apply nth_error_nth. exact Ea.
  - (* fmt *) destruct (Nat.eqb (h_nsamples h) 0) eqn:Ens; [reflexivity|].
    destruct (mapM_ok_nth _ _ _ Ef) as [Lf Nf].
    apply map_ext_in. intros it Hin. unfold fmt_items in Hin.
    destruct (combine_seq_in (h_fmts h) 0 it Hin) as [k [Ek [Enth Eit]]]. cbn [Nat.add] in Ek.
    destruct (Nf k it Eit) as [a [Ea Hfm]]. rewrite Ek.
    replace (nth_arr (fixed ++ infos ++ fmts ++ gts) (8 + length (h_infos h) + k)) with a.
    + rewrite Ek in Hfm. apply fmt_column_decodes; [exact Hfm|]. apply (Hfmt k (snd it)). exact Enth.
    + rewrite <- Lfix, <- Nat.add_assoc. rewrite nth_arr_app_r. rewrite <- Lii, <- Li. rewrite nth_arr_app_r.
      unfold nth_arr. rewrite app_nth1 by (apply nth_error_Some; congruence).
      symmetry. apply nth_error_nth. exact Ea.
  - (* genotypes *) destruct (h_has_gt h && negb (Nat.eqb (h_nsamples h) 0)) eqn:Eh; [|reflexivity].
    assert (Ens: Nat.eqb (h_nsamples h) 0 = false).
    { apply andb_true_iff in Eh. destruct Eh as [_ Eh]. destruct (Nat.eqb (h_nsamples h) 0); [discriminate|reflexivity]. }
    rewrite Ens in *. destruct (mapM_ok_nth _ _ _ Ef) as [Lf _].
    unfold gt_arrays in Eg. destruct (int_values_dtype _) as [gdt|]; cbn [bind] in Eg; [|discriminate].
    injection Eg as Eg.
    assert (G0: forall j, nth_arr (fixed ++ infos ++ fmts ++ gts) (8 + length (h_infos h) + length (h_fmts h) + j) = nth_arr gts j).
    { intros j. rewrite <- Lfix, <- !Nat.add_assoc. rewrite nth_arr_app_r. rewrite <- Lii, <- Li. rewrite nth_arr_app_r.
      rewrite <- Lfi, <- Lf. rewrite nth_arr_app_r. reflexivity. }
    pose proof (G0 0%nat) as G00. rewrite Nat.add_0_r in G00. rewrite G00, (G0 1%nat). rewrite <- Eg. cbn [nth_arr nth a_vals]. unfold shape_at. cbn [a_shape nth_error].
    f_equal. f_equal.
    + apply gt_column_decodes. exact Hgt.
    + rewrite flat_map_concat_map, map_map, <- flat_map_concat_map. reflexivity.
Qed.
