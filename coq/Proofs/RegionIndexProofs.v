From Coq Require Import ZArith Arith List Bool Lia ZifyBool.
From B2Z Require Import Model.RegionIndex.
Import ListNotations.
Open Scope Z_scope.

Lemma runs_concat l : concat (runs l) = l.
Proof.
  induction l as [|r tl IH]; [reflexivity|]. cbn [runs].
  destruct (runs tl) as [|[|r' g] gs] eqn:E; cbn [concat app] in *.
  - rewrite <- IH. reflexivity.
  - rewrite <- IH. reflexivity.
  - destruct (ctg r =? ctg r'); cbn [concat app]; rewrite <- IH; reflexivity.
Qed.
Lemma runs_nonempty l : Forall (fun g => g <> []) (runs l).
Proof.
  induction l as [|r tl IH]; cbn [runs]; auto.
  destruct (runs tl) as [|[|r' g] gs] eqn:E.
  - repeat constructor. discriminate.
  - inversion IH; subst. congruence.
  - inversion IH; subst. destruct (ctg r =? ctg r'); repeat constructor; auto; discriminate.
Qed.
Lemma runs_uniform l : Forall (fun g => forall x y, In x g -> In y g -> ctg x = ctg y) (runs l).
Proof.
  induction l as [|r tl IH]; cbn [runs]; auto.
  pose proof (runs_nonempty tl) as NE.
  destruct (runs tl) as [|[|r' g] gs] eqn:E.
  - constructor; auto. intros x y [<-|[]] [<-|[]]; auto.
  - inversion NE; subst. congruence.
  - inversion IH as [|? ? Hg Hgs]; subst. destruct (Z.eqb_spec (ctg r) (ctg r')) as [Eq|Ne].
    + constructor; auto. intros x y Hx Hy.
      assert (G: forall z, In z (r :: r' :: g) -> ctg z = ctg r').
      { intros z [<-|Hz]; auto. apply Hg; simpl; auto. }
      rewrite (G x Hx), (G y Hy). reflexivity.
    + constructor; [intros x y [<-|[]] [<-|[]]; auto|]. constructor; auto.
Qed.
Fixpoint adjacent_differ (gs : list (list rec)) : Prop :=
  match gs with
  | g1 :: ((g2 :: _) as tl) => (forall x y, In x g1 -> In y g2 -> ctg x <> ctg y) /\ adjacent_differ tl
  | _ => True
  end.
Lemma runs_maximal l : adjacent_differ (runs l).
Proof.
  induction l as [|r tl IH]; cbn [runs]; [exact I|].
  pose proof (runs_uniform tl) as U. pose proof (runs_nonempty tl) as NE.
  destruct (runs tl) as [|[|r' g] gs] eqn:E.
  - exact I.
  - inversion NE; subst. congruence.
  - destruct (Z.eqb_spec (ctg r) (ctg r')) as [Eq|Ne].
    + destruct gs as [|g2 gs']; [exact I|]. cbn [adjacent_differ] in *. destruct IH as [H1 H2]. split; auto.
      intros x y [<-|Hx] Hy; [rewrite Eq|]; apply H1; simpl; auto.
    + cbn [adjacent_differ]. split; auto. intros x y [<-|[]] Hy. inversion U as [|? ? Hg _]; subst.
      rewrite (Hg y r' Hy (or_introl eq_refl)). auto.
Qed.

(* chunking: the chunks concatenate to the record list, each has at most cs records and
   all but the last exactly cs *)
Lemma chunks_concat cs : (1 <= cs)%nat -> forall fuel l, (length l <= fuel)%nat -> concat (chunks_of fuel cs l) = l.
Proof.
  intros Hcs. induction fuel as [|f IH]; intros l Hl.
  - destruct l; [reflexivity|cbn [length] in Hl; lia].
  - cbn [chunks_of]. destruct l as [|x tl]; [reflexivity|].
    cbn [concat]. rewrite IH.
    + apply firstn_skipn.
    + rewrite skipn_length. cbn [length] in *. lia.
Qed.
Lemma chunks_sizes cs : (1 <= cs)%nat -> forall fuel l, (length l <= fuel)%nat ->
  Forall (fun c => (1 <= length c <= cs)%nat) (chunks_of fuel cs l).
Proof.
  intros Hcs. induction fuel as [|f IH]; intros l Hl; [constructor|].
  cbn [chunks_of]. destruct l as [|x tl]; [constructor|]. constructor.
  - rewrite firstn_length. cbn [length]. lia.
  - apply IH. rewrite skipn_length. cbn [length] in *. lia.
Qed.

(* rows of the whole index: the groups they summarise *)
Fixpoint groups_from (chunks : list (list rec)) : list (list rec) :=
  match chunks with [] => [] | c :: tl => runs c ++ groups_from tl end.
Lemma groups_concat chunks : concat (groups_from chunks) = concat chunks.
Proof. induction chunks as [|c tl IH]; [reflexivity|]. cbn [groups_from concat]. rewrite concat_app, runs_concat, IH. reflexivity. Qed.
Lemma index_rows_count endf : forall chunks k, length (index_from endf k chunks) = length (groups_from chunks).
Proof. induction chunks as [|c tl IH]; intros k; cbn [index_from groups_from]; [reflexivity|]. rewrite !app_length, map_length, IH. reflexivity. Qed.

(* every record is summarised by exactly one row: the groups, in order, concatenate to the
   record list (so their sizes add up to n and their ranges partition 0..n-1) *)
Lemma rows_cover_once_lemma cs recs : (1 <= cs)%nat ->
  concat (groups_from (chunks_of (length recs) cs recs)) = recs.
Proof. intros H. rewrite groups_concat. apply chunks_concat; [exact H|lia]. Qed.

Lemma maxZ_spec l : forall d, (forall x, In x l -> x <= maxZ l d) /\ d <= maxZ l d /\ (In (maxZ l d) l \/ maxZ l d = d).
Proof.
  unfold maxZ. induction l as [|x tl IH]; intros d; cbn [fold_left].
  - split; [intros x []|split; [lia|auto]].
  - destruct (IH (Z.max d x)) as [H1 [H2 H3]]. split; [|split].
    + intros y [<-|Hy]; [lia|auto].
    + lia.
    + destruct H3 as [H3|H3]; [left; right; exact H3|].
      rewrite H3. destruct (Z.max_spec d x) as [[_ E]|[_ E]]; rewrite E; [left; left; reflexivity|right; reflexivity].
Qed.

Definition in_range (r : rec) : Prop := -2147483648 <= pos r + len r - 1 < 2147483648.
Lemma end_exact r : in_range r -> end_impl r = end_spec r.
Proof. unfold in_range, end_impl, end_spec, wrap32. intros H. rewrite Z.mod_small; lia. Qed.

Lemma row_of_eq k g : Forall in_range g -> row_of end_impl k g = row_of end_spec k g.
Proof.
  intros H. destruct g as [|r tl]; [reflexivity|]. cbn [row_of].
  inversion H as [|? ? Hr Htl]; subst. rewrite (end_exact r Hr).
  replace (map end_impl (r :: tl)) with (map end_spec (r :: tl)); [reflexivity|].
  apply map_ext_in. intros x Hx. symmetry. apply end_exact. rewrite Forall_forall in H. apply H. exact Hx.
Qed.

Lemma index_from_eq : forall chunks k, Forall (Forall in_range) chunks ->
  index_from end_impl k chunks = index_from end_spec k chunks.
Proof.
  induction chunks as [|c tl IH]; intros k H; [reflexivity|]. cbn [index_from].
  inversion H as [|? ? Hc Ht]; subst. rewrite IH by exact Ht. f_equal.
  apply map_ext_in. intros g Hg. apply row_of_eq.
  rewrite Forall_forall in *. intros x Hx. apply Hc.
  rewrite <- (runs_concat c). apply in_concat. exists g. split; assumption.
Qed.

Lemma in_firstn {X} : forall n (l : list X) x, In x (firstn n l) -> In x l.
Proof. induction n as [|n IH]; intros [|y l] x H; cbn [firstn] in H; try contradiction. destruct H as [<-|H]; [left; reflexivity|right; apply IH; exact H]. Qed.
Lemma in_skipn {X} : forall n (l : list X) x, In x (skipn n l) -> In x l.
Proof. induction n as [|n IH]; intros [|y l] x H; cbn [skipn] in H; try contradiction; auto. right. apply IH. exact H. Qed.

Lemma chunks_forall (P : rec -> Prop) cs : forall fuel l, Forall P l -> Forall (Forall P) (chunks_of fuel cs l).
Proof.
  induction fuel as [|f IH]; intros l H; [constructor|]. cbn [chunks_of]. destruct l as [|x tl]; [constructor|].
  constructor.
  - rewrite Forall_forall in *. intros y Hy. apply H. eapply in_firstn; exact Hy.
  - apply IH. rewrite Forall_forall in *. intros y Hy. apply H. eapply in_skipn; exact Hy.
Qed.

(* post-fix: for all inputs whose ends stay inside int32, the index the code builds is the
   specification index, for every chunk size *)
Lemma region_index_spec_lemma cs recs : Forall in_range recs -> create_index cs recs = spec_index cs recs.
Proof. intros H. unfold create_index, spec_index. apply index_from_eq. apply chunks_forall. exact H. Qed.

(* what a row says about its run *)
Lemma row_of_spec k g r tl : g = r :: tl ->
  row_of end_spec k g = [k; ctg r; pos r; pos (last g r); maxZ (map end_spec g) (end_spec r); Z.of_nat (length g)] /\
  (forall x, In x g -> end_spec x <= maxZ (map end_spec g) (end_spec r)) /\
  (exists x, In x g /\ end_spec x = maxZ (map end_spec g) (end_spec r)).
Proof.
  intros ->. split; [reflexivity|]. destruct (maxZ_spec (map end_spec (r :: tl)) (end_spec r)) as [H1 [H2 H3]]. split.
  - intros x Hx. apply H1. apply in_map. exact Hx.
  - destruct H3 as [H3|H3].
    + apply in_map_iff in H3. destruct H3 as [x [E Hx]]. exists x. split; [exact Hx|exact E].
    + exists r. split; [left; reflexivity|symmetry; exact H3].
Qed.
