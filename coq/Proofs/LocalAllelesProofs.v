From Coq Require Import ZArith Arith List Bool Lia ZifyBool Sorting.Sorted.
From B2Z Require Import Base.Prims Model.LocalAlleles.
Import ListNotations.
Open Scope nat_scope.

(* ---- genotype order (nat) ---------------------------------------------------------------- *)
Lemma tri_S n : tri (S n) = tri n + S n.
Proof.
  unfold tri. replace (S n * (S n + 1)) with (n * (n + 1) + S n * 2) by lia.
  apply Nat.div_add. lia.
Qed.
Lemma tri_mono a b : a <= b -> tri a <= tri b.
Proof. induction 1; auto. rewrite tri_S. lia. Qed.
Lemma pairs_S L : pairs (S L) = pairs L ++ map (fun c => (c, L)) (seq 0 (S L)).
Proof.
  unfold pairs. rewrite (seq_S L 0) at 1. rewrite flat_map_app. cbn [flat_map Nat.add]. rewrite app_nil_r. reflexivity.
Qed.
Lemma pairs_length L : length (pairs L) = tri L.
Proof.
  induction L as [|L IH]; [reflexivity|].
  rewrite pairs_S, app_length, IH, map_length, seq_length, tri_S. reflexivity.
Qed.
Lemma nth_map_lt {A B} (f : A -> B) l k d d' : k < length l -> nth k (map f l) d = f (nth k l d').
Proof. revert k; induction l; intros [|k] H; simpl in *; try lia; auto. apply IHl. lia. Qed.

(* VCF genotype order: the k-th diploid genotype over L alleles is (c, r) with k = r(r+1)/2 + c *)
Lemma genotype_index_bijection_lemma L c r : c <= r -> r < L ->
  nth (tri r + c) (pairs L) (0, 0) = (c, r).
Proof.
  induction L as [|L IH]; intros Hc Hr; [lia|].
  rewrite pairs_S.
  destruct (Nat.eq_dec r L) as [->|Hne].
  - rewrite app_nth2 by (rewrite pairs_length; lia). rewrite pairs_length.
    replace (tri L + c - tri L) with c by lia.
    rewrite (nth_map_lt _ _ _ _ 0) by (rewrite seq_length; lia). rewrite seq_nth by lia. reflexivity.
  - rewrite app_nth1; [apply IH; lia|]. rewrite pairs_length.
    assert (tri (S r) <= tri L) by (apply tri_mono; lia).
    rewrite tri_S in *. lia.
Qed.

(* the pairs over the first m alleles come first; the rest all have r >= m *)
Lemma pairs_split m L : m <= L -> exists rest, pairs L = pairs m ++ rest /\ Forall (fun cr => m <= snd cr /\ fst cr <= snd cr /\ snd cr < L) rest
  /\ length rest = tri L - tri m.
Proof.
  induction L as [|L IH]; intros H.
  - assert (m = 0) by lia. subst. exists []. repeat split; constructor.
  - destruct (Nat.eq_dec m (S L)) as [->|Hne].
    + exists []. rewrite app_nil_r, Nat.sub_diag. repeat split; constructor.
    + destruct (IH ltac:(lia)) as [rest [E [F Ln]]]. exists (rest ++ map (fun c => (c, L)) (seq 0 (S L))).
      rewrite pairs_S, E, app_assoc. split; [reflexivity|]. split.
      * apply Forall_app. split.
        -- eapply Forall_impl; [|exact F]. intros [c r] [A1 [A2 A3]]. cbn [fst snd] in *. lia.
        -- apply Forall_forall. intros [c r] Hin. apply in_map_iff in Hin. destruct Hin as [c' [Eq Hc]].
           inversion Eq; subst. apply in_seq in Hc. cbn [fst snd]. lia.
      * rewrite app_length, Ln, map_length, seq_length, tri_S.
        assert (tri m <= tri L) by (apply tri_mono; lia). lia.
Qed.
Lemma pairs_bounds L : Forall (fun cr => fst cr <= snd cr /\ snd cr < L) (pairs L).
Proof.
  destruct (pairs_split 0 L ltac:(lia)) as [rest [E [F _]]]. change (pairs 0) with (@nil (nat * nat)) in E. cbn [app] in E. rewrite E.
  eapply Forall_impl; [|exact F]. intros cr [_ H]. exact H.
Qed.

Open Scope Z_scope.

(* ---- LAA ------------------------------------------------------------------------------------ *)
Lemma in_zseq a lo n : In a (zseq lo n) <-> Z.of_nat lo <= a < Z.of_nat (lo + n).
Proof.
  unfold zseq. rewrite in_map_iff. split.
  - intros [k [<- Hk]]. apply in_seq in Hk. lia.
  - intros H. exists (Z.to_nat a). split; [lia|]. apply in_seq. lia.
Qed.
Lemma zseq_sorted : forall n lo, StronglySorted Z.lt (zseq lo n).
Proof.
  induction n as [|n IH]; intros lo; [constructor|].
  unfold zseq in *. cbn [seq map]. constructor; [apply IH|].
  apply Forall_forall. intros x Hx. apply in_map_iff in Hx. destruct Hx as [k [<- Hk]]. apply in_seq in Hk. lia.
Qed.
Lemma filter_sorted (f : Z -> bool) : forall l, StronglySorted Z.lt l -> StronglySorted Z.lt (filter f l).
Proof.
  induction l as [|x l IH]; intros H; [constructor|]. inversion H as [|? ? Hs Hf]; subst. cbn [filter].
  destruct (f x); [|apply IH; exact Hs]. constructor; [apply IH; exact Hs|].
  apply Forall_forall. intros y Hy. apply filter_In in Hy. rewrite Forall_forall in Hf. apply Hf. tauto.
Qed.

(* each call's local alleles are exactly the ascending distinct alternate alleles of its GT *)
Lemma local_alts_spec nalt gt :
  StronglySorted Z.lt (local_alts nalt gt) /\
  (forall a, In a (local_alts nalt gt) <-> (1 <= a <= Z.of_nat nalt /\ In a gt)).
Proof.
  unfold local_alts. split; [apply filter_sorted, zseq_sorted|].
  intros a. rewrite filter_In, in_zseq, existsb_exists. split.
  - intros [H1 [x [Hx E]]]. split; [lia|]. replace a with x by lia. exact Hx.
  - intros [H1 H2]. split; [lia|]. exists a. split; [exact H2|lia].
Qed.
Lemma local_alts_length nalt gt : (length (local_alts nalt gt) <= nalt)%nat.
Proof.
  unfold local_alts.
  assert (G: forall (f : Z -> bool) l, (length (filter f l) <= length l)%nat).
  { intros f l. induction l as [|x l IH]; [cbn; lia|]. cbn [filter]. destruct (f x); cbn [length]; lia. }
  etransitivity; [apply G|]. unfold zseq. rewrite map_length, seq_length. lia.
Qed.

Lemma fold_max_ge_nat : forall l x, (x <= fold_left Nat.max l x)%nat /\ (forall y, In y l -> (y <= fold_left Nat.max l x)%nat).
Proof.
  induction l as [|a l IH]; intros x; cbn [fold_left]; [split; [lia|intros y []]|].
  destruct (IH (Nat.max x a)) as [H1 H2]. split; [lia|]. intros y [<-|Hy]; [lia|auto].
Qed.
Lemma fold_max_le_nat : forall l x b, (x <= b)%nat -> (forall y, In y l -> (y <= b)%nat) -> (fold_left Nat.max l x <= b)%nat.
Proof. induction l as [|a l IH]; intros x b Hx Hl; cbn [fold_left]; [exact Hx|]. apply IH; [pose proof (Hl a (or_introl eq_refl)); lia|intros y Hy; apply Hl; right; exact Hy]. Qed.

(* every row of compute_laa is the call's local alleles followed by fill up to the common width *)
Lemma laa_row_spec nalt gts gt : In gt gts ->
  let w := laa_width nalt gts in
  (length (local_alts nalt gt) <= w)%nat /\
  firstn w (pad_to (Nat.max 1 nalt) (local_alts nalt gt)) = local_alts nalt gt ++ repeat INT_FILL (w - length (local_alts nalt gt)).
Proof.
  intros Hin w. set (alts := local_alts nalt gt).
  assert (Hw: (length alts <= w)%nat).
  { unfold w, laa_width. apply (proj2 (fold_max_ge_nat _ 1%nat)). apply in_map_iff. exists gt. split; [reflexivity|exact Hin]. }
  assert (Hw2: (w <= Nat.max 1 nalt)%nat).
  { unfold w, laa_width. apply fold_max_le_nat; [lia|]. intros y Hy. apply in_map_iff in Hy. destruct Hy as [g [<- _]].
    pose proof (local_alts_length nalt g). lia. }
  split; [exact Hw|]. unfold pad_to. pose proof (local_alts_length nalt gt) as Hl. fold alts in Hl.
  rewrite firstn_app. rewrite firstn_all2 by exact Hw. f_equal.
  assert (G: forall n m, (n <= m)%nat -> firstn n (repeat INT_FILL m) = repeat INT_FILL n).
  { induction n as [|n IHn]; intros [|m] Hnm; cbn [firstn repeat]; try lia; try reflexivity. f_equal. apply IHn. lia. }
  apply G. lia.
Qed.

(* ---- LPL -------------------------------------------------------------------------------------- *)
Lemma mapM_ok_map {X Y} (f : X -> res Y) (g : X -> Y) : forall l, (forall x, In x l -> f x = Ok (g x)) -> mapM f l = Ok (map g l).
Proof.
  induction l as [|x l IH]; intros H; [reflexivity|]. cbn [mapM map]. rewrite (H x (or_introl eq_refl)). cbn [bind].
  rewrite IH by (intros y Hy; apply H; right; exact Hy). reflexivity.
Qed.
Lemma py_index_nonneg l i : 0 <= i < Z.of_nat (length l) -> py_index l i = Ok (nth (Z.to_nat i) l 0).
Proof. intros H. unfold py_index. destruct ((0 <=? i) && (i <? Z.of_nat (length l))) eqn:E; [reflexivity|lia]. Qed.
Lemma py_index_inrange l i : - Z.of_nat (length l) <= i < Z.of_nat (length l) -> exists v, py_index l i = Ok v.
Proof.
  intros H. unfold py_index. destruct ((0 <=? i) && (i <? Z.of_nat (length l))) eqn:E; [eexists; reflexivity|].
  destruct ((- Z.of_nat (length l) <=? i) && (i <? 0)) eqn:E2; [eexists; reflexivity|lia].
Qed.

Lemma combine_app' {X Y} : forall (a1 a2 : list X) (b1 b2 : list Y), length a1 = length b1 ->
  combine (a1 ++ a2) (b1 ++ b2) = combine a1 b1 ++ combine a2 b2.
Proof.
  induction a1 as [|x a1 IH]; intros a2 b1 b2 H; destruct b1 as [|y b1]; cbn [length] in H; try lia; [reflexivity|].
  cbn [app combine]. rewrite IH by lia. reflexivity.
Qed.

(* a call's la: 0, its local alleles (positive), then fill *)
Definition la_wf (la alts : list Z) (maxalt : Z) : Prop :=
  exists k, la = 0 :: alts ++ repeat INT_FILL k /\ Forall (fun a => 1 <= a <= maxalt) alts.

Lemma la_nth_local alts k i : (i < S (length alts))%nat -> nth i (0 :: alts ++ repeat INT_FILL k) 0 = nth i (0 :: alts) 0.
Proof. intros H. destruct i; [reflexivity|]. cbn [nth]. rewrite app_nth1 by lia. reflexivity. Qed.
Lemma la_nth_fill alts k i : (S (length alts) <= i < S (length alts) + k)%nat -> nth i (0 :: alts ++ repeat INT_FILL k) 0 = INT_FILL.
Proof.
  intros H. destruct i; [lia|]. cbn [nth]. rewrite app_nth2 by lia.
  assert (G: forall n m, (m < n)%nat -> nth m (repeat INT_FILL n) 0 = INT_FILL).
  { induction n as [|n IHn]; intros m0 Hm; [lia|]. destruct m0; cbn [repeat nth]; [reflexivity|apply IHn; lia]. }
  apply G. lia.
Qed.
Lemma la_nth_range alts k maxalt i : Forall (fun a => 1 <= a <= maxalt) alts -> 0 <= maxalt ->
  (i < S (length alts) + k)%nat -> -2 <= nth i (0 :: alts ++ repeat INT_FILL k) 0 <= maxalt.
Proof.
  intros Hf Hm Hi. destruct (Nat.lt_ge_cases i (S (length alts))) as [L|G].
  - rewrite la_nth_local by exact L. destruct i; [cbn; lia|]. cbn [nth].
    rewrite Forall_forall in Hf. assert (Hi2: (i < length alts)%nat) by lia. specialize (Hf (nth i alts 0) (nth_In alts 0 Hi2)). lia.
  - rewrite la_nth_fill by lia. unfold INT_FILL. lia.
Qed.

(* diploid projection: for a call with local alleles `alts`, cell k < tri(1+|alts|) holds the
   original PL entry of the genotype formed by local alleles (c_k, r_k), i.e.
   PL[ la[r](la[r]+1)/2 + la[c] ]; every later cell is fill *)
Lemma lpl_projection_diploid_lemma plrow alts k maxalt :
  Forall (fun a => 1 <= a <= maxalt) alts -> 1 <= maxalt ->
  maxalt + 2 <= Z.of_nat (length plrow) -> maxalt * (maxalt + 1) / 2 + maxalt < Z.of_nat (length plrow) ->
  let la := 0 :: alts ++ repeat INT_FILL k in
  let m := S (length alts) in
  lpl_row plrow (map (fun cr => (nth (fst cr) la 0, nth (snd cr) la 0)) (pairs (length la))) =
    Ok (map (fun cr => nth (Z.to_nat (nth (snd cr) (0 :: alts) 0 * (nth (snd cr) (0 :: alts) 0 + 1) / 2 + nth (fst cr) (0 :: alts) 0)) plrow 0) (pairs m)
        ++ repeat INT_FILL (tri (length la) - tri m)).
Proof.
  intros Hf Hm Hlen1 Hlen2 la m.
  assert (Lla: length la = (m + k)%nat) by (unfold la, m; cbn [length]; rewrite app_length, repeat_length; lia).
  destruct (pairs_split m (length la) ltac:(lia)) as [rest [E [Frest Lrest]]].
  unfold lpl_row.
  (* all indexes are in range *)
  assert (R: forall cr, In cr (pairs (length la)) -> - Z.of_nat (length plrow) <= pl_index (nth (fst cr) la 0, nth (snd cr) la 0) < Z.of_nat (length plrow)).
  { intros [c r] Hin. pose proof (pairs_bounds (length la)) as B. rewrite Forall_forall in B. specialize (B _ Hin). cbn [fst snd] in *.
    pose proof (la_nth_range alts k maxalt c Hf ltac:(lia) ltac:(lia)) as Rc. pose proof (la_nth_range alts k maxalt r Hf ltac:(lia) ltac:(lia)) as Rr.
    fold la in Rc, Rr. unfold pl_index. cbn [fst snd].
    set (a := nth c la 0) in *. set (b := nth r la 0) in *.
    assert (Hb: b * (b + 1) / 2 <= maxalt * (maxalt + 1) / 2 /\ 0 <= b * (b + 1) / 2).
    { split; [apply Z.div_le_mono; [lia|]|apply Z.div_pos; [|lia]].
      - assert (b = -2 \/ b = -1 \/ 0 <= b) as [-> | [-> | Hb0]] by lia; nia.
      - assert (b = -2 \/ b = -1 \/ 0 <= b) as [-> | [-> | Hb0]] by lia; nia. }
    lia. }
  (* evaluate the monadic map *)
  assert (V: exists vals, mapM (py_index plrow) (map pl_index (map (fun cr => (nth (fst cr) la 0, nth (snd cr) la 0)) (pairs (length la)))) = Ok vals
             /\ length vals = length (pairs (length la))
             /\ forall i cr, nth_error (pairs (length la)) i = Some cr -> py_index plrow (pl_index (nth (fst cr) la 0, nth (snd cr) la 0)) = Ok (nth i vals 0)).
  { clear -R. induction (pairs (length la)) as [|cr l IH]; [exists []; repeat split; intros [|i] cr H; discriminate|].
    destruct (py_index_inrange plrow _ (R cr (or_introl eq_refl))) as [v Ev].
    destruct IH as [vals [E1 [E2 E3]]]; [intros x Hx; apply R; right; exact Hx|].
    exists (v :: vals). cbn [map mapM]. rewrite Ev. cbn [bind]. rewrite E1. cbn [bind]. split; [reflexivity|]. split; [cbn [length]; lia|].
    intros [|i] cr' H; cbn [nth_error nth] in *; [inversion H; subst; exact Ev|apply E3; exact H]. }
  destruct V as [vals [EV [LV NV]]]. rewrite EV. cbn [bind]. f_equal.
  (* pointwise over pairs m ++ rest *)
  rewrite E in *. rewrite map_app.
  assert (S1: forall (ps : list (nat * nat)) (vs : list Z), length vs = length ps ->
          combine vs (map (fun cr => (nth (fst cr) la 0, nth (snd cr) la 0)) ps) = map (fun vc => (fst vc, (nth (fst (snd vc)) la 0, nth (snd (snd vc)) la 0))) (combine vs ps)).
  { induction ps as [|p ps IHp]; intros vs Hl.
    - destruct vs; reflexivity.
    - destruct vs as [|v vs]; [cbn [length] in Hl; lia|]. cbn [map combine fst snd]. rewrite IHp by (cbn [length] in Hl; lia). reflexivity. }
  rewrite <- map_app, S1 by (rewrite LV; reflexivity). rewrite map_map.
  (* split vals *)
  set (v1 := firstn (length (pairs m)) vals). set (v2 := skipn (length (pairs m)) vals).
  assert (Ev: vals = v1 ++ v2) by (unfold v1, v2; rewrite firstn_skipn; reflexivity).
  assert (L1: length v1 = length (pairs m)) by (unfold v1; rewrite firstn_length, LV, app_length; lia).
  assert (L2: length v2 = length rest) by (unfold v2; rewrite skipn_length, LV, app_length; lia).
  rewrite Ev, combine_app' by exact L1. rewrite map_app. f_equal.
  - (* local part *)
    apply nth_ext with (d := 0) (d' := 0); [rewrite !map_length, combine_length, L1; lia|].
    intros i Hi. rewrite map_length, combine_length, L1, Nat.min_id in Hi.
    rewrite (nth_map_lt _ _ _ _ (0, (0%nat, 0%nat))) by (rewrite combine_length, L1; lia).
    rewrite combine_nth by exact L1. cbn [fst snd].
    rewrite (nth_map_lt _ _ _ _ (0%nat, 0%nat)) by exact Hi.
    set (cr := nth i (pairs m) (0%nat, 0%nat)).
    pose proof (pairs_bounds m) as B. rewrite Forall_forall in B. specialize (B cr (nth_In _ _ Hi)). destruct B as [B1 B2].
    unfold mask_cell. cbn [fst snd].
    assert (Nr: nth (snd cr) la 0 = nth (snd cr) (0 :: alts) 0) by (apply la_nth_local; unfold m in B2; lia).
    assert (Nc: nth (fst cr) la 0 = nth (fst cr) (0 :: alts) 0) by (apply la_nth_local; unfold m in B2; lia).
    assert (Hr0: 0 <= nth (snd cr) (0 :: alts) 0 <= maxalt).
    { destruct (snd cr) as [|j]; [cbn; lia|]. cbn [nth]. rewrite Forall_forall in Hf. assert (Hj2: (j < length alts)%nat) by (unfold m in B2; lia). specialize (Hf (nth j alts 0) (nth_In alts 0 Hj2)). lia. }
    assert (Hc0: 0 <= nth (fst cr) (0 :: alts) 0 <= maxalt).
    { destruct (fst cr) as [|j]; [cbn; lia|]. cbn [nth]. rewrite Forall_forall in Hf. assert (Hj2: (j < length alts)%nat) by (unfold m in B2; lia). specialize (Hf (nth j alts 0) (nth_In alts 0 Hj2)). lia. }
    rewrite Nr. destruct (nth (snd cr) (0 :: alts) 0 =? INT_FILL) eqn:EF; [unfold INT_FILL in EF; lia|].
    (* the value is the in-range index *)
    assert (NE: nth_error (pairs m ++ rest) i = Some cr).
    { rewrite nth_error_app1 by exact Hi. unfold cr. apply nth_error_nth'. exact Hi. }
    specialize (NV i cr NE). rewrite Nr, Nc in NV. unfold pl_index in NV. cbn [fst snd] in NV.
    set (b := nth (snd cr) (0 :: alts) 0) in *. set (a := nth (fst cr) (0 :: alts) 0) in *.
    assert (Hb: 0 <= b * (b + 1) / 2 <= maxalt * (maxalt + 1) / 2).
    { split; [apply Z.div_pos; [nia|lia]|apply Z.div_le_mono; [lia|nia]]. }
    rewrite py_index_nonneg in NV by lia. inversion NV as [NV']. rewrite Ev in NV'. rewrite app_nth1 in NV' by lia. symmetry. exact NV'.
  - (* padded part: every cell is fill *)
    rewrite Lla. replace (tri (m + k) - tri m)%nat with (length rest) by (rewrite Lrest, Lla; reflexivity).
    apply nth_ext with (d := 0) (d' := INT_FILL); [rewrite map_length, combine_length, L2, repeat_length; lia|].
    intros i Hi. rewrite map_length, combine_length, L2, Nat.min_id in Hi.
    rewrite (nth_map_lt _ _ _ _ (0, (0%nat, 0%nat))) by (rewrite combine_length, L2; lia).
    rewrite combine_nth by exact L2. cbn [fst snd]. unfold mask_cell. cbn [fst snd].
    rewrite Forall_forall in Frest. specialize (Frest (nth i rest (0%nat, 0%nat)) (nth_In _ _ Hi)). destruct Frest as [F1 [F2 F3]].
    assert (HR: (S (length alts) <= snd (nth i rest (0%nat, 0%nat)) < S (length alts) + k)%nat) by (unfold m in *; lia).
    unfold la. rewrite la_nth_fill by exact HR. rewrite Z.eqb_refl.
    assert (G: forall n j, (j < n)%nat -> nth j (repeat INT_FILL n) INT_FILL = INT_FILL).
    { induction n as [|n IHn]; intros j Hj; [lia|]. destruct j; cbn [repeat nth]; [reflexivity|apply IHn; lia]. }
    rewrite G by exact Hi. reflexivity.
Qed.

Lemma ab_pairs_diploid la : ab_pairs 2 la = Ok (map (fun cr => (nth (fst cr) la 0, nth (snd cr) la 0)) (pairs (length la))).
Proof. reflexivity. Qed.
Lemma ab_pairs_rejects ploidy la : ploidy <> 1 -> ploidy <> 2 -> ab_pairs ploidy la = Err E_ValueError.
Proof. intros H1 H2. unfold ab_pairs. destruct (ploidy =? 1) eqn:E1; [lia|]. destruct (ploidy =? 2) eqn:E2; [lia|]. reflexivity. Qed.

(* haploid: cells below the call's local genotype count hold the original likelihood of the
   local allele (PL[la[k]]) -- the part of the statement that holds for the code as it is *)
Lemma lpl_haploid_partial_lemma plrow alts k maxalt :
  Forall (fun a => 1 <= a <= maxalt) alts -> 1 <= maxalt -> maxalt + 2 <= Z.of_nat (length plrow) ->
  let la := 0 :: alts ++ repeat INT_FILL k in
  exists row, lpl_row plrow (map (fun a => (a, 0)) la) = Ok row /\ length row = length la /\
    forall i, (i < S (length alts))%nat -> nth i row 0 = nth (Z.to_nat (nth i (0 :: alts) 0)) plrow 0.
Proof.
  intros Hf Hm Hlen la. unfold lpl_row. rewrite map_map. unfold pl_index. cbn [fst snd].
  assert (Lla: length la = (S (length alts) + k)%nat) by (unfold la; cbn [length]; rewrite app_length, repeat_length; lia).
  assert (R: forall i, (i < length la)%nat -> - Z.of_nat (length plrow) <= 0 * (0 + 1) / 2 + nth i la 0 < Z.of_nat (length plrow)).
  { intros i Hi. assert (Hm0: 0 <= maxalt) by lia. assert (Hi2: (i < S (length alts) + k)%nat) by (rewrite <- Lla; exact Hi).
    pose proof (la_nth_range alts k maxalt i Hf Hm0 Hi2) as Ri. fold la in Ri. change (0 * (0 + 1) / 2) with 0. lia. }
  assert (V: exists vals, mapM (py_index plrow) (map (fun x => 0 * (0 + 1) / 2 + x) la) = Ok vals /\ length vals = length la /\
             forall i, (i < length la)%nat -> py_index plrow (0 * (0 + 1) / 2 + nth i la 0) = Ok (nth i vals 0)).
  { clear -R. induction la as [|x l IH]; [exists []; repeat split; intros i H; cbn in H; lia|].
    destruct (py_index_inrange plrow _ (R 0%nat ltac:(cbn; lia))) as [v Ev]. cbn [nth] in Ev.
    destruct IH as [vals [E1 [E2 E3]]]; [intros i Hi; apply (R (S i)); cbn [length]; lia|].
    exists (v :: vals). cbn [map mapM]. rewrite Ev. cbn [bind]. rewrite E1. cbn [bind]. split; [reflexivity|]. split; [cbn [length]; lia|].
    intros [|i] Hi; cbn [nth]; [exact Ev|apply E3; cbn [length] in Hi; lia]. }
  destruct V as [vals [EV [LV NV]]]. rewrite EV. cbn [bind]. eexists. split; [reflexivity|]. split.
  - rewrite map_length, combine_length, map_length, LV. lia.
  - intros i Hi. rewrite (nth_map_lt _ _ _ _ (0, (0, 0))) by (rewrite combine_length, map_length, LV; lia).
    rewrite combine_nth by (rewrite map_length; exact LV). unfold mask_cell. cbn [fst snd].
    rewrite (nth_map_lt _ _ _ _ 0) by lia. cbn [snd]. cbn [Z.eqb INT_FILL].
    specialize (NV i ltac:(lia)). unfold la in NV. rewrite la_nth_local in NV by exact Hi.
    assert (H0: 0 <= nth i (0 :: alts) 0 <= maxalt).
    { destruct i as [|j]; [cbn; lia|]. cbn [nth]. assert (Hj2: (j < length alts)%nat) by lia. rewrite Forall_forall in Hf. specialize (Hf _ (nth_In alts 0 Hj2)). lia. }
    change (0 * (0 + 1) / 2) with 0 in NV. rewrite Z.add_0_l in NV.
    rewrite py_index_nonneg in NV by lia. inversion NV as [NV']. destruct i; reflexivity.
Qed.
