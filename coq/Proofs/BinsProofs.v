From Coq Require Import ZArith List Bool Lia ZifyBool.
From B2Z Require Import Base.Prims Model.BinArith.
Import ListNotations.
Open Scope Z_scope.

Lemma pow8 l : 0 <= l -> 2 ^ (3 * l) = 8 ^ l.
Proof. intros. rewrite Z.pow_mul_r by lia. reflexivity. Qed.
Lemma pow8_mod7 l : 0 <= l -> exists q, 8 ^ l = 7 * q + 1 /\ 0 <= q.
Proof.
  intros H. pattern l. apply natlike_ind; auto.
  - exists 0. split; reflexivity || lia.
  - intros x Hx [q [Hq Hq0]]. exists (8 * q + 1). rewrite Z.pow_succ_r by lia. lia.
Qed.
Lemma first_bin_closed l : 0 <= l -> 7 * first_bin l + 1 = 8 ^ l.
Proof.
  intros H. unfold first_bin. rewrite pow8 by lia.
  destruct (pow8_mod7 l H) as [q [Hq _]]. rewrite Hq.
  replace (7 * q + 1 - 1) with (q * 7) by lia. rewrite Z.div_mul by lia. lia.
Qed.
Lemma first_bin_succ l : 0 <= l -> first_bin (l + 1) = first_bin l + 8 ^ l.
Proof.
  intros H. pose proof (first_bin_closed l H). pose proof (first_bin_closed (l + 1) ltac:(lia)) as H1.
  rewrite Z.pow_add_r in H1 by lia. change (8 ^ 1) with 8 in H1. lia.
Qed.
Lemma first_bin_mono a b : 0 <= a <= b -> first_bin a <= first_bin b.
Proof.
  intros [Ha Hab]. replace b with (a + (b - a)) by lia.
  pattern (b - a). apply natlike_ind; try lia.
  - now rewrite Z.add_0_r.
  - intros x Hx IH. replace (a + Z.succ x) with ((a + x) + 1) by lia. rewrite first_bin_succ by lia.
    assert (0 < 8 ^ (a + x)) by (apply Z.pow_pos_nonneg; lia). lia.
Qed.
Lemma first_bin_0 : first_bin 0 = 0.
Proof. reflexivity. Qed.

Lemma search_down_spec c : forall fuel i l, search_down c fuel i = Some l ->
  l <= i /\ i - Z.of_nat fuel < l /\ c l = true /\ (forall j, l < j <= i -> c j = false).
Proof.
  induction fuel as [|f IH]; intros i l H; [discriminate|].
  cbn [search_down] in H. destruct (c i) eqn:E.
  - inversion H; subst. repeat split; try lia; auto.
  - apply IH in H. destruct H as [H1 [H2 [H3 H4]]]. repeat split; try lia; auto.
    intros j Hj. destruct (Z.eq_dec j i) as [->|]; [exact E|]. apply H4. lia.
Qed.
Lemma search_down_total c : forall fuel i, (exists l, i - Z.of_nat fuel < l <= i /\ c l = true) ->
  exists l, search_down c fuel i = Some l.
Proof.
  induction fuel as [|f IH]; intros i [l [Hl Hc]]; [lia|].
  cbn [search_down]. destruct (c i) eqn:E; [eauto|].
  apply IH. exists l. split; [|exact Hc]. destruct (Z.eq_dec l i) as [->|]; [congruence|lia].
Qed.
Lemma range_down_find_ext c c' hi : (forall i, 0 <= i <= hi -> c i = c' i) ->
  range_down_find c hi = range_down_find c' hi.
Proof.
  intros H. unfold range_down_find. destruct (hi <? 0) eqn:E; [reflexivity|].
  assert (G: forall fuel i, 0 <= i - Z.of_nat fuel + 1 -> i <= hi -> search_down c fuel i = search_down c' fuel i).
  { induction fuel as [|f IH]; intros i H0 H1; [reflexivity|]. cbn [search_down].
    rewrite H by lia. destruct (c' i); [reflexivity|]. apply IH; lia. }
  apply G; lia.
Qed.

(* the level found is THE level: first_bin l <= bin < first_bin (l+1) *)
Lemma level_unique_lemma depth bin l : 0 <= depth -> level_for_bin depth bin = Some l ->
  0 <= l <= depth /\ first_bin l <= bin /\ (l < depth -> bin < first_bin (l + 1)).
Proof.
  intros Hd H. unfold level_for_bin, range_down_find in H.
  destruct (depth <? 0) eqn:E; [lia|]. apply search_down_spec in H.
  rewrite Nat2Z.inj_succ, Z2Nat.id in H by lia. destruct H as [H1 [H2 [H3 H4]]].
  repeat split; try lia. intros Hl. specialize (H4 (l + 1) ltac:(lia)). lia.
Qed.
Lemma level_total_lemma depth bin : 0 <= depth -> 0 <= bin -> exists l, level_for_bin depth bin = Some l.
Proof.
  intros Hd Hb. unfold level_for_bin, range_down_find. destruct (depth <? 0) eqn:E; [lia|].
  apply search_down_total. exists 0. rewrite Nat2Z.inj_succ, Z2Nat.id by lia.
  split; [lia|]. rewrite first_bin_0. lia.
Qed.
Lemma level_negative_bin depth bin : 0 <= depth -> bin < 0 -> level_for_bin depth bin = None.
Proof.
  intros Hd Hb. destruct (level_for_bin depth bin) as [l|] eqn:E; [|reflexivity].
  apply level_unique_lemma in E; [|lia]. destruct E as [[H0 _] [H1 _]].
  pose proof (first_bin_mono 0 l ltac:(lia)). rewrite first_bin_0 in *. lia.
Qed.

(* bins of level l tile [1, 2^(min_shift+3 depth)] in steps of 2^(min_shift + 3 (depth - l)) *)
Lemma first_locus_spec_lemma min_shift depth bin l : 0 <= min_shift -> 0 <= depth ->
  level_for_bin depth bin = Some l ->
  first_locus min_shift depth bin = Some ((bin - first_bin l) * 2 ^ (min_shift + 3 * (depth - l)) + 1).
Proof.
  intros Hm Hd H. unfold first_locus. rewrite H.
  destruct (level_unique_lemma depth bin l Hd H) as [[Hl0 Hl1] _].
  unfold level_size. f_equal. f_equal. f_equal.
  replace (min_shift + 3 * depth) with ((min_shift + 3 * (depth - l)) + 3 * l) by lia.
  rewrite Z.pow_add_r by lia. rewrite Z.div_mul; auto.
  assert (0 < 2 ^ (3 * l)) by (apply Z.pow_pos_nonneg; lia). lia.
Qed.

(* a bin of level l covers positions [first_locus, first_locus + span) and these tile the
   coordinate space: bin b+1 of the same level starts where bin b ends *)
Lemma first_locus_step min_shift depth l b : 0 <= min_shift -> 0 <= depth -> 0 <= l <= depth ->
  let span := 2 ^ (min_shift + 3 * (depth - l)) in
  ((b + 1) - first_bin l) * span + 1 = ((b - first_bin l) * span + 1) + span.
Proof. intros. subst span. lia. Qed.

Lemma file_offset_spec_lemma v : 0 <= v < 2 ^ 64 -> file_offset v = v / 65536.
Proof.
  intros H. unfold file_offset. change (2 ^ 64) with 18446744073709551616 in H.
  rewrite Z.mod_small; [reflexivity|].
  split; [apply Z.div_pos; lia|apply Z.div_lt_upper_bound; lia].
Qed.
