(* Proofs about Model/IndexParse.v: the byte-level reader inverts the specification
   serialisers (C09), the counts rule, bad magic rejection. *)
From Coq Require Import ZArith List Bool Lia ZifyBool.
From B2Z Require Import Base.Prims Model.IndexParse.
Import ListNotations.
Open Scope Z_scope.


(* ---- fixed-width fields ----------------------------------------------------------- *)
Lemma rd_le n : forall v rest, 0 <= v < 256 ^ Z.of_nat n -> rd n (le n v ++ rest) = Some (v, rest).
Proof.
  induction n as [|n IH]; intros v rest Hv.
  - cbn [le rd app]. change (Z.of_nat 0) with 0 in Hv. rewrite Z.pow_0_r in Hv. f_equal. f_equal. lia.
  - cbn [le rd app]. rewrite IH.
    + f_equal. f_equal. pose proof (Z.div_mod v 256 ltac:(lia)). lia.
    + rewrite Nat2Z.inj_succ, Z.pow_succ_r in Hv by lia.
      pose proof (Z.div_mod v 256 ltac:(lia)). pose proof (Z.mod_pos_bound v 256 ltac:(lia)).
      split; [apply Z.div_pos; lia|]. apply Z.div_lt_upper_bound; lia.
Qed.
Lemma le_length n : forall v, length (le n v) = n.
Proof. induction n; intros; cbn [le length]; auto. Qed.

Lemma rd_u32_le v rest : 0 <= v < 4294967296 -> rd_u32 (le 4 v ++ rest) = Some (v, rest).
Proof. intros. unfold rd_u32. apply rd_le. change (256 ^ Z.of_nat 4) with 4294967296. lia. Qed.
Lemma rd_u64_le v rest : 0 <= v < 18446744073709551616 -> rd_u64 (le 8 v ++ rest) = Some (v, rest).
Proof. intros. unfold rd_u64. apply rd_le. change (256 ^ Z.of_nat 8) with 18446744073709551616. lia. Qed.
Definition i32_ok (v : Z) := -2147483648 <= v < 2147483648.
Lemma rd_i32_le v rest : i32_ok v -> rd_i32 (le_i32 v ++ rest) = Some (v, rest).
Proof.
  unfold i32_ok. intros H. unfold rd_i32, le_i32.
  destruct (v <? 0) eqn:E.
  - rewrite rd_le by (change (256 ^ Z.of_nat 4) with 4294967296; lia).
    destruct (v + 4294967296 <? 2147483648) eqn:E2; [lia|]. f_equal. f_equal. lia.
  - rewrite rd_le by (change (256 ^ Z.of_nat 4) with 4294967296; lia).
    destruct (v <? 2147483648) eqn:E2; [reflexivity|lia].
Qed.
Lemma le_i32_length v : length (le_i32 v) = 4%nat.
Proof. unfold le_i32. apply le_length. Qed.

Lemma take_app : forall (a rest : bytes), take (length a) (a ++ rest) = Some (a, rest).
Proof. induction a as [|x a IH]; intros rest; cbn [length take app]; [reflexivity|]. rewrite IH. reflexivity. Qed.

(* ---- counted repetition -------------------------------------------------------------- *)
Section ManyProofs.
  Context {T : Type} (p : bytes -> option (T * bytes)) (ser : T -> bytes) (ok : T -> Prop) (unit : nat).
  Hypothesis p_ser : forall x rest, ok x -> p (ser x ++ rest) = Some (x, rest).
  Hypothesis ser_len : forall x, (unit <= length (ser x))%nat.

  Lemma pmany_ser : forall xs rest, Forall ok xs ->
    pmany p (length xs) (concat (map ser xs) ++ rest) = Some (xs, rest).
  Proof.
    induction xs as [|x xs IH]; intros rest H; cbn [length pmany map concat]; [reflexivity|].
    inversion H; subst. rewrite <- app_assoc, p_ser by assumption. rewrite IH by assumption. reflexivity.
  Qed.

  Lemma concat_len : forall xs, (unit * length xs <= length (concat (map ser xs)))%nat.
  Proof.
    induction xs as [|x xs IH]; cbn [length map concat]; [lia|].
    rewrite app_length. pose proof (ser_len x). lia.
  Qed.

  Lemma guarded_ok : forall uz xs rest, uz = Z.of_nat unit ->
    guarded_count (Z.of_nat (length xs)) uz (concat (map ser xs) ++ rest) = Some (length xs).
  Proof.
    intros uz xs rest ->. unfold guarded_count.
    destruct (Z.of_nat (length xs) <=? 0) eqn:E.
    - f_equal. lia.
    - pose proof (concat_len xs). rewrite app_length.
      destruct (Z.of_nat (length xs) * Z.of_nat unit <=? Z.of_nat (length (concat (map ser xs)) + length rest)) eqn:E2.
      + f_equal. lia.
      + nia.
  Qed.
End ManyProofs.

(* ---- chunks ---------------------------------------------------------------------------- *)
Definition u64_ok (v : Z) := 0 <= v < 18446744073709551616.
Definition chunk_ok (c : chunk) := u64_ok (fst c) /\ u64_ok (snd c).

Lemma parse_chunk_ser c rest : chunk_ok c -> parse_chunk (ser_chunk c ++ rest) = Some (c, rest).
Proof.
  intros [H1 H2]. unfold parse_chunk, ser_chunk. rewrite <- app_assoc.
  rewrite rd_u64_le by exact H1. rewrite rd_u64_le by exact H2. destruct c; reflexivity.
Qed.
Lemma ser_chunk_len c : (16 <= length (ser_chunk c))%nat.
Proof. unfold ser_chunk. rewrite app_length, !le_length. lia. Qed.

Lemma parse_chunks_ser cs rest : Forall chunk_ok cs ->
  parse_chunks (Z.of_nat (length cs)) (ser_chunks cs ++ rest) = Some (cs, rest).
Proof.
  intros H. unfold parse_chunks, ser_chunks.
  rewrite (guarded_ok ser_chunk 16 ser_chunk_len 16 cs rest eq_refl).
  apply (pmany_ser parse_chunk ser_chunk chunk_ok parse_chunk_ser); exact H.
Qed.

(* ---- counts rule ------------------------------------------------------------------------- *)
Definition pseudo_wf (pseudo : Z) (id : Z) (cs : list chunk) := id = pseudo -> length cs = 2%nat.

Lemma count_fold_spec pseudo : forall (ids : list (Z * list chunk)) acc,
  Forall (fun x => pseudo_wf pseudo (fst x) (snd x)) ids ->
  fold_left (fun a x => count_step pseudo a (fst x) (snd x)) ids (Some acc) = Some (spec_count pseudo ids acc).
Proof.
  induction ids as [|[id cs] tl IH]; intros acc H; cbn [fold_left spec_count]; [reflexivity|].
  inversion H as [|? ? Hx Htl]; subst. cbn [fst snd] in *.
  unfold count_step at 2. destruct (id =? pseudo) eqn:E.
  - assert (L: length cs = 2%nat) by (apply Hx; lia).
    destruct cs as [|c1 [|[a b] [|? ?]]]; try discriminate L. apply IH; exact Htl.
  - apply IH; exact Htl.
Qed.

Lemma fold_left_map {X Y Z0} (f : Z0 -> Y -> Z0) (g : X -> Y) : forall l a,
  fold_left (fun acc x => f acc (g x)) l a = fold_left f (map g l) a.
Proof. induction l; intros; cbn; auto. Qed.

(* ---- CSI ------------------------------------------------------------------------------------ *)
Definition csi_bin_ok (pseudo : Z) (x : csi_bin) :=
  0 <= cb_id x < 4294967296 /\ u64_ok (cb_loff x) /\ Forall chunk_ok (cb_chunks x) /\
  Z.of_nat (length (cb_chunks x)) < 2147483648 /\ pseudo_wf pseudo (cb_id x) (cb_chunks x).

Lemma parse_csi_bin_ser pseudo x rest : csi_bin_ok pseudo x -> parse_csi_bin (ser_csi_bin x ++ rest) = Some (x, rest).
Proof.
  intros [H1 [H2 [H3 [H4 _]]]]. unfold parse_csi_bin, ser_csi_bin. rewrite <- !app_assoc.
  rewrite rd_u32_le by exact H1. rewrite rd_u64_le by exact H2.
  rewrite rd_i32_le by (unfold i32_ok; lia). rewrite parse_chunks_ser by exact H3. destruct x; reflexivity.
Qed.
Lemma ser_csi_bin_len x : (16 <= length (ser_csi_bin x))%nat.
Proof. unfold ser_csi_bin. rewrite !app_length, !le_length, le_i32_length. lia. Qed.

Definition csi_contig_ok (pseudo : Z) (bins : list csi_bin) :=
  Forall (csi_bin_ok pseudo) bins /\ Z.of_nat (length bins) < 2147483648.

Lemma csi_count_spec pseudo bins : Forall (csi_bin_ok pseudo) bins ->
  csi_contig_count pseudo (Z.of_nat (length bins)) bins = Some (csi_spec_count pseudo bins).
Proof.
  intros H. unfold csi_contig_count, csi_spec_count.
  rewrite (fold_left_map (fun acc (x : Z * list chunk) => count_step pseudo acc (fst x) (snd x)) (fun x => (cb_id x, cb_chunks x))).
  replace (if Z.of_nat (length bins) =? 0 then Known 0 else Unknown) with (match bins with [] => Known 0 | _ => Unknown end)
    by (destruct bins; [reflexivity|cbn [length]; destruct (Z.of_nat (S (length bins)) =? 0) eqn:E; [lia|reflexivity]]).
  apply count_fold_spec. rewrite Forall_map. eapply Forall_impl; [|exact H].
  intros x Hx. cbn [fst snd]. apply Hx.
Qed.

Lemma parse_csi_contig_ser pseudo bins rest : csi_contig_ok pseudo bins ->
  parse_csi_contig pseudo (ser_csi_contig bins ++ rest) = Some ((bins, csi_spec_count pseudo bins), rest).
Proof.
  intros [H1 H2]. unfold parse_csi_contig, ser_csi_contig. rewrite <- app_assoc.
  rewrite rd_i32_le by (unfold i32_ok; lia).
  rewrite (guarded_ok ser_csi_bin 16 ser_csi_bin_len 16 bins rest eq_refl).
  rewrite (pmany_ser parse_csi_bin ser_csi_bin (csi_bin_ok pseudo) (parse_csi_bin_ser pseudo)) by exact H1.
  rewrite csi_count_spec by exact H1. reflexivity.
Qed.
Lemma ser_csi_contig_len bins : (4 <= length (ser_csi_contig bins))%nat.
Proof. unfold ser_csi_contig. rewrite app_length, le_i32_length. lia. Qed.

Lemma parse_tail_ser (t : option Z) : (match t with Some v => u64_ok v | None => True end) ->
  parse_tail (match t with Some v => le 8 v | None => [] end) = Some (match t with Some v => v | None => 0 end).
Proof.
  destruct t as [v|]; intros H; [|reflexivity].
  unfold parse_tail. pose proof (le_length 8 v) as L.
  destruct (le 8 v) eqn:E; [discriminate L|]. rewrite <- E.
  rewrite <- (app_nil_r (le 8 v)). rewrite rd_u64_le by exact H. reflexivity.
Qed.

Definition csi_file_ok (f : csi_file) :=
  i32_ok (cf_min_shift f) /\ i32_ok (cf_depth f) /\ -1 <= cf_depth f /\
  Z.of_nat (length (cf_aux f)) < 2147483648 /\
  Z.of_nat (length (cf_contigs f)) < 2147483648 /\
  Forall (csi_contig_ok (m_bin_limit (cf_depth f) + 1)) (cf_contigs f) /\
  match cf_tail f with Some v => u64_ok v | None => True end.

Lemma bytes_eqb_refl : forall a, bytes_eqb a a = true.
Proof. induction a as [|x a IH]; cbn [bytes_eqb]; [reflexivity|]. rewrite Z.eqb_refl, IH. reflexivity. Qed.

Lemma map_fst_pair {X Y} (g : X -> Y) (l : list X) : map fst (map (fun x => (x, g x)) l) = l.
Proof. induction l; cbn; congruence. Qed.
Lemma map_snd_pair {X Y} (g : X -> Y) (l : list X) : map snd (map (fun x => (x, g x)) l) = map g l.
Proof. induction l; cbn; congruence. Qed.

Lemma csi_parse_serialise_lemma f : csi_file_ok f -> parse_csi (ser_csi f) = Some (view_csi f).
Proof.
  intros [H1 [H2 [H3 [H4 [H5 [H6 H7]]]]]]. unfold parse_csi, ser_csi.
  change (csi_magic ++ ?r) with (67 :: 83 :: 73 :: 1 :: r).
  cbn [take]. change (bytes_eqb [67; 83; 73; 1] csi_magic) with true. cbn [negb].
  rewrite rd_i32_le by exact H1. rewrite rd_i32_le by exact H2.
  rewrite rd_i32_le by (unfold i32_ok; lia).
  destruct (Z.of_nat (length (cf_aux f)) <? 0) eqn:E0; [lia|].
  match goal with |- context [Z.of_nat (length ?b) <? Z.of_nat (length (cf_aux f))] =>
    destruct (Z.of_nat (length b) <? Z.of_nat (length (cf_aux f))) eqn:E1 end.
  { rewrite app_length in E1. lia. }
  rewrite Nat2Z.id, take_app.
  rewrite rd_i32_le by (unfold i32_ok; lia).
  destruct (cf_depth f <? -1) eqn:E2; [lia|]. cbv zeta.
  set (pseudo := m_bin_limit (cf_depth f) + 1) in *.
  (* contigs are parsed as (bins, count) pairs *)
  pose (pser := fun (c : list csi_bin * rcount) => ser_csi_contig (fst c)).
  pose (pok := fun (c : list csi_bin * rcount) => csi_contig_ok pseudo (fst c) /\ snd c = csi_spec_count pseudo (fst c)).
  set (cs := map (fun b => (b, csi_spec_count pseudo b)) (cf_contigs f)).
  assert (Eser: concat (map ser_csi_contig (cf_contigs f)) = concat (map pser cs)).
  { unfold cs. rewrite map_map. reflexivity. }
  assert (Elen: length (cf_contigs f) = length cs) by (unfold cs; rewrite map_length; reflexivity).
  rewrite Eser, Elen.
  rewrite (guarded_ok pser 4 (fun c => ser_csi_contig_len (fst c)) 4 cs _ eq_refl).
  rewrite (pmany_ser (parse_csi_contig pseudo) pser pok).
  - rewrite parse_tail_ser by exact H7. unfold view_csi, cs. fold pseudo.
    rewrite map_fst_pair, map_snd_pair. reflexivity.
  - intros [b c] rest [Hb Hc]. cbn [fst snd] in *. subst c. unfold pser. cbn [fst].
    apply parse_csi_contig_ser. exact Hb.
  - unfold cs. rewrite Forall_map. eapply Forall_impl; [|exact H6].
    intros b Hb. unfold pok. cbn [fst snd]. split; [exact Hb|reflexivity].
Qed.

(* bad magic: whatever follows, a file whose first four bytes are not the magic is rejected *)
Lemma take4_inv b m r : take 4 b = Some (m, r) -> b = m ++ r /\ length m = 4%nat.
Proof.
  destruct b as [|a [|b0 [|c [|d tl]]]]; cbn [take]; try discriminate.
  intros H. inversion H; subst. split; reflexivity.
Qed.
Lemma csi_bad_magic_lemma b : firstn 4 b <> csi_magic -> parse_csi b = None.
Proof.
  intros H. unfold parse_csi. destruct (take 4 b) as [[m r]|] eqn:E; [|reflexivity].
  destruct (bytes_eqb m csi_magic) eqn:E2; [|reflexivity]. exfalso. apply H.
  apply take4_inv in E. destruct E as [-> L].
  assert (m = csi_magic).
  { clear -E2 L. revert E2. unfold csi_magic.
    destruct m as [|a [|b [|c [|d [|? ?]]]]]; try discriminate L; cbn [bytes_eqb].
    rewrite !andb_true_iff, !Z.eqb_eq. intros [-> [-> [-> [-> _]]]]. reflexivity. }
  subst m. reflexivity.
Qed.

(* ---- tabix ------------------------------------------------------------------------------------ *)
Definition tbx_bin_ok (x : tbx_bin) :=
  0 <= tb_id x < 4294967296 /\ Forall chunk_ok (tb_chunks x) /\
  Z.of_nat (length (tb_chunks x)) < 2147483648 /\ pseudo_wf tbx_pseudo (tb_id x) (tb_chunks x).

Lemma parse_tbx_bin_ser x rest : tbx_bin_ok x -> parse_tbx_bin (ser_tbx_bin x ++ rest) = Some (x, rest).
Proof.
  intros [H1 [H3 [H4 _]]]. unfold parse_tbx_bin, ser_tbx_bin. rewrite <- !app_assoc.
  rewrite rd_u32_le by exact H1. rewrite rd_i32_le by (unfold i32_ok; lia).
  rewrite parse_chunks_ser by exact H3. destruct x; reflexivity.
Qed.
Lemma ser_tbx_bin_len x : (8 <= length (ser_tbx_bin x))%nat.
Proof. unfold ser_tbx_bin. rewrite !app_length, !le_length, le_i32_length. lia. Qed.

Definition tbx_contig_ok (c : list tbx_bin * list Z) :=
  Forall tbx_bin_ok (fst c) /\ Z.of_nat (length (fst c)) < 2147483648 /\
  Forall u64_ok (snd c) /\ Z.of_nat (length (snd c)) < 2147483648.

Lemma tbx_count_spec bins : Forall tbx_bin_ok bins ->
  tbx_contig_count (Z.of_nat (length bins)) bins = Some (tbx_spec_count bins).
Proof.
  intros H. unfold tbx_contig_count, tbx_spec_count.
  rewrite (fold_left_map (fun acc (x : Z * list chunk) => count_step tbx_pseudo acc (fst x) (snd x)) (fun x => (tb_id x, tb_chunks x))).
  replace (if Z.of_nat (length bins) =? 0 then Known 0 else Unknown) with (match bins with [] => Known 0 | _ => Unknown end)
    by (destruct bins; [reflexivity|cbn [length]; destruct (Z.of_nat (S (length bins)) =? 0) eqn:E; [lia|reflexivity]]).
  apply count_fold_spec. rewrite Forall_map. eapply Forall_impl; [|exact H].
  intros x Hx. cbn [fst snd]. apply Hx.
Qed.

Lemma le8_len (v : Z) : (8 <= length (le 8 v))%nat.
Proof. rewrite le_length. lia. Qed.

Lemma parse_tbx_contig_ser c rest : tbx_contig_ok c ->
  parse_tbx_contig (ser_tbx_contig c ++ rest) = Some ((fst c, snd c, tbx_spec_count (fst c)), rest).
Proof.
  intros [H1 [H2 [H3 H4]]]. unfold parse_tbx_contig, ser_tbx_contig. rewrite <- !app_assoc.
  rewrite rd_i32_le by (unfold i32_ok; lia).
  rewrite (guarded_ok ser_tbx_bin 8 ser_tbx_bin_len 8 (fst c) _ eq_refl).
  rewrite (pmany_ser parse_tbx_bin ser_tbx_bin tbx_bin_ok parse_tbx_bin_ser) by exact H1.
  rewrite tbx_count_spec by exact H1.
  rewrite rd_i32_le by (unfold i32_ok; lia).
  rewrite (guarded_ok (le 8) 8 le8_len 8 (snd c) _ eq_refl).
  rewrite (pmany_ser rd_u64 (le 8) u64_ok rd_u64_le) by exact H3. reflexivity.
Qed.
Lemma ser_tbx_contig_len c : (8 <= length (ser_tbx_contig c))%nat.
Proof. unfold ser_tbx_contig. rewrite !app_length, !le_i32_length. lia. Qed.

(* names *)
Definition name_ok (n : bytes) := Forall (fun x => x <> 0) n.
Lemma split0_aux_name : forall n cur rest, name_ok n ->
  split0_aux cur (n ++ 0 :: rest) = (rev cur ++ n) :: split0_aux [] rest.
Proof.
  induction n as [|x n IH]; intros cur rest H; cbn [app split0_aux].
  - rewrite app_nil_r. reflexivity.
  - inversion H; subst. destruct (x =? 0) eqn:E; [lia|]. rewrite IH by assumption.
    cbn [rev]. rewrite <- app_assoc. reflexivity.
Qed.
Lemma split0_ser_names ns : Forall name_ok ns -> split0 (ser_names ns) = ns.
Proof.
  unfold split0, ser_names. induction 1 as [|n ns Hn _ IH]; cbn [map concat]; [reflexivity|].
  rewrite <- app_assoc. cbn [app]. rewrite split0_aux_name by exact Hn. cbn [rev app]. rewrite IH. reflexivity.
Qed.

Definition tbx_file_ok (f : tbx_file) :=
  length (tf_fmt f) = 6%nat /\ Forall i32_ok (tf_fmt f) /\
  Forall name_ok (tf_names f) /\ (0 < length (tf_contigs f))%nat /\
  length (tf_names f) = length (tf_contigs f) /\
  Z.of_nat (length (ser_names (tf_names f))) < 2147483648 /\
  Z.of_nat (length (tf_contigs f)) < 2147483648 /\
  Forall tbx_contig_ok (tf_contigs f) /\
  match tf_tail f with Some v => u64_ok v | None => True end.

Lemma ser_names_pos ns : (0 < length ns)%nat -> (0 < length (ser_names ns))%nat.
Proof. destruct ns as [|n ns]; cbn [length]; [lia|]. intros _. unfold ser_names. cbn [map concat]. rewrite !app_length. cbn [length]. lia. Qed.

Lemma tbi_parse_serialise_lemma f : tbx_file_ok f -> parse_tbi (ser_tbi f) = Some (view_tbi f).
Proof.
  intros [H1 [H2 [H3 [H4 [H5 [H6 [H7 [H8 H9]]]]]]]]. unfold parse_tbi, ser_tbi.
  change (tbi_magic ++ ?r) with (84 :: 66 :: 73 :: 1 :: r).
  cbn [take]. change (bytes_eqb [84; 66; 73; 1] tbi_magic) with true. cbn [negb].
  assert (Hh: Forall i32_ok (tbx_header f)).
  { unfold tbx_header. constructor; [unfold i32_ok; lia|]. apply Forall_app. split; [exact H2|].
    constructor; [unfold i32_ok; lia|constructor]. }
  assert (Lh: length (tbx_header f) = 8%nat).
  { unfold tbx_header. cbn [length]. rewrite app_length, H1. reflexivity. }
  rewrite <- Lh at 1.
  rewrite (pmany_ser rd_i32 le_i32 i32_ok rd_i32_le) by exact Hh.
  assert (N0: nth 0 (tbx_header f) 0 = Z.of_nat (length (tf_contigs f))) by reflexivity.
  assert (N7: nth 7 (tbx_header f) 0 = Z.of_nat (length (ser_names (tf_names f)))).
  { unfold tbx_header. destruct (tf_fmt f) as [|a [|b [|c [|d [|e [|g [|? ?]]]]]]]; try discriminate H1. reflexivity. }
  cbv zeta. rewrite N0, N7.
  pose proof (ser_names_pos (tf_names f) ltac:(lia)) as Hpos.
  destruct (Z.of_nat (length (ser_names (tf_names f))) <=? 0) eqn:E0; [lia|].
  match goal with |- context [Z.of_nat (length ?b) <? Z.of_nat (length (ser_names (tf_names f)))] =>
    destruct (Z.of_nat (length b) <? Z.of_nat (length (ser_names (tf_names f)))) eqn:E1 end.
  { rewrite app_length in E1. lia. }
  rewrite Nat2Z.id, take_app.
  pose (pser := fun (c : list tbx_bin * list Z * rcount) => ser_tbx_contig (fst c)).
  pose (pok := fun (c : list tbx_bin * list Z * rcount) => tbx_contig_ok (fst c) /\ snd c = tbx_spec_count (fst (fst c))).
  set (cs := map (fun c => (c, tbx_spec_count (fst c))) (tf_contigs f)).
  assert (Eser: concat (map ser_tbx_contig (tf_contigs f)) = concat (map pser cs)).
  { unfold cs. rewrite map_map. reflexivity. }
  assert (Elen: length (tf_contigs f) = length cs) by (unfold cs; rewrite map_length; reflexivity).
  rewrite Eser, Elen.
  rewrite (guarded_ok pser 8 (fun c => ser_tbx_contig_len (fst c)) 8 cs _ eq_refl).
  rewrite (pmany_ser parse_tbx_contig pser pok).
  - rewrite parse_tail_ser by exact H9. rewrite split0_ser_names by exact H3.
    unfold view_tbi, cs. rewrite !map_map. cbn [fst snd].
    f_equal.
  - intros [[b l] c] rest [Hb Hc]. cbn [fst snd] in *. subst c. unfold pser. cbn [fst].
    rewrite (parse_tbx_contig_ser (b, l)) by exact Hb. reflexivity.
  - unfold cs. rewrite Forall_map. eapply Forall_impl; [|exact H8].
    intros c Hc. unfold pok. cbn [fst snd]. split; [exact Hc|reflexivity].
Qed.

Lemma tbi_bad_magic_lemma b : firstn 4 b <> tbi_magic -> parse_tbi b = None.
Proof.
  intros H. unfold parse_tbi. destruct (take 4 b) as [[m r]|] eqn:E; [|reflexivity].
  destruct (bytes_eqb m tbi_magic) eqn:E2; [|reflexivity]. exfalso. apply H.
  apply take4_inv in E. destruct E as [-> L].
  assert (m = tbi_magic).
  { clear -E2 L. revert E2. unfold tbi_magic.
    destruct m as [|a [|b [|c [|d [|? ?]]]]]; try discriminate L; cbn [bytes_eqb].
    rewrite !andb_true_iff, !Z.eqb_eq. intros [-> [-> [-> [-> _]]]]. reflexivity. }
  subst m. reflexivity.
Qed.

(* ---- the counts rule, spelled out ---------------------------------------------------------- *)
(* the reported count of a contig is: 0 iff it has no bins; n_mapped+n_unmapped of a
   pseudo-bin iff one is present; otherwise Unknown -- never another number *)
Lemma spec_count_cases pseudo : forall ids acc,
  Forall (fun x => pseudo_wf pseudo (fst x) (snd x)) ids ->
  (forall x, In x ids -> fst x <> pseudo) /\ spec_count pseudo ids acc = acc
  \/ exists c1 a b, In (pseudo, [c1; (a, b)]) ids /\ spec_count pseudo ids acc = Known (a + b).
Proof.
  induction ids as [|[id cs] tl IH]; intros acc H; cbn [spec_count].
  - left. split; [intros x []|reflexivity].
  - inversion H as [|? ? Hx Htl]; subst. cbn [fst snd] in Hx.
    destruct (id =? pseudo) eqn:E.
    + assert (L: length cs = 2%nat) by (apply Hx; lia).
      destruct cs as [|c1 [|[a b] [|? ?]]]; try discriminate L.
      destruct (IH (Known (a + b)) Htl) as [[Hno Heq]|[c1' [a' [b' [Hin Heq]]]]].
      * right. exists c1, a, b. split; [left; f_equal; lia|exact Heq].
      * right. exists c1', a', b'. split; [right; exact Hin|exact Heq].
    + destruct (IH acc Htl) as [[Hno Heq]|[c1' [a' [b' [Hin Heq]]]]].
      * left. split; [|exact Heq]. intros x [<-|Hin]; [cbn [fst]; lia|apply Hno; exact Hin].
      * right. exists c1', a', b'. split; [right; exact Hin|exact Heq].
Qed.
