From Coq Require Import ZArith List Bool Lia ZifyBool Permutation Sorting.Sorted.
From B2Z Require Import Base.Prims Model.Spec Pipeline.Rows.
Import ListNotations.
Open Scope Z_scope.

(* records are ordered by header contig index, file order preserved inside a contig *)
Lemma insert_rec_perm x : forall l, Permutation (x :: l) (insert_rec x l).
Proof.
  induction l as [|y tl IH]; cbn [insert_rec]; [reflexivity|].
  destruct (r_contig y <? r_contig x); [|reflexivity].
  rewrite perm_swap. apply perm_skip. exact IH.
Qed.
Lemma sort_records_perm : forall l, Permutation l (sort_records l).
Proof.
  unfold sort_records. induction l as [|x tl IH]; cbn [fold_right]; [reflexivity|].
  rewrite <- insert_rec_perm. apply perm_skip. exact IH.
Qed.
Definition by_contig (a b : record) : Prop := r_contig a <= r_contig b.
Lemma insert_rec_sorted x : forall l, StronglySorted by_contig l -> StronglySorted by_contig (insert_rec x l).
Proof.
  induction l as [|y tl IH]; intros H; cbn [insert_rec]; [repeat constructor|].
  inversion H as [|? ? Hs Hf]; subst. destruct (r_contig y <? r_contig x) eqn:E.
  - constructor; [apply IH; exact Hs|].
    eapply Permutation_Forall; [apply insert_rec_perm|]. constructor; [unfold by_contig; lia|exact Hf].
  - constructor; [exact H|]. constructor; [unfold by_contig; lia|].
    eapply Forall_impl; [|exact Hf]. unfold by_contig. intros z Hz. lia.
Qed.
Lemma sort_records_sorted : forall l, StronglySorted by_contig (sort_records l).
Proof. unfold sort_records. induction l as [|x tl IH]; cbn [fold_right]; [constructor|]. apply insert_rec_sorted. exact IH. Qed.

(* stability: the records of one contig keep their file order *)
Lemma insert_rec_filter c x : forall l, StronglySorted by_contig l ->
  filter (fun r => r_contig r =? c) (insert_rec x l) = (if r_contig x =? c then [x] else []) ++ filter (fun r => r_contig r =? c) l.
Proof.
  induction l as [|y tl IH]; intros H; cbn [insert_rec filter]; [destruct (r_contig x =? c); reflexivity|].
  inversion H as [|? ? Hs Hf]; subst. destruct (r_contig y <? r_contig x) eqn:E.
  - cbn [filter]. rewrite IH by exact Hs. destruct (r_contig y =? c) eqn:Ey; destruct (r_contig x =? c) eqn:Ex; try reflexivity. lia.
  - cbn [filter]. destruct (r_contig x =? c); reflexivity.
Qed.
Lemma sort_records_stable c : forall l,
  filter (fun r => r_contig r =? c) (sort_records l) = filter (fun r => r_contig r =? c) l.
Proof.
  induction l as [|x tl IH]; [reflexivity|].
  change (sort_records (x :: tl)) with (insert_rec x (sort_records tl)).
  rewrite insert_rec_filter by (apply sort_records_sorted). rewrite IH. cbn [filter].
  destruct (r_contig x =? c); reflexivity.
Qed.

(* the INFO row of the specification IS the lossless row encoding (for a value that is present
   and not a bare '.') *)
Lemma info_row_is_enc_vec ty w v : whole_missing v = false -> 1 <= w -> zlen v <= w ->
  info_row ty w (IVec v) = enc_vec (missv ty) (fillv ty) (Z.to_nat w) (Some v).
Proof.
  intros Hw H1 Hl. unfold info_row, info_effective. rewrite Hw. cbn [andb]. rewrite Hw.
  unfold enc_vec, zrepeat, zlen in *. rewrite Z.max_l by lia.
  replace (Z.to_nat (w - Z.of_nat (length v))) with (Z.to_nat w - length v)%nat by lia.
  f_equal; try (apply map_ext; intros [x|]; reflexivity).
Qed.
Lemma info_row_absent ty w : 1 <= w -> info_row ty w IAbsent = enc_vec (missv ty) (fillv ty) (Z.to_nat w) None.
Proof. intros H. unfold info_row, info_effective, enc_vec, zrepeat. rewrite Z.max_l by lia. reflexivity. Qed.

Lemma sentinels_distinct ty : missv ty <> fillv ty.
Proof. unfold missv, fillv, F32_MISSING, F32_FILL, STR_MISSING, STR_FILL. destruct (ty =? 0); [lia|]. destruct (ty =? 1); lia. Qed.
