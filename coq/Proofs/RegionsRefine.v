(* Proofs about _filter_empty_and_refine and the order / disjointness of the emitted regions (C04):
   refining preserves what every region yields, drops exactly the empty regions, and the final list
   is strictly ordered -- inside a contig each region ends before the next one starts. *)
From Coq Require Import ZArith Arith List Bool Lia ZifyBool Sorting.Sorted.
From B2Z Require Import Model.Regions Proofs.RegionsProofs.
Import ListNotations.
Open Scope Z_scope.

(* ---- refine keeps the records of every region ---- *)
Lemma sortedZ_filter (p : rec -> bool) (l : list rec) : sortedZ (map snd l) -> sortedZ (map snd (filter p l)).
Proof.
  induction l as [|x tl IH]; simpl; [auto|]. intros [Hx Htl]. destruct (p x); simpl; [|auto].
  split; [|auto]. intros y Hy. apply Hx. apply in_map_iff in Hy. destruct Hy as [z [<- Hz]].
  apply filter_In in Hz. apply in_map. tauto.
Qed.

Lemma query_as_contig file r : query file r = filter (in_region r) (of_contig (rc r) file).
Proof.
  unfold query, of_contig. rewrite filter_filter. apply filter_ext_in'. intros x _.
  unfold in_region. destruct (Nat.eqb (fst x) (rc r)); reflexivity.
Qed.

Lemma query_head_least file r x tl : file_ok file -> query file r = x :: tl ->
  forall y, In y (query file r) -> snd x <= snd y.
Proof.
  intros [_ Hs] E y Hy. assert (S: sortedZ (map snd (query file r))).
  { rewrite query_as_contig. apply sortedZ_filter. apply Hs. }
  rewrite E in *. simpl in S. destruct S as [S _]. destruct Hy as [<-|Hy]; [lia|]. apply S. apply in_map. exact Hy.
Qed.

Definition refined (r : region) (x : rec) : region := R (rc r) (Some (snd x)) (re r).

Lemma refine_query file r x tl : file_ok file -> query file r = x :: tl ->
  query file (refined r x) = query file r.
Proof.
  intros Hok E. unfold query. apply filter_ext_in'. intros y Hy.
  assert (Hx: in_region r x = true).
  { assert (In x (query file r)) by (rewrite E; left; reflexivity). unfold query in H. apply filter_In in H. tauto. }
  destruct (in_region r y) eqn:Ey.
  - assert (Hle: snd x <= snd y).
    { apply (query_head_least file r x tl Hok E). unfold query. apply filter_In. split; assumption. }
    unfold in_region, refined, lo in *. simpl. destruct (re r); lia.
  - unfold in_region, refined, lo in *. simpl. destruct (rs r); destruct (re r); lia.
Qed.

Lemma refine_cons file r tl : refine file (r :: tl) =
  (match query file r with [] => [] | x :: _ => [refined r x] end) ++ refine file tl.
Proof. reflexivity. Qed.

Theorem refine_cover file rs : file_ok file ->
  flat_map (query file) (refine file rs) = flat_map (query file) rs.
Proof.
  intros Hok. induction rs as [|r tl IH]; [reflexivity|].
  rewrite refine_cons, flat_map_app, IH.
  change (flat_map (query file) (r :: tl)) with (query file r ++ flat_map (query file) tl).
  destruct (query file r) as [|x q] eqn:E; [reflexivity|].
  simpl. rewrite app_nil_r. rewrite (refine_query file r x q Hok E), E. reflexivity.
Qed.

Lemma in_refine file l r' : In r' (refine file l) ->
  exists r x q, In r l /\ query file r = x :: q /\ r' = refined r x.
Proof.
  induction l as [|r tl IH]; [intros []|]. rewrite refine_cons. intros H. apply in_app_or in H. destruct H as [H|H].
  - destruct (query file r) as [|x q] eqn:E; [destruct H|]. destruct H as [<-|[]]. exists r, x, q. split; [left; reflexivity|auto].
  - destruct (IH H) as [r0 [x [q [Hin HE]]]]. exists r0, x, q. split; [right; exact Hin|exact HE].
Qed.

Theorem refine_nonempty file rs : file_ok file -> forall r, In r (refine file rs) -> query file r <> [].
Proof.
  intros Hok r Hr. destruct (in_refine file rs r Hr) as [r0 [x [q [_ [E ->]]]]].
  rewrite (refine_query file r0 x q Hok E), E. discriminate.
Qed.

(* ---- order ---- *)
Definition before (a b : region) : Prop :=
  (rc a < rc b)%nat \/ (rc a = rc b /\ exists e, re a = Some e /\ e < lo b).

Lemma sorted_ordered_disjoint l : StronglySorted before l -> ordered_disjoint l = true.
Proof.
  induction 1 as [|a l Hs IH Hall]; [reflexivity|]. destruct l as [|b tl]; [reflexivity|].
  change (ordered_disjoint (a :: b :: tl)) with
    ((if Nat.eqb (rc a) (rc b) then match re a with Some e => e <? lo b | None => false end else true) && ordered_disjoint (b :: tl)).
  rewrite IH, andb_true_r. inversion Hall as [|? ? Hab _]; subst.
  destruct (Nat.eqb_spec (rc a) (rc b)) as [E|E]; [|reflexivity].
  destruct Hab as [Hlt|[_ [e [-> He]]]]; [lia|]. apply Z.ltb_lt. exact He.
Qed.

Lemma refined_lo file r x q : query file r = x :: q -> lo r <= lo (refined r x).
Proof.
  intros E. assert (In x (query file r)) by (rewrite E; left; reflexivity).
  unfold query in H. apply filter_In in H. destruct H as [_ H]. unfold in_region in H. unfold refined, lo at 2. simpl. lia.
Qed.

Lemma before_refined file a b xa qa xb qb : query file a = xa :: qa -> query file b = xb :: qb ->
  before a b -> before (refined a xa) (refined b xb).
Proof.
  intros Ea Eb [H|[H [e [He Hlt]]]]; [left; exact H|]. right. split; [exact H|].
  exists e. split; [exact He|]. pose proof (refined_lo file b xb qb Eb). lia.
Qed.

Lemma refine_sorted file l : StronglySorted before l -> StronglySorted before (refine file l).
Proof.
  induction 1 as [|a l Hs IH Hall]; [constructor|]. rewrite refine_cons.
  destruct (query file a) as [|xa qa] eqn:Ea; [exact IH|]. simpl. constructor; [exact IH|].
  apply Forall_forall. intros b' Hb'. destruct (in_refine file l b' Hb') as [b [xb [qb [Hin [Eb ->]]]]].
  apply (before_refined file a b xa qa xb qb Ea Eb). rewrite Forall_forall in Hall. apply Hall. exact Hin.
Qed.

Lemma sorted_app (l1 l2 : list region) : StronglySorted before l1 -> StronglySorted before l2 ->
  (forall a b, In a l1 -> In b l2 -> before a b) -> StronglySorted before (l1 ++ l2).
Proof.
  induction 1 as [|a l Hs IH Hall]; intros H2 Hx; [exact H2|]. simpl. constructor.
  - apply IH; [exact H2|]. intros x y Hx1 Hy. apply Hx; [right; exact Hx1|exact Hy].
  - apply Forall_app. split; [exact Hall|]. apply Forall_forall. intros y Hy. apply Hx; [left; reflexivity|exact Hy].
Qed.

Lemma whole_sorted (l : list nat) : StronglySorted lt l -> StronglySorted before (map whole l).
Proof.
  induction 1 as [|a l Hs IH Hall]; simpl; constructor; [exact IH|].
  apply Forall_forall. intros r Hr. apply in_map_iff in Hr. destruct Hr as [c [<- Hc]].
  left. simpl. rewrite Forall_forall in Hall. apply Hall. exact Hc.
Qed.

Lemma seq_sorted n : forall a, StronglySorted lt (seq a n).
Proof.
  induction n as [|n IH]; intros a; simpl; constructor; [apply IH|].
  apply Forall_forall. intros x Hx. apply in_seq in Hx. lia.
Qed.

Lemma filter_sorted (p : nat -> bool) l : StronglySorted lt l -> StronglySorted lt (filter p l).
Proof.
  induction 1 as [|a l Hs IH Hall]; simpl; [constructor|]. destruct (p a); [|exact IH].
  constructor; [exact IH|]. apply Forall_forall. intros x Hx. apply filter_In in Hx. rewrite Forall_forall in Hall. apply Hall. tauto.
Qed.

Definition bounds (c : nat) (s : Z) (cl : nat) (r : region) : Prop :=
  ((c < rc r)%nat \/ (rc r = c /\ s <= lo r)) /\ (rc r <= cl)%nat.

Lemma last_contig_ge c s cuts : cuts_inc ((c, s) :: cuts) -> (c <= last_contig ((c, s) :: cuts))%nat.
Proof.
  revert c s. induction cuts as [|[c2 s2] tl IHt]; intros c s H; unfold last_contig in *; simpl in *; [lia|].
  destruct H as [_ [Hst H]]. specialize (IHt c2 s2 H). simpl in IHt. destruct tl; simpl in *; lia.
Qed.

Lemma build_sorted : forall cuts c s, cuts_inc ((c, s) :: cuts) ->
  StronglySorted before (build ((c, s) :: cuts)) /\
  Forall (bounds c s (last_contig ((c, s) :: cuts))) (build ((c, s) :: cuts)).
Proof.
  induction cuts as [|[c' s'] tl IH]; intros c s Hinc.
  - simpl. split; [repeat constructor|]. constructor; [|constructor].
    unfold bounds, last_contig. simpl. split; [right; split; [reflexivity|unfold lo; simpl; lia]|lia].
  - rewrite build_cons2. destruct Hinc as [Hs [Hstep Hinc]].
    destruct (IH c' s' Hinc) as [Hsorted Hb].
    assert (Hlast: last_contig ((c, s) :: (c', s') :: tl) = last_contig ((c', s') :: tl)) by reflexivity.
    rewrite Hlast. set (cl := last_contig ((c', s') :: tl)) in *.
    assert (Hge: (c' <= cl)%nat) by (apply last_contig_ge; exact Hinc).
    rewrite Forall_forall in Hb.
    destruct (Nat.eqb_spec c c') as [<-|Hne].
    + destruct Hstep as [Hlt|[_ Hlt]]; [lia|]. split.
      * simpl. constructor; [exact Hsorted|]. apply Forall_forall. intros r Hr.
        destruct (Hb r Hr) as [[Hc|[Hc Hl]] _]; [left; exact Hc|].
        right. split; [simpl; lia|]. exists (s' - 1). split; [reflexivity|lia].
      * simpl. constructor.
        -- split; [right; split; [reflexivity|unfold lo; simpl; lia]|simpl; lia].
        -- apply Forall_forall. intros r Hr. destruct (Hb r Hr) as [[Hc|[Hc Hl]] Hu].
           ++ split; [left; exact Hc|exact Hu].
           ++ split; [right; split; [exact Hc|lia]|exact Hu].
    + destruct Hstep as [Hlt|[Heq _]]; [|lia].
      set (mid := map whole (seq (S c) (c' - S c))).
      set (edge := if 1 <=? s' - 1 then [R c' (Some 1) (Some (s' - 1))] else []).
      assert (Hmid: forall r, In r mid -> (c < rc r < c')%nat).
      { intros r Hr. unfold mid in Hr. apply in_map_iff in Hr. destruct Hr as [k [<- Hk]]. apply in_seq in Hk. simpl. lia. }
      assert (Hedge: forall r, In r edge -> r = R c' (Some 1) (Some (s' - 1))).
      { intros r Hr. unfold edge in Hr. destruct (1 <=? s' - 1); [destruct Hr as [<-|[]]; reflexivity|destruct Hr]. }
      split.
      * change ((R c (Some s) None :: mid ++ edge) ++ build ((c', s') :: tl))
          with (R c (Some s) None :: (mid ++ edge) ++ build ((c', s') :: tl)).
        constructor.
        -- apply sorted_app; [apply sorted_app| exact Hsorted|].
           ++ apply whole_sorted. apply seq_sorted.
           ++ unfold edge. destruct (1 <=? s' - 1); repeat constructor.
           ++ intros a b Ha Hb'. left. rewrite (Hedge b Hb'). simpl. apply Hmid in Ha. lia.
           ++ intros a b Ha Hb'. apply in_app_or in Ha. destruct Ha as [Ha|Ha].
              ** left. apply Hmid in Ha. destruct (Hb b Hb') as [[Hc|[Hc _]] _]; lia.
              ** rewrite (Hedge a Ha). destruct (Hb b Hb') as [[Hc|[Hc Hl]] _]; [left; simpl; exact Hc|].
                 right. split; [simpl; lia|]. exists (s' - 1). split; [reflexivity|lia].
        -- apply Forall_forall. intros r Hr. left. simpl.
           apply in_app_or in Hr. destruct Hr as [Hr|Hr]; [apply in_app_or in Hr; destruct Hr as [Hr|Hr]|].
           ++ apply Hmid in Hr. lia.
           ++ rewrite (Hedge r Hr). simpl. exact Hlt.
           ++ destruct (Hb r Hr) as [[Hc|[Hc _]] _]; lia.
      * change ((R c (Some s) None :: mid ++ edge) ++ build ((c', s') :: tl))
          with (R c (Some s) None :: (mid ++ edge) ++ build ((c', s') :: tl)).
        constructor.
        -- split; [right; split; [reflexivity|unfold lo; simpl; lia]|simpl; lia].
        -- apply Forall_forall. intros r Hr.
           apply in_app_or in Hr. destruct Hr as [Hr|Hr]; [apply in_app_or in Hr; destruct Hr as [Hr|Hr]|].
           ++ apply Hmid in Hr. split; [left|]; lia.
           ++ rewrite (Hedge r Hr). simpl. split; [left; simpl; exact Hlt|simpl; exact Hge].
           ++ destruct (Hb r Hr) as [[Hc|[Hc _]] Hu]; (split; [left; lia|exact Hu]).
Qed.

Theorem regions_sorted ncontigs count_pos c0 s0 cuts : cuts_inc ((c0, s0) :: cuts) ->
  StronglySorted before (regions ncontigs count_pos ((c0, s0) :: cuts)).
Proof.
  intros Hinc. destruct (build_sorted cuts c0 s0 Hinc) as [Hs Hb]. unfold regions.
  apply sorted_app; [exact Hs| |].
  - unfold trailing. apply whole_sorted. apply filter_sorted. apply seq_sorted.
  - intros a b Ha Hb'. left. rewrite Forall_forall in Hb. destruct (Hb a Ha) as [_ Hu].
    unfold trailing in Hb'. apply in_map_iff in Hb'. destruct Hb' as [k [<- Hk]]. apply filter_In in Hk.
    destruct Hk as [Hk _]. apply in_seq in Hk. simpl. lia.
Qed.

Lemma recs_eqb_refl l : recs_eqb l l = true.
Proof.
  induction l as [|x tl IH]; [reflexivity|]. simpl. rewrite IH, andb_true_r.
  unfold rec_eqb. rewrite Nat.eqb_refl, Z.eqb_refl. reflexivity.
Qed.

(* C04, the whole statement for the list partition_into_regions returns: for any strictly increasing
   cut list (whatever num_parts / target size and the selection produced) under the conditions of
   regions_cover, the refined list yields every record exactly once in file order contig by contig,
   holds no empty region, and is strictly ordered: inside a contig every region ends before the next
   starts.  check_C04 -- the boolean the correspondence run evaluates on the real output -- is true. *)
Theorem partition_correct ncontigs count_pos file c0 s0 cuts :
  file_ok file -> cuts_inc ((c0, s0) :: cuts) ->
  (last_contig ((c0, s0) :: cuts) < ncontigs)%nat ->
  (forall x, In x file -> (fst x < ncontigs)%nat) ->
  (forall x, In x file -> (c0 <= fst x)%nat /\ (fst x = c0 -> s0 <= snd x)) ->
  (forall x, In x file -> (last_contig ((c0, s0) :: cuts) < fst x)%nat -> count_pos (fst x) = true) ->
  let rs := refine file (regions ncontigs count_pos ((c0, s0) :: cuts)) in
  flat_map (query file) rs = flat_map (fun c => of_contig c file) (seq 0 ncontigs) /\
  (forall r, In r rs -> query file r <> []) /\
  StronglySorted before rs /\
  check_C04 ncontigs file rs = true.
Proof.
  intros Hok Hinc Hlast Hrange Hfirst Htrail rs.
  assert (C: flat_map (query file) rs = flat_map (fun c => of_contig c file) (seq 0 ncontigs)).
  { unfold rs. rewrite refine_cover by exact Hok. apply regions_cover; assumption. }
  assert (N: forall r, In r rs -> query file r <> []) by (apply refine_nonempty; exact Hok).
  assert (S: StronglySorted before rs) by (apply refine_sorted; apply regions_sorted; exact Hinc).
  split; [exact C|]. split; [exact N|]. split; [exact S|].
  unfold check_C04. rewrite C, recs_eqb_refl, (sorted_ordered_disjoint rs S), andb_true_r. simpl.
  apply forallb_forall. intros r Hr. specialize (N r Hr). destruct (query file r); [congruence|reflexivity].
Qed.
