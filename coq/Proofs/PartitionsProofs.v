From Coq Require Import ZArith List Bool Lia ZifyBool.
From B2Z Require Import Base.Prims Model.Partitions.
Import ListNotations.
Open Scope Z_scope.
Ltac Zify.zify_post_hook ::= Z.to_euclidean_division_equations.

(* contiguous chunk-index sections from a to b (exclusive), each nonempty *)
Fixpoint cchain (a : Z) (l : list (Z*Z)) (b : Z) : Prop :=
  match l with
  | [] => a = b
  | (s, e) :: tl => s = a /\ s <= e /\ cchain (e + 1) tl b
  end.

Lemma sections_chain : forall k start q r, 1 <= q ->
  cchain start (sections start q r k) (start + q * Z.of_nat k + Z.max 0 (Z.min r (Z.of_nat k))).
Proof.
  induction k as [|k IH]; intros start q r Hq; cbn [sections cchain].
  - lia.
  - split; [reflexivity|]. split; [destruct (0 <? r); lia|].
    replace (start + (q + (if 0 <? r then 1 else 0)) - 1 + 1) with (start + (q + (if 0 <? r then 1 else 0))) by lia.
    specialize (IH (start + (q + (if 0 <? r then 1 else 0))) q (r - 1) Hq).
    match goal with |- cchain _ _ ?b => match type of IH with cchain _ _ ?b' => replace b with b'; [exact IH|] end end.
    destruct (0 <? r) eqn:E; lia.
Qed.

Lemma sections_length : forall k start q r, length (sections start q r k) = k.
Proof. induction k; intros; cbn [sections length]; auto. Qed.

Lemma msections_chain n k : 1 <= k <= n -> cchain 0 (msections n k) n /\ length (msections n k) = Z.to_nat k.
Proof.
  intros H. unfold msections. split; [|apply sections_length].
  pose proof (sections_chain (Z.to_nat k) 0 (n / k) (n mod k)) as S.
  match type of S with _ -> cchain _ _ ?b => replace n with b at 3; [apply S|] end.
  - nia.
  - rewrite Z2Nat.id by lia. nia.
Qed.

(* record-level chain: contiguous, nonempty, chunk aligned starts *)
Fixpoint rchain (cs a : Z) (l : list (Z*Z)) (b : Z) : Prop :=
  match l with
  | [] => a = b
  | (s, e) :: tl => s = a /\ s < e /\ s mod cs = 0 /\ rchain cs e tl b
  end.

Lemma cchain_le : forall l a b, cchain a l b -> a <= b.
Proof.
  induction l as [|[s e] tl IH]; cbn [cchain]; intros a b H; [lia|].
  destruct H as [-> [? H]]. apply IH in H. lia.
Qed.

Lemma map_chain cs n : 1 <= cs -> 1 <= n -> forall l a b,
  cchain a l b -> 0 <= a -> (b - 1) * cs < n \/ l = [] ->
  rchain cs (a * cs)
    (map (fun sl => (fst sl * cs, Z.min ((snd sl + 1) * cs) n)) l)
    (if match l with [] => true | _ => false end then a * cs else Z.min (b * cs) n).
Proof.
  intros Hcs Hn. induction l as [|[s e] tl IH]; intros a b Hc Ha Hb; cbn [map rchain cchain fst snd] in *.
  - reflexivity.
  - destruct Hc as [-> [Hse Hc]]. destruct Hb as [Hb|Hb]; [|discriminate].
    assert (Hbe: e + 1 <= b) by (apply cchain_le in Hc; exact Hc).
    split; [reflexivity|]. split; [nia|]. split; [rewrite Z.mod_mul; lia|].
    destruct tl as [|p tl'].
    + cbn [map rchain cchain] in *. subst b. reflexivity.
    + assert (E: Z.min ((e + 1) * cs) n = (e + 1) * cs).
      { destruct p as [s' e']. cbn [cchain] in Hc. destruct Hc as [-> [? Hc']].
        apply cchain_le in Hc'. nia. }
      rewrite E. specialize (IH (e + 1) b Hc ltac:(lia) (or_introl Hb)). exact IH.
Qed.

Definition mc_ok (mc : option Z) : Prop := match mc with None => True | Some m => 1 <= m end.

Lemma capped_chunks_bounds nr cs mc : 1 <= nr -> 1 <= cs -> mc_ok mc ->
  let nc := capped_chunks nr cs mc in
  1 <= nc /\ (nc - 1) * cs < nr /\ Z.min (nc * cs) nr = total_records nr cs mc.
Proof.
  intros Hnr Hcs Hmc. unfold capped_chunks, total_records.
  assert (H0: 1 <= ceil_truediv nr cs /\ (ceil_truediv nr cs - 1) * cs < nr <= ceil_truediv nr cs * cs).
  { unfold ceil_truediv. nia. }
  generalize dependent (ceil_truediv nr cs). intros c Hc.
  destruct mc as [m|]; cbn [mc_ok] in Hmc; cbv zeta; [|nia].
  destruct (Z.min_spec c m) as [[Hlt ->]|[Hge ->]].
  - assert (c * cs <= m * cs) by nia. split; [lia|]. split; [lia|]. lia.
  - assert (m * cs <= c * cs) by nia. assert ((m - 1) * cs <= (c - 1) * cs) by nia.
    split; [lia|]. split; [lia|]. apply Z.min_comm.
Qed.

Lemma generate_partitions_chain nr cs np mc :
  1 <= nr -> 1 <= cs -> 1 <= np -> mc_ok mc ->
  let ps := generate_partitions nr cs np mc in
  rchain cs 0 ps (total_records nr cs mc) /\
  Z.of_nat (length ps) = Z.min np (capped_chunks nr cs mc).
Proof.
  intros Hnr Hcs Hnp Hmc ps. subst ps. unfold generate_partitions.
  destruct (capped_chunks_bounds nr cs mc Hnr Hcs Hmc) as [Hnc [Hlt Htot]].
  set (nc := capped_chunks nr cs mc) in *.
  set (k := Z.min np nc).
  destruct (msections_chain nc k ltac:(lia)) as [Hc Hl].
  split.
  - pose proof (map_chain cs nr Hcs Hnr _ 0 nc Hc ltac:(lia) ltac:(left; exact Hlt)) as M.
    rewrite Z.mul_0_l in M.
    destruct (msections nc k) eqn:E.
    + cbn in Hl. lia.
    + rewrite <- Htot. exact M.
  - rewrite map_length, Hl. lia.
Qed.

(* the boolean checker is the Prop statement *)
Lemma chain_ok_spec cs : forall l a b, chain_ok cs a l b = true <-> rchain cs a l b.
Proof.
  induction l as [|[s e] tl IH]; intros a b; cbn [chain_ok rchain].
  - lia.
  - rewrite !andb_true_iff, IH, Z.eqb_eq, Z.ltb_lt, Z.eqb_eq. tauto.
Qed.

Lemma check_C11_spec nr cs np mc ps :
  check_C11 nr cs np mc ps = true <->
  rchain cs 0 ps (total_records nr cs mc) /\ 1 <= Z.of_nat (length ps) <= np.
Proof. unfold check_C11. rewrite !andb_true_iff, chain_ok_spec, !Z.leb_le. tauto. Qed.

(* consequences spelled out: disjointness and exact cover *)
Definition in_part (i : Z) (p : Z * Z) : Prop := fst p <= i < snd p.

Lemma rchain_cover cs : forall l a b, rchain cs a l b ->
  forall i, a <= i < b -> exists p, In p l /\ in_part i p.
Proof.
  induction l as [|[s e] tl IH]; cbn [rchain]; intros a b H i Hi; [lia|].
  destruct H as [-> [Hlt [_ H]]].
  destruct (Z_lt_dec i e) as [L|G].
  - exists (a, e). split; [left; reflexivity|unfold in_part; cbn; lia].
  - destruct (IH e b H i ltac:(lia)) as [p [Hin Hp]]. exists p. split; [right; exact Hin|exact Hp].
Qed.

Lemma rchain_bounds cs : forall l a b, rchain cs a l b -> a <= b /\ forall p, In p l -> a <= fst p /\ snd p <= b /\ fst p < snd p /\ fst p mod cs = 0.
Proof.
  induction l as [|[s e] tl IH]; cbn [rchain]; intros a b H.
  - split; [lia|intros p []].
  - destruct H as [-> [Hlt [Hm H]]]. destruct (IH e b H) as [Hle Hall]. split; [lia|].
    intros p [<-|Hin]; cbn [fst snd]; [lia|]. specialize (Hall p Hin). lia.
Qed.

(* pairwise disjoint: a record index lies in at most one partition (by position) *)
Lemma rchain_disjoint cs : forall l a b, rchain cs a l b ->
  forall i j p q, nth_error l i = Some p -> nth_error l j = Some q -> (i < j)%nat -> snd p <= fst q.
Proof.
  induction l as [|[s e] tl IH]; cbn [rchain]; intros a b H i j p q Hi Hj Hij.
  - destruct i; discriminate.
  - destruct H as [-> [Hlt [Hm H]]]. destruct j as [|j]; [lia|]. cbn [nth_error] in Hj.
    destruct i as [|i]; cbn [nth_error] in Hi.
    + injection Hi as <-. cbn [snd]. apply nth_error_In in Hj.
      destruct (rchain_bounds cs tl e b H) as [_ Hall]. specialize (Hall q Hj). lia.
    + eapply IH; eauto. lia.
Qed.

(* two different partitions never contain rows of the same chunk *)
Lemma rchain_no_chunk_shared cs : 1 <= cs -> forall l a b, rchain cs a l b ->
  forall i j p q x y, nth_error l i = Some p -> nth_error l j = Some q -> (i < j)%nat ->
  in_part x p -> in_part y q -> x / cs < y / cs.
Proof.
  intros Hcs l a b H i j p q x y Hi Hj Hij Hx Hy.
  pose proof (rchain_disjoint cs l a b H i j p q Hi Hj Hij) as D.
  destruct (rchain_bounds cs l a b H) as [_ Hall].
  pose proof (Hall q (nth_error_In _ _ Hj)) as Hq.
  unfold in_part in *. destruct Hq as [_ [_ [_ Hmod]]].
  assert (E: fst q = cs * (fst q / cs)).
  { pose proof (Z.div_mod (fst q) cs ltac:(lia)) as DM. rewrite Hmod in DM. lia. }
  assert (x / cs < fst q / cs) by (apply Z.div_lt_upper_bound; lia).
  assert (fst q / cs <= y / cs) by (apply Z.div_le_mono; lia). lia.
Qed.
