From Coq Require Import ZArith List Bool Lia ZifyBool.
From B2Z Require Import Model.Footprint.
Import ListNotations.

(* ---- generic: non-interference => serialisability, for any path / value / operation types ---- *)
Section Interleave.
Variables (path V op : Type).
Notation state := (path -> V).
Variable apply : op -> state -> state.
Variables touches writes : op -> path -> bool.

Definition eqv (s t : state) := forall p, s p = t p.

(* the footprints are honest about `apply` (the file-system model's assumption: an operation
   changes only what it writes, and what it writes depends only on what it touches) *)
Hypothesis writes_touches : forall o p, writes o p = true -> touches o p = true.
Hypothesis frame : forall o s p, writes o p = false -> apply o s p = s p.
Hypothesis local : forall o s t, (forall p, touches o p = true -> s p = t p) ->
                                 forall p, writes o p = true -> apply o s p = apply o t p.

Definition independent (a b : op) : Prop :=
  (forall p, writes a p = true -> touches b p = false) /\ (forall p, writes b p = true -> touches a p = false).

Lemma apply_eqv o s t : eqv s t -> eqv (apply o s) (apply o t).
Proof.
  intros E p. destruct (writes o p) eqn:W.
  - apply local; auto.
  - rewrite !frame by auto. apply E.
Qed.
Lemma commute a b s : independent a b -> eqv (apply a (apply b s)) (apply b (apply a s)).
Proof.
  intros [Hab Hba] p.
  destruct (writes a p) eqn:Wa, (writes b p) eqn:Wb.
  - specialize (Hab p Wa). rewrite (writes_touches b p Wb) in Hab. discriminate.
  - rewrite (frame b (apply a s) p Wb). apply local; auto.
    intros q Tq. apply frame. destruct (writes b q) eqn:E; auto. specialize (Hba q E). congruence.
  - rewrite (frame a (apply b s) p Wa). symmetry. apply local; auto.
    intros q Tq. apply frame. destruct (writes a q) eqn:E; auto. specialize (Hab q E). congruence.
  - rewrite !frame by auto. reflexivity.
Qed.
Definition exec (l : list op) (s : state) : state := fold_left (fun s o => apply o s) l s.
Lemma exec_eqv l : forall s t, eqv s t -> eqv (exec l s) (exec l t).
Proof. induction l as [|o l IH]; intros s t E; simpl; auto. apply IH. apply apply_eqv; auto. Qed.
Lemma exec_app l1 l2 s : exec (l1 ++ l2) s = exec l2 (exec l1 s).
Proof. unfold exec. apply fold_left_app. Qed.
Lemma eqv_trans s t u : eqv s t -> eqv t u -> eqv s u.
Proof. intros A B p. rewrite A. apply B. Qed.
Lemma swap_past b l : (forall a, In a l -> independent a b) ->
  forall s, eqv (exec l (apply b s)) (apply b (exec l s)).
Proof.
  induction l as [|a l IH]; intros H s; simpl; [intros p; reflexivity|].
  eapply eqv_trans; [apply exec_eqv; apply commute; apply H; simpl; auto|].
  apply IH. intros a' Ha'. apply H. simpl; auto.
Qed.
Inductive merge : list op -> list op -> list op -> Prop :=
| merge_nil : merge [] [] []
| merge_l a l1 l2 l : merge l1 l2 l -> merge (a :: l1) l2 (a :: l)
| merge_r b l1 l2 l : merge l1 l2 l -> merge l1 (b :: l2) (b :: l).
Lemma merge_serialisable l1 l2 l : merge l1 l2 l ->
  (forall a b, In a l1 -> In b l2 -> independent a b) ->
  forall s, eqv (exec l s) (exec (l1 ++ l2) s).
Proof.
  induction 1 as [|a l1 l2 l M IH|b l1 l2 l M IH]; intros Hind s; simpl.
  - intros p; reflexivity.
  - apply IH. intros; apply Hind; simpl; auto.
  - eapply eqv_trans; [apply IH; intros; apply Hind; simpl; auto|].
    rewrite !exec_app. simpl.
    apply exec_eqv. apply swap_past. intros a Ha. apply Hind; simpl; auto.
Qed.
Inductive interleaving : list (list op) -> list op -> Prop :=
| il_nil : interleaving [] []
| il_cons t ts l' l : interleaving ts l' -> merge t l' l -> interleaving (t :: ts) l.
Lemma interleaving_In ts l : interleaving ts l -> forall o, In o l -> exists t, In t ts /\ In o t.
Proof.
  induction 1 as [|t ts l' l Hi IH M]; intros o Ho; [destruct Ho|].
  assert (G: forall l1 l2 l, merge l1 l2 l -> forall o, In o l -> In o l1 \/ In o l2).
  { clear. induction 1; intros o Ho; simpl in *; try tauto; destruct Ho as [->|Ho]; auto; destruct (IHmerge o Ho); auto. }
  destruct (G _ _ _ M o Ho) as [H|H].
  - exists t. simpl; auto.
  - destruct (IH o H) as [t' [Ht' Ho']]. exists t'. simpl; auto.
Qed.
Fixpoint pairwise (P : list op -> list op -> Prop) (ts : list (list op)) : Prop :=
  match ts with [] => True | t :: tl => (forall t', In t' tl -> P t t') /\ pairwise P tl end.
Definition tasks_independent (t t' : list op) := forall a b, In a t -> In b t' -> independent a b.

(* every interleaving of pairwise non-interfering tasks ends in the state of the sequential run *)
Theorem noninterference_serialisable_lemma ts l :
  interleaving ts l -> pairwise tasks_independent ts -> forall s, eqv (exec l s) (exec (concat ts) s).
Proof.
  induction 1 as [|t ts l' l Hi IH M]; intros Hp s; simpl.
  - intros p; reflexivity.
  - destruct Hp as [Ht Hp].
    eapply eqv_trans.
    + apply (merge_serialisable _ _ _ M). intros a b Ha Hb.
      destruct (interleaving_In _ _ Hi b Hb) as [t' [Ht' Hb']]. apply (Ht t' Ht'); auto.
    + rewrite !exec_app. apply IH; auto.
Qed.
End Interleave.

(* ---- the concrete footprints are pairwise disjoint ------------------------------------------- *)
Open Scope Z_scope.

Lemma explode_footprints_disjoint_lemma i j p : i <> j ->
  (writes (Explode i) p = true -> touches (Explode j) p = false).
Proof.
  intros Hij. unfold touches. destruct p; cbn [writes reads orb]; intros H; try discriminate H; lia.
Qed.
Lemma encode_footprints_disjoint_lemma i j p : i <> j ->
  (writes (Encode i) p = true -> touches (Encode j) p = false).
Proof.
  intros Hij. unfold touches. destruct p; cbn [writes reads orb]; intros H; try discriminate H; lia.
Qed.
(* PLINK slices: chunk-aligned, ordered slices (as C11 delivers them) write disjoint chunk ranges *)
Lemma plink_footprints_disjoint_lemma a b c d cs p : 1 <= cs -> a mod cs = 0 -> c mod cs = 0 -> a < b -> b <= c -> c < d ->
  (writes (PlinkSlice a b cs) p = true -> touches (PlinkSlice c d cs) p = false) /\
  (writes (PlinkSlice c d cs) p = true -> touches (PlinkSlice a b cs) p = false).
Proof.
  intros Hcs Ha Hc Hab Hbc Hcd. unfold touches.
  assert (K: (b + cs - 1) / cs <= c / cs).
  { assert (E: c = cs * (c / cs)) by (pose proof (Z.div_mod c cs ltac:(lia)); lia).
    assert (E2: (c + cs - 1) / cs = c / cs) by (symmetry; apply (Z.div_unique_pos (c + cs - 1) cs (c / cs) (cs - 1)); lia).
    rewrite <- E2. apply Z.div_le_mono; lia. }
  destruct p; cbn [writes reads orb]; split; intros H; try discriminate H; try reflexivity; lia.
Qed.
(* the inputs the tasks of a phase read are written by no task of that phase *)
Lemma phase_inputs_not_written_lemma t u p : reads t p = true ->
  match t, u with Explode _, Explode _ | Encode _, Encode _ | PlinkSlice _ _ _, PlinkSlice _ _ _ => writes u p = false | _, _ => True end.
Proof. destruct t, u, p; cbn [reads writes]; intros H; try discriminate H; try exact I; reflexivity. Qed.
