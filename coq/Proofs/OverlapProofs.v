From Coq Require Import ZArith List Bool Lia ZifyBool Permutation.
From B2Z Require Import Base.Prims Model.Overlap.
Import ListNotations.
Open Scope Z_scope.

Definition key_le (a b : part) : Prop := p_contig a < p_contig b \/ (p_contig a = p_contig b /\ p_start a <= p_start b).
Lemma key_leb_spec a b : key_leb a b = true <-> key_le a b.
Proof. unfold key_leb, key_le. lia. Qed.
Lemma key_le_total a b : key_le a b \/ key_le b a.
Proof. unfold key_le. lia. Qed.
Lemma key_le_trans a b c : key_le a b -> key_le b c -> key_le a c.
Proof. unfold key_le. lia. Qed.

Fixpoint sorted (l : list part) : Prop :=
  match l with [] => True | a :: tl => Forall (key_le a) tl /\ sorted tl end.

Lemma insert_perm x : forall l, Permutation (x :: l) (insert x l).
Proof.
  induction l as [|y tl IH]; cbn [insert]; [reflexivity|].
  destruct (key_leb y x); [|reflexivity].
  rewrite perm_swap. apply perm_skip. exact IH.
Qed.
Lemma isort_perm : forall l, Permutation l (isort l).
Proof.
  induction l as [|x tl IH]; cbn [isort]; [reflexivity|].
  rewrite <- insert_perm. apply perm_skip. exact IH.
Qed.
Lemma insert_sorted x : forall l, sorted l -> sorted (insert x l).
Proof.
  induction l as [|y tl IH]; cbn [insert sorted]; intros H.
  - split; constructor.
  - destruct H as [Hy Hs]. destruct (key_leb y x) eqn:E.
    + cbn [sorted]. split; [|apply IH; exact Hs].
      apply key_leb_spec in E.
      eapply Permutation_Forall; [apply insert_perm|]. constructor; assumption.
    + cbn [sorted]. assert (Hxy: key_le x y).
      { destruct (key_le_total x y) as [K|K]; [exact K|]. apply key_leb_spec in K. congruence. }
      split; [|split; assumption].
      constructor; [exact Hxy|]. eapply Forall_impl; [|exact Hy]. intros z Hz. eapply key_le_trans; eassumption.
Qed.
Lemma isort_sorted : forall l, sorted (isort l).
Proof. induction l as [|x tl IH]; cbn [isort]; [exact I|]. apply insert_sorted. exact IH. Qed.

Definition disjoint (a b : part) : Prop := p_contig a <> p_contig b \/ p_end a < p_start b \/ p_end b < p_start a.
Lemma disjoint_b_spec a b : disjoint_b a b = true <-> disjoint a b.
Proof. unfold disjoint_b, disjoint. lia. Qed.
Lemma disjoint_sym a b : disjoint a b -> disjoint b a.
Proof. unfold disjoint. lia. Qed.

Fixpoint pairwise (l : list part) : Prop :=
  match l with [] => True | a :: tl => Forall (disjoint a) tl /\ pairwise tl end.
Lemma pairwise_b_spec : forall l, pairwise_disjoint_b l = true <-> pairwise l.
Proof.
  induction l as [|a tl IH]; cbn [pairwise_disjoint_b pairwise]; [tauto|].
  rewrite andb_true_iff, IH, forallb_forall, Forall_forall.
  split; intros [H1 H2]; (split; [|exact H2]); intros x Hx; apply disjoint_b_spec || apply <- disjoint_b_spec; auto.
Qed.

Lemma pairwise_perm : forall l l', Permutation l l' -> pairwise l -> pairwise l'.
Proof.
  induction 1 as [|x l l' Hp IH|x y l|l l' l'' H1 IH1 H2 IH2]; cbn [pairwise]; intros H.
  - exact I.
  - destruct H as [Hf Hs]. split; [eapply Permutation_Forall; eassumption|apply IH; exact Hs].
  - destruct H as [Hy [Hx Hs]]. inversion Hy as [|? ? Hyx Hyl]; subst.
    split; [constructor; [apply disjoint_sym; exact Hyx|exact Hx]|]. split; assumption.
  - apply IH2, IH1, H.
Qed.

(* the adjacent check on a sorted list decides pairwise disjointness *)
Lemma check_sorted_iff : forall l, sorted l -> Forall (fun a => p_start a <= p_end a) l ->
  (check_overlap l = true <-> pairwise l).
Proof.
  induction l as [|a tl IH]; intros Hs Hw; [cbn; tauto|].
  destruct Hs as [Ha Hs]. inversion Hw as [|? ? Hwa Hwt]; subst. specialize (IH Hs Hwt).
  destruct tl as [|b tl'].
  - cbn. split; auto.
  - cbn [check_overlap]. rewrite andb_true_iff, IH. cbn [pairwise]. split.
    + intros [Hab [Hb Hrest]]. split; [|split; assumption].
      inversion Ha as [|? ? Kab Katl]; subst.
      constructor.
      * unfold disjoint. destruct (p_contig a =? p_contig b) eqn:E; lia.
      * (* a vs the rest: via b *)
        destruct Hs as [Hbs _]. inversion Hwt as [|? ? Hwb Hwt']; subst.
        rewrite Forall_forall in Katl, Hbs, Hb, Hwt'. apply Forall_forall. intros z Hz.
        specialize (Katl z Hz). specialize (Hbs z Hz). specialize (Hb z Hz). specialize (Hwt' z Hz). cbn beta in Hwt'.
        unfold disjoint, key_le in *. destruct (p_contig a =? p_contig b) eqn:E; lia.
    + intros [Hfa [Hb Hrest]]. split; [|split; assumption].
      inversion Hfa as [|? ? Dab _]; subst. inversion Ha as [|? ? Kab _]; subst.
      inversion Hwt as [|? ? Hwb _]; subst.
      unfold disjoint, key_le in *. destruct (p_contig a =? p_contig b) eqn:E; lia.
Qed.

(* accepted <-> no two partitions (in any file order) intersect on a contig *)
Lemma overlap_check_complete_lemma l : Forall (fun a => p_start a <= p_end a) l ->
  (accept l = true <-> pairwise l).
Proof.
  intros Hw. unfold accept.
  rewrite (check_sorted_iff (isort l) (isort_sorted l)).
  - split; apply pairwise_perm; [symmetry|]; apply isort_perm.
  - eapply Permutation_Forall; [apply isort_perm|exact Hw].
Qed.

(* accepted => the sorted partitions are strictly ordered blocks: consecutive partitions are
   on increasing contigs or, on one contig, the earlier ends before the later starts *)
Fixpoint blocks_ordered (l : list part) : Prop :=
  match l with
  | a :: ((b :: _) as tl) => (p_contig a < p_contig b \/ (p_contig a = p_contig b /\ p_end a < p_start b)) /\ blocks_ordered tl
  | _ => True
  end.
Lemma accepted_sorted_lemma l : accept l = true -> blocks_ordered (isort l) /\ Permutation l (isort l).
Proof.
  intros H. split; [|apply isort_perm]. unfold accept in H. pose proof (isort_sorted l) as S.
  revert H S. generalize (isort l). induction l0 as [|a tl IH]; [cbn; tauto|].
  destruct tl as [|b tl']; [cbn; tauto|].
  cbn [check_overlap blocks_ordered]. rewrite andb_true_iff. intros [Hab Hrest] [Ha Hs].
  split; [|apply IH; assumption].
  inversion Ha as [|? ? Kab _]; subst. unfold key_le in Kab. destruct (p_contig a =? p_contig b) eqn:E; lia.
Qed.

(* duplicate path / incompatible header rejection *)
Lemma count_pos x l : In x l -> 1 <= count_occ_Z x l.
Proof.
  induction l as [|y tl IH]; cbn [In count_occ_Z]; [tauto|]. intros [->|H].
  - rewrite Z.eqb_refl. assert (0 <= count_occ_Z x tl) by (clear; induction tl as [|z t I]; cbn [count_occ_Z]; [lia|destruct (x =? z); lia]). lia.
  - specialize (IH H). destruct (x =? y); lia.
Qed.
Lemma duplicate_path_rejected_lemma a l1 l2 l3 headers :
  scan_checks (l1 ++ a :: l2 ++ a :: l3) headers = Err E_ValueError.
Proof.
  unfold scan_checks.
  assert (E: existsb (fun p => 1 <? count_occ_Z p (l1 ++ a :: l2 ++ a :: l3)) (l1 ++ a :: l2 ++ a :: l3) = true).
  { apply existsb_exists. exists a. split; [apply in_or_app; right; left; reflexivity|].
    assert (2 <= count_occ_Z a (l1 ++ a :: l2 ++ a :: l3)).
    { assert (G: forall l, 0 <= count_occ_Z a l) by (induction l as [|z t I]; cbn [count_occ_Z]; [lia|destruct (a =? z); lia]).
      assert (A: forall l l', count_occ_Z a (l ++ l') = count_occ_Z a l + count_occ_Z a l').
      { induction l as [|z t I]; intros l'; cbn [app count_occ_Z]; [lia|]. rewrite I. lia. }
      rewrite A. cbn [count_occ_Z]. rewrite Z.eqb_refl, A. cbn [count_occ_Z]. rewrite Z.eqb_refl.
      pose proof (G l1). pose proof (G l2). pose proof (G l3). lia. }
    lia. }
  rewrite E. reflexivity.
Qed.
Lemma incompatible_header_rejected_lemma paths h hs h' : In h' hs -> h' <> h ->
  scan_checks paths (h :: hs) = Err E_ValueError.
Proof.
  intros Hin Hne. unfold scan_checks. destruct (existsb _ paths); [reflexivity|].
  destruct (forallb (Z.eqb h) hs) eqn:E; [|reflexivity].
  rewrite forallb_forall in E. specialize (E h' Hin). lia.
Qed.

(* every reserved name, as INFO or FORMAT key, is rejected before anything is encoded *)
Lemma reserved_info_rejected_lemma k infos1 infos2 formats gt : info_reserved k = true ->
  exists e, convert_name_checks (infos1 ++ k :: infos2) formats gt = Err e.
Proof.
  intros Hk. unfold convert_name_checks, clobber_check.
  destruct (existsb info_checked (infos1 ++ k :: infos2) || existsb format_checked formats) eqn:E; [eexists; reflexivity|].
  cbn [bind]. apply orb_false_iff in E. destruct E as [E _].
  assert (K7: k = 7).
  { assert (info_checked k = false).
    { destruct (info_checked k) eqn:C; [|reflexivity]. exfalso.
      assert (existsb info_checked (infos1 ++ k :: infos2) = true) by (apply existsb_exists; exists k; split; [apply in_or_app; right; left; reflexivity|exact C]).
      congruence. }
    unfold info_reserved, info_checked in *. lia. }
  subst k.
  (* variant_length already exists when the INFO arrays are created *)
  assert (G: forall pre names existing, In (1, 7) existing -> exists e, create_arrays existing (pre ++ (1, 7) :: names) = Err e).
  { induction pre as [|[c q] pre IH]; intros names existing Hin; cbn [app create_arrays].
    - assert (X: existsb (fun e => (fst e =? 1) && (snd e =? 7)) existing = true) by (apply existsb_exists; exists (1, 7); split; [exact Hin|reflexivity]).
      rewrite X. eexists; reflexivity.
    - destruct (existsb _ existing); [eexists; reflexivity|]. apply IH. right. exact Hin. }
  assert (F: forall (fx : list (Z * Z)) rest, In (1, 7) fx ->
            exists e, create_arrays [] (fx ++ map (fun k => (1, k)) (infos1 ++ 7 :: infos2) ++ rest) = Err e).
  { intros fx rest Hin.
    assert (W: forall pre existing, exists e', create_arrays existing (pre ++ map (fun k => (1, k)) (infos1 ++ 7 :: infos2) ++ rest) = Err e' \/
               True) by (intros; exists 0; right; exact I).
    clear W.
    (* walk through fx: either an earlier failure or (1,7) ends up in existing *)
    assert (H: forall fx existing, In (1, 7) fx \/ In (1, 7) existing ->
               exists e, create_arrays existing (fx ++ map (fun k => (1, k)) (infos1 ++ 7 :: infos2) ++ rest) = Err e).
    { induction fx0 as [|[c q] fx0 IH]; intros existing Hor; cbn [app create_arrays].
      - destruct Hor as [[]|Hex]. rewrite map_app. cbn [map]. rewrite <- app_assoc. cbn [app].
        apply G. exact Hex.
      - destruct (existsb _ existing); [eexists; reflexivity|]. apply IH.
        destruct Hor as [[Heq|Hin']|Hex]; [right; left; exact Heq|left; exact Hin'|right; right; exact Hex]. }
    apply H. left. exact Hin. }
  destruct gt; apply F; cbn; tauto.
Qed.
Lemma reserved_format_rejected_lemma k infos formats1 formats2 gt : format_reserved k = true ->
  convert_name_checks infos (formats1 ++ k :: formats2) gt = Err E_ValueError.
Proof.
  intros Hk. unfold convert_name_checks, clobber_check.
  assert (E: existsb format_checked (formats1 ++ k :: formats2) = true).
  { apply existsb_exists. exists k. split; [apply in_or_app; right; left; reflexivity|exact Hk]. }
  rewrite E, orb_true_r. reflexivity.
Qed.

Lemma undeclared_filter_rejected_lemma declared used row f :
  In row used -> In f row -> ~ In f declared -> filters_check declared used = Err E_ValueError.
Proof.
  intros Hr Hf Hn. unfold filters_check.
  destruct (forallb (forallb (fun f0 => existsb (Z.eqb f0) declared)) used) eqn:E; [|reflexivity].
  rewrite forallb_forall in E. specialize (E row Hr). rewrite forallb_forall in E. specialize (E f Hf).
  apply existsb_exists in E. destruct E as [d [Hd Heq]]. exfalso. apply Hn. replace f with d by lia. exact Hd.
Qed.
