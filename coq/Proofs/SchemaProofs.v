From Coq Require Import ZArith List Bool Lia ZifyBool.
From B2Z Require Import Base.Prims Model.Schema.
Import ListNotations.
Open Scope Z_scope.

Lemma iinfo_vals :
  iinfo_min 1 = -128 /\ iinfo_max 1 = 127 /\ iinfo_min 2 = -32768 /\ iinfo_max 2 = 32767 /\
  iinfo_min 4 = -2147483648 /\ iinfo_max 4 = 2147483647 /\
  iinfo_min 8 = -9223372036854775808 /\ iinfo_max 8 = 9223372036854775807.
Proof. repeat split; reflexivity. Qed.

Definition int_code (c : Z) : Prop := c = 1 \/ c = 2 \/ c = 4 \/ c = 8.

(* the result is the narrowest of i1,i2,i4,i8 containing [lo,hi]; an error iff none does or lo>hi *)
Lemma min_int_dtype_fits_minimal_lemma lo hi d : min_int_dtype lo hi = Ok d ->
  int_code d /\ lo <= hi /\ iinfo_min d <= lo /\ hi <= iinfo_max d /\
  (forall d', int_code d' -> d' < d -> ~ (iinfo_min d' <= lo /\ hi <= iinfo_max d')).
Proof.
  destruct iinfo_vals as [A1 [A2 [B1 [B2 [C1 [C2 [D1 D2]]]]]]].
  unfold min_int_dtype, fits, int_code. intros H.
  repeat match type of H with (if ?c then _ else _) = _ => destruct c eqn:? end; inversion H; subst;
  (split; [lia|]); (split; [lia|]); (split; [lia|]); (split; [lia|]);
  intros d' [-> | [-> | [-> | ->]]] Hlt; lia.
Qed.
Lemma min_int_dtype_error_lemma lo hi e : min_int_dtype lo hi = Err e ->
  (hi < lo /\ e = E_ValueError) \/ (lo <= hi /\ e = E_OverflowError /\ ~ (iinfo_min 8 <= lo /\ hi <= iinfo_max 8)).
Proof.
  destruct iinfo_vals as [A1 [A2 [B1 [B2 [C1 [C2 [D1 D2]]]]]]].
  unfold min_int_dtype, fits. intros H.
  repeat match type of H with (if ?c then _ else _) = _ => destruct c eqn:? end; inversion H; subst; lia.
Qed.

Lemma sentinels_representable_lemma d : int_code d -> iinfo_min d <= -2 /\ -1 <= iinfo_max d.
Proof. destruct iinfo_vals as [A1 [A2 [B1 [B2 [C1 [C2 [D1 D2]]]]]]]. intros [-> | [-> | [-> | ->]]]; lia. Qed.

(* astype wraps; inside the range it is the identity *)
Lemma cast_id_in_range_lemma d x : int_code d -> iinfo_min d <= x <= iinfo_max d -> cast d x = x.
Proof.
  unfold cast, iinfo_min, iinfo_max. intros [-> | [-> | [-> | ->]]] H;
  cbn [Z.mul Z.sub Z.add Z.opp Pos.mul Z.pos_sub Pos.pred_double] in *;
  match goal with |- context [2 ^ ?a] => let v := eval vm_compute in (2 ^ a) in change (2 ^ a) with v in * end;
  match goal with |- context [2 ^ ?a] => let v := eval vm_compute in (2 ^ a) in change (2 ^ a) with v in * end;
  rewrite Z.mod_small; lia.
Qed.

(* a field's stored integers: the values in [lo,hi] of its summary, plus the sentinels *)
Definition stored_int (f : vfield) (v : Z) : Prop :=
  v = -1 \/ v = -2 \/ match s_bounds (f_sum f) with Some (lo, hi) => lo <= v <= hi | None => False end.
Definition summary_wf (f : vfield) : Prop :=
  match s_bounds (f_sum f) with Some (lo, hi) => lo <= hi | None => True end.

Lemma smallest_dtype_int f dt : f_type f = 0 -> smallest_dtype f = Ok dt -> int_code dt.
Proof.
  unfold smallest_dtype. intros -> H. cbn in H.
  destruct (s_bounds (f_sum f)) as [[lo hi]|].
  - apply min_int_dtype_fits_minimal_lemma in H. tauto.
  - inversion H. left. reflexivity.
Qed.

Lemma generated_dtype_fits_lemma f dt v : f_type f = 0 -> smallest_dtype f = Ok dt -> stored_int f v ->
  in_dtype dt v = true /\ cast dt v = v.
Proof.
  intros Ht H Hv. pose proof (smallest_dtype_int f dt Ht H) as Hc.
  assert (R: iinfo_min dt <= v <= iinfo_max dt).
  { destruct (sentinels_representable_lemma dt Hc) as [S1 S2].
    destruct Hv as [->|[->|Hv]].
    - destruct Hc as [-> | [-> | [-> | ->]]]; destruct iinfo_vals as [A1 [A2 [B1 [B2 [C1 [C2 [D1 D2]]]]]]]; lia.
    - destruct Hc as [-> | [-> | [-> | ->]]]; destruct iinfo_vals as [A1 [A2 [B1 [B2 [C1 [C2 [D1 D2]]]]]]]; lia.
    - unfold smallest_dtype in H. rewrite Ht in H. cbn in H.
      destruct (s_bounds (f_sum f)) as [[lo hi]|]; [|contradiction].
      apply min_int_dtype_fits_minimal_lemma in H. lia. }
  split; [unfold in_dtype; lia|apply cast_id_in_range_lemma; assumption].
Qed.

(* all-missing integer field: i1, in which the sentinels fit *)
Lemma all_missing_dtype f : f_type f = 0 -> s_bounds (f_sum f) = None -> smallest_dtype f = Ok 1.
Proof. unfold smallest_dtype. intros -> ->. reflexivity. Qed.

(* contig ids 0..num_contigs-1 fit the contig dtype *)
Lemma contig_dtype_fits_lemma nc dt c : min_int_dtype 0 nc = Ok dt -> 0 <= c < nc ->
  in_dtype dt c = true /\ in_dtype dt (-1) = true.
Proof.
  intros H Hc. apply min_int_dtype_fits_minimal_lemma in H. destruct H as [Hi [_ [H1 [H2 _]]]].
  destruct (sentinels_representable_lemma dt Hi). unfold in_dtype. lia.
Qed.

(* inner dimension: a field with more than one value per record gets an inner dimension of
   exactly max_number, so a row of length <= max_number is never truncated; the array's
   dtype is the field's smallest dtype *)
Lemma from_field_shape_lemma p f name s : from_field p f name = Ok s ->
  smallest_dtype f = Ok (sp_dtype s) /\
  length (sp_shape s) = length (sp_dims s) /\ length (sp_chunks s) = length (sp_dims s) /\
  hd 0 (sp_shape s) = g_m p /\
  (1 < s_max_number (f_sum f) -> last (sp_shape s) 0 = s_max_number (f_sum f)
                                 /\ last (sp_chunks s) 0 = s_max_number (f_sum f)).
Proof.
  unfold from_field. destruct (smallest_dtype f) as [dt|e] eqn:E; cbn [bind]; [|discriminate].
  cbv zeta. intros H.
  destruct ((1 <? s_max_number (f_sum f)) || f_is_laa f) eqn:C; inversion H; subst; cbn [sp_dtype sp_shape sp_chunks sp_dims];
  destruct (f_cat f =? 2); cbn [app length hd last]; repeat split; try reflexivity; try lia.
Qed.

Lemma widening_lemma d d' v : int_code d -> int_code d' -> d <= d' -> in_dtype d v = true -> cast d' v = v.
Proof.
  intros Hd Hd' Hle Hin. apply cast_id_in_range_lemma; [exact Hd'|].
  unfold in_dtype in Hin. destruct iinfo_vals as [A1 [A2 [B1 [B2 [C1 [C2 [D1 D2]]]]]]].
  destruct Hd as [-> | [-> | [-> | ->]]]; destruct Hd' as [-> | [-> | [-> | ->]]]; lia.
Qed.
