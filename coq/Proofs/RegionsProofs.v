(* Proofs about Model/Regions.v (C04) *)
From Coq Require Import ZArith Arith List Bool Lia ZifyBool Sorting.Sorted Permutation.
From B2Z Require Import Model.Regions.
Import ListNotations.
Open Scope Z_scope.

(* ---- well-formedness ---- *)
Fixpoint sortedZ (l : list Z) : Prop := match l with [] => True | x :: tl => (forall y, In y tl -> x <= y) /\ sortedZ tl end.
Definition file_ok (file : list rec) : Prop :=
  (forall x, In x file -> 1 <= snd x) /\ forall c, sortedZ (map snd (of_contig c file)).

Fixpoint cuts_inc (cuts : list (nat * Z)) : Prop :=
  match cuts with
  | [] => True
  | (c, s) :: tl => 1 <= s /\ match tl with [] => True | (c', s') :: _ => ((c < c')%nat \/ (c = c' /\ s < s')) end /\ cuts_inc tl
  end.

(* ---- lemmas ---- *)
Lemma filter_filter {A} (f g : A -> bool) l : filter f (filter g l) = filter (fun x => g x && f x) l.
Proof. induction l as [|x tl IH]; simpl; auto. destruct (g x); simpl; [destruct (f x); simpl; now rewrite IH | exact IH]. Qed.

Lemma filter_ext_in' {A} (f g : A -> bool) l : (forall x, In x l -> f x = g x) -> filter f l = filter g l.
Proof. induction l as [|x tl IH]; simpl; intros H; auto. rewrite (H x) by auto. rewrite IH; auto. Qed.

(* split of a pos-sorted list at a threshold *)
Lemma sorted_split (l : list rec) (s t : Z) :
  sortedZ (map snd l) -> s <= t ->
  filter (fun x => (s <=? snd x) && (snd x <=? t - 1)) l ++ filter (fun x => t <=? snd x) l
  = filter (fun x => s <=? snd x) l.
Proof.
  induction l as [|x tl IH]; simpl; intros Hs Hst; auto.
  destruct Hs as [Hx Hs]. specialize (IH Hs Hst).
  destruct (s <=? snd x) eqn:E1; simpl.
  - destruct (snd x <=? t - 1) eqn:E2; simpl.
    + assert (t <=? snd x = false) as -> by lia. simpl. now rewrite IH.
    + assert (t <=? snd x = true) as E3 by lia. rewrite E3.
      (* everything after x is >= snd x >= t: first filter on tl is empty *)
      assert (F: filter (fun x0 => (s <=? snd x0) && (snd x0 <=? t - 1)) tl = []).
      { clear IH. induction tl as [|y tl' IHt]; simpl; auto.
        assert (snd x <= snd y) by (apply Hx; simpl; auto).
        assert ((s <=? snd y) && (snd y <=? t - 1) = false) as -> by lia.
        apply IHt; [intros z Hz; apply Hx; simpl; auto | destruct Hs; auto]. }
      rewrite F in *. simpl in *. f_equal. 
      rewrite <- IH. reflexivity.
  - assert (t <=? snd x = false) as -> by lia. exact IH.
Qed.

Lemma query_contig file c s (e : option Z) :
  query file (R c (Some s) e) =
  filter (fun x => (s <=? snd x) && match e with Some e => snd x <=? e | None => true end) (of_contig c file).
Proof.
  unfold query, of_contig, in_region, lo; simpl. rewrite filter_filter. apply filter_ext_in'. intros x _. now rewrite andb_assoc.
Qed.

Lemma query_whole file c : file_ok file -> query file (whole c) = of_contig c file.
Proof.
  intros [Hpos _]. unfold query, of_contig, whole, in_region, lo; simpl. apply filter_ext_in'. intros x Hx.
  specialize (Hpos x Hx). destruct (Nat.eqb (fst x) c); simpl; auto. lia.
Qed.

Definition from (file : list rec) (c : nat) (s : Z) := filter (fun x => s <=? snd x) (of_contig c file).
Definition contigs_between (file : list rec) (a n : nat) := flat_map (fun c => of_contig c file) (seq a n).

Lemma flat_map_map_whole file l : file_ok file ->
  flat_map (query file) (map whole l) = flat_map (fun c => of_contig c file) l.
Proof. intros H. induction l; simpl; auto. now rewrite query_whole, IHl. Qed.

Lemma build_cons2 c s c' s' tl : build ((c, s) :: (c', s') :: tl) =
  (if Nat.eqb c c' then [R c (Some s) (Some (s' - 1))]
   else R c (Some s) None :: map whole (seq (S c) (c' - S c)) ++ (if 1 <=? s' - 1 then [R c' (Some 1) (Some (s' - 1))] else []))
  ++ build ((c', s') :: tl).
Proof. reflexivity. Qed.

(* main induction: what `build` covers *)
Lemma build_covers file : file_ok file -> forall cuts c s,
  cuts_inc ((c, s) :: cuts) ->
  flat_map (query file) (build ((c, s) :: cuts)) =
  from file c s ++ contigs_between file (S c) (last_contig ((c, s) :: cuts) - c).
Proof.
  intros Hok. induction cuts as [|[c' s'] tl IH]; intros c s Hinc.
  - simpl. unfold last_contig; simpl. rewrite Nat.sub_diag. unfold contigs_between; simpl.
    rewrite query_contig, !app_nil_r. unfold from. apply filter_ext_in'. intros; now rewrite andb_true_r.
  - rewrite build_cons2. destruct Hinc as [Hs [Hstep Hinc]].
    rewrite flat_map_app. rewrite (IH c' s' Hinc).
    assert (Hlast: last_contig ((c, s) :: (c', s') :: tl) = last_contig ((c', s') :: tl)) by reflexivity.
    rewrite Hlast.
    assert (Hs': 1 <= s') by (destruct Hinc; auto).
    assert (Hmono: (c' <= last_contig ((c', s') :: tl))%nat).
    { clear -Hinc. revert c' s' Hinc. induction tl as [|[c2 s2] tl IHt]; intros c' s' H; unfold last_contig in *; simpl in *; [lia|].
      destruct H as [_ [Hst H]]. specialize (IHt c2 s2 H). simpl in IHt. destruct tl; simpl in *; lia. }
    destruct (Nat.eqb c c') eqn:E.
    + apply Nat.eqb_eq in E. subst c'. destruct Hstep as [Hlt|[_ Hlt]]; [lia|].
      simpl flat_map. rewrite app_nil_r. rewrite query_contig. unfold from.
      rewrite app_assoc. f_equal.
      destruct Hok as [_ Hsorted]. apply (sorted_split (of_contig c file) s s'); [apply Hsorted | lia].
    + apply Nat.eqb_neq in E. destruct Hstep as [Hlt|[Heq _]]; [|lia].
      simpl flat_map. rewrite flat_map_app. rewrite flat_map_map_whole by auto.
      rewrite query_contig.
      assert (Hfrom: filter (fun x => (s <=? snd x) && true) (of_contig c file) = from file c s).
      { unfold from. apply filter_ext_in'. intros; now rewrite andb_true_r. }
      rewrite Hfrom. rewrite <- !app_assoc. f_equal.
      (* contigs c+1 .. c'-1, then c' split at s', then later contigs *)
      replace (last_contig ((c', s') :: tl) - c)%nat with ((c' - S c) + S (last_contig ((c', s') :: tl) - c'))%nat by lia.
      unfold contigs_between at 2. rewrite seq_app, flat_map_app. f_equal.
      replace (S c + (c' - S c))%nat with c' by lia.
      simpl seq. simpl flat_map. unfold contigs_between.
      rewrite app_assoc. f_equal.
      destruct Hok as [Hpos Hsorted].
      assert (Hall: of_contig c' file = filter (fun x => 1 <=? snd x) (of_contig c' file)).
      { symmetry. clear -Hpos. unfold of_contig. rewrite filter_filter. apply filter_ext_in'. intros x Hx. specialize (Hpos x Hx).
        destruct (Nat.eqb (fst x) c'); simpl; lia. }
      destruct (1 <=? s' - 1) eqn:E1.
      * simpl flat_map. rewrite app_nil_r, query_contig. unfold from. rewrite Hall at 3.
        apply (sorted_split (of_contig c' file) 1 s'); [apply Hsorted|lia].
      * simpl. assert (s' = 1) by lia. subst s'. unfold from. rewrite Hall at 2. reflexivity.
Qed.

Theorem regions_cover ncontigs count_pos file c0 s0 cuts :
  file_ok file -> cuts_inc ((c0, s0) :: cuts) ->
  (last_contig ((c0, s0) :: cuts) < ncontigs)%nat ->
  (forall x, In x file -> (fst x < ncontigs)%nat) ->
  (* contigs before the first cut are empty; the first cut is at or before the first record of its contig *)
  (forall x, In x file -> (c0 <= fst x)%nat /\ (fst x = c0 -> s0 <= snd x)) ->
  (* trailing contigs that are skipped (count = 0) are empty *)
  (forall x, In x file -> (last_contig ((c0, s0) :: cuts) < fst x)%nat -> count_pos (fst x) = true) ->
  flat_map (query file) (regions ncontigs count_pos ((c0, s0) :: cuts))
  = flat_map (fun c => of_contig c file) (seq 0 ncontigs).
Proof.
  intros Hok Hinc Hlast Hrange Hfirst Htrail. unfold regions. rewrite flat_map_app.
  rewrite (build_covers file Hok cuts c0 s0 Hinc).
  set (cl := last_contig ((c0, s0) :: cuts)) in *.
  assert (Hc0: (c0 <= cl)%nat).
  { unfold cl. clear -Hinc. revert c0 s0 Hinc. induction cuts as [|[c2 s2] tl IHt]; intros c0 s0 H; unfold last_contig in *; simpl in *; [lia|].
    destruct H as [_ [Hst H]]. specialize (IHt c2 s2 H). simpl in IHt. destruct tl; simpl in *; lia. }
  assert (Hempty: forall c, (forall x, In x file -> fst x <> c) -> of_contig c file = []).
  { intros c H. unfold of_contig. clear -H. induction file as [|x tl IH]; simpl; auto.
    destruct (Nat.eqb (fst x) c) eqn:E; [apply Nat.eqb_eq in E; exfalso; apply (H x); simpl; auto|].
    apply IH. intros y Hy. apply H. simpl; auto. }
  replace ncontigs with (c0 + (1 + ((cl - c0) + (ncontigs - S cl))))%nat at 2 by lia.
  rewrite !seq_app, !flat_map_app. simpl seq at 2. simpl flat_map at 3. rewrite app_nil_r.
  assert (Hlead: flat_map (fun c => of_contig c file) (seq 0 c0) = []).
  { assert (G: forall l, (forall c, In c l -> (c < c0)%nat) -> flat_map (fun c => of_contig c file) l = []).
    { induction l as [|c l IH]; simpl; intros H; auto.
      rewrite Hempty; [simpl; apply IH; intros c' Hc'; apply H; simpl; auto|].
      intros x Hx. destruct (Hfirst x Hx) as [Hge _]. specialize (H c (or_introl eq_refl)). lia. }
    apply G. intros c Hc. apply in_seq in Hc. lia. }
  rewrite Hlead. simpl app.
  assert (Hc0all: from file c0 s0 = of_contig c0 file).
  { unfold from. transitivity (filter (fun _ => true) (of_contig c0 file)).
    - apply filter_ext_in'. intros x Hx. unfold of_contig in Hx. apply filter_In in Hx. destruct Hx as [Hx E].
      apply Nat.eqb_eq in E. destruct (Hfirst x Hx) as [_ H]. specialize (H E). lia.
    - clear. induction (of_contig c0 file); simpl; auto. now rewrite IHl. }
  rewrite Hc0all. replace (0 + c0)%nat with c0 by lia. rewrite <- app_assoc. f_equal.
  unfold contigs_between. replace (c0 + 1)%nat with (S c0) by lia. f_equal.
  replace (S c0 + (cl - c0))%nat with (S cl) by lia.
  unfold trailing. fold cl. rewrite flat_map_map_whole by auto.
  generalize (seq (S cl) (ncontigs - S cl)) (fun c (H : In c (seq (S cl) (ncontigs - S cl))) => proj1 (proj1 (in_seq _ _ _) H)).
  intros l Hl. induction l as [|c l IH]; simpl; auto.
  destruct (count_pos c) eqn:E; simpl.
  - f_equal. apply IH. intros c' Hc'. apply Hl. simpl; auto.
  - rewrite Hempty.
    + apply IH. intros c' Hc'. apply Hl. simpl; auto.
    + intros x Hx Heq. specialize (Hl c (or_introl eq_refl)). rewrite <- Heq in *. rewrite (Htrail x Hx) in E; [discriminate|lia].
Qed.

(* ---- CSI: the sorted keys give non-decreasing positions; selected entries are strict ---------- *)
Definition key_le (a b : key) : Prop := fst a < fst b \/ (fst a = fst b /\ snd a <= snd b).
Lemma key_leb_spec a b : key_leb a b = true <-> key_le a b.
Proof. unfold key_leb, key_le. lia. Qed.
Lemma key_le_total a b : key_le a b \/ key_le b a.
Proof. unfold key_le. lia. Qed.
Lemma key_le_trans a b c : key_le a b -> key_le b c -> key_le a c.
Proof. unfold key_le. lia. Qed.

Lemma insert_perm x l : Permutation (x :: l) (insert x l).
Proof.
  induction l as [|y tl IH]; simpl; auto. destruct (key_leb x y); auto.
  eapply perm_trans; [apply perm_swap|]. constructor. exact IH.
Qed.
Lemma isort_perm l : Permutation l (isort l).
Proof. induction l as [|x tl IH]; simpl; auto. eapply perm_trans; [|apply insert_perm]. constructor. exact IH. Qed.

Lemma insert_sorted x l : StronglySorted key_le l -> StronglySorted key_le (insert x l).
Proof.
  induction 1 as [|y tl Hs IH Hall]; simpl; [repeat constructor|].
  destruct (key_leb x y) eqn:E.
  - apply key_leb_spec in E. constructor; [constructor; auto|]. constructor; auto.
    eapply Forall_impl; [|exact Hall]. intros z Hz. eapply key_le_trans; eauto.
  - assert (key_le y x). { destruct (key_le_total x y) as [H|H]; auto. apply key_leb_spec in H. congruence. }
    constructor; auto. eapply Permutation_Forall; [apply insert_perm|]. constructor; auto.
Qed.
Lemma isort_sorted l : StronglySorted key_le (isort l).
Proof. induction l; simpl; [constructor|apply insert_sorted; auto]. Qed.

(* ---- hypotheses about what htslib writes (monitored on every generated index) ---- *)
Definition loff_monotone (bins : list key) : Prop :=
  forall a b, In a bins -> In b bins -> (snd a < snd b -> fst a <= fst b) /\ (snd a = snd b -> fst a = fst b).

(* positions come out non-decreasing *)
Theorem positions_sorted bins : loff_monotone bins -> StronglySorted (fun a b => snd a <= snd b) (isort bins).
Proof.
  intros H.
  assert (Hin: forall x, In x (isort bins) -> In x bins) by (intros x Hx; eapply Permutation_in; [apply Permutation_sym, isort_perm|auto]).
  pose proof (isort_sorted bins) as S. induction S as [|a l Hs IH Hall]; constructor.
  - apply IH. intros x Hx. apply Hin. simpl; auto.
  - rewrite Forall_forall in *. intros b Hb. specialize (Hall b Hb).
    destruct (H b a (Hin b (or_intror Hb)) (Hin a (or_introl eq_refl))) as [H1 _].
    destruct Hall as [Hlt|[Heq Hle]]; [|lia].
    destruct (Z_lt_le_dec (snd b) (snd a)) as [C|C]; [specialize (H1 C); lia|lia].
Qed.

(* two emitted entries with different file offsets (loffset >> 16) have strictly increasing positions:
   exactly the entries np.searchsorted/np.unique can select in one contig *)
Theorem selected_strict bins i j d : loff_monotone bins -> (forall b, In b bins -> 0 <= fst b) ->
  (i < j < length (isort bins))%nat ->
  file_offset (fst (nth i (isort bins) d)) < file_offset (fst (nth j (isort bins) d)) ->
  snd (nth i (isort bins) d) < snd (nth j (isort bins) d).
Proof.
  intros H Hpos Hij Hfo.
  set (l := isort bins) in *.
  assert (Hin: forall x, In x l -> In x bins) by (intros x Hx; eapply Permutation_in; [apply Permutation_sym, isort_perm|auto]).
  pose proof (positions_sorted bins H) as S. fold l in S.
  assert (Hle: snd (nth i l d) <= snd (nth j l d)).
  { clear -S Hij. revert i j Hij. induction S as [|a tl Hs IH Hall]; intros i j Hij; simpl in *; [lia|].
    simpl in Hij. destruct i as [|i], j as [|j]; try lia.
    - rewrite Forall_forall in Hall. apply Hall. apply nth_In. lia.
    - apply IH. lia. }
  destruct (Z.eq_dec (snd (nth i l d)) (snd (nth j l d))) as [E|E]; [|lia].
  assert (Hi: (i < length l)%nat) by lia. assert (Hj: (j < length l)%nat) by lia.
  destruct (H (nth i l d) (nth j l d) (Hin _ (nth_In l d Hi)) (Hin _ (nth_In l d Hj))) as [_ H2].
  specialize (H2 E). unfold file_offset in Hfo. rewrite H2 in Hfo. lia.
Qed.

Lemma ss_left_first l x : StronglySorted Z.le l ->
  (forall k, (k < ss_left l x)%nat -> nth k l 0 < x) /\ ((ss_left l x < length l)%nat -> x <= nth (ss_left l x) l 0).
Proof.
  induction 1 as [|y tl Hs IH Hall]; simpl; [split; intros; lia|].
  destruct (y <? x) eqn:E.
  - destruct IH as [I1 I2]. split.
    + intros [|k] Hk; [lia|]. apply I1. lia.
    + intros Hk. apply I2. lia.
  - split; intros; lia.
Qed.
(* distinct selected indices have strictly increasing haystack values: i = ss_left fo a < j = ss_left fo b *)
Theorem selected_offsets_strict fo a b : StronglySorted Z.le fo ->
  (ss_left fo a < ss_left fo b < length fo)%nat -> nth (ss_left fo a) fo 0 < nth (ss_left fo b) fo 0.
Proof.
  intros S Hij. destruct (ss_left_first fo b S) as [B1 B2].
  specialize (B1 (ss_left fo a) ltac:(lia)). specialize (B2 ltac:(lia)). lia.
Qed.
