From Coq Require Import ZArith Arith List Bool Lia ZifyBool.
From B2Z Require Import Model.Plink.
Import ListNotations.
Open Scope Z_scope.

Definition code_ok (c : Z) : Prop := 0 <= c < 4.

Lemma call_spec_lemma code : code_ok code ->
  call code = if code =? 0 then (0, 0) else if code =? 1 then (-1, -1) else if code =? 2 then (1, 0) else (1, 1).
Proof.
  unfold code_ok. intros H. assert (code = 0 \/ code = 1 \/ code = 2 \/ code = 3) as Hc by lia.
  destruct Hc as [E|[E|[E|E]]]; subst; reflexivity.
Qed.

Lemma unpack_pack4 c0 c1 c2 c3 : code_ok c0 -> code_ok c1 -> code_ok c2 -> code_ok c3 ->
  unpack_byte (pack4 c0 c1 c2 c3) = [c0; c1; c2; c3].
Proof.
  unfold code_ok, unpack_byte, pack4. intros H0 H1 H2 H3.
  set (x := c0 + 4 * c1 + 16 * c2 + 64 * c3).
  assert (E0: x mod 4 = c0) by (symmetry; apply (Z.mod_unique_pos x 4 (c1 + 4 * c2 + 16 * c3)); unfold x; lia).
  assert (D0: x / 4 = c1 + 4 * c2 + 16 * c3) by (symmetry; apply (Z.div_unique_pos x 4 _ c0); unfold x; lia).
  assert (E1: (c1 + 4 * c2 + 16 * c3) mod 4 = c1) by (symmetry; apply (Z.mod_unique_pos _ 4 (c2 + 4 * c3)); lia).
  assert (D1: x / 16 = c2 + 4 * c3) by (symmetry; apply (Z.div_unique_pos x 16 _ (c0 + 4 * c1)); unfold x; lia).
  assert (E2: (c2 + 4 * c3) mod 4 = c2) by (symmetry; apply (Z.mod_unique_pos _ 4 c3); lia).
  assert (D2: x / 64 = c3) by (symmetry; apply (Z.div_unique_pos x 64 _ (c0 + 4 * c1 + 16 * c2)); unfold x; lia).
  rewrite E0, D0, E1, D1, E2, D2. rewrite Z.mod_small by lia. reflexivity.
Qed.

(* unpack . pack = id on code lists whose length is a multiple of four *)
Lemma unpack_pack_codes : forall k l, length l = (4 * k)%nat -> Forall code_ok l ->
  flat_map unpack_byte (pack_codes l) = l /\ length (pack_codes l) = k.
Proof.
  induction k as [|k IH]; intros l Hl Hc.
  - destruct l; [split; reflexivity|discriminate].
  - destruct l as [|c0 [|c1 [|c2 [|c3 tl]]]]; cbn [length] in Hl; try lia.
    inversion Hc as [|? ? H0 Hc1]; subst. inversion Hc1 as [|? ? H1 Hc2]; subst.
    inversion Hc2 as [|? ? H2 Hc3]; subst. inversion Hc3 as [|? ? H3 Hc4]; subst.
    cbn [pack_codes flat_map length]. rewrite unpack_pack4 by assumption.
    destruct (IH tl ltac:(lia) Hc4) as [I1 I2]. rewrite I1, I2. split; reflexivity.
Qed.

Lemma pad_len_spec n : exists k, (n + pad_len n = 4 * k)%nat /\ (k = (n + 3) / 4)%nat /\ (pad_len n <= 3)%nat.
Proof.
  unfold pad_len. pose proof (Nat.div_mod n 4 ltac:(lia)) as D. pose proof (Nat.mod_upper_bound n 4 ltac:(lia)) as U.
  remember (n mod 4)%nat as r. remember (n / 4)%nat as q.
  assert (r = 0 \/ r = 1 \/ r = 2 \/ r = 3)%nat as Hr by lia.
  destruct Hr as [-> | [-> | [-> | ->]]]; cbn [Nat.sub Nat.modulo]; [exists q|exists (S q)|exists (S q)|exists (S q)];
  (split; [cbn; lia|]); (split; [|cbn; lia]); subst n;
  [replace (4 * q + 0 + 3)%nat with (3 + q * 4)%nat by lia|replace (4 * q + 1 + 3)%nat with (0 + (S q) * 4)%nat by lia
  |replace (4 * q + 2 + 3)%nat with (1 + (S q) * 4)%nat by lia|replace (4 * q + 3 + 3)%nat with (2 + (S q) * 4)%nat by lia];
  rewrite Nat.div_add by lia; reflexivity.
Qed.

(* a packed row (with ARBITRARY padding codes) decodes to exactly its n codes *)
Lemma unpack_pack_row cs pad : Forall code_ok cs -> Forall code_ok pad -> (3 <= length pad)%nat ->
  unpack_row (length cs) (pack_row cs pad) = cs /\ length (pack_row cs pad) = bytes_per_variant (length cs).
Proof.
  intros Hc Hp Hl. unfold unpack_row, pack_row, bytes_per_variant.
  destruct (pad_len_spec (length cs)) as [k [K1 [K2 K3]]].
  assert (L: length (cs ++ firstn (pad_len (length cs)) pad) = (4 * k)%nat).
  { rewrite app_length, firstn_length. lia. }
  assert (F: Forall code_ok (cs ++ firstn (pad_len (length cs)) pad)).
  { apply Forall_app. split; [exact Hc|]. rewrite Forall_forall in *. intros x Hx. apply Hp.
    clear -Hx. revert Hx. generalize (pad_len (length cs)). intros n. revert pad. induction n as [|n IH]; intros [|y pad] H; cbn [firstn] in H; try contradiction.
    destruct H as [<-|H]; [left; reflexivity|right; apply IH; exact H]. }
  destruct (unpack_pack_codes k _ L F) as [U1 U2]. rewrite U1, U2. split; [|lia].
  rewrite firstn_app, Nat.sub_diag, firstn_all. cbn [firstn]. apply app_nil_r.
Qed.

(* whole file: decoding an encoded fileset returns the code matrix *)
Lemma split_rows_concat (bpv : nat) : forall (rows : list (list Z)), Forall (fun r => length r = bpv) rows ->
  split_rows (length rows) bpv (concat rows) = rows.
Proof.
  induction rows as [|r tl IH]; intros H; [reflexivity|].
  inversion H as [|? ? Hr Ht]; subst. cbn [length split_rows concat].
  rewrite firstn_app, Nat.sub_diag, firstn_all. cbn [firstn]. rewrite app_nil_r.
  rewrite skipn_app, Nat.sub_diag, skipn_all. cbn [skipn app]. rewrite IH by exact Ht. reflexivity.
Qed.

Lemma decode_encode_lemma n (rows pads : list (list Z)) :
  length pads = length rows ->
  Forall (fun r => length r = n /\ Forall code_ok r) rows ->
  Forall (fun p => Forall code_ok p /\ (3 <= length p)%nat) pads ->
  decode_bed (encode_bed rows pads) n (length rows) = Some rows.
Proof.
  intros Hlen Hr Hp. unfold decode_bed, encode_bed. cbn [bed_magic app].
  set (packed := map (fun rp => pack_row (fst rp) (snd rp)) (combine rows pads)).
  assert (P: Forall (fun r => length r = bytes_per_variant n) packed /\ map (unpack_row n) packed = rows /\ length packed = length rows).
  { unfold packed. clear packed. revert pads Hlen Hp. induction Hr as [|r tl [Hn Hc] _ IH]; intros [|p pads] Hlen Hp; cbn [length] in Hlen; try lia.
    - repeat split; constructor.
    - inversion Hp as [|? ? [Hpc Hpl] Hpt]; subst. cbn [combine map fst snd].
      destruct (unpack_pack_row r p Hc Hpc Hpl) as [U1 U2].
      destruct (IH pads ltac:(lia) Hpt) as [I1 [I2 I3]].
      split; [constructor; assumption|]. split; [rewrite U1, I2; reflexivity|cbn [length]; lia]. }
  destruct P as [P1 [P2 P3]].
  assert (L: length (concat packed) = (length rows * bytes_per_variant n)%nat).
  { rewrite <- P3. clear -P1. induction P1 as [|r tl Hr _ IH]; [reflexivity|]. cbn [concat length]. rewrite app_length, IH, Hr. lia. }
  rewrite L, Nat.eqb_refl. cbn [andb Z.eqb Pos.eqb]. rewrite <- P3 at 1. rewrite split_rows_concat by exact P1.
  rewrite P2. reflexivity.
Qed.

(* sample s of a row lives in bits 2(s mod 4).. of byte s/4 *)
Lemma unpack_row_nth n row s : (s < n)%nat -> (s / 4 < length row)%nat ->
  nth s (unpack_row n row) 0 = (nth (s / 4) row 0 / 4 ^ Z.of_nat (s mod 4)) mod 4.
Proof.
  intros Hs Hb. unfold unpack_row.
  assert (F: forall (l : list Z) (d : Z), (s < n)%nat -> nth s (firstn n l) d = nth s l d).
  { clear. intros l d. revert s l. induction n as [|n IH]; intros s l H; [lia|]. destruct l; [destruct s; reflexivity|]. destruct s; [reflexivity|]. cbn [firstn nth]. apply IH. lia. }
  rewrite F by exact Hs. clear F Hs.
  revert s Hb. induction row as [|b tl IH]; intros s Hb; [cbn [length] in Hb; lia|].
  cbn [flat_map]. destruct (Nat.lt_ge_cases s 4) as [L|G].
  - rewrite Nat.div_small in * by lia. rewrite Nat.mod_small by lia. cbn [nth].
    assert (s = 0 \/ s = 1 \/ s = 2 \/ s = 3)%nat as Hc by lia.
    destruct Hc as [-> | [-> | [-> | ->]]]; cbn [unpack_byte app nth Z.of_nat Pos.of_succ_nat Pos.succ]; rewrite ?Z.pow_0_r, ?Z.div_1_r; reflexivity.
  - replace s with ((s - 4) + 1 * 4)%nat at 1 2 3 by lia.
    rewrite Nat.div_add, Nat.mod_add by lia.
    replace (nth ((s - 4) + 1 * 4) (unpack_byte b ++ flat_map unpack_byte tl) 0) with (nth (s - 4) (flat_map unpack_byte tl) 0).
    + rewrite IH.
      * replace ((s - 4) / 4 + 1)%nat with (S ((s - 4) / 4)) by lia. reflexivity.
      * cbn [length] in Hb. assert (s / 4 = (s - 4) / 4 + 1)%nat by (replace s with ((s - 4) + 1 * 4)%nat at 1 by lia; rewrite Nat.div_add by lia; reflexivity). lia.
    + rewrite app_nth2 by (cbn [unpack_byte length]; lia). f_equal. cbn [unpack_byte length]. lia.
Qed.

(* ---------------- individual-major layout ---------------- *)
Lemma body_roundtrip n (rows pads : list (list Z)) :
  length pads = length rows ->
  Forall (fun r => length r = n /\ Forall code_ok r) rows ->
  Forall (fun p => Forall code_ok p /\ (3 <= length p)%nat) pads ->
  let body := concat (map (fun rp => pack_row (fst rp) (snd rp)) (combine rows pads)) in
  length body = (length rows * bytes_per_variant n)%nat /\
  map (unpack_row n) (split_rows (length rows) (bytes_per_variant n) body) = rows.
Proof.
  intros Hlen Hr Hp. cbv zeta.
  set (packed := map (fun rp => pack_row (fst rp) (snd rp)) (combine rows pads)).
  assert (P: Forall (fun r => length r = bytes_per_variant n) packed /\ map (unpack_row n) packed = rows /\ length packed = length rows).
  { unfold packed. clear packed. revert pads Hlen Hp. induction Hr as [|r tl [Hn Hc] _ IH]; intros [|p pads] Hlen Hp; cbn [length] in Hlen; try lia.
    - repeat split; constructor.
    - inversion Hp as [|? ? [Hpc Hpl] Hpt]; subst. cbn [combine map fst snd].
      destruct (unpack_pack_row r p Hc Hpc Hpl) as [U1 U2].
      destruct (IH pads ltac:(lia) Hpt) as [I1 [I2 I3]].
      split; [constructor; assumption|]. split; [rewrite U1, I2; reflexivity|cbn [length]; lia]. }
  destruct P as [P1 [P2 P3]].
  split.
  - rewrite <- P3. clear -P1. induction P1 as [|r tl Hr _ IH]; [reflexivity|]. cbn [concat length]. rewrite app_length, IH, Hr. lia.
  - rewrite <- P3 at 1. rewrite split_rows_concat by exact P1. exact P2.
Qed.

Lemma transpose_length k rows : length (transpose k rows) = k.
Proof. unfold transpose. rewrite map_length, seq_length. reflexivity. Qed.

Lemma transpose_rows k rows : Forall (fun r => Forall code_ok r) rows ->
  Forall (fun r => length r = length rows /\ Forall code_ok r) (transpose k rows).
Proof.
  intros H. unfold transpose. apply Forall_forall. intros r Hin. apply in_map_iff in Hin. destruct Hin as [c [<- _]].
  split; [apply map_length|]. apply Forall_forall. intros x Hx. apply in_map_iff in Hx. destruct Hx as [row [<- Hrow]].
  rewrite Forall_forall in H. specialize (H row Hrow).
  destruct (Nat.lt_ge_cases c (length row)) as [L|L].
  - rewrite Forall_forall in H. apply H. apply nth_In. exact L.
  - rewrite nth_overflow by exact L. unfold code_ok. lia.
Qed.

Lemma map_nth_seq {A} (l : list A) d : map (fun i => nth i l d) (seq 0 (length l)) = l.
Proof.
  apply (nth_ext _ _ d d).
  - rewrite map_length, seq_length. reflexivity.
  - intros i Hi. rewrite map_length, seq_length in Hi.
    rewrite (nth_indep _ d (nth (length l) l d)) by (rewrite map_length, seq_length; exact Hi).
    rewrite (map_nth (fun i => nth i l d)). rewrite seq_nth by exact Hi. reflexivity.
Qed.

Lemma transpose_involutive k rows : Forall (fun r => length r = k) rows ->
  transpose (length rows) (transpose k rows) = rows.
Proof.
  intros H. unfold transpose at 1.
  rewrite <- (map_nth_seq rows []) at 2.
  apply map_ext_in. intros i Hi. apply in_seq in Hi.
  unfold transpose. rewrite map_map.
  assert (E: forall c, nth i (map (fun row : list Z => nth c row 0) rows) 0 = nth c (nth i rows []) 0).
  { intros c. rewrite (nth_indep _ 0 ((fun row : list Z => nth c row 0) [])) by (rewrite map_length; lia).
    rewrite (map_nth (fun row : list Z => nth c row 0)). reflexivity. }
  rewrite (map_ext _ (fun c => nth c (nth i rows []) 0)) by exact E.
  assert (Lk: length (nth i rows []) = k).
  { rewrite Forall_forall in H. apply H. apply nth_In. lia. }
  rewrite <- Lk. apply map_nth_seq.
Qed.

Lemma decode_encode_sample_major_lemma n (rows pads : list (list Z)) :
  length pads = n ->
  Forall (fun r => length r = n /\ Forall code_ok r) rows ->
  Forall (fun p => Forall code_ok p /\ (3 <= length p)%nat) pads ->
  decode_bed_any (encode_bed_sample_major rows n pads) n (length rows) = Some rows.
Proof.
  intros Hlen Hr Hp. unfold decode_bed_any, encode_bed_sample_major. cbn [app Z.eqb Pos.eqb andb].
  assert (Hc: Forall (fun r => Forall code_ok r) rows) by (eapply Forall_impl; [|exact Hr]; intros r [_ Hc]; exact Hc).
  assert (Hk: Forall (fun r => length r = n) rows) by (eapply Forall_impl; [|exact Hr]; intros r [Hl _]; exact Hl).
  pose proof (body_roundtrip (length rows) (transpose n rows) pads) as B.
  rewrite transpose_length in B. specialize (B Hlen (transpose_rows n rows Hc) Hp). cbv zeta in B.
  destruct B as [B1 B2]. rewrite B1, Nat.eqb_refl. rewrite B2.
  rewrite transpose_involutive by exact Hk. reflexivity.
Qed.
