(* Proofs about Model/Icf.v (C08) *)
From Coq Require Import ZArith Arith List Bool Lia.
From B2Z Require Import Model.Icf.
Import ListNotations.
Open Scope nat_scope.

Section IcfProofs.
Variable A : Type.
Notation chunk := (list A).
Notation partition := (list (list A)).
Notation store := (list (list (list A))).

(* ---------- lemmas ---------- *)
Lemma cum_from_length acc ls : length (cum_from acc ls) = S (length ls).
Proof. revert acc; induction ls; intros; simpl; auto. Qed.

Lemma cum_from_nth acc ls k : k <= length ls ->
  nth k (cum_from acc ls) 0 = acc + list_sum (firstn k ls).
Proof.
  revert acc k; induction ls as [|x tl IH]; intros acc k Hk; simpl in *.
  - assert (k = 0) by lia; subst; simpl; lia.
  - destruct k; simpl; [lia|]. rewrite IH by lia. lia.
Qed.

Lemma ss_right_cum_from acc ls x : acc <= x ->
  exists k, ss_right (cum_from acc ls) x = S k /\ k <= length ls /\
            acc + list_sum (firstn k ls) <= x /\
            (k < length ls -> x < acc + list_sum (firstn (S k) ls)) .
Proof.
  revert acc; induction ls as [|y tl IH]; intros acc Hx; unfold ss_right in *; simpl.
  - destruct (acc <=? x) eqn:E; [|apply Nat.leb_gt in E; lia]. exists 0; simpl; repeat split; lia.
  - destruct (acc <=? x) eqn:E; [|apply Nat.leb_gt in E; lia]. simpl.
    destruct (Nat.le_gt_cases (acc + y) x) as [H|H].
    + destruct (IH (acc + y) H) as [k [Hk [Hl [Hle Hlt]]]].
      exists (S k). rewrite Hk. simpl. repeat split; try lia. intros Hk2. specialize (Hlt ltac:(lia)). simpl in Hlt. lia.
    + (* all later elements > x *)
      assert (F: filter (fun y0 => y0 <=? x) (cum_from (acc + y) tl) = []).
      { clear -H. revert H. generalize (acc + y). induction tl as [|z tl IHt]; intros a Ha; simpl.
        - destruct (a <=? x) eqn:E; auto. apply Nat.leb_le in E; lia.
        - destruct (a <=? x) eqn:E; [apply Nat.leb_le in E; lia|]. apply IHt. lia. }
      rewrite F. exists 0. simpl. repeat split; lia.
Qed.

Lemma concat_skipn_sum (ls : list (list A)) k :
  concat (skipn k ls) = skipn (list_sum (firstn k (map (@length A) ls))) (concat ls).
Proof.
  revert k; induction ls as [|l tl IH]; intros k; destruct k; simpl; auto.
  rewrite IH. rewrite skipn_app. rewrite (skipn_all2 l) by lia. simpl.
  f_equal. lia.
Qed.

Lemma scan2_spec (l : list A) : forall rid stop, rid <= stop -> scan2 rid stop l = firstn (stop - rid) l.
Proof.
  induction l as [|x tl IH]; intros rid stop H; simpl.
  - now rewrite firstn_nil.
  - destruct (rid =? stop) eqn:E.
    + apply Nat.eqb_eq in E. subst. now rewrite Nat.sub_diag.
    + apply Nat.eqb_neq in E. rewrite IH by lia. replace (stop - rid) with (S (stop - S rid)) by lia. reflexivity.
Qed.

Lemma scan1_spec (l : list A) : forall rid start stop, rid <= start -> start <= stop ->
  let '(out, r, fin) := scan1 rid start stop l in
  out = firstn (stop - start) (skipn (start - rid) l) /\
  (fin = false -> r = rid + length l /\ rid + length l <= stop) /\
  (fin = true -> stop < rid + length l).
Proof.
  induction l as [|x tl IH]; intros rid start stop H1 H2; simpl.
  - rewrite skipn_nil, firstn_nil. repeat split; try lia; discriminate.
  - destruct (rid =? stop) eqn:E.
    + apply Nat.eqb_eq in E. subst. assert (start = stop) by lia. subst.
      rewrite Nat.sub_diag. simpl. repeat split; try discriminate; lia.
    + apply Nat.eqb_neq in E.
      destruct (start <=? rid) eqn:E2.
      * apply Nat.leb_le in E2. assert (start = rid) by lia. subst start.
        (* from here on rid >= start: use a generalized statement *)
        assert (G: forall (l : list A) r, rid <= r -> r <= stop ->
                 let '(out, r', fin) := scan1 r rid stop l in
                 out = firstn (stop - r) l /\ (fin = false -> r' = r + length l /\ r + length l <= stop) /\ (fin = true -> stop < r + length l)).
        { clear. induction l as [|y tl IHl]; intros r Hr Hs; simpl.
          - rewrite firstn_nil. repeat split; try lia; discriminate.
          - destruct (r =? stop) eqn:E.
            + apply Nat.eqb_eq in E. subst. rewrite Nat.sub_diag. simpl. repeat split; try discriminate; lia.
            + apply Nat.eqb_neq in E. specialize (IHl (S r) ltac:(lia) ltac:(lia)).
              destruct (scan1 (S r) rid stop tl) as [[out r'] fin].
              destruct IHl as [-> [Ha Hb]].
              assert (rid <=? r = true) as -> by (apply Nat.leb_le; lia).
              replace (stop - r) with (S (stop - S r)) by lia. simpl.
              split; [reflexivity|split; [intros H; apply Ha in H; lia|intros H; apply Hb in H; lia]]. }
        specialize (G tl (S rid) ltac:(lia) ltac:(lia)).
        destruct (scan1 (S rid) rid stop tl) as [[out r'] fin].
        destruct G as [-> [Ha Hb]]. rewrite Nat.sub_diag. simpl.
        replace (stop - rid) with (S (stop - S rid)) by lia. simpl.
        split; [reflexivity|split; [intros H; apply Ha in H; lia|intros H; apply Hb in H; lia]].
      * apply Nat.leb_gt in E2. specialize (IH (S rid) start stop ltac:(lia) H2).
        destruct (scan1 (S rid) start stop tl) as [[out r'] fin].
        destruct IH as [-> [Ha Hb]].
        replace (start - rid) with (S (start - S rid)) by lia. simpl.
        split; [reflexivity|split; [intros H; apply Ha in H; lia|intros H; apply Hb in H; lia]].
Qed.

Lemma list_sum_map_firstn_concat (ls : list (list A)) k :
  list_sum (firstn k (map (@length A) ls)) = length (concat (firstn k ls)).
Proof.
  revert k; induction ls as [|l tl IH]; intros [|k]; simpl; auto. rewrite app_length, IH. reflexivity.
Qed.

Lemma all_values_split (s : store) k : k < length s ->
  all_values s = concat (map (@concat A) (firstn k s)) ++ concat (nth k s []) ++ concat (map (@concat A) (skipn (S k) s)).
Proof.
  revert k; induction s as [|p tl IH]; intros k Hk; simpl in *; [lia|].
  destruct k; simpl.
  - reflexivity.
  - unfold all_values in *. simpl. rewrite (IH k) by lia. now rewrite app_assoc.
Qed.

Lemma pri_nth (s : store) k : k <= length s ->
  nth k (pri s) 0 = length (concat (map (@concat A) (firstn k s))).
Proof.
  intros Hk. unfold pri, cum. rewrite cum_from_nth by (rewrite map_length; lia). simpl.
  clear Hk. revert k; induction s as [|p tl IH]; intros [|k]; simpl; auto.
  rewrite app_length, <- IH. reflexivity.
Qed.

Theorem range_read (s : store) (a b : nat) :
  a < b -> b <= length (all_values s) ->
  iter_values s a b = firstn (b - a) (skipn a (all_values s)).
Proof.
  intros Hab Hb. unfold iter_values.
  destruct (ss_right_cum_from 0 (map plen s) a ltac:(lia)) as [sp [Hsp [Hspl [Hlo Hhi]]]].
  fold (cum (map plen s)) in Hsp. fold (pri s) in Hsp. rewrite Hsp. simpl Nat.sub. rewrite Nat.sub_0_r.
  rewrite map_length in *.
  (* total length = sum of plen *)
  assert (Htot: length (all_values s) = list_sum (map plen s)).
  { unfold all_values, plen. clear. induction s; simpl; auto. rewrite app_length, IHs. reflexivity. }
  assert (Hsplt: sp < length s).
  { destruct (Nat.eq_dec sp (length s)); [|lia]. subst sp. rewrite firstn_all2 in Hlo by (rewrite map_length; lia). lia. }
  specialize (Hhi Hsplt).
  rewrite pri_nth by lia.
  set (pre := concat (map (@concat A) (firstn sp s))) in *.
  set (p := nth sp s []).
  assert (Hpre: length pre = list_sum (firstn sp (map plen s))).
  { unfold pre, plen. clear. revert sp. induction s as [|q tl IH]; intros [|k]; simpl; auto. rewrite app_length, IH. reflexivity. }
  assert (Hp: list_sum (firstn (S sp) (map plen s)) = length pre + plen p).
  { rewrite Hpre. unfold p. clear -Hsplt. revert sp Hsplt. induction s as [|q tl IH]; intros [|k] H; simpl in *; try lia.
    rewrite IH by lia. lia. }
  simpl in Hlo.
  destruct (ss_right_cum_from 0 (map (@length A) p) (a - length pre) ltac:(lia)) as [sc [Hsc [Hscl [Hclo Hchi]]]].
  fold (cum (map (@length A) p)) in Hsc. fold (cri p) in Hsc. rewrite Hsc. simpl Nat.sub. rewrite Nat.sub_0_r.
  unfold cri, cum. rewrite cum_from_nth by lia. simpl plus.
  rewrite concat_skipn_sum.
  set (k0 := list_sum (firstn sc (map (@length A) p))) in *.
  rewrite (all_values_split s sp Hsplt). fold pre p.
  simpl in Hclo.
  assert (Hk0: k0 <= length (concat p)).
  { unfold k0. rewrite list_sum_map_firstn_concat.
    assert (E: concat p = concat (firstn sc p) ++ concat (skipn sc p)) by (rewrite <- concat_app, firstn_skipn; reflexivity).
    rewrite E at 1. rewrite app_length. lia. }
  pose proof (scan1_spec (skipn k0 (concat p)) (length pre + k0) a b ltac:(lia) ltac:(lia)) as S1.
  destruct (scan1 (length pre + k0) a b (skipn k0 (concat p))) as [[out rid] fin].
  destruct S1 as [-> [Hf Ht]]. rewrite skipn_length in *.
  set (rest := concat (map (@concat A) (skipn (S sp) s))).
  assert (SS: forall (l : list A) x y, skipn x (skipn y l) = skipn (y + x) l).
  { clear. intros l x y. revert l. induction y as [|y IH]; intros l; simpl; auto. destruct l; simpl; [now rewrite skipn_nil|apply IH]. }
  rewrite SS.
  rewrite skipn_app. rewrite (skipn_all2 pre) by lia. simpl app.
  assert (Hlen: a - length pre < length (concat p)) by (change (plen p) with (length (concat p)) in Hp; lia).
  replace (k0 + (a - (length pre + k0))) with (a - length pre) by lia.
  rewrite skipn_app. replace (a - length pre - length (concat p)) with 0 by lia. simpl skipn.
  set (Y := skipn (a - length pre) (concat p)).
  assert (HY: length Y = length (concat p) - (a - length pre)) by (unfold Y; now rewrite skipn_length).
  rewrite firstn_app.
  destruct fin.
  - specialize (Ht eq_refl). replace (b - a - length Y) with 0 by lia. simpl. now rewrite app_nil_r.
  - destruct (Hf eq_refl) as [-> Hle]. rewrite scan2_spec by lia.
    rewrite (firstn_all2 Y) by lia. f_equal. f_equal. lia.
Qed.

(* ---- writer ---- *)
Lemma write_chunks_concat (thr : Z) : forall (items : list (A * Z)) buf bytes,
  concat (write_chunks thr buf bytes items) = rev buf ++ map fst items.
Proof.
  induction items as [|[x sz] tl IH]; intros buf bytes; cbn [write_chunks map].
  - destruct buf; cbn [concat]; rewrite ?app_nil_r; reflexivity.
  - destruct (thr <=? bytes + sz)%Z.
    + cbn [concat]. rewrite IH. cbn [rev app fst]. rewrite <- app_assoc. reflexivity.
    + rewrite IH. cbn [rev fst]. rewrite <- app_assoc. reflexivity.
Qed.
Lemma write_chunks_nonempty (thr : Z) : forall (items : list (A * Z)) buf bytes,
  Forall (fun c => c <> []) (write_chunks thr buf bytes items).
Proof.
  induction items as [|[x sz] tl IH]; intros buf bytes; cbn [write_chunks].
  - destruct buf as [|y b]; constructor; [|constructor]. cbn [rev]. intros H. apply app_eq_nil in H. destruct H; discriminate.
  - destruct (thr <=? bytes + sz)%Z.
    + constructor; [|apply IH]. cbn [rev]. intros H. apply app_eq_nil in H. destruct H; discriminate.
    + apply IH.
Qed.

Theorem values_roundtrip_lemma (thr : Z) (parts : list (list (A * Z))) :
  all_values (map (write_partition thr) parts) = map fst (concat parts).
Proof.
  unfold all_values. induction parts as [|p tl IH]; cbn [map concat]; [reflexivity|].
  rewrite IH. unfold write_partition. rewrite write_chunks_concat. cbn [rev app]. rewrite map_app. reflexivity.
Qed.
End IcfProofs.

(* ---- summaries ---- *)
From Coq Require Import ZifyBool.
Open Scope Z_scope.

Lemma fold_min_le : forall l x, fold_left Z.min l x <= x /\ (forall y, In y l -> fold_left Z.min l x <= y).
Proof.
  induction l as [|a l IH]; intros x; cbn [fold_left]; [split; [lia|intros y []]|].
  destruct (IH (Z.min x a)) as [H1 H2]. split; [lia|]. intros y [<-|Hy]; [lia|auto].
Qed.
Lemma fold_max_ge : forall l x, x <= fold_left Z.max l x /\ (forall y, In y l -> y <= fold_left Z.max l x).
Proof.
  induction l as [|a l IH]; intros x; cbn [fold_left]; [split; [lia|intros y []]|].
  destruct (IH (Z.max x a)) as [H1 H2]. split; [lia|]. intros y [<-|Hy]; [lia|auto].
Qed.
Lemma fold_min_in : forall l x, fold_left Z.min l x = x \/ In (fold_left Z.min l x) l.
Proof.
  induction l as [|a l IH]; intros x; cbn [fold_left]; [left; reflexivity|].
  destruct (IH (Z.min x a)) as [H|H]; [|right; right; exact H].
  rewrite H. destruct (Z.min_spec x a) as [[_ ->]|[_ ->]]; [left; reflexivity|right; left; reflexivity].
Qed.
Lemma fold_max_in : forall l x, fold_left Z.max l x = x \/ In (fold_left Z.max l x) l.
Proof.
  induction l as [|a l IH]; intros x; cbn [fold_left]; [left; reflexivity|].
  destruct (IH (Z.max x a)) as [H|H]; [|right; right; exact H].
  rewrite H. destruct (Z.max_spec x a) as [[_ ->]|[_ ->]]; [right; left; reflexivity|left; reflexivity].
Qed.

(* what "bounds b of a multiset of ints l" means: None iff l empty; else min and max, attained *)
Definition bounds_of (l : list Z) (b : option (Z * Z)) : Prop :=
  match b with
  | None => l = []
  | Some (lo, hi) => In lo l /\ In hi l /\ forall y, In y l -> lo <= y <= hi
  end.
Lemma list_bounds_spec l : bounds_of l (list_bounds l).
Proof.
  destruct l as [|x tl]; cbn [list_bounds bounds_of]; [reflexivity|].
  destruct (fold_min_le tl x) as [A1 A2]. destruct (fold_max_ge tl x) as [B1 B2].
  split; [destruct (fold_min_in tl x) as [->|H]; [left; reflexivity|right; exact H]|].
  split; [destruct (fold_max_in tl x) as [->|H]; [left; reflexivity|right; exact H]|].
  intros y [<-|Hy]; [lia|]. specialize (A2 y Hy). specialize (B2 y Hy). lia.
Qed.
Lemma join_bounds_spec l1 l2 b1 b2 : bounds_of l1 b1 -> bounds_of l2 b2 -> bounds_of (l1 ++ l2) (join_bounds b1 b2).
Proof.
  destruct b1 as [[lo1 hi1]|]; destruct b2 as [[lo2 hi2]|]; cbn [bounds_of join_bounds].
  - intros [A1 [A2 A3]] [B1 [B2 B3]].
    split; [destruct (Z.min_spec lo1 lo2) as [[_ ->]|[_ ->]]; apply in_or_app; auto|].
    split; [destruct (Z.max_spec hi1 hi2) as [[_ ->]|[_ ->]]; apply in_or_app; auto|].
    intros y Hy. apply in_app_or in Hy. destruct Hy as [Hy|Hy]; [specialize (A3 y Hy)|specialize (B3 y Hy)]; lia.
  - intros [A1 [A2 A3]] ->. rewrite app_nil_r. auto.
  - intros -> H. exact H.
  - intros -> ->. reflexivity.
Qed.

Definition unmasked (vs : list (Z * list Z)) : list Z :=
  flat_map (fun v => filter (fun x => MIN_INT_VALUE <=? x) (snd v)) vs.
Definition max_number_of (vs : list (Z * list Z)) : Z := fold_left Z.max (map fst vs) 0.

Lemma summarise_from : forall vs s l0, bounds_of l0 (i_bounds s) ->
  bounds_of (l0 ++ unmasked vs) (i_bounds (fold_left upd vs s)) /\
  i_maxnum (fold_left upd vs s) = fold_left Z.max (map fst vs) (i_maxnum s).
Proof.
  induction vs as [|v tl IH]; intros s l0 H; cbn [fold_left map unmasked flat_map].
  - rewrite app_nil_r. auto.
  - specialize (IH (upd s v) (l0 ++ filter (fun x => MIN_INT_VALUE <=? x) (snd v))).
    destruct IH as [I1 I2].
    + cbn [upd i_bounds]. apply join_bounds_spec; [exact H|apply list_bounds_spec].
    + split; [|exact I2]. rewrite <- app_assoc in I1. exact I1.
Qed.

(* summary_bounds: every non-sentinel integer lies in [min,max]; both are attained; they
   stay "infinite" (None) iff there is no such integer; max_number is the max of shape[-1] *)
Lemma summary_bounds_lemma vs :
  bounds_of (unmasked vs) (i_bounds (summarise vs)) /\ i_maxnum (summarise vs) = max_number_of vs.
Proof. exact (summarise_from vs isum0 [] eq_refl). Qed.

Lemma merge_spec s t l1 l2 : bounds_of l1 (i_bounds s) -> bounds_of l2 (i_bounds t) ->
  bounds_of (l1 ++ l2) (i_bounds (merge s t)).
Proof. intros. cbn [merge i_bounds]. apply join_bounds_spec; assumption. Qed.

(* two descriptions of the same multiset give the same bounds *)
Lemma bounds_of_unique l l' b b' : (forall y, In y l <-> In y l') -> bounds_of l b -> bounds_of l' b' -> b = b'.
Proof.
  intros Hiff. destruct b as [[lo hi]|]; destruct b' as [[lo' hi']|]; cbn [bounds_of].
  - intros [A1 [A2 A3]] [B1 [B2 B3]].
    pose proof (A3 lo' (proj2 (Hiff _) B1)). pose proof (A3 hi' (proj2 (Hiff _) B2)).
    pose proof (B3 lo (proj1 (Hiff _) A1)). pose proof (B3 hi (proj1 (Hiff _) A2)).
    f_equal. f_equal; lia.
  - intros [A1 _] ->. apply Hiff in A1. destruct A1.
  - intros -> [B1 _]. apply Hiff in B1. destruct B1.
  - reflexivity.
Qed.

Lemma fold_max_app : forall l1 l2 x, fold_left Z.max (l1 ++ l2) x = fold_left Z.max l2 (fold_left Z.max l1 x).
Proof. intros. apply fold_left_app. Qed.
Lemma fold_max_mono : forall l x y, x <= y -> fold_left Z.max l x <= fold_left Z.max l y.
Proof. induction l as [|a l IH]; intros x y H; cbn [fold_left]; [exact H|]. apply IH. lia. Qed.
Lemma fold_max_max : forall l x y, fold_left Z.max l (Z.max x y) = Z.max (fold_left Z.max l x) y.
Proof.
  induction l as [|a l IH]; intros x y; cbn [fold_left]; [reflexivity|].
  rewrite <- IH. f_equal. lia.
Qed.

Lemma fold_max_base : forall l x, 0 <= x -> Z.max x (fold_left Z.max l 0) = fold_left Z.max l x.
Proof.
  induction l as [|a l IHl]; intros x Hx; cbn [fold_left]; [lia|].
  rewrite <- (IHl (Z.max 0 a)) by lia. rewrite <- (IHl (Z.max x a)) by lia. lia.
Qed.

Lemma summarise_parts_from : forall parts s l0, bounds_of l0 (i_bounds s) -> 0 <= i_maxnum s ->
  bounds_of (l0 ++ unmasked (concat parts)) (i_bounds (fold_left merge (map summarise parts) s)) /\
  i_maxnum (fold_left merge (map summarise parts) s) = fold_left Z.max (map fst (concat parts)) (i_maxnum s).
Proof.
  induction parts as [|p tl IH]; intros s l0 H H0; cbn [map fold_left concat].
  - cbn [unmasked flat_map map fold_left]. rewrite app_nil_r. auto.
  - destruct (summary_bounds_lemma p) as [P1 P2].
    assert (M0: 0 <= i_maxnum (merge s (summarise p))) by (cbn [merge i_maxnum]; lia).
    specialize (IH (merge s (summarise p)) (l0 ++ unmasked p) (merge_spec _ _ _ _ H P1) M0).
    destruct IH as [I1 I2]. split.
    + unfold unmasked in *. rewrite flat_map_app, app_assoc. exact I1.
    + rewrite I2. cbn [merge i_maxnum]. rewrite P2. unfold max_number_of.
      rewrite map_app, fold_max_app. f_equal. apply fold_max_base. exact H0.
Qed.

(* summary_partition_independent: merging per-partition summaries = summarising everything *)
Lemma summary_partition_independent_lemma parts :
  summarise_parts parts = summarise (concat parts).
Proof.
  destruct (summarise_parts_from parts isum0 [] eq_refl ltac:(cbn; lia)) as [A1 A2].
  destruct (summary_bounds_lemma (concat parts)) as [B1 B2].
  unfold summarise_parts. cbn [app] in A1.
  destruct (fold_left merge (map summarise parts) isum0) as [m b] eqn:E1.
  destruct (summarise (concat parts)) as [m' b'] eqn:E2.
  cbn [i_bounds i_maxnum] in *. f_equal.
  - rewrite A2, B2. reflexivity.
  - eapply bounds_of_unique; [|exact A1|exact B1]. tauto.
Qed.
