(* C02 dims_coherent for Model.Schema.generate: every generated spec conforms to ONE global
   size per dimension name, hence any two arrays sharing a name agree on its length. *)
From Coq Require Import ZArith List Bool Lia ZifyBool.
From B2Z Require Import Base.Prims Model.Schema.
Import ListNotations.
Open Scope Z_scope.

Definition same_key (f g : vfield) : bool := (f_cat f =? f_cat g) && (f_id f =? f_id g).
Definition ids_unique (fields : list vfield) : Prop :=
  forall f g, In f fields -> In g fields -> f_cat f = f_cat g -> f_id f = f_id g -> f = g.

Definition size_of (p : gen_params) (ploidy : Z) (fields : list vfield) (d : dim) : Z :=
  match d with
  | DVariants => g_m p | DSamples => g_n p | DFilters => g_num_filters p | DAlleles => g_max_alleles p
  | DAltAlleles => g_max_alleles p - 1 | DGenotypes => g_gsize p | DPloidy => ploidy
  | DField c i => match find (fun f => (f_cat f =? c) && (f_id f =? i)) fields with
                  | Some f => s_max_number (f_sum f) | None => 0 end
  end.
Fixpoint conforms (sz : dim -> Z) (ds : list dim) (sh : list Z) : Prop :=
  match ds, sh with [], [] => True | d :: ds', s :: sh' => sz d = s /\ conforms sz ds' sh' | _, _ => False end.

Lemma find_self fields f : ids_unique fields -> In f fields ->
  find (fun g => (f_cat g =? f_cat f) && (f_id g =? f_id f)) fields = Some f.
Proof.
  intros U Hin. destruct (find _ fields) as [g|] eqn:E.
  - apply find_some in E. destruct E as [Hg E]. f_equal. apply U; auto; lia.
  - exfalso. eapply find_none in E; eauto. cbn beta in E. lia.
Qed.

Lemma from_field_conforms p ploidy fields f name s : ids_unique fields -> In f fields ->
  from_field p f name = Ok s -> conforms (size_of p ploidy fields) (sp_dims s) (sp_shape s).
Proof.
  intros U Hin. unfold from_field. destruct (smallest_dtype f) as [dt|e]; cbn [bind]; [|discriminate]. cbv zeta.
  assert (Hself: size_of p ploidy fields (DField (f_cat f) (f_id f)) = s_max_number (f_sum f)).
  { cbn [size_of]. rewrite find_self by assumption. reflexivity. }
  destruct ((1 <? s_max_number (f_sum f)) || f_is_laa f); intros H; inversion H; subst; cbn [sp_dims sp_shape];
  destruct (f_cat f =? 2); cbn [app conforms size_of]; repeat split; try reflexivity;
  unfold shared_dim;
  repeat match goal with |- context [if ?c then _ else _] => destruct c eqn:? end; cbn [size_of]; try exact Hself; lia.
Qed.

Lemma mapM_forall2 {X Y} (f : X -> res Y) : forall l ys, mapM f l = Ok ys -> Forall2 (fun x y => f x = Ok y) l ys.
Proof.
  induction l as [|x l IH]; intros ys H; cbn [mapM] in H.
  - inversion H. constructor.
  - destruct (f x) as [y|e] eqn:E; cbn [bind] in H; [|discriminate].
    destruct (mapM f l) as [ys'|e] eqn:E2; cbn [bind] in H; [|discriminate]. inversion H; subst.
    constructor; [exact E|apply IH; reflexivity].
Qed.

Lemma mapM_conforms p ploidy fields : ids_unique fields -> forall l ys, (forall f, In f l -> In f fields) ->
  mapM (fun f => from_field p f (field_name f)) l = Ok ys ->
  Forall (fun s => conforms (size_of p ploidy fields) (sp_dims s) (sp_shape s)) ys.
Proof.
  intros U l ys Hin H. apply mapM_forall2 in H. induction H as [|x y l ys Hxy _ IH]; constructor.
  - eapply from_field_conforms; [exact U|apply Hin; left; reflexivity|exact Hxy].
  - apply IH. intros f Hf. apply Hin. right. exact Hf.
Qed.

Definition gen_ploidy (gt : option vfield) : Z := match gt with Some g => Z.max (s_max_number (f_sum g) - 1) 1 | None => 1 end.
Definition all_fields (qual pos rlen : vfield) (infos formats : list vfield) : list vfield := qual :: pos :: rlen :: infos ++ formats.

Lemma generate_conforms_lemma p qual pos rlen infos formats gt specs :
  ids_unique (all_fields qual pos rlen infos formats) ->
  generate p qual pos rlen infos formats gt = Ok specs ->
  Forall (fun s => conforms (size_of p (gen_ploidy gt) (all_fields qual pos rlen infos formats)) (sp_dims s) (sp_shape s)) specs.
Proof.
  intros U. unfold generate. cbv zeta.
  destruct (min_int_dtype 0 (g_num_contigs p)) as [cdt|e]; cbn [bind]; [|discriminate].
  destruct (from_field p qual (AFixed 5)) as [sq|e] eqn:Eq; cbn [bind]; [|discriminate].
  destruct (from_field p pos (AFixed 6)) as [sp|e] eqn:Ep; cbn [bind]; [|discriminate].
  destruct (from_field p rlen (AFixed 7)) as [sl|e] eqn:El; cbn [bind]; [|discriminate].
  destruct (mapM _ infos) as [si|e] eqn:Ei; cbn [bind]; [|discriminate].
  destruct (mapM _ formats) as [sf|e] eqn:Ef; cbn [bind]; [|discriminate].
  set (F := all_fields qual pos rlen infos formats) in *.
  assert (HinI: forall f, In f infos -> In f F) by (intros f H; unfold F, all_fields; right; right; right; apply in_or_app; left; exact H).
  assert (HinF: forall f, In f formats -> In f F) by (intros f H; unfold F, all_fields; right; right; right; apply in_or_app; right; exact H).
  assert (Csi: Forall (fun s => conforms (size_of p (gen_ploidy gt) F) (sp_dims s) (sp_shape s)) si)
    by (eapply mapM_conforms; [exact U|exact HinI|exact Ei]).
  assert (Csf: Forall (fun s => conforms (size_of p (gen_ploidy gt) F) (sp_dims s) (sp_shape s)) sf)
    by (eapply mapM_conforms; [exact U|exact HinF|exact Ef]).
  assert (Fx: forall k dt sh ch ds, conforms (size_of p (gen_ploidy gt) F) ds sh ->
            conforms (size_of p (gen_ploidy gt) F) (sp_dims (fixed_spec p k dt sh ch ds)) (sp_shape (fixed_spec p k dt sh ch ds))) by (intros; exact H).
  assert (Cq: conforms (size_of p (gen_ploidy gt) F) (sp_dims sq) (sp_shape sq)) by (eapply from_field_conforms; [exact U| |exact Eq]; unfold F, all_fields; cbn [In]; tauto).
  assert (Cp: conforms (size_of p (gen_ploidy gt) F) (sp_dims sp) (sp_shape sp)) by (eapply from_field_conforms; [exact U| |exact Ep]; unfold F, all_fields; cbn [In]; tauto).
  assert (Cl: conforms (size_of p (gen_ploidy gt) F) (sp_dims sl) (sp_shape sl)) by (eapply from_field_conforms; [exact U| |exact El]; unfold F, all_fields; cbn [In]; tauto).
  assert (Cfixed: forall cdt0, Forall (fun s => conforms (size_of p (gen_ploidy gt) F) (sp_dims s) (sp_shape s))
            [fixed_spec p 0 cdt0 [g_m p] [g_vcs p] [DVariants];
             fixed_spec p 1 DT_BOOL [g_m p; g_num_filters p] [g_vcs p; g_num_filters p] [DVariants; DFilters];
             fixed_spec p 2 DT_O [g_m p; g_max_alleles p] [g_vcs p; g_max_alleles p] [DVariants; DAlleles];
             fixed_spec p 3 DT_O [g_m p] [g_vcs p] [DVariants];
             fixed_spec p 4 DT_BOOL [g_m p] [g_vcs p] [DVariants]]).
  { intros cdt0. repeat constructor. }
  destruct gt as [g|].
  - destruct (smallest_dtype g) as [gdt|e]; cbn [bind]; [|discriminate]. intros H. inversion H; subst. clear H.
    repeat (apply Forall_cons; [first [exact Cq | exact Cp | exact Cl | (cbn [fixed_spec sp_dims sp_shape conforms size_of]; repeat split; reflexivity)] |]).
    apply Forall_app. split; [exact Csi|]. apply Forall_app. split; [exact Csf|].
    repeat constructor.
  - intros H. inversion H; subst. clear H.
    repeat (apply Forall_cons; [first [exact Cq | exact Cp | exact Cl | (cbn [fixed_spec sp_dims sp_shape conforms size_of]; repeat split; reflexivity)] |]).
    apply Forall_app. split; [exact Csi|]. apply Forall_app. split; [exact Csf|]. constructor.
Qed.

Lemma dim_eqb_eq a b : dim_eqb a b = true -> a = b.
Proof. destruct a, b; cbn [dim_eqb]; try discriminate; auto. intros H. f_equal; lia. Qed.
Lemma lookup_conforms sz d : forall ds sh s, conforms sz ds sh -> lookup_dim d ds sh = Some s -> sz d = s.
Proof.
  induction ds as [|d' ds IH]; intros [|s' sh] s Hc Hl; cbn [conforms lookup_dim] in *; try discriminate; try tauto.
  destruct Hc as [H1 H2]. destruct (dim_eqb d d') eqn:E.
  - apply dim_eqb_eq in E. subst. inversion Hl; subst. reflexivity.
  - eapply IH; eauto.
Qed.

(* two arrays of a generated schema that share a dimension name agree on its length *)
Lemma dims_coherent_lemma p qual pos rlen infos formats gt specs a b d sa sb :
  ids_unique (all_fields qual pos rlen infos formats) ->
  generate p qual pos rlen infos formats gt = Ok specs ->
  In a specs -> In b specs ->
  lookup_dim d (sp_dims a) (sp_shape a) = Some sa -> lookup_dim d (sp_dims b) (sp_shape b) = Some sb -> sa = sb.
Proof.
  intros U G Ha Hb La Lb. pose proof (generate_conforms_lemma _ _ _ _ _ _ _ _ U G) as C. rewrite Forall_forall in C.
  rewrite <- (lookup_conforms _ d _ _ _ (C a Ha) La), <- (lookup_conforms _ d _ _ _ (C b Hb) Lb). reflexivity.
Qed.

(* every array of a generated schema has the variants axis first *)
Lemma from_field_variants p f nm s0 : from_field p f nm = Ok s0 -> hd_error (sp_dims s0) = Some DVariants.
Proof.
  unfold from_field. destruct (smallest_dtype f); cbn [bind]; [|discriminate]. cbv zeta.
  destruct ((1 <? s_max_number (f_sum f)) || f_is_laa f); intros H; inversion H; reflexivity.
Qed.
Lemma mapM_variants p : forall l ys, mapM (fun f => from_field p f (field_name f)) l = Ok ys ->
  Forall (fun s => hd_error (sp_dims s) = Some DVariants) ys.
Proof.
  intros l ys H. apply mapM_forall2 in H. induction H as [|x y l ys Hxy _ IH]; constructor; [eapply from_field_variants; exact Hxy|exact IH].
Qed.
Lemma generate_variants_first p qual pos rlen infos formats gt specs :
  generate p qual pos rlen infos formats gt = Ok specs -> Forall (fun s => hd_error (sp_dims s) = Some DVariants) specs.
Proof.
  unfold generate. cbv zeta.
  destruct (min_int_dtype 0 (g_num_contigs p)) as [cdt|e]; cbn [bind]; [|discriminate].
  destruct (from_field p qual (AFixed 5)) as [sq|e] eqn:Eq; cbn [bind]; [|discriminate].
  destruct (from_field p pos (AFixed 6)) as [sp|e] eqn:Ep; cbn [bind]; [|discriminate].
  destruct (from_field p rlen (AFixed 7)) as [sl|e] eqn:El; cbn [bind]; [|discriminate].
  destruct (mapM _ infos) as [si|e] eqn:Ei; cbn [bind]; [|discriminate].
  destruct (mapM _ formats) as [sf|e] eqn:Ef; cbn [bind]; [|discriminate].
  pose proof (from_field_variants _ _ _ _ Eq) as Cq. pose proof (from_field_variants _ _ _ _ Ep) as Cp.
  pose proof (from_field_variants _ _ _ _ El) as Cl. pose proof (mapM_variants _ _ _ Ei) as Csi. pose proof (mapM_variants _ _ _ Ef) as Csf.
  destruct gt as [g|]; [destruct (smallest_dtype g) as [gdt|e]; cbn [bind]; [|discriminate]|]; intros H; inversion H; subst; clear H;
  repeat (apply Forall_cons; [first [exact Cq | exact Cp | exact Cl | reflexivity] |]);
  (apply Forall_app; split; [exact Csi|]); (apply Forall_app; split; [exact Csf|]); repeat constructor.
Qed.

(* every variants-axis array has one row per record *)
Lemma rows_cols_lemma p qual pos rlen infos formats gt specs s :
  generate p qual pos rlen infos formats gt = Ok specs -> ids_unique (all_fields qual pos rlen infos formats) ->
  In s specs -> hd_error (sp_dims s) = Some DVariants /\ hd_error (sp_shape s) = Some (g_m p).
Proof.
  intros G U Hs. pose proof (generate_conforms_lemma _ _ _ _ _ _ _ _ U G) as C. rewrite Forall_forall in C.
  specialize (C s Hs). pose proof (generate_variants_first _ _ _ _ _ _ _ _ G) as V. rewrite Forall_forall in V. specialize (V s Hs).
  split; [exact V|].
  destruct (sp_dims s) as [|d ds]; [discriminate|]. cbn [hd_error] in V. inversion V; subst.
  destruct (sp_shape s) as [|x xs]; cbn [conforms] in C; [contradiction|]. destruct C as [C _]. cbn [size_of] in C. cbn [hd_error]. congruence.
Qed.
