"""Harness-side instrumentation, put on PYTHONPATH of every process the harness starts (also
picked up by `spawn`ed pool workers).  No change to /repo is needed.

  VERIF_AUDIT_LOG=<file>      log every file-system mutation (audit events: open with write flags,
                              os.mkdir/rename/remove/rmdir/truncate/link/symlink); with
                              VERIF_AUDIT_READS=1 also read-opens.  dir_fd-relative paths (as
                              issued by shutil.rmtree) are resolved through /proc/self/fd.
  VERIF_AUDIT_ROOT=<substr>   only events whose path contains this substring
  VERIF_CRASH_AT=k[:tear]     os._exit(137) BEFORE the k-th mutation (0-based); tear in {0, half}
                              first truncates the most recently write-opened file
  VERIF_FAULT=what:idx:kind   fault in partition task idx of explode / encode / plink
                              (kind raise | exit | exit-locked | sigterm | sysexit), installed by wrapping the task function
"""
import os
import sys

_log = os.environ.get("VERIF_AUDIT_LOG")
_crash = os.environ.get("VERIF_CRASH_AT")
_MUT = {"os.mkdir", "os.rename", "os.remove", "os.rmdir", "os.truncate", "os.link", "os.symlink"}
if _log or _crash:
    _fd = os.open(_log, os.O_WRONLY | os.O_APPEND | os.O_CREAT, 0o644) if _log else None
    _cnt = [0]
    _last = [None]
    _dying = [False]
    _last_idx = [-2]
    _k, _tear = (None, None)
    if _crash:
        _parts = _crash.split(":")
        _k = int(_parts[0])
        _tear = _parts[1] if len(_parts) > 1 else None
    _root = os.environ.get("VERIF_AUDIT_ROOT", "")
    _reads = os.environ.get("VERIF_AUDIT_READS") == "1"
    _pid = os.getpid()

    def _abs(p, dir_fd=None):
        try:
            p = os.fsdecode(p)
            if dir_fd is not None and isinstance(dir_fd, int) and dir_fd >= 0 and not os.path.isabs(p):
                p = os.path.join(os.readlink(f"/proc/self/fd/{dir_fd}"), p)
            return os.path.abspath(p)
        except Exception:
            return str(p)

    def _hook(ev, args):
        mut = None
        if ev == "open":
            p, mode, flags = args
            if isinstance(p, (str, bytes)) and isinstance(flags, int):
                if flags & (os.O_WRONLY | os.O_RDWR | os.O_CREAT | os.O_TRUNC):
                    mut = ("open", _abs(p))
                elif _reads:
                    ap = _abs(p)
                    if (not _root or _root in ap) and _fd is not None:
                        os.write(_fd, (f"-\tread\t{ap}\t{os.getpid()}\n").encode())
                    return
        elif ev in _MUT:
            if ev == "os.rename":
                mut = (ev, _abs(args[0], args[2]) + " -> " + _abs(args[1], args[3]))
            elif ev in ("os.remove", "os.rmdir"):
                mut = (ev, _abs(args[0], args[1]))
            elif ev == "os.mkdir":
                mut = (ev, _abs(args[0], args[2]))
            else:
                mut = (ev, repr(args))
        if mut is None or (_root and _root not in mut[1]):
            return
        if _dying[0]:
            return
        if _k is not None and _cnt[0] == _k and os.getpid() == _pid:
            _dying[0] = True
            # a torn write: only the file whose write-open was the immediately preceding mutation
            # can still be incomplete (writes are sequential: any later mutation means it was closed)
            if _tear is not None and _last[0] and _last_idx[0] == _cnt[0] - 1 and os.path.isfile(_last[0]):
                sz = os.path.getsize(_last[0])
                with open(_last[0], "r+b") as f:
                    f.truncate(0 if _tear == "0" else sz // 2)
            os._exit(137)
        if _fd is not None:
            os.write(_fd, (f"{_cnt[0]}\t{mut[0]}\t{mut[1]}\t{os.getpid()}\n").encode())
        _cnt[0] += 1
        if mut[0] == "open":
            _last[0] = mut[1]
            _last_idx[0] = _cnt[0] - 1

    sys.addaudithook(_hook)

_fault = os.environ.get("VERIF_FAULT")
if _fault:
    import functools

    _what, _idx, _kind = _fault.split(":")
    _idx = int(_idx)

    def _boom():
        _mark = os.environ.get("VERIF_FAULT_MARK")
        if _mark:
            open(_mark, "w").close()
        if _kind == "exit":
            os._exit(3)
        if _kind == "exit-locked":
            from bio2zarr import core as _core

            if _core._progress_counter is not None:
                _core._progress_counter.get_lock().acquire(timeout=3)
            os._exit(3)
        if _kind == "sigterm":
            import signal
            import time

            os.kill(os.getpid(), signal.SIGTERM)
            time.sleep(30)
            os._exit(3)
        if _kind == "sysexit":
            raise SystemExit(0)
        raise ValueError("injected fault")

    def _run_faulty(_call):
        """the chosen task: either it fails outright (_boom), or -- kind ioerr-<ERRNO> -- every chunk write it attempts fails with
        that OSError for as long as the task runs (a worker that cannot write its output: stale handle, I/O error, disk full)"""
        if not _kind.startswith("ioerr-"):
            _boom()
            return _call()
        import errno as _errno

        import zarr.storage as _zs

        _mark = os.environ.get("VERIF_FAULT_MARK")
        _code = getattr(_errno, _kind[len("ioerr-"):])
        _real = _zs.DirectoryStore.__setitem__

        def _fail(self, key, value, _real=_real):
            if str(key).rsplit("/", 1)[-1].startswith("."):
                return _real(self, key, value)          # array metadata (.zarray / .zattrs): the fault is about chunk data
            if _mark:
                open(_mark, "w").close()
            raise OSError(_code, os.strerror(_code), str(key))

        _zs.DirectoryStore.__setitem__ = _fail
        try:
            return _call()
        finally:
            _zs.DirectoryStore.__setitem__ = _real

    try:
        if _what == "explode":
            from bio2zarr.vcf2zarr import icf as _m

            _orig = _m.IntermediateColumnarFormatWriter.process_partition

            @functools.wraps(_orig)
            def _pp(self, partition_index, _orig=_orig):
                if partition_index == _idx:
                    _boom()
                return _orig(self, partition_index)

            _m.IntermediateColumnarFormatWriter.process_partition = _pp
        elif _what == "encode":
            from bio2zarr.vcf2zarr import vcz as _m

            _orig = _m.VcfZarrWriter.encode_partition

            @functools.wraps(_orig)
            def _ep(self, partition_index, _orig=_orig):
                if partition_index == _idx:
                    return _run_faulty(lambda: _orig(self, partition_index))
                return _orig(self, partition_index)

            _m.VcfZarrWriter.encode_partition = _ep
        elif _what == "plink":
            from bio2zarr import plink as _m

            _orig = _m.encode_genotypes_slice

            @functools.wraps(_orig)
            def _eg(bed_path, zarr_path, start, stop, _orig=_orig):
                if start == _idx:
                    return _run_faulty(lambda: _orig(bed_path, zarr_path, start, stop))
                return _orig(bed_path, zarr_path, start, stop)

            _m.encode_genotypes_slice = _eg
    except Exception as _e:  # noqa: BLE001
        sys.stderr.write(f"VERIF_FAULT not installed: {_e}\n")

if os.environ.get("VERIF_MARK_TASKS") and _log:
    # bracket every PLINK slice task in the audit log so that events can be attributed to tasks
    import functools as _ft

    try:
        from bio2zarr import plink as _pm

        _orig_slice = _pm.encode_genotypes_slice

        @_ft.wraps(_orig_slice)
        def _marked(bed_path, zarr_path, start, stop, _orig=_orig_slice):
            os.write(_fd, (f"-\tbegin\tplink:{start}:{stop}\t{os.getpid()}\n").encode())
            try:
                return _orig(bed_path, zarr_path, start, stop)
            finally:
                os.write(_fd, (f"-\tend\tplink:{start}:{stop}\t{os.getpid()}\n").encode())

        _pm.encode_genotypes_slice = _marked
    except Exception as _e:  # noqa: BLE001
        sys.stderr.write(f"VERIF_MARK_TASKS not installed: {_e}\n")
