"""check.py -- single entry point of the verification machinery.

  ./check <Cxx> [--tier quick|thorough] [--replay <file>]

1. translator: /repo source -> coq/Gen/*.v           (tie 1, part a)
2. make: Props/<Cxx>.vo (theorems + bridge lemmas over the regenerated definitions),
   Print Assumptions audit, forbidden-token gate      (tie 1, part b; the proof)
3. extraction build of the executable model
4. correspondence driver: implementation vs extracted model on generated inputs, and
   the extracted boolean checker on the implementation's own outputs   (tie 2)
5. verdict, replay file, evidence/<Cxx>.json
"""
import argparse
import fcntl
import importlib
import json
import os
import re
import shutil
import sys
import tempfile
import time
import traceback

sys.path.insert(0, os.path.dirname(os.path.abspath(__file__)))
from lib import common, coqbuild, known  # noqa: E402
from lib.common import VERIF, Ctx  # noqa: E402
import props  # noqa: E402

TRUSTED_BASE = [
    "Coq 8.16.1 kernel (coqc, full .vo build; vm_compute used in Examples/refutations; no native_compute)",
    "no axioms declared; Print Assumptions of every property theorem is parsed on every run",
    "translator/py2coq.py + Python ast (regenerates coq/Gen/*.v from /repo on every run); coq/Base/Prims.v as the meaning of the numpy/Python primitives",
    "extraction: ExtrOcamlBasic only (Extract Inductive bool/option/unit/list/prod/sumbool; Extract Inlined Constant andb/orb/negb/fst/snd); Z/positive/nat stay inductive; OCaml 4.13.1; extract/driver.ml",
    "correspondence harness (generators, canonicalisers, audit-hook sitecustomize) and CPython 3.12",
    "modelled-not-verified third parties: htslib/cyvcf2, zarr/numcodecs/Blosc, bed_reader, pickle, json, concurrent.futures, click, Linux FS semantics",
]


def main():
    import logging

    logging.getLogger("bio2zarr").setLevel(logging.ERROR)
    ap = argparse.ArgumentParser()
    ap.add_argument("pid")
    ap.add_argument("--tier", default=os.environ.get("VERIF_TIER", "quick"), choices=["quick", "thorough"])
    ap.add_argument("--replay", default=None)
    ap.add_argument("--no-build", action="store_true", help="skip translator/coq/extraction (debugging only)")
    args = ap.parse_args()
    pid = args.pid
    if pid not in props.PROPS:
        print(f"unknown or unclaimed property {pid}")
        sys.exit(2)
    cfg = props.PROPS[pid]
    seed = int(os.environ.get("VERIF_SEED", "0"))
    t0 = time.time()
    work_root = os.environ.get("VERIF_WORK", "/var/tmp")
    work = tempfile.mkdtemp(prefix=f"b2z-verif-{pid}-", dir=work_root)
    os.makedirs(os.path.join(VERIF, "evidence"), exist_ok=True)
    os.makedirs(os.path.join(VERIF, "replays"), exist_ok=True)
    ctx = Ctx(pid, args.tier, seed, work, genextract=cfg.get("genextract"))
    ctx.replay_case = None
    if args.replay:
        ctx.replay_case = json.load(open(args.replay))
    build = dict(translator={}, obligations=[], discharged=[], checker_cmd="", log="")
    try:
        # ---- ties 1: translator + proofs ------------------------------------
        if not args.no_build:
            with open(os.path.join(VERIF, ".build.lock"), "w") as lk:
                fcntl.flock(lk, fcntl.LOCK_EX)
                build = coqbuild.build_property(pid, cfg, thorough=(args.tier == "thorough"))
            for r in build["reasons"]:
                ctx.tie_ok = False
                ctx.tie_reasons.append(r)
        # ---- tie 2: correspondence -----------------------------------------
        if not os.path.exists(common.MODEL_BIN):
            ctx.tie_ok = False
            ctx.tie_reasons.append("extracted model binary missing (model does not compile)")
        else:
            drv = importlib.import_module("drivers." + cfg["driver"])
            try:
                if ctx.replay_case is not None:
                    drv.replay(ctx, ctx.replay_case)
                else:
                    drv.run(ctx)
            except Exception as e:  # a crashing driver is a broken tie, never a silent pass
                ctx.tie_ok = False
                ctx.tie_reasons.append("correspondence driver crashed: " + "".join(traceback.format_exception_only(type(e), e)).strip())
                traceback.print_exc()
        if ctx.disagreements:
            ctx.tie_ok = False
            ctx.tie_reasons.append(f"correspondence: {len(ctx.disagreements)} disagreement(s) between model and implementation")
    finally:
        shutil.rmtree(work, ignore_errors=True)

    # ---- verdict --------------------------------------------------------------
    kf = known.load()
    violations = []
    known_lines = []
    for f in ctx.failures:
        k = known.match(kf, pid, f)
        if k:
            known_lines.append((k, f))
        else:
            violations.append(f)
    exit_code = 0
    seen_known = set()
    for k, f in known_lines:
        if k["id"] not in seen_known:
            seen_known.add(k["id"])
            print(f"KNOWN-FINDING: property={pid} {k['id']} {k['what']}")
    # disagreements that match a known finding do not break the tie
    real_dis = [d for d in ctx.disagreements if not known.match(kf, pid, d)]
    for d in ctx.disagreements:
        k = known.match(kf, pid, d)
        if k and k["id"] not in seen_known:
            seen_known.add(k["id"])
            print(f"KNOWN-FINDING: property={pid} {k['id']} {k['what']}")
    if ctx.disagreements and not real_dis:
        ctx.tie_reasons = [r for r in ctx.tie_reasons if not r.startswith("correspondence:")]
        ctx.tie_ok = not ctx.tie_reasons
    if violations:
        v = min(violations, key=lambda f: len(json.dumps(f["case"], default=str)))
        path = os.path.join(VERIF, "replays", f"{pid}_{common.case_hash(v['case'])}.json")
        json.dump(
            dict(property=pid, kind="failing-input", what=v["what"], case=v["case"], detail=v["detail"], broken_ties=ctx.tie_reasons),
            open(path, "w"),
            indent=1,
            default=str,
        )
        print(f"VIOLATION property={pid} replay={path}")
        print("  " + v["what"])
        exit_code = 1
    elif not ctx.tie_ok:
        path = os.path.join(VERIF, "replays", f"{pid}_tie_broken.json")
        json.dump(
            dict(
                property=pid,
                kind="tie-broken",
                no_longer_checks=ctx.tie_reasons,
                disagreements=real_dis[:5],
                build_log_tail=build.get("log", "")[-3000:],
            ),
            open(path, "w"),
            indent=1,
            default=str,
        )
        print(f"VIOLATION property={pid} replay={path} no-failing-input-found")
        for r in ctx.tie_reasons:
            print("  broken:", r)
        exit_code = 1

    # ---- evidence ---------------------------------------------------------------
    obligations = build.get("obligations", [])
    discharged = build.get("discharged", [])
    cov = dict(
        obligations=len(obligations),
        discharged=len(discharged),
        checker_cmd=build.get("checker_cmd", ""),
        trusted_base=TRUSTED_BASE + cfg.get("trusted_extra", []),
        theorems=obligations,
        not_discharged=[o for o in obligations if o not in discharged],
        assumptions_reported=build.get("assumptions", {}),
        translator_units=build.get("translator", {}),
        evaluations=ctx.evaluations,
        distinct_nontrivial=len(ctx.nontrivial),
        distinct_cases=len(ctx.hashes),
        rule=cfg.get("rule", ""),
        samples=ctx.samples or [dict(obligations=obligations[:3])],
        traces_validated_against_impl=ctx.traces_validated,
        distribution=ctx.distribution,
        disagreements=len(ctx.disagreements),
        property_failures=len(ctx.failures),
        known_findings_seen=sorted(seen_known),
        notes=ctx.notes[:20],
        status=cfg.get("status", ""),
    )
    ev = dict(
        property_id=pid,
        tier=args.tier,
        seed=seed,
        level="proof",
        coverage=cov,
        assumptions=cfg.get("assumptions", []),
        wall_s=round(time.time() - t0, 2),
        violations=(1 if exit_code else 0),
    )
    if not args.replay:
        json.dump(ev, open(os.path.join(VERIF, "evidence", f"{pid}.json"), "w"), indent=1, default=str)
    print(
        f"{pid} {'OK' if exit_code == 0 else 'FAILED'}: {len(discharged)}/{len(obligations)} obligations discharged; "
        f"{ctx.evaluations} evaluations, {len(ctx.nontrivial)} distinct non-trivial, "
        f"{len(ctx.disagreements)} disagreements, {len(ctx.failures)} property failures ({time.time()-t0:.1f}s)"
    )
    sys.exit(exit_code)


if __name__ == "__main__":
    main()
