"""Per-property configuration: which translator units, proof files and driver decide it."""

PROPS = {
    "C11": dict(
        units=["GenPartitions"],
        props_files=["Props/C11.v"],
        driver="c11",
        rule="bounded-exhaustive box of (num_records, chunk_size, num_partitions, max_chunks) plus random large tuples "
        "(up to 1e10 and around 2^53); the real generate_partitions / chunk_aligned_slices vs the extracted model, and "
        "check_C11 applied to the implementation's own output; distinct = distinct tuple, non-trivial = more than one "
        "chunk or a cap that bites",
        status="full (for all nr, cs, np >= 1 and any cap >= 1, over the translated source; nr < 2^53 for the float ceil)",
        assumptions=[
            "int(np.ceil(a / b)) equals exact ceiling division for a < 2^53 (validated differentially, incl. boundary values)",
            "np.array_split(np.arange(n), k) yields k sections, the first n mod k of size n//k+1 (validated differentially)",
        ],
    ),
    "C09": dict(
        units=["GenBins"],
        props_files=["Props/C09.v"],
        driver="c09",
        rule="checked-in indexes + indexes htslib writes for generated VCF/BCF (TBI; CSI min_shift 9..20; unused contigs; "
        "small BGZF blocks) + variants re-serialised by the model's independent serialiser (old-style without pseudo-bins, "
        "permuted bins, with/without trailing count) + malformed (wrong magic, truncated); the real read_csi/read_tabix vs the "
        "extracted byte-level parser; counts vs records actually read; translated bin helpers vs the real ones (exhaustive for "
        "small depths). distinct = distinct case document; non-trivial = more than one record / a transformed index",
        status="full for the format logic (parser inverts the specification serialiser for all well-formed indexes); htslib's writer and gzip are exercised only differentially",
        assumptions=["htslib writes what the CSI/tabix specifications say (checked differentially)", "gzip decoding (Python gzip) is outside the model"],
    ),
}
