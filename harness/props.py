"""Per-property configuration: which translator units, proof files and driver decide it."""

PROPS = {
    "C11": dict(
        units=["GenPartitions", "GenBuffer"],
        genextract="Partitions",
        trusted_extra=["float_ceil_division_exact (and only it) depends on the standard library's real-number axioms through Flocq: "
                       "ClassicalDedekindReals.sig_forall_dec, ClassicalDedekindReals.sig_not_dec, "
                       "FunctionalExtensionality.functional_extensionality_dep, Classical_Prop.classic",
                       "translator/buf2coq.py (core.BufferedArray -> Gen/GenBuffer.v)"],
        props_files=["Props/C11.v"],
        driver="c11",
        rule="bounded-exhaustive box of (num_records, chunk_size, num_partitions, max_chunks) plus random large tuples "
        "(up to 1e10 and around 2^53); the real generate_partitions / chunk_aligned_slices vs the extracted model, and "
        "check_C11 applied to the implementation's own output; distinct = distinct tuple, non-trivial = more than one "
        "chunk or a cap that bites",
        status="full (for all nr, cs, np >= 1 and any cap >= 1, over the translated source; nr < 2^53 for the float ceil)",
        assumptions=[
            "CPython's int / int is the correctly rounded binary64 quotient (its ceiling is then the exact ceiling for operands below 2^53: theorem float_ceil_division_exact)",
            "np.array_split(np.arange(n), k) yields k sections, the first n mod k of size n//k+1 (validated differentially)",
        ],
    ),
    "C09": dict(
        units=["GenBins", "GenIndexLayout"],
        genextract="Bins",
        props_files=["Props/C09.v"],
        driver="c09",
        rule="checked-in indexes + indexes htslib writes for generated VCF/BCF (TBI; CSI min_shift 9..20; unused contigs; "
        "small BGZF blocks) + variants re-serialised by the model's independent serialiser (old-style without pseudo-bins, "
        "permuted bins, with/without trailing count) + malformed (wrong magic, truncated); the real read_csi/read_tabix vs the "
        "extracted byte-level parser; counts vs records actually read; translated bin helpers vs the real ones (exhaustive for "
        "small depths). distinct = distinct case document; non-trivial = more than one record / a transformed index",
        status="full for the format logic (parser inverts the specification serialiser for all well-formed indexes); htslib's writer and gzip are exercised only differentially",
        assumptions=["htslib writes what the CSI/tabix specifications say (checked differentially)", "gzip decoding (Python gzip) is outside the model"],
    ),
    "C10": dict(
        units=["GenDtype", "GenSchema", "GenInitArray"],
        genextract="Dtype",
        props_files=["Props/C10.v"],
        driver="c10",
        rule="(a) boundary-heavy and random (lo,hi) for min_int_dtype; (b) VcfZarrSchema.generate on fake stores with "
        "generated summaries (all Type x Number, int8/16/32 boundary bounds, LAA, GT) vs Model.Schema.generate; (c) generated "
        "VCFs end to end: generated schema vs every value in the intermediate store, JSON round trip, edited schemas "
        "(dropped subsets, widened dtypes, compressor/chunk edits) honoured and value-preserving. distinct = distinct case "
        "document; non-trivial = lo<=hi / at least one INFO or FORMAT field / a non-empty edit",
        status="full for dtype selection, cast and shape logic (theorems); schema JSON round trip and 'user schema honoured' are "
        "checked on the implementation only (differential), not yet stated as theorems",
        assumptions=["summaries bound the stored values (C08 summary_bounds)", "numpy astype between integer widths wraps (two's complement)"],
    ),
    "C13": dict(
        units=["GenOverlap", "GenScan", "GenEncoders"],
        genextract="Overlap",
        props_files=["Props/C13.v"],
        driver="c13",
        rule="(a) generated partition interval sets (overlap / touch / nest / interleave / identical / disjoint chains, shuffled) "
        "through the real sort + check_overlapping_partitions vs Model.Overlap and the translated check; (b) file sets cut from "
        "generated records in every order, header perturbations, duplicate paths, every reserved array name as INFO/FORMAT key, "
        "undeclared filters, through vcf2zarr.convert. distinct = distinct case document; non-trivial = more than one partition / file",
        status="full (overlap check complete as an iff over the translated source; duplicate path, header, reserved names, filters on the model)",
        assumptions=["the scanner sets region.start to the first POS and finalise sets region.end to the last POS of each partition (checked end to end)",
                     "zarr refuses to create an array that already exists (the 'length' clash)"],
    ),
    "C08": dict(
        units=["GenIcfWriter", "GenIterValues", "GenSummary", "GenExplode"],
        trusted_extra=["translator/icfw2coq.py (IcfFieldWriter -> Gen/GenIcfWriter.v; the read side matched against one shape)"],
        props_files=["Props/C08.v"],
        driver="c08",
        rule="(a) generated value sequences x thresholds x partitionings through the real IcfFieldWriter / "
        "IntermediateColumnarFormatField; all O(n^2) ranges of small stores in shuffled order, sampled above; observed "
        "sys.getsizeof passed to the model; (b) explode of generated VCFs with 1..50 target partitions and column chunk sizes "
        "from bytes to MiB vs the 1-partition reference. distinct = distinct case document; non-trivial = more than one record",
        status="full (values_roundtrip, range_read for every store shape, summary bounds / partition independence; the translated IcfFieldWriter simulates the model writer)",
        assumptions=["pickle + Blosc round-trip a chunk's value list unchanged (exercised, not modelled)", "sys.getsizeof is an input of the writer model"],
    ),
    "C12": dict(
        units=["GenRegionIndex"],
        props_files=["Props/C12.v"],
        driver="c12",
        rule="(a) generated (contig, position, length) columns stored in the narrowest / wider integer dtypes, END-style spans, "
        "nested spans, small coordinates; every chunk size in {1,2,3,n,n+1,random}; real create_index vs model and vs the "
        "specification rows (check_C12); (b) generated VCFs with END through convert. distinct = distinct case document; "
        "non-trivial = more than one contig or more than one chunk",
        status="full for pos+len-1 within int32 (the coordinate space of VCF/BCF)",
        assumptions=["numpy promotes int32 + intN (N<=32) to int32 and wraps; zarr .blocks returns the variant chunks in order"],
    ),
    "C16": dict(
        units=["GenPartitions", "GenPlink"],
        props_files=["Props/C16.v"],
        driver="c16",
        rule="filesets from the model's independent bed writer (random padding bits) with 1..13 samples (all residues mod 4) and "
        "1..40 variants, random / missing-heavy / constant genotype patterns, x variants/samples chunk sizes x workers 0..8 through "
        "plink.convert; all six arrays vs the extracted bit-level decoder and the bim/fam text. distinct = distinct case document; "
        "non-trivial = more than one cell",
        status="full for the genotype decoding and call mapping; bed_reader's parsing of .bim/.fam text is covered only differentially",
        assumptions=["bed_reader(count_A1=False) reports 00->0, 10->1, 11->2, 01->-127 (exercised differentially)"],
    ),
    "C17": dict(
        units=["GenLpl"],
        props_files=["Props/C17.v"],
        driver="c17",
        rule="(a) duck-typed variants with 0..4 (thorough 0..8) alternate alleles, ploidy 1/2 (3,4 for rejection), missing alleles, "
        "PL full / absent / '.' in all / some samples / single missing entries, through the real compute_laa_field / "
        "compute_lpl_field vs the model and the specification; (b) generated VCFs with PL converted with and without local "
        "alleles (all other arrays compared), files already carrying LAA/LPL, triploid rejection. distinct = distinct case "
        "document; non-trivial = at least one alternate allele",
        status="full for ploidy 2; ploidy 1: proved below the call's local genotype count, the fill cells are the known finding F5",
        assumptions=["cyvcf2 reports PL as an int32 array with INT_MIN for missing and INT_MIN+1 for vector end"],
    ),
    "C04": dict(
        units=["GenBins", "GenRegions", "GenOffsets", "GenRefine", "GenIndexedVcf"],
        props_files=["Props/C04.v"],
        driver="c04",
        rule="generated VCF/BCF (window-spanning and bin-exceeding records, duplicate positions, used/unused/skipped contigs, "
        "BGZF blocks of 1..20 records or htslib's own) x {tbi, csi min_shift 9..20, bcf} x num_parts {1,2,3,5,10,50,1000} and "
        "target sizes {1 byte .. file size}; the real regions and per-region records vs the property, vs check_C04 and vs "
        "Model.Regions fed with the same offsets table; CSI bins permuted. distinct = distinct (file, configuration); "
        "non-trivial = more than one record",
        status="full under the monitored htslib contract (region query returns the overlapping records of the contig in file order; "
        "loff_monotone / first_bin_low for CSI); the refine step is tied by correspondence, not by a theorem",
        assumptions=["htslib's region query contract", "htslib-written CSI indexes satisfy loff_monotone (monitored on every generated index)"],
    ),
    "C14": dict(
        units=["GenWorkers"],
        props_files=["Props/C14.v"],
        driver="c14",
        rule="(a) generated pool scenarios: tasks 1..32, workers 1..8, failing set first/last/middle/random (0..3 tasks), raise / "
        "os._exit / mixed, random task durations, with and without results_as_completed, run in separate processes under a "
        "wall-clock bound; (b) a fault in a partition task of explode / encode / plink.convert for worker_processes 0,1,2,4. "
        "distinct = distinct scenario; non-trivial = at least one failing task",
        status="partial: the bookkeeping theorems cover every task count, failing set, failure kind and completion order; that "
        "every future eventually resolves, and that a dead worker is reported as a broken pool, is concurrent.futures' behaviour "
        "(exercised by the fault injection under a time bound, not modelled)",
        assumptions=["every submitted future eventually resolves (concurrent.futures)", "a worker process that dies makes its pool report BrokenProcessPool"],
    ),
    "C18": dict(
        units=["GenReadPath"],
        props_files=["Props/C18.v"],
        driver="c18",
        rule="stores exploded from generated VCFs with 4 target partitions and column chunks of a few hundred bytes; every "
        "data-bearing file (quick: a stratified sample) x {deleted, truncated: all lengths for small files, else 0, 1, multiples of "
        "8, size-1 and random}; readers: .values, iter_values over the column and over sub-ranges, and (sampled) encode. "
        "distinct = distinct (file, damage); every case is non-trivial",
        status="partial: the theorem shows that no read path skips or partially decodes an announced file; that Blosc / pickle / json "
        "reject a truncated encoding is a premise validated only by this fault enumeration",
        assumptions=["Blosc decode + unpickle, pickle.load of chunk_index and json.load reject every strict prefix of a valid encoding"],
    ),
    "C15": dict(
        units=["GenCli"],
        props_files=["Props/C15.v"],
        driver="c15",
        rule="(a) every command x generated option combinations with the library function mocked: received arguments vs the "
        "documented mapping of the typed values; (b) real command histories (explode/encode/convert/mkschema/inspect, overwrite "
        "guard declined/confirmed/forced, dexplode/dencode with shuffled order, zero/one-based, one partition left out, "
        "vcfpartition, plink) vs the library-driven reference. distinct = distinct command line / history step; non-trivial = "
        "at least one option given",
        status="full on the generated table (finite, decided by complete evaluation); click's parsing is exercised, not modelled",
        assumptions=["click passes option values of the declared type to the command function (exercised with the library mocked)"],
    ),
    "C07": dict(
        units=["GenIcfProtocol", "GenVczProtocol", "GenPlink"],
        props_files=["Props/C07.v"],
        driver="c07",
        rule="generated VCFs with >= 11 index partitions: every explode partition and every encode partition as its own OS process "
        "under the audit hook, up to 16 at a time, shuffled order, some re-run after the partition exists; PLINK slices in the real "
        "pool (2..8 workers) with task markers; recorded mutations/reads vs the model's W/R sets through a strict path parser, "
        "recorded sets pairwise disjoint, final stores equal to the sequential reference. distinct = distinct traced run; "
        "non-trivial = more than one task",
        status="partial: every interleaving is covered by the theorem over an idealised file system (an operation changes only the "
        "paths it writes); that the kernel executes operations on disjoint paths independently is that model's assumption; real "
        "schedules are only sampled",
        assumptions=["operations on disjoint paths are independent (kernel file system)", "CPython audit events cover every mutation bio2zarr/zarr perform (open, mkdir, rename, remove, rmdir)"],
    ),
    "C05": dict(
        units=["GenIcfProtocol"],
        props_files=["Props/C05.v"],
        driver="c05",
        rule="a 12-record, 3-partition generated input; every command as its own OS process; kill before the k-th file-system "
        "mutation (quick: a stratified sample of the points of a fresh partition, a re-run partition; all points of finalise) x "
        "{no tear, tear to 0, tear to half}; random histories over {partition j, finalise} (length <= 8, repeats, omissions, "
        "wrong order, <= 2 kills); after every command the directory is abstracted to the model state and compared with the "
        "model's transition / invariant, loaded stores are compared with the reference, every history ends with a recovery. "
        "distinct = distinct history; non-trivial = at least one kill",
        status="partial: the theorems cover every history over an idealised file system (atomic create/unlink, a killed write "
        "leaves a prefix); that a torn JSON / pickle / Blosc file does not load is exercised here and under C18, not proved",
        assumptions=["the kernel's file system: a kill leaves a prefix of the last write; unlink/rename are atomic",
                     "a Torn metadata.json / summary / chunk does not load (json, pickle, Blosc)"],
    ),
    "C06": dict(
        units=["GenVczProtocol"],
        props_files=["Props/C06.v"],
        driver="c06",
        rule="a 12-record input encoded in 3 partitions; every command as its own OS process; kill before the k-th mutation "
        "(several hundred per step: a stratified sample incl. the whole directory-swap window of a re-run) x {no tear, tear to 0, "
        "tear to half}; random histories over {partition j, finalise} (<= 7 commands, repeats, omissions, wrong order, <= 2 kills); "
        "the directory tree is abstracted to the model state after every command and compared with the model's transition / "
        "invariant; finished stores are compared with the reference; every history ends with a recovery. distinct = distinct "
        "history; non-trivial = at least one kill",
        status="partial: as C05 (idealised file system: atomic rename of directories, prefix-on-kill); the model elides rmtree(wip) "
        "and the cleanup of stale_p<j>",
        assumptions=["rename of a directory is atomic and moves the subtree; a kill leaves a prefix of the last write",
                     "zarr writes a chunk as temp file + replace; consolidate_metadata writes .zmetadata last"],
    ),
    "C01": dict(
        units=["GenBuffer", "GenSanitise", "GenEncoders", "GenExplode", "GenTransform"],
        trusted_extra=["translator/buf2coq.py (core.BufferedArray and the flush helpers -> Gen/GenBuffer.v)"],
        props_files=["Props/C01.v"],
        driver="c01",
        rule="abstract VCFs from the generator (all Type x Number, missingness patterns, boundary values, +-inf, denormals, mixed "
        "ploidy/phasing, filters, duplicate positions, unused contigs, contig blocks out of header order) x {vcf.gz+tbi, vcf.gz+csi, "
        "bcf+csi} x chunk sizes through convert; every array vs Model.Spec.spec_encode of the abstract file; variants compared with "
        "each other; contigs / filters / samples / header carried over. distinct = distinct (file, container, index); non-trivial = "
        "at least one INFO or FORMAT field",
        status="full on the model, for the whole store: decode_store (spec_encode h recs) = records_view h (sort recs) (spec_roundtrip); the "
        "pipeline writes enc(values[i]) at row i for any partitioning and order (pipeline_rows) through a chunk buffer that is the "
        "translated core.BufferedArray (translated_buffer_is_the_model); VCF text -> cyvcf2 values (htslib) sits between the abstract VCF and the first modelled "
        "function and is covered by the differential run only",
        assumptions=["htslib/cyvcf2 parse the generated text into the typed values the generator intended (detected, not proved)",
                     "phasing of calls with fewer than two alleles is not determined by the input (F8: cyvcf2 reports an indeterminate bit)"],
    ),
    "C03": dict(
        units=["GenPartitions", "GenEncoders", "GenBuffer", "GenScan"],
        props_files=["Props/C03.v"],
        driver="c03",
        rule="generated files (small BGZF blocks, so the index offers many partitions) against a 1-partition synchronous reference: "
        "distributed explode (targets 1..20, shuffled order, column chunk sizes 1e-5..16 MiB) + distributed encode (1..7 partitions, "
        "shuffled); one-shot convert with worker_processes 0/1/2/4; other variants/samples chunk sizes; max_variant_chunks incl. "
        "caps >= the chunk count; repeat run compared byte for byte; the records cut into 2-3 files in several orders. "
        "distinct = distinct (file, configuration); every case is non-trivial",
        status="partial: values/shapes/dtypes/attributes are covered by the theorems on the pipeline model; byte identity of repeated "
        "runs depends on Blosc determinism and on cyvcf2 (known finding F8) and is a self-differential only",
        assumptions=["Blosc compression is deterministic", "cyvcf2 haploid phasing bit (F8) is a don't-care for values, a known finding for bytes"],
    ),
    "C02": dict(
        units=["GenVczProtocol", "GenPartitions", "GenSchema"],
        props_files=["Props/C02.v"],
        driver="c02",
        rule="generated inputs biased toward Number=R/A/G fields absent or short on the widest records x variants/samples chunk "
        "sizes {1,2,3,n,n+3,default} x dimension separators {default,'/','.'} x {one-shot, distributed with 1..7 shuffled "
        "partitions}; every store: shared dimension sizes, xarray open, rows/columns, sentinel-capable dtypes, complete chunk "
        "grid without strays, consolidated metadata = metadata on disk; generated schema vs Model.Schema.generate. "
        "distinct = distinct (file, configuration); every case is non-trivial",
        status="full for the schema (dims_coherent, rows_cols, sentinels); the chunk grid and the consolidated metadata are zarr's "
        "serialisation and are checked on the real stores, not modelled",
        assumptions=["zarr writes one file per chunk key and consolidates the metadata it finds"],
    ),
}
