"""Per-property configuration: which translator units, proof files and driver decide it."""

PROPS = {
    "C11": dict(
        units=["GenPartitions"],
        props_files=["Props/C11.v"],
        driver="c11",
        rule="bounded-exhaustive box of (num_records, chunk_size, num_partitions, max_chunks) plus random large tuples "
        "(up to 1e10 and around 2^53); the real generate_partitions / chunk_aligned_slices vs the extracted model, and "
        "check_C11 applied to the implementation's own output; distinct = distinct tuple, non-trivial = more than one "
        "chunk or a cap that bites",
        status="full (for all nr, cs, np >= 1 and any cap >= 1, over the translated source; nr < 2^53 for the float ceil)",
        assumptions=[
            "int(np.ceil(a / b)) equals exact ceiling division for a < 2^53 (validated differentially, incl. boundary values)",
            "np.array_split(np.arange(n), k) yields k sections, the first n mod k of size n//k+1 (validated differentially)",
        ],
    ),
}
