"""C10 correspondence: dtype selection, schema generation, user schemas.

 (a) core.min_int_dtype vs the model (theorem: narrowest fitting type) and vs the translated
     definition, on boundary-heavy and random (lo, hi), incl. the two error kinds;
 (b) VcfField.smallest_dtype / ZarrArraySpec.from_field / VcfZarrSchema.generate on fake
     intermediate stores with generated summaries vs Model.Schema.generate;
 (c) end to end on generated VCFs: the generated schema fits every value actually stored in
     the intermediate store (dtype range, sentinels, inner dimension), survives a JSON round
     trip, and edited schemas (every subset of optional arrays dropped for small field sets,
     sampled otherwise; widened dtypes; chunk / compressor edits) are honoured exactly with
     no retained value changed.
"""
import itertools
import json
import math
import os
import shutil
from types import SimpleNamespace

import numpy as np

from lib import absvcf, vcfgen

DT = {"i1": 1, "i2": 2, "i4": 4, "i8": 8, "f4": 14, "bool": 10, "U1": 11, "O": 12}
EXC = {"ValueError": 1, "OverflowError": 2, "AssertionError": 3}
VT = {"Integer": 0, "Float": 1, "Flag": 2, "Character": 3, "String": 4}
FIXED_ARR = ["variant_contig", "variant_filter", "variant_allele", "variant_id", "variant_id_mask", "variant_quality",
             "variant_position", "variant_length", "call_genotype_phased", "call_genotype", "call_genotype_mask"]
FIXED_FIELD = {"CHROM": 0, "POS": 1, "QUAL": 2, "ID": 3, "FILTERS": 4, "REF": 5, "ALT": 6, "rlen": 7}
DIMS = {"variants": 0, "samples": 1, "filters": 2, "alleles": 3, "alt_alleles": 4, "genotypes": 5, "ploidy": 6}
CAT = {"fixed": 0, "INFO": 1, "FORMAT": 2}


def num_code(n):
    if n == "R":
        return -1
    if n == "A":
        return -2
    if n == "G":
        return -3
    try:
        return int(n)
    except ValueError:
        return -4


def impl_min_int(lo, hi):
    from bio2zarr import core

    try:
        return [1, DT[core.min_int_dtype(lo, hi)]]
    except (ValueError, OverflowError) as e:
        return [0, EXC[type(e).__name__]]


def part_a(ctx):
    r = ctx.rnd
    pts = [0, 1, -1, -2]
    for b in (7, 8, 15, 16, 31, 32, 63, 64):
        pts += [2**b - 2, 2**b - 1, 2**b, 2**b + 1, -(2**b) - 1, -(2**b), -(2**b) + 1]
    cases = [(a, b) for a in pts for b in pts]
    for _ in range(ctx.n(3000, 100000)):
        k = r.choice([8, 16, 32, 64, 70])
        a = r.randint(-(2**k), 2**k)
        cases.append((a, a + r.choice([0, 1, r.randint(0, 2**k), -1])))
    m = ctx.model.batch([(1000, [a, b]) for a, b in cases])
    try:
        g = ctx.genmodel.batch([(20, [a, b]) for a, b in cases])
    except Exception as e:  # noqa: BLE001
        g = None
        ctx.note("translated min_int_dtype not available: " + str(e)[:80])
    for i, (a, b) in enumerate(cases):
        o = impl_min_int(a, b)
        doc = dict(part="min_int_dtype", lo=a, hi=b)
        ctx.case(doc, nontrivial=(a <= b), sample=(i == 40))
        if o != m[i]:
            ctx.fail(doc, dict(implementation=o, narrowest_fit=m[i]), f"min_int_dtype({a}, {b}) -> {o}, narrowest fitting type is {m[i]}")
        if g is not None and g[i] != o:
            ctx.disagree(doc, o, g[i], "translated min_int_dtype differs from the real function")
    ctx.count("min_int_dtype", len(cases))


def rand_summary(r, vt, icf_mod):
    s = icf_mod.VcfFieldSummary()
    s.max_number = r.choice([0, 1, 1, 2, 3, 4, 6, 10])
    if vt == "Integer" and r.random() < 0.85:
        k = r.choice([7, 8, 15, 16, 31, 32])
        lo = r.randint(-(2**k), 2**k)
        hi = lo + r.choice([0, 1, r.randint(0, 2**k)])
        s.min_value, s.max_value = lo, hi
    elif vt == "Float" and r.random() < 0.8:
        s.min_value, s.max_value = -1.5, 2.5
    return s


def field_sx(f, idx):
    s = f.summary
    bounds = []
    if f.vcf_type == "Integer" and math.isfinite(s.max_value):
        bounds = [int(s.min_value), int(s.max_value)]
    return [CAT[f.category], idx, num_code(f.vcf_number), VT[f.vcf_type], f.full_name == "FORMAT/LAA", s.max_number, bounds]


def canon_specs(schema, ids):
    out = []
    for sp in schema.fields:
        if sp.name in FIXED_ARR:
            name = [0, FIXED_ARR.index(sp.name)]
        else:
            cat = 1 if sp.name.startswith("variant_") else 2
            nm = sp.name.split("_", 1)[1]
            name = [1, cat, ids[(cat, nm)]]
        dims = []
        for d in sp.dimensions:
            if d in DIMS:
                dims.append([DIMS[d]])
            else:
                c, rest = d.split("_", 1)
                dims.append([7, CAT[c], ids[(CAT[c], rest[: -len("_dim")])]])
        fld = []
        if sp.vcf_field is not None:
            if "/" in sp.vcf_field:
                c, nm = sp.vcf_field.split("/", 1)
                fld = [CAT[c], ids[(CAT[c], nm)]]
            else:
                fld = [0, FIXED_FIELD[sp.vcf_field]]
        out.append([name, DT[sp.dtype], list(sp.shape), list(sp.chunks), dims, fld])
    return out


def part_b(ctx):
    from bio2zarr.vcf2zarr import icf as icf_mod
    from bio2zarr.vcf2zarr import vcz

    r = ctx.rnd
    for it in range(ctx.n(400, 8000)):
        fields = icf_mod.fixed_vcf_field_definitions()
        ids = {(0, f.name): FIXED_FIELD[f.name] for f in fields}
        for f in fields:
            if f.name in ("POS", "rlen"):
                lo = r.randint(0, 2 ** r.choice([3, 7, 15, 30]))
                f.summary.min_value, f.summary.max_value = lo, lo + r.randint(0, 2 ** r.choice([3, 7, 15, 30]))
                f.summary.max_number = 1
            if f.name == "QUAL":
                f.summary.max_number = 1
            if f.name == "ALT":
                f.summary.max_number = r.randint(0, 5)
        ninfo, nfmt = r.randint(0, 5), r.randint(0, 5)
        infos, fmts, gt = [], [], None
        for i in range(ninfo):
            vt = r.choice(list(VT))
            f = icf_mod.VcfField("INFO", f"I{i}", r.choice(["0", "1", "2", "A", "R", "G", ".", "3"]), vt, "", rand_summary(r, vt, icf_mod))
            if vt == "Flag":
                f.summary.max_number = r.choice([0, 1])
            infos.append(f)
            ids[(1, f.name)] = i
        names = [f"F{i}" for i in range(nfmt)]
        if r.random() < 0.3 and nfmt:
            names[r.randrange(nfmt)] = "LAA"
        for i, nm in enumerate(names):
            vt = r.choice(["Integer", "Float", "Character", "String"]) if nm != "LAA" else "Integer"
            f = icf_mod.VcfField("FORMAT", nm, r.choice(["1", "2", "A", "R", "G", ".", "3"]), vt, "", rand_summary(r, vt, icf_mod))
            fmts.append(f)
            ids[(2, nm)] = i
        if r.random() < 0.7:
            gt = icf_mod.VcfField("FORMAT", "GT", ".", "Integer", "", icf_mod.VcfFieldSummary())
            gt.summary.max_number = r.choice([0, 1, 2, 3, 4])
            if r.random() < 0.8:
                gt.summary.min_value, gt.summary.max_value = r.choice([-1, 0]), r.randint(0, 300)
            ids[(2, "GT")] = 99
        all_fields = fields + infos + (fmts[: len(fmts) // 2] + ([gt] if gt else []) + fmts[len(fmts) // 2 :])
        m, n = r.randint(1, 10**6), r.randint(0, 3000)
        ncontigs = r.choice([1, 2, 126, 127, 128, 129, 32767, 32768, 40000])
        nfilt = r.randint(1, 5)
        md = icf_mod.IcfMetadata(samples=[icf_mod.Sample(f"s{i}") for i in range(min(n, 3))], contigs=[None] * ncontigs,
                                 filters=[icf_mod.Filter(f"f{i}") for i in range(nfilt)], fields=all_fields)
        fake = SimpleNamespace(num_records=m, num_samples=n, metadata=md,
                               fields={"ALT": SimpleNamespace(vcf_field=[f for f in fields if f.name == "ALT"][0])})
        vcs, scs = r.choice([None, 1, 7, 1000]), r.choice([None, 1, 5, 100])
        try:
            schema = vcz.VcfZarrSchema.generate(fake, variants_chunk_size=vcs, samples_chunk_size=scs)
            impl = [1, canon_specs(schema, ids)]
        except (ValueError, OverflowError, AssertionError) as e:
            impl = [0, EXC[type(e).__name__]]
        byname = {f.name: f for f in fields}
        gsize = max([f.summary.max_number for f in all_fields if f.vcf_number == "G"], default=0)
        params = [m, n, vcs or 10000, scs or 1000, ncontigs, nfilt, byname["ALT"].summary.max_number + 1, gsize]
        fmts_in_order = [f for f in all_fields if f.category == "FORMAT" and f.name != "GT"]
        arg = [params, field_sx(byname["QUAL"], 2), field_sx(byname["POS"], 1), field_sx(byname["rlen"], 7),
               [field_sx(f, ids[(1, f.name)]) for f in infos], [field_sx(f, ids[(2, f.name)]) for f in fmts_in_order],
               [field_sx(gt, 99)] if gt else []]
        mo = ctx.model.call(1002, arg)
        doc = dict(part="generate", params=params, fields=[[f.category, f.name, f.vcf_number, f.vcf_type, f.summary.max_number,
                   str(f.summary.min_value), str(f.summary.max_value)] for f in all_fields])
        ctx.case(doc, nontrivial=(ninfo + nfmt > 0), sample=(it == 3))
        ctx.count("generate:" + ("ok" if impl[0] == 1 else "error"))
        if impl[0] == 1 and mo[0] == 1:
            if impl[1] != mo[1]:
                diff = [(a, b) for a, b in zip(impl[1], mo[1]) if a != b][:2]
                ctx.disagree(doc, str(diff)[:800], "", "generated schema differs from the model")
            if mo[2] != 1:
                ctx.fail(doc, dict(specs=str(impl[1])[:1500]), "generated schema: two arrays share a dimension name with different sizes")
            # the property on the implementation's own output: every array's dtype holds the field's bounds
            for sp in schema.fields:
                f = next((f for f in all_fields if f.full_name == sp.vcf_field), None)
                if f is not None and f.vcf_type == "Integer" and sp.dtype in DT and math.isfinite(f.summary.max_value):
                    info = np.iinfo(sp.dtype)
                    if not (info.min <= f.summary.min_value and f.summary.max_value <= info.max and info.min <= -2):
                        ctx.fail(doc, dict(array=sp.name, dtype=sp.dtype, bounds=[f.summary.min_value, f.summary.max_value]),
                                 f"generated dtype {sp.dtype} of {sp.name} does not hold the field's value range")
        elif impl[0] != mo[0] or impl != mo[:2]:
            ctx.disagree(doc, str(impl)[:300], str(mo)[:300], "generate: outcome differs from the model")


def canon_float(x):
    """Bit-level view of a float array that is the same for an f4 array and for its exact widening to
    f8: finite values must be f4-representable (else the value itself is kept, as a float), NaNs keep
    their payload (missing and fill stay distinct) up to the quiet bit, which a widening sets."""
    x = np.asarray(x)
    nan = np.isnan(x)
    if x.dtype.itemsize == 4:
        bits = x.view(np.int32).astype(np.int64)
    else:
        with np.errstate(all="ignore"):
            y = x.astype(np.float32)
            exact = np.array_equal(y.astype(x.dtype)[~nan], x[~nan])
        if not exact:
            return np.where(nan, -1.0, x)
        bits = y.view(np.int32).astype(np.int64)
    return np.where(nan, bits & ~0x00400000, bits)


def store_arrays(path):
    import zarr

    root = zarr.open(path, mode="r")
    out = {}
    for k in root.array_keys():
        a = root[k]
        raw = a[:]
        x = canon_float(raw) if raw.dtype.kind == "f" else raw
        out[k] = (x.tolist(), str(a.dtype), tuple(a.chunks), a.compressor.get_config() if a.compressor else None, tuple(a.shape), raw)
    return out


def part_c(ctx):
    from bio2zarr import vcf2zarr
    from bio2zarr.vcf2zarr import icf as icf_mod
    from bio2zarr.vcf2zarr import vcz

    r = ctx.rnd
    nfiles = ctx.n(14, 200)
    for i in range(nfiles):
        seed = ctx.seed * 100003 + i
        case = absvcf.gen_case(seed, overlong=(0.3 if i % 2 else 0.0))
        if i % 5 == 2:
            # a site with 130 ALT alleles whose calls use allele numbers around the int8 boundary: the genotype array must widen
            from drivers import c01 as _c01
            cands = [k for k, x in enumerate(case["recs"]) if x["gt"] is not None]
            if cands:
                _c01.widen(case, cands[len(cands) // 2])
        text = absvcf.to_text(case)
        d = os.path.join(ctx.work, f"c10_{i}")
        os.makedirs(d)
        try:
            try:
                p = vcfgen.make_indexed(d, "in", text, kind=r.choice(["tbi", "csi"]), bcf=r.random() < 0.3)
            except Exception as e:  # noqa: BLE001  (htslib refusing the generated file says nothing about bio2zarr)
                ctx.note(f"generator: htslib could not write / index a generated file: {type(e).__name__}")
                continue
            icf_path, ref_path = os.path.join(d, "icf"), os.path.join(d, "ref.vcz")
            doc = dict(part="e2e", gen_seed=seed, records=len(case["recs"]), samples=len(case["samples"]),
                       infos=case["infos"], fmts=case["fmts"])
            vcf2zarr.explode(icf_path, [p], worker_processes=0)
            store = icf_mod.IntermediateColumnarFormat(icf_path)
            vcs, scs = r.choice([None, 1, 3, 1000]), r.choice([None, 1, 2])
            schema = vcz.VcfZarrSchema.generate(store, variants_chunk_size=vcs, samples_chunk_size=scs)
            ctx.case(doc, nontrivial=len(case["infos"]) + len(case["fmts"]) > 0, sample=(i == 0))
            # (1) fits: every stored value inside dtype / inner dimension
            fm = schema.field_map()
            for sp in schema.fields:
                if sp.vcf_field is None or sp.vcf_field not in store.fields:
                    continue
                col = store.fields[sp.vcf_field]
                width = sp.shape[-1] if len(sp.shape) > (2 if sp.name.startswith("call_") else 1) else 1
                for v in col.values:
                    if v is None:
                        continue
                    a = np.asarray(v)
                    if a.dtype.kind in "iu" and sp.dtype in ("i1", "i2", "i4", "i8"):
                        info = np.iinfo(sp.dtype)
                        vals = a[a >= -(2**31) + 8] if a.size else a
                        if vals.size and (vals.min() < info.min or vals.max() > info.max):
                            ctx.fail(doc, dict(array=sp.name, dtype=sp.dtype, value=[int(vals.min()), int(vals.max())]),
                                     f"generated schema: {sp.name} has dtype {sp.dtype} but the store holds a value outside it")
                    if a.ndim >= 1 and a.dtype.kind != "U" and a.shape[-1] > width and sp.name not in ("variant_filter",):
                        if not (sp.name.startswith("call_") and a.ndim == 1):
                            ctx.fail(doc, dict(array=sp.name, width=width, row=a.shape), f"generated schema: inner dimension of {sp.name} truncates a row")
            # (2) JSON round trip
            s2 = vcz.VcfZarrSchema.fromjson(schema.asjson())
            if s2 != schema or json.loads(s2.asjson()) != json.loads(schema.asjson()):
                ctx.fail(doc, dict(schema=schema.asjson()[:1500]), "schema changed by a JSON round trip")
            # (3) reference encode and edits
            try:
                vcf2zarr.encode(icf_path, ref_path, variants_chunk_size=vcs, samples_chunk_size=scs, worker_processes=0)
            except Exception as e:  # noqa: BLE001
                ctx.fail(doc, dict(error=f"{type(e).__name__}: {e}"[:300]), "encoding with the generated schema failed: the schema does not fit the store")
                continue
            ref = store_arrays(ref_path)
            # the genotype array is laid out by generate itself (not from a field specification): every allele number of the
            # intermediate store must come out of the encode unchanged
            if "call_genotype" in ref and "FORMAT/GT" in store.fields:
                g = ref["call_genotype"][5]
                for v, val in enumerate(store.fields["FORMAT/GT"].values):
                    if val is None:
                        continue
                    al = np.asarray(val)[:, :-1]
                    got_ = g[v][:, : al.shape[1]]
                    if not np.array_equal(np.where(al >= 0, al, got_), got_):
                        ctx.fail(doc, dict(record=v, stored=got_.tolist()[:4], source=al.tolist()[:4], dtype=str(g.dtype)),
                                 f"generated schema: call_genotype ({g.dtype}) does not hold the allele numbers of the store: encoding clips")
                        break
            optional = [sp.name for sp in schema.fields if sp.vcf_field and "/" in sp.vcf_field]
            if len(optional) <= 3:
                subsets = [set(c) for k in range(len(optional) + 1) for c in itertools.combinations(optional, k)]
            else:
                subsets = [set(x for x in optional if r.random() < 0.5) for _ in range(ctx.n(2, 6))]
            trio = {"call_genotype", "call_genotype_mask", "call_genotype_phased"}
            has_trio = trio <= {sp.name for sp in schema.fields}
            for si, drop in enumerate(subsets[: ctx.n(4, 16)]):
                if has_trio and r.random() < 0.35:
                    drop = set(drop) | trio     # a store without genotypes: the three arrays go together
                sd = json.loads(schema.asjson())
                sd["fields"] = [f for f in sd["fields"] if f["name"] not in drop]
                edits = {}
                for f in sd["fields"]:
                    if f["dtype"] in ("i1", "i2", "i4") and r.random() < 0.5:
                        f["dtype"] = r.choice([t for t in ("i2", "i4", "i8") if int(t[1]) > int(f["dtype"][1])])
                        edits[f["name"]] = ("dtype", f["dtype"])
                    elif f["dtype"] in ("i1", "i2", "i4", "bool") and r.random() < 0.35 and f["name"] not in ("call_genotype", "call_genotype_mask", "call_genotype_phased"):
                        # a widening into ANOTHER dtype kind that numpy calls a safe cast (np.can_cast): integers into a float
                        # type that holds them exactly, a flag into an integer -- the numbers, sentinels included, must not change
                        f["dtype"] = {"i1": r.choice(["f4", "f8"]), "i2": r.choice(["f4", "f8"]), "i4": "f8", "bool": r.choice(["i1", "i2"])}[f["dtype"]]
                        edits[f["name"]] = ("dtype-kind", f["dtype"])
                    elif f["dtype"] == "f4" and r.random() < 0.5:
                        f["dtype"] = "f8"      # a wider float: every f4 value, and the two sentinels, widen exactly
                        edits[f["name"]] = ("dtype", "f8")
                    elif r.random() < 0.3 and f["name"] != "call_genotype":
                        f["compressor"] = dict(id="blosc", cname=r.choice(["lz4", "zlib", "zstd"]), clevel=r.randint(1, 9), shuffle=r.choice([0, 1, 2]), blocksize=0)
                        edits[f["name"]] = ("compressor", f["compressor"])
                    elif r.random() < 0.3 and len(f["chunks"]) > 1:
                        # the variants-axis chunk is global (partitions are aligned to it); edit the other axes
                        f["chunks"] = [c if j == 0 else max(1, c // 2) for j, c in enumerate(f["chunks"])]
                        edits[f["name"]] = ("chunks", f["chunks"])
                    elif r.random() < 0.35 and f["chunks"] and f["chunks"][0] > 1 and f["name"] not in ("call_genotype", "call_genotype_mask", "call_genotype_phased", "variant_id", "variant_id_mask",
                                                                                                   "variant_contig", "variant_position", "variant_length"):
                        # (arrays that are written or read in lockstep -- id / id mask, the genotype trio, the three columns the
                        # region index is built from -- must keep a common chunking: bio2zarr refuses anything else with an error)
                        # ... except that a proper divisor of it keeps every partition chunk-aligned: only the grid changes
                        divs = [k for k in range(1, f["chunks"][0]) if f["chunks"][0] % k == 0]
                        f["chunks"] = [r.choice(divs)] + list(f["chunks"][1:])
                        edits[f["name"]] = ("chunks", f["chunks"])
                sp_path = os.path.join(d, f"schema{si}.json")
                with open(sp_path, "w") as fh:
                    json.dump(sd, fh)
                out = os.path.join(d, f"out{si}.vcz")
                ed = dict(doc, dropped=sorted(drop), edits={k: list(v) for k, v in edits.items()})
                ctx.case(ed, nontrivial=bool(drop or edits))
                ctx.count("schema-edit")
                try:
                    vcf2zarr.encode(icf_path, out, schema_path=sp_path, worker_processes=0)
                except Exception as e:  # noqa: BLE001
                    ctx.fail(ed, dict(error=f"{type(e).__name__}: {e}"[:300]), "encode with an edited schema failed")
                    continue
                got = store_arrays(out)
                want_names = {f["name"] for f in sd["fields"]}
                stored = set(got) - {"region_index", "contig_id", "contig_length", "filter_id", "sample_id"}
                if stored != want_names:
                    ctx.fail(ed, dict(arrays=sorted(got), listed=sorted(want_names)), "arrays written differ from the arrays listed in the schema")
                for f in sd["fields"]:
                    nm = f["name"]
                    if nm not in got or nm not in ref:
                        continue
                    vals, dtype, chunks, comp, shape, raw = got[nm]
                    if edits.get(nm, ("",))[0] == "dtype-kind":
                        # compared as numbers: the widened array must hold exactly the reference's values (a NaN equals nothing)
                        same = raw.shape == ref[nm][5].shape and bool(np.array_equal(raw, ref[nm][5].astype(raw.dtype)))
                    else:
                        same = vals == ref[nm][0]
                    if not same:
                        ctx.fail(ed, dict(array=nm), f"user schema: a retained value of {nm} changed")
                    want_dt = np.dtype(f["dtype"]).str
                    if np.dtype(dtype).str != want_dt:
                        ctx.fail(ed, dict(array=nm, got=dtype, want=f["dtype"]), f"user schema: dtype of {nm} not honoured")
                    if tuple(chunks) != tuple(f["chunks"]):
                        ctx.fail(ed, dict(array=nm, got=chunks, want=f["chunks"]), f"user schema: chunks of {nm} not honoured")
                    if comp is not None and any(comp.get(k) != v for k, v in f["compressor"].items()):
                        ctx.fail(ed, dict(array=nm, got=comp, want=f["compressor"]), f"user schema: compressor of {nm} not honoured")
                shutil.rmtree(out, ignore_errors=True)
        finally:
            shutil.rmtree(d, ignore_errors=True)


def run(ctx):
    part_a(ctx)
    part_b(ctx)
    part_c(ctx)


def replay(ctx, rep):
    c = rep["case"]
    if c.get("part") == "min_int_dtype":
        o = impl_min_int(c["lo"], c["hi"])
        m = ctx.model.call(1000, [c["lo"], c["hi"]])
        ctx.case(c)
        if o != m:
            ctx.fail(c, dict(implementation=o, narrowest_fit=m), "min_int_dtype differs")
    else:
        run(ctx)
