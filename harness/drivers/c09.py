"""C09 correspondence: index parsers and bin arithmetic.

 (a) every index htslib writes for generated files + the checked-in ones: gunzipped bytes
     -> extracted parse_csi / parse_tbi  vs  the real read_csi / read_tabix, field by field;
     per-contig counts vs the records actually in the file; names vs the header.
 (b) re-serialised variants produced by the model's *independent serialiser* (pseudo-bins
     stripped = old-style index, bins permuted, trailing count removed / added), gzipped
     and read by the real parser, compared with the spec view.
 (c) malformed stream: wrong magic, truncations -> both must reject.
 (d) bin arithmetic: the TRANSLATED helpers (extracted from Gen/GenBins.v) vs the real
     functions, exhaustively for small depths and sampled up to depth 8.
"""
import glob
import gzip
import math
import os
from types import SimpleNamespace

from lib import vcfgen
from lib.common import REPO, is_err, opt


def canon_csi(ix):
    return [
        1,
        ix.min_shift,
        ix.depth,
        list(ix.aux) if isinstance(ix.aux, (bytes, bytearray)) else [],
        [[[b.bin, b.loffset, [[c.cnk_beg, c.cnk_end] for c in b.chunks]] for b in bins] for bins in ix.bins],
        [(-1 if math.isinf(c) else int(c)) for c in ix.record_counts],
        ix.n_no_coor,
    ]


def canon_tbi(ix):
    h = ix.header
    return [
        1,
        [h.n_ref, h.format, h.col_seq, h.col_beg, h.col_end, h.meta, h.skip, h.l_nm],
        [list(n.encode()) for n in ix.sequence_names],
        [[[b.bin, [[c.cnk_beg, c.cnk_end] for c in b.chunks]] for b in bins] for bins in ix.bins],
        [list(li) for li in ix.linear_indexes],
        [(-1 if math.isinf(c) else int(c)) for c in ix.record_counts],
        ix.n_no_coor,
    ]


def real_parse(kind, path):
    from bio2zarr import vcf_utils

    try:
        if kind == "csi":
            return canon_csi(vcf_utils.read_csi(path))
        return canon_tbi(vcf_utils.read_tabix(path))
    except Exception as e:  # noqa: BLE001
        return [0, type(e).__name__]


def gen_records(rnd, contigs):
    recs = []
    truth = {}
    used = [c for c in contigs if rnd.random() < 0.7] or [rnd.choice(contigs)]
    for c in contigs:
        if c not in used:
            continue
        pos = rnd.randint(1, 100000)
        for _ in range(rnd.randint(1, 40)):
            if rnd.random() < 0.15:
                recs.append(f"{c}\t{pos}\t.\tA\t<DEL>\t.\tPASS\tEND={pos + rnd.randint(1, 200000)}")
            else:
                recs.append(f"{c}\t{pos}\t.\tA\tT\t.\tPASS\t.")
            truth[c] = truth.get(c, 0) + 1
            pos += rnd.choice([0, 3, 17, 2000, 20000, 300000])
    return recs, truth


def compare_bytes(ctx, kind, raw, doc, path=None, tmpdir=None):
    """model parse of raw bytes vs real parse of the gzipped file"""
    if path is None:
        path = os.path.join(tmpdir, f"x.{kind}")
        with gzip.open(path, "wb") as f:
            f.write(raw)
    m = ctx.model.call(900 if kind == "csi" else 901, list(raw))
    r = real_parse(kind, path)
    if m[0] == 0 and r[0] == 0:
        return m, r
    if m != r:
        d = dict(doc, index_bytes_hex=bytes(raw).hex())
        ctx.fail(d, dict(implementation=r if len(str(r)) < 2000 else str(r)[:2000], independent_decoding=m if len(str(m)) < 2000 else str(m)[:2000]),
                 f"{kind} index parsed differently from the byte-level decoding ({doc.get('origin')})")
    return m, r


def run(ctx):
    import cyvcf2
    from bio2zarr import vcf_utils

    tmp = ctx.work
    rnd = ctx.rnd
    # ---- (a1) checked-in indexes ----------------------------------------------------
    for f in sorted(glob.glob(os.path.join(REPO, "tests/data/vcf/*.csi")) + glob.glob(os.path.join(REPO, "tests/data/vcf/*.tbi"))):
        kind = "csi" if f.endswith(".csi") else "tbi"
        try:
            raw = gzip.open(f).read()
        except Exception:  # noqa: BLE001
            continue
        doc = dict(origin="checked-in", file=os.path.relpath(f, REPO))
        ctx.case(doc, nontrivial=len(raw) > 100)
        ctx.count("checked-in")
        compare_bytes(ctx, kind, raw, doc, path=f)
    # ---- (a2) generated --------------------------------------------------------------
    hdr_tail = ['##INFO=<ID=END,Number=1,Type=Integer,Description="end">', '##FILTER=<ID=PASS,Description="All filters passed">']
    nfiles = ctx.n(120, 1500)
    parsed_for_variants = []
    for i in range(nfiles):
        ncont = rnd.randint(1, 5)
        contigs = [f"ctg{j}" for j in range(ncont)]
        hdr = [f"##contig=<ID={c},length=100000000>" for c in contigs] + hdr_tail
        recs, truth = gen_records(rnd, contigs)
        text = vcfgen.vcf_text(hdr, recs)
        for kind, ms, bcf in [("tbi", 14, False), ("csi", rnd.randint(9, 20), False), ("csi", rnd.randint(9, 20), True)]:
            lpb = rnd.choice([None, None, 3, 10])
            p = vcfgen.make_indexed(tmp, "c09", text, kind=kind, min_shift=ms, bcf=bcf, lines_per_block=lpb)
            ip = vcfgen.index_path(p)
            raw = gzip.open(ip).read()
            doc = dict(origin="htslib", kind=kind, min_shift=ms, bcf=bcf, contigs=ncont, used=sorted(truth), records=len(recs), seed_index=i)
            ctx.case(doc, nontrivial=len(recs) > 1, sample=(i < 2))
            ctx.count(f"{kind}{'-bcf' if bcf else ''}")
            m, r = compare_bytes(ctx, kind, raw, doc, path=ip)
            # counts vs the records actually present; names vs header
            if r[0] == 1:
                with vcf_utils.IndexedVcf(p) as iv:
                    got = {k: v for k, v in iv.contig_record_counts().items() if v}
                    names = list(iv.sequence_names)
                actual = {}
                for v in cyvcf2.VCF(p):
                    actual[v.CHROM] = actual.get(v.CHROM, 0) + 1
                if got != actual or any(math.isinf(v) for v in got.values()):
                    ctx.fail(dict(doc, index_bytes_hex=raw.hex()), dict(reported=str(got), actual=actual), "per-contig record counts differ from the records in the file")
                if not bcf and names != [c for c in contigs if c in truth]:
                    ctx.fail(dict(doc, index_bytes_hex=raw.hex()), dict(names=names, header_used=[c for c in contigs if c in truth]), "sequence names differ from the contigs present")
                ctx.traces_validated += 1
                if len(parsed_for_variants) < ctx.n(30, 400):
                    parsed_for_variants.append((kind, m, doc))
            for q in (p, ip):
                os.remove(q)
    # ---- (a3) indexes larger than one BGZF block (> 64 KiB uncompressed) -------------------
    big = [("tbi", 14, False, "far"), ("tbi", 14, False, "edge"), ("csi", 14, False, "many"), ("csi", rnd.choice([12, 14]), True, "many")]
    if not ctx.quick:
        big += [("tbi", 14, False, "many"), ("csi", 9, False, "far")]
    for kind, ms, bcf, shape in big:
        if shape == "edge":
            # a record in the last 16 kb window tabix can address: the linear index has its maximum length (32768 entries)
            contigs = ["chrbig", "ctgZ"]
            hdr = ["##contig=<ID=chrbig,length=536870912>", "##contig=<ID=ctgZ,length=1000>"] + hdr_tail
            recs = ["chrbig\t100\t.\tA\tT\t.\tPASS\t.", f"chrbig\t{536870912 - rnd.randint(1, 16000)}\t.\tA\tT\t.\tPASS\t.", "ctgZ\t5\t.\tA\tT\t.\tPASS\t."]
        elif shape == "far":
            contigs = ["chrbig", "ctgZ"]
            hdr = ["##contig=<ID=chrbig,length=536000000>", "##contig=<ID=ctgZ,length=1000>"] + hdr_tail
            recs = ["chrbig\t100\t.\tA\tT\t.\tPASS\t.", f"chrbig\t{rnd.randint(400000000, 500000000)}\t.\tA\tT\t.\tPASS\t.", "ctgZ\t5\t.\tA\tT\t.\tPASS\t."]
        else:
            contigs = [f"scaffold_{j}" for j in range(1500)]
            hdr = [f"##contig=<ID={c},length=100000>" for c in contigs] + hdr_tail
            recs = [f"{c}\t{rnd.randint(1, 90000)}\t.\tA\tT\t.\tPASS\t." for c in contigs if rnd.random() < 0.9]
        text = vcfgen.vcf_text(hdr, recs)
        p = vcfgen.make_indexed(tmp, "c09big", text, kind=kind, min_shift=ms, bcf=bcf)
        ip = vcfgen.index_path(p)
        raw = gzip.open(ip).read()
        doc = dict(origin="htslib-large", kind=kind, min_shift=ms, bcf=bcf, shape=shape, records=len(recs), index_bytes=len(raw))
        ctx.case(doc, nontrivial=True)
        ctx.count("large-index")
        m = ctx.model.call(900 if kind == "csi" else 901, list(raw))
        r = real_parse(kind, ip)
        if m != r:
            ctx.fail(doc, dict(implementation=str(r)[:600], independent_decoding=str(m)[:600]),
                     f"{kind} index of {len(raw)} bytes (more than one BGZF block) parsed differently from the byte-level decoding")
        elif r[0] == 1:
            with vcf_utils.IndexedVcf(p) as iv:
                got = {k: v for k, v in iv.contig_record_counts().items() if v}
            actual = {}
            for v in cyvcf2.VCF(p):
                actual[v.CHROM] = actual.get(v.CHROM, 0) + 1
            if got != actual:
                ctx.fail(doc, dict(reported=str(got)[:300], actual=str(actual)[:300]), "per-contig record counts differ from the records in the file (large index)")
            ctx.traces_validated += 1
        for q in (p, ip):
            os.remove(q)
    # ---- (b) re-serialised variants through the model's independent serialiser --------
    for kind, m, doc0 in parsed_for_variants:
        for variant in ("same", "no_pseudo", "permuted", "no_tail", "tail", "no_refs_tail", "unmapped"):
            if kind == "csi":
                _, ms, depth, aux, bins, counts, nnc = m
                pseudo = ((1 << (depth + 1) * 3) - 1) // 7 + 1
                contigs = [list(bs) for bs in bins]
            else:
                _, hdr8, names, bins, linear, counts, nnc = m
                pseudo = 37450
                contigs = [list(bs) for bs in bins]
            tail = [nnc]
            if variant == "no_pseudo":
                contigs = [[b for b in bs if b[0] != pseudo] for bs in contigs]
            elif variant == "permuted":
                contigs = [rnd.sample(bs, len(bs)) for bs in contigs]
            elif variant == "no_tail":
                tail = []
            elif variant == "tail":
                tail = [rnd.randint(0, 2**40)]
            elif variant == "unmapped":
                # pseudo-bins whose second chunk (n_mapped, n_unmapped) carries unmapped records too (as htslib
                # writes for placed-but-unaligned reads): the count of a sequence is the sum of both
                contigs = [[[b[0], b[1], [list(b[2][0]), [b[2][1][0], b[2][1][1] + rnd.randint(1, 9)]]] if (b[0] == pseudo and len(b[2]) == 2) else b for b in bs]
                           for bs in contigs] if kind == "csi" else \
                          [[[b[0], [list(b[1][0]), [b[1][1][0], b[1][1][1] + rnd.randint(1, 9)]]] if (b[0] == pseudo and len(b[1]) == 2) else b for b in bs]
                           for bs in contigs]
            elif variant == "no_refs_tail":
                # an index without any reference sequence (what htslib writes for unplaced records only)
                contigs = []
                tail = [rnd.choice([1, 7, 300, rnd.randint(0, 2**40)])]
            if kind == "csi":
                arg = [ms, depth, aux, contigs, tail]
                out = ctx.model.call(902, arg)
            else:
                arg = [hdr8[1:7], names if contigs else [], [[bs, li] for bs, li in zip(contigs, linear)], tail]
                out = ctx.model.call(903, arg)
            if is_err(out):
                ctx.note(f"model serialiser refused {variant}")
                continue
            raw, view = bytes(out[0]), out[1]
            doc = dict(origin="reserialised:" + variant, kind=kind, base=doc0)
            ctx.case(doc, nontrivial=True)
            ctx.count("reserialised:" + variant)
            p = os.path.join(tmp, f"v.{kind}")
            with gzip.open(p, "wb") as f:
                f.write(raw)
            r = real_parse(kind, p)
            if r != view:
                ctx.fail(dict(doc, index_bytes_hex=raw.hex()), dict(implementation=str(r)[:2000], spec_view=str(view)[:2000]),
                         f"{kind} index ({variant}) parsed differently from the specification view")
            if variant == "no_pseudo" and r[0] == 1:
                cnts = r[5]
                for bs, c in zip(contigs, cnts):
                    if bs and c != -1:
                        ctx.fail(dict(doc, index_bytes_hex=raw.hex()), dict(counts=cnts), "index without counts reported a number instead of unknown")
            # (c) malformed: wrong magic and truncations must be rejected by both
            if variant == "same":
                for bad_kind, bad in [("magic", b"XXX\x01" + raw[4:]), ("other-kind", (b"TBI\x01" if kind == "csi" else b"CSI\x01") + raw[4:])] + [
                    ("truncated", raw[:k]) for k in sorted({rnd.randint(0, len(raw) - 1) for _ in range(3)})
                ]:
                    d2 = dict(origin="malformed:" + bad_kind, kind=kind, length=len(bad), base=doc0)
                    ctx.case(d2, nontrivial=True)
                    ctx.count("malformed:" + bad_kind)
                    with gzip.open(p, "wb") as f:
                        f.write(bad)
                    r2 = real_parse(kind, p)
                    m2 = ctx.model.call(900 if kind == "csi" else 901, list(bad))
                    if bad_kind in ("magic", "other-kind") and r2[0] != 0:
                        ctx.fail(dict(d2, index_bytes_hex=bad.hex()), dict(implementation=str(r2)[:500]), "a file that is not an index of the expected kind was accepted")
                    elif r2[0] == 1 and "None" in str(r2):
                        # read_bytes_as_value returns None (no error) for a "<Q" read exactly at end
                        # of data: a tabix index cut on an 8-byte boundary inside a linear index
                        # is accepted with None entries.  Truncated indexes are outside C09's
                        # quantifier (htslib never writes them); recorded, not compared.
                        ctx.count("truncated-accepted-with-None-entries")
                    elif (r2[0] == 0) != (m2[0] == 0) or (r2[0] == 1 and r2 != m2):
                        ctx.disagree(dict(d2, index_bytes_hex=bad.hex()), str(r2)[:500], str(m2)[:500], "malformed index: model and reader differ")
    # ---- (d) bin arithmetic: the real helpers vs the closed-form model (theorem-backed) and
    #          vs the TRANSLATED helpers (validates translator + Base/Prims.v) ------------
    bin_helpers(ctx)


def bin_helpers(ctx, only=None):
    from bio2zarr import vcf_utils

    rnd = ctx.rnd
    cases = []  # (name, args, model_op, model_arg, gen_op, gen_arg, thunk)

    def add(name, args, mop, marg, gop, garg, fn):
        cases.append((name, args, mop, marg, gop, garg, fn))

    def add_bin(depth, ms, b):
        csi = SimpleNamespace(depth=depth, min_shift=ms)
        add("get_level_for_bin", [depth, b], 913, [depth, b], 6, [depth, b], lambda: vcf_utils.get_level_for_bin(csi, b))
        add("get_first_locus_in_bin", [depth, ms, b], 914, [ms, depth, b], 7, [depth, ms, b], lambda: vcf_utils.get_first_locus_in_bin(csi, b))

    if only is not None:
        name, args = only
        if name in ("get_level_for_bin",):
            add_bin(args[0], 14, args[1])
        elif name == "get_first_locus_in_bin":
            add_bin(args[0], args[1], args[2])
        cases[:] = [c for c in cases if c[0] == name]
    else:
        for depth in range(0, ctx.n(5, 6) + 1):
            ms = rnd.randint(9, 20)
            lim = vcf_utils.bin_limit(ms, depth)
            add("bin_limit", [ms, depth], 912, [depth], 3, [ms, depth], lambda ms=ms, depth=depth: vcf_utils.bin_limit(ms, depth))
            add("get_first_bin_in_level", [depth], 910, [depth], 4, [depth], lambda depth=depth: vcf_utils.get_first_bin_in_level(depth))
            add("get_level_size", [depth], 911, [depth], 5, [depth], lambda depth=depth: vcf_utils.get_level_size(depth))
            for b in range(0, lim + 2):
                add_bin(depth, ms, b)
        for _ in range(ctx.n(4000, 200000)):
            depth = rnd.randint(0, 8)
            ms = rnd.randint(9, 20)
            add_bin(depth, ms, rnd.randint(0, vcf_utils.bin_limit(ms, depth) + 1))
            v = rnd.choice([rnd.randint(0, 2**64 - 1), rnd.randint(0, 2**20), (rnd.randint(0, 2**40) << 16) | rnd.randint(0, 65535)])
            add("get_file_offset", [v], 915, [v], 2, [v], lambda v=v: vcf_utils.get_file_offset(v))
    impl = []
    for c in cases:
        try:
            impl.append(c[6]())
        except ValueError:
            impl.append("ValueError")
        except Exception as e:  # noqa: BLE001
            impl.append("ERR:" + type(e).__name__)
    mouts = ctx.model.batch([(c[2], c[3]) for c in cases])
    try:
        gouts = ctx.genmodel.batch([(c[4], c[5]) for c in cases])
    except Exception as e:  # noqa: BLE001
        gouts = None
        ctx.note("translated helpers not available: " + str(e)[:100])
    for i, c in enumerate(cases):
        m = mouts[i]
        want = m if isinstance(m, int) else (m[0] if m else "ValueError")
        if impl[i] != want:
            ctx.fail(dict(origin="bin-helper", fn=c[0], args=c[1]), dict(implementation=impl[i], closed_form=want),
                     f"{c[0]}{tuple(c[1])} = {impl[i]}, the CSI bin arithmetic gives {want}")
        if gouts is not None:
            g = gouts[i]
            got = g if isinstance(g, int) else (g[1] if g[0] == 1 else "ValueError")
            if got != impl[i]:
                ctx.disagree(dict(origin="bin-helper", fn=c[0], args=c[1]), impl[i], got, "translated helper differs from the real function")
    ctx.evaluations += len(cases)
    ctx.count("bin-helper-evaluations", len(cases))
    if only is None:
        ctx.distribution["bin-helper-exhaustive-depths"] = f"0..{ctx.n(5, 6)}"


def replay(ctx, rep):
    c = rep["case"]
    if c.get("origin") == "bin-helper":
        return bin_helpers(ctx, only=(c["fn"], c["args"]))
    raw = bytes.fromhex(c["index_bytes_hex"])
    compare_bytes(ctx, c.get("kind") or ("csi" if raw[:3] == b"CSI" else "tbi"), raw, dict(origin="replay"), tmpdir=ctx.work)
