"""C12 correspondence: the region index.

 (a) in-process: the real VcfZarrWriter.create_index on synthetic zarr stores holding generated
     variant_contig / variant_position / variant_length arrays in i1 / i2 / i4 (small
     coordinates, END-style long spans, nested spans, several contigs per chunk, contigs
     spanning chunks) for every chunk size 1..n+1, vs Model.RegionIndex.create_index, and the
     extracted check_C12 (rows = specification rows computed in Z) on the real index;
 (a') scale: stores of more than 10^6 / 2^20 records, chunk sizes that divide no round batch size;
 (b) end to end: generated VCFs with END-style lengths and small coordinates through
     vcf2zarr.convert, region_index vs the specification rows recomputed from the store's own
     contig / position / length arrays.
"""
import os
import shutil
from types import SimpleNamespace

import numpy as np

from lib import vcfgen


def gen_records(r, small):
    nct = r.randint(1, 4)
    recs = []
    for c in range(nct):
        if r.random() < 0.2:
            continue
        pos = r.randint(1, 60 if small else 100000)
        for _ in range(r.randint(1, 8)):
            ln = r.choice([1, 1, 2, r.randint(1, 100), r.randint(1, 40000) if not small else r.randint(1, 120)])
            recs.append((c, pos, ln))
            pos += r.choice([0, 1, 3, 10 if small else 1000])
    if not recs:
        recs = [(0, 5, 1)]
    return recs


def fits(vals, dt):
    info = np.iinfo(dt)
    return min(vals) >= info.min and max(vals) <= info.max


def real_index(path, recs, cs, dts):
    import zarr
    from bio2zarr.vcf2zarr import vcz

    shutil.rmtree(path, ignore_errors=True)
    root = zarr.open_group(path, mode="w")
    for name, col, dt in zip(("variant_contig", "variant_position", "variant_length"), range(3), dts):
        root.array(name, data=np.array([x[col] for x in recs], dtype=dt), chunks=(cs,), dtype=dt)
    w = SimpleNamespace(path=path, metadata=SimpleNamespace(dimension_separator=None))
    vcz.VcfZarrWriter.create_index(w)
    return zarr.open_group(path, mode="r")["region_index"][:].tolist()


def part_a(ctx):
    r = ctx.rnd
    path = os.path.join(ctx.work, "c12.zarr")
    for it in range(ctx.n(150, 3000)):
        small = r.random() < 0.6
        recs = gen_records(r, small)
        if r.random() < 0.3:
            # contig numbers at the edge of an integer type (a header with 128 / 129 / 32768 ... contigs, records on the last ones)
            shift = r.choice([127, 126, 128, 255, 32767, 32768]) - max(x[0] for x in recs)
            recs = [(c + shift, p_, l_) for c, p_, l_ in recs]
        n = len(recs)
        dts = []
        for col in range(3):
            vals = [x[col] for x in recs]
            ok = [dt for dt in ("i1", "i2", "i4") if fits(vals, dt)]
            dts.append(ok[0] if r.random() < 0.7 else r.choice(ok))  # the narrowest type that holds the column (as a generated schema would), or wider
        sizes = sorted({1, 2, 3, n, n + 1, r.randint(1, n)})
        for cs in sizes[: ctx.n(3, 6)]:
            doc = dict(part="synthetic", records=recs, chunk_size=cs, dtypes=dts)
            nontrivial = len({x[0] for x in recs}) > 1 or n > cs
            ctx.case(doc, nontrivial=nontrivial, sample=(it == 1 and cs == 2))
            ctx.count("dtypes:" + "/".join(dts))
            try:
                rows = real_index(path, recs, cs, dts)
            except Exception as e:  # noqa: BLE001
                ctx.fail(doc, dict(error=f"{type(e).__name__}: {e}"[:200]), "create_index raised")
                continue
            m_impl, m_spec = ctx.model.call(1200, [cs, [list(x) for x in recs]])
            chk = ctx.model.call(1201, [cs, [list(x) for x in recs], rows])
            if chk != 1:
                bad = next((a, b) for a, b in zip(rows + [None], m_spec + [None]) if a != b)
                ctx.fail(doc, dict(index=rows, specification=m_spec, first_difference=bad),
                         f"region index row {bad[0]} differs from the specification row {bad[1]}")
            if rows != m_impl:
                ctx.disagree(doc, rows, m_impl, "create_index differs from the model")
    shutil.rmtree(path, ignore_errors=True)


def spec_rows_np(c, p, ln, cs):
    """The statement of C12 computed directly (int64): one row per maximal contig run inside a variant chunk."""
    c, p, e = c.astype(np.int64), p.astype(np.int64), p.astype(np.int64) + ln.astype(np.int64) - 1
    n = len(c)
    idx = np.arange(n)
    brk = np.ones(n, dtype=bool)
    brk[1:] = (c[1:] != c[:-1]) | (idx[1:] // cs != idx[:-1] // cs)
    starts = np.flatnonzero(brk)
    ends = np.append(starts[1:], n) - 1
    return [[int(s // cs), int(c[s]), int(p[s]), int(p[t]), int(e[s:t + 1].max()), int(t - s + 1)] for s, t in zip(starts, ends)]


def part_scale(ctx):
    """Scale: stores of more than 1 000 000 / 2^20 records with chunk sizes that do not divide round batch sizes (a contig
    run must stay ONE row however the implementation reads the arrays), checked against the direct statement."""
    import zarr
    from bio2zarr.vcf2zarr import vcz

    r = ctx.rnd
    path = os.path.join(ctx.work, "c12s.zarr")
    for n, cs in ((1_000_030, 300_000), (1_048_600 + r.randint(0, 50), r.choice([65_537, 99_991, 250_007])))[: ctx.n(1, 2)]:
        cuts = sorted(r.sample(range(1, n), 2))
        c = np.zeros(n, dtype="i1")
        c[cuts[0]:] = 1
        c[cuts[1]:] = 3
        p = (np.arange(n, dtype=np.int64) % 1_900_000 + 1).astype("i4")
        ln = np.ones(n, dtype="i2")
        ln[:: 9973] = 30_000
        shutil.rmtree(path, ignore_errors=True)
        root = zarr.open_group(path, mode="w")
        for name, arr in (("variant_contig", c), ("variant_position", p), ("variant_length", ln)):
            root.array(name, data=arr, chunks=(cs,), dtype=arr.dtype)
        doc = dict(part="scale", records=n, chunk_size=cs, contig_changes=cuts)
        ctx.case(doc, nontrivial=True)
        ctx.count("scale")
        w = SimpleNamespace(path=path, metadata=SimpleNamespace(dimension_separator=None))
        try:
            vcz.VcfZarrWriter.create_index(w)
            rows = zarr.open_group(path, mode="r")["region_index"][:].tolist()
        except Exception as e:  # noqa: BLE001
            ctx.fail(doc, dict(error=f"{type(e).__name__}: {e}"[:200]), "create_index raised")
            continue
        want = spec_rows_np(c, p, ln, cs)
        if rows != want:
            bad = next((a, b) for a, b in zip(rows + [None], want + [None]) if a != b)
            ctx.fail(doc, dict(first_difference=bad, rows=len(rows), expected_rows=len(want)),
                     f"region index of a {n}-record store: row {bad[0]} differs from the specification row {bad[1]}")
    shutil.rmtree(path, ignore_errors=True)


def part_b(ctx):
    import zarr
    from bio2zarr import vcf2zarr

    r = ctx.rnd
    d = os.path.join(ctx.work, "c12b")
    os.makedirs(d, exist_ok=True)
    hdr0 = ['##INFO=<ID=END,Number=1,Type=Integer,Description="end">', '##FILTER=<ID=PASS,Description="p">']
    for i in range(ctx.n(10, 150)):
        recs = gen_records(r, small=(i % 2 == 0))
        # every third file declares contigs SHORTER than some of its records reach (a header copied from another assembly, a
        # reference block running past the declared end): the index summarises the stored arrays, whatever the header says
        short = i % 3 == 1
        hdr = [f"##contig=<ID=c{k},length={r.randint(5, 60) if short else 10000000}>" for k in range(4)] + hdr0
        lines = []
        for c, p, ln in recs:
            if ln == 1:
                lines.append(f"c{c}\t{p}\t.\tA\tT\t.\tPASS\t.")
            else:
                lines.append(f"c{c}\t{p}\t.\tA\t<DEL>\t.\tPASS\tEND={p + ln - 1}")
        try:
            pth = vcfgen.make_indexed(d, "in", vcfgen.vcf_text(hdr, lines), kind=("tbi" if short else r.choice(["tbi", "csi"])))
        except Exception as e:  # noqa: BLE001  (htslib refusing the generated file says nothing about bio2zarr)
            ctx.note(f"generator: htslib could not index a generated file: {type(e).__name__}")
            continue
        out = os.path.join(d, "o.vcz")
        for cs in sorted({1, 2, 3, len(recs), r.randint(1, len(recs) + 2)})[: ctx.n(2, 5)]:
            shutil.rmtree(out, ignore_errors=True)
            doc = dict(part="e2e", records=recs, chunk_size=cs)
            ctx.case(doc, nontrivial=True, sample=(i == 0))
            ctx.count("e2e")
            vcf2zarr.convert([pth], out, variants_chunk_size=cs, worker_processes=0)
            root = zarr.open(out, mode="r")
            stored = list(zip(root["variant_contig"][:].tolist(), root["variant_position"][:].tolist(), root["variant_length"][:].tolist()))
            rows = root["region_index"][:].tolist()
            chk = ctx.model.call(1201, [cs, [list(x) for x in stored], rows])
            if chk != 1:
                spec = ctx.model.call(1200, [cs, [list(x) for x in stored]])[1]
                ctx.fail(dict(doc, dtypes=[str(root[k].dtype) for k in ("variant_contig", "variant_position", "variant_length")]),
                         dict(index=rows, specification=spec), "region index of a converted store differs from the specification rows of its own arrays")
            ctx.traces_validated += 1
    shutil.rmtree(d, ignore_errors=True)


def run(ctx):
    part_a(ctx)
    part_scale(ctx)
    part_b(ctx)


def replay(ctx, rep):
    c = rep["case"]
    if c.get("part") == "synthetic":
        path = os.path.join(ctx.work, "c12.zarr")
        recs = [tuple(x) for x in c["records"]]
        rows = real_index(path, recs, c["chunk_size"], c["dtypes"])
        ctx.case(c)
        if ctx.model.call(1201, [c["chunk_size"], [list(x) for x in recs], rows]) != 1:
            ctx.fail(c, dict(index=rows), "region index differs from the specification")
    else:
        run(ctx)
