"""C02 correspondence: produced stores are self-consistent, openable datasets.

Generated inputs biased toward Number=R/A/G fields that are absent or short on the records with
the most alleles, x variants/samples chunk sizes x dimension separators x partition counts x
one-shot and distributed encode.  For every store:
  * arrays sharing a named dimension agree on its length; the store opens in xarray (and the
    dimension sizes xarray reports are the model's);
  * every variants-axis array has one row per record, every samples-axis array one column per sample;
  * integer arrays can represent -1 / -2, float arrays are float32;
  * every chunk of every array is present, no stray files; the consolidated metadata lists exactly
    the arrays on disk with identical metadata;
  * the schema generated from the real intermediate store equals Model.Schema.generate (dims_coherent_b).
"""
import json
import os
import shutil

import numpy as np

from drivers import c10
from lib import absvcf, pipeline, vcfgen


def gen_case(r, seed):
    case = absvcf.gen_case(seed)
    # bias: R/A/G fields absent or short on the record(s) with the most alleles
    widest = max(len(x["alts"]) for x in case["recs"])
    for x in case["recs"]:
        if len(x["alts"]) == widest and r.random() < 0.6:
            for k, n, t in case["infos"]:
                if n in ("R", "A", "G") and k in x["info"] and r.random() < 0.7:
                    del x["info"][k]
            for k, n, t in list(x.get("fmt_keys", [])):
                if n in ("R", "A", "G") and r.random() < 0.5:
                    x["fmt_keys"] = [f for f in x["fmt_keys"] if f[0] != k]
                    x["fmt"].pop(k, None)
            if not x.get("fmt_keys") and x["gt"] is None and case["samples"] and case["fmts"]:
                x["gt"] = None
    for x in case["recs"]:
        if case["samples"] and x["gt"] is None and not x.get("fmt_keys"):
            if case["has_gt"]:
                x["gt"] = [([0, 0], False) for _ in case["samples"]]
            elif case["fmts"]:
                k, n, t = case["fmts"][0]
                x["fmt_keys"] = [case["fmts"][0]]
                x["fmt"][k] = [None for _ in case["samples"]]
            x["drop"] = [0 for _ in case["samples"]]
    return case


def check_store(ctx, doc, path, nrec, nsamples, expect_index):
    import xarray as xr
    import zarr

    root = zarr.open(path, mode="r")
    problems = []
    dims = {}
    for k in root.array_keys():
        a = root[k]
        names = a.attrs.get("_ARRAY_DIMENSIONS")
        if names is None or len(names) != a.ndim:
            problems.append(f"{k}: _ARRAY_DIMENSIONS {names} does not match rank {a.ndim}")
            continue
        for nm, size in zip(names, a.shape):
            if dims.setdefault(nm, (size, k))[0] != size:
                problems.append(f"dimension '{nm}' has size {size} in {k} but {dims[nm][0]} in {dims[nm][1]}")
        if names and names[0] == "variants" and a.shape[0] != nrec:
            problems.append(f"{k}: {a.shape[0]} rows for {nrec} records")
        if "samples" in names and a.shape[names.index("samples")] != nsamples:
            problems.append(f"{k}: samples axis has {a.shape[names.index('samples')]} columns for {nsamples} samples")
        if a.dtype.kind == "f" and a.dtype != np.float32:
            problems.append(f"{k}: float array is not float32")
        if a.dtype.kind == "u":
            problems.append(f"{k}: unsigned integer array cannot represent the sentinels")
        # chunk grid: every chunk present, nothing else
        sep = a._dimension_separator
        want = set()
        grid = [range(-(-s // c)) for s, c in zip(a.shape, a.chunks)]
        import itertools

        for idx in itertools.product(*grid):
            want.add(sep.join(map(str, idx)))
        have = set()
        adir = os.path.join(path, k)
        for dp, _, fs in os.walk(adir):
            for f in fs:
                rel = os.path.relpath(os.path.join(dp, f), adir)
                if rel in (".zarray", ".zattrs"):
                    continue
                have.add(rel)
        if a.size > 0 and have != want:
            problems.append(f"{k}: chunk files {sorted(have ^ want)[:4]} missing or stray")
    top = set(os.listdir(path))
    stray_top = top - set(root.array_keys()) - {".zattrs", ".zgroup", ".zmetadata"}
    if stray_top:
        problems.append(f"stray entries at the top level: {sorted(stray_top)[:4]}")
    if expect_index and "region_index" not in root:
        problems.append("region_index missing")
    # consolidated metadata = what is on disk
    try:
        zm = json.load(open(os.path.join(path, ".zmetadata")))["metadata"]
        ondisk = {}
        for dp, _, fs in os.walk(path):
            for f in fs:
                if f in (".zarray", ".zattrs", ".zgroup"):
                    rel = os.path.relpath(os.path.join(dp, f), path)
                    ondisk[rel] = json.load(open(os.path.join(dp, f)))
        if zm != ondisk:
            diff = sorted(set(zm) ^ set(ondisk)) or [k for k in zm if zm[k] != ondisk.get(k)]
            problems.append(f"consolidated metadata differs from the metadata on disk: {diff[:4]}")
    except Exception as e:  # noqa: BLE001
        problems.append(f"consolidated metadata unreadable: {type(e).__name__}")
    try:
        ds = xr.open_zarr(path)
        for nm, (size, _) in dims.items():
            if ds.sizes.get(nm) != size:
                problems.append(f"xarray reports size {ds.sizes.get(nm)} for dimension '{nm}', arrays say {size}")
        ds.close()
    except Exception as e:  # noqa: BLE001
        problems.append(f"the store does not open as a labelled dataset in xarray: {type(e).__name__}: {str(e)[:120]}")
    for pr in problems[:3]:
        ctx.fail(doc, dict(problem=pr), "produced store is not self-consistent: " + pr)


def many_contigs(ctx):
    """headers that declare more contigs than an int8 / int16 index holds (129..256, 32769+ is too slow here)"""
    from bio2zarr import vcf2zarr

    r = ctx.rnd
    for nc in (r.randint(129, 256), 195, 128, 127):
        d = os.path.join(ctx.work, f"c02_many_{nc}")
        os.makedirs(d, exist_ok=True)
        try:
            hdr = [f"##contig=<ID=k{j},length=1000>" for j in range(nc)] + ['##FILTER=<ID=PASS,Description="p">',
                   '##INFO=<ID=DP,Number=1,Type=Integer,Description="d">', '##FORMAT=<ID=GT,Number=1,Type=String,Description="g">']
            used = sorted(r.sample(range(nc), 4)) + [nc - 1]
            recs = [f"k{j}\t{10 + i}\t.\tA\tT\t.\tPASS\tDP={i}\tGT\t0/1\t1|1" for j in sorted(set(used)) for i in range(2)]
            p = vcfgen.make_indexed(d, "in", vcfgen.vcf_text(hdr, recs, ("s0", "s1")), kind=r.choice(["tbi", "csi"]))
            out = os.path.join(d, "o.vcz")
            doc = dict(special="many-contigs", contigs=nc, records=len(recs))
            ctx.case(doc, nontrivial=True)
            ctx.count("many-contigs")
            try:
                vcf2zarr.convert([p], out, worker_processes=0)
            except Exception as e:  # noqa: BLE001
                ctx.fail(doc, dict(error=f"{type(e).__name__}: {e}"[:300]), "conversion failed")
                continue
            check_store(ctx, doc, out, len(recs), 2, expect_index=True)
            ctx.traces_validated += 1
        finally:
            shutil.rmtree(d, ignore_errors=True)


def retried_partitions(ctx):
    """a conversion that succeeds after one of its partition tasks was killed (at a random file-system
    mutation, the file being written optionally torn) and retried -- once or twice -- is a successful
    conversion: its store must be as self-consistent as any other (complete grid, no stray files)"""
    from bio2zarr import vcf2zarr

    from drivers import c05

    r = ctx.rnd
    done = 0
    for i in range(ctx.n(40, 200)):
        if done >= ctx.n(10, 40):
            break
        seed = ctx.seed * 11 + 90000 + i
        case = gen_case(r, seed)
        if not case["samples"] or len(case["recs"]) < 3:
            continue
        d = os.path.join(ctx.work, f"c02_retry_{i}")
        os.makedirs(d)
        try:
            p = vcfgen.make_indexed(d, "in", absvcf.to_text(case), kind="tbi")
            icf = os.path.join(d, "s.icf")
            vcf2zarr.explode(icf, [p], worker_processes=0)
            n, ns = len(case["recs"]), len(case["samples"])
            out = os.path.join(d, "o.vcz")
            cfg = dict(variants_chunk_size=r.choice([1, 2]), samples_chunk_size=r.choice([1, 2, None]), dimension_separator=r.choice([None, "/", "."]))
            np_ = vcf2zarr.encode_init(icf, out, r.choice([2, 3]), **cfg).num_partitions
            j = r.randrange(np_)
            src = f"vcf2zarr.encode_partition({out!r}, {j})"
            # how many mutations the task performs: measured on a copy
            probe = os.path.join(d, "probe.vcz")
            shutil.copytree(out, probe)
            log = os.path.join(d, "audit.log")
            c05.run_cmd(f"vcf2zarr.encode_partition({probe!r}, {j})", log=log, root=probe)
            events = [ln.split("\t") for ln in open(log)] if os.path.exists(log) else []
            events = [e for e in events if e and e[0].isdigit()]
            total = len(events)
            renames = [int(e[0]) for e in events if "rename" in e[1] and int(e[0]) > 0]   # chunk files being moved into place
            shutil.rmtree(probe, ignore_errors=True)
            if total < 3:
                continue
            kills = []
            for _ in range(r.choice([1, 1, 2])):
                k = r.choice(renames) if renames and r.random() < 0.6 else r.randrange(1, total)
                tear = r.choice([None, "half", "0"])
                rc, _err = c05.run_cmd(src, crash=f"{k}:{tear}" if tear else str(k))
                kills.append([k, tear, rc])
            doc = dict(gen_seed=seed, records=n, samples=ns, kind="retried-partition", partitions=np_, partition=j, kills=kills, mutations=total, **cfg)
            ctx.case(doc, nontrivial=True)
            ctx.count("mode:retried-partition")
            try:
                order = list(range(np_))
                r.shuffle(order)
                for q in order:
                    vcf2zarr.encode_partition(out, q)
                vcf2zarr.encode_finalise(out)
            except Exception as e:  # noqa: BLE001
                ctx.fail(doc, dict(error=f"{type(e).__name__}: {e}"[:300]), "retrying a killed partition task and finishing the conversion failed")
                continue
            check_store(ctx, doc, out, n, ns, expect_index=False)
            ctx.traces_validated += 1
            done += 1
        finally:
            shutil.rmtree(d, ignore_errors=True)


def run(ctx):
    from bio2zarr import vcf2zarr
    from bio2zarr.vcf2zarr import icf as icf_mod
    from bio2zarr.vcf2zarr import vcz

    many_contigs(ctx)
    retried_partitions(ctx)
    init_sweep(ctx)
    r = ctx.rnd
    for i in range(ctx.n(60, 600)):
        seed = ctx.seed * 11 + 70000 + i
        case = gen_case(r, seed)
        d = os.path.join(ctx.work, f"c02_{i}")
        os.makedirs(d)
        try:
            p = vcfgen.make_indexed(d, "in", absvcf.to_text(case), kind=r.choice(["tbi", "csi"]), lines_per_block=r.choice([None, 2]))
            icf = os.path.join(d, "s.icf")
            vcf2zarr.explode(icf, [p], worker_processes=0)
            n, ns = len(case["recs"]), len(case["samples"])
            # schema vs model
            store = icf_mod.IntermediateColumnarFormat(icf)
            schema = vcz.VcfZarrSchema.generate(store)
            fields = store.metadata.fields
            ids = {(0, f.name): c10.FIXED_FIELD[f.name] for f in fields if f.category == "fixed"}
            infos = [f for f in fields if f.category == "INFO"]
            fmts = [f for f in fields if f.category == "FORMAT" and f.name != "GT"]
            gt = [f for f in fields if f.category == "FORMAT" and f.name == "GT"]
            for k, f in enumerate(infos):
                ids[(1, f.name)] = k
            for k, f in enumerate(fmts):
                ids[(2, f.name)] = k
            ids[(2, "GT")] = 99
            byname = {f.name: f for f in fields if f.category == "fixed"}
            gsize = max([f.summary.max_number for f in fields if f.vcf_number == "G"], default=0)
            params = [store.num_records, store.num_samples, 10000, 1000, store.metadata.num_contigs, store.metadata.num_filters, byname["ALT"].summary.max_number + 1, gsize]
            arg = [params, c10.field_sx(byname["QUAL"], 2), c10.field_sx(byname["POS"], 1), c10.field_sx(byname["rlen"], 7),
                   [c10.field_sx(f, ids[(1, f.name)]) for f in infos], [c10.field_sx(f, ids[(2, f.name)]) for f in fmts], [c10.field_sx(f, 99) for f in gt]]
            mo = ctx.model.call(1002, arg)
            doc0 = dict(gen_seed=seed, records=n, samples=ns, infos=[f"{k}:{nn}:{t}" for k, nn, t in case["infos"]], fmts=[f"{k}:{nn}:{t}" for k, nn, t in case["fmts"]])
            if mo[0] == 1:
                if c10.canon_specs(schema, ids) != mo[1]:
                    ctx.disagree(doc0, "schema", "model", "schema generated from the store differs from the model")
                if mo[2] != 1:
                    ctx.fail(doc0, {}, "generated schema: two arrays share a dimension name with different sizes")
            configs = []
            for _ in range(ctx.n(2, 4)):
                configs.append(dict(variants_chunk_size=r.choice([1, 2, 3, n, n + 3, None]), samples_chunk_size=r.choice([1, 2, None]),
                                    dimension_separator=r.choice([None, "/", "."]), mode=r.choice(["one-shot", "distributed"]), partitions=r.choice([1, 2, 3, 7]),
                                    max_variant_chunks=r.choice([None, None, None, 1, 2, "all", "all+2"])))
            for cfg in configs:
                out = os.path.join(d, "o.vcz")
                shutil.rmtree(out, ignore_errors=True)
                doc = dict(doc0, **cfg)
                ctx.case(doc, nontrivial=True, sample=(len(ctx.samples) < 2))
                ctx.count("mode:" + cfg["mode"])
                ctx.count("separator:" + str(cfg["dimension_separator"]))
                kw = dict(variants_chunk_size=cfg["variants_chunk_size"], samples_chunk_size=cfg["samples_chunk_size"], dimension_separator=cfg["dimension_separator"])
                # a cap on the number of variant chunks: the store holds exactly the corresponding prefix of the records
                vcs = cfg["variants_chunk_size"] or 1000
                nchunks = -(-n // vcs)
                cap = cfg["max_variant_chunks"]
                cap = nchunks if cap == "all" else nchunks + 2 if cap == "all+2" else cap
                rows = n if cap is None else min(n, cap * vcs)
                if cap is not None:
                    kw["max_variant_chunks"] = cap
                try:
                    if cfg["mode"] == "one-shot":
                        vcf2zarr.encode(icf, out, worker_processes=0, **kw)
                    else:
                        pipeline.dencode(icf, out, cfg["partitions"], order="shuffle", rnd=r, **kw)
                except Exception as e:  # noqa: BLE001
                    ctx.fail(doc, dict(error=f"{type(e).__name__}: {e}"[:300]), "encode failed")
                    continue
                check_store(ctx, doc, out, rows, ns, expect_index=(cfg["mode"] == "one-shot"))
                ctx.traces_validated += 1
        finally:
            shutil.rmtree(d, ignore_errors=True)


def init_sweep(ctx):
    """the variants axis holds every record for EVERY partition count: dencode-init of one store with chunk size 1 / 2 (15..61
    variant chunks) for every target partition count 1..chunks+1 -- the arrays are created with partitions[-1].stop rows --, and
    complete distributed encodes for a few of them"""
    from bio2zarr import vcf2zarr
    import zarr

    r = ctx.rnd
    d = os.path.join(ctx.work, "c02_sweep")
    os.makedirs(d)
    try:
        n = r.choice([15, 30, 60, 61]) if ctx.quick else r.choice([15, 30, 45, 60, 61, 75])
        hdr = ['##contig=<ID=chr1,length=100000>', '##FILTER=<ID=PASS,Description="p">', '##FORMAT=<ID=GT,Number=1,Type=String,Description="g">']
        recs = [f"chr1\t{10 + 7 * i}\t.\tA\tC\t.\tPASS\t.\tGT\t0/1\t1|1" for i in range(n)]
        p = vcfgen.make_indexed(d, "in", vcfgen.vcf_text(hdr, recs, ["s0", "s1"]), kind="tbi")
        icf = os.path.join(d, "s.icf")
        vcf2zarr.explode(icf, [p], worker_processes=0)
        for vcs in (1, 2):
            nchunks = -(-n // vcs)
            full = set(r.sample(range(1, nchunks + 1), 2)) | {11, 13}
            for k in range(1, nchunks + 2):
                out = os.path.join(d, "o.vcz")
                shutil.rmtree(out, ignore_errors=True)
                doc = dict(kind="partition-count-sweep", records=n, variants_chunk_size=vcs, partitions=k)
                ctx.case(doc, nontrivial=True)
                ctx.count("mode:init-sweep")
                try:
                    if k in full and k <= nchunks:
                        pipeline.dencode(icf, out, k, order="shuffle", rnd=r, variants_chunk_size=vcs)
                        check_store(ctx, doc, out, n, 2, expect_index=False)
                        continue
                    vcf2zarr.encode_init(icf, out, k, variants_chunk_size=vcs)
                except Exception as e:  # noqa: BLE001
                    ctx.fail(doc, dict(error=f"{type(e).__name__}: {e}"[:300]), "encode failed")
                    continue
                rows = {a: zarr.open(os.path.join(out, "wip", "arrays", a), mode="r").shape[0] for a in ("variant_position", "call_genotype")}
                if set(rows.values()) != {n}:
                    ctx.fail(doc, dict(rows=rows), f"produced store is not self-consistent: the arrays are created with {rows} rows for {n} records")
    finally:
        shutil.rmtree(d, ignore_errors=True)


def replay(ctx, rep):
    run(ctx)
