"""C16 correspondence: PLINK conversion.

Filesets written by an independent writer (the model's encode_bed for the .bed with random
padding bits; plain text .bim/.fam) for sample counts 1..n incl. counts not divisible by 4 and
arbitrary genotype / missing patterns, through plink.convert for every chunk-size setting and
worker count 0..8; call_genotype / mask / phased / sample_id / variant_position /
variant_allele vs the extracted bit-level decoder and the file contents.
"""
import os
import shutil

import numpy as np


def write_fileset(ctx, prefix, codes, r, layout="variant-major"):
    m, n = len(codes), len(codes[0])
    if layout == "variant-major":
        pads = [[r.randrange(4) for _ in range(3)] for _ in range(m)]
        raw = bytes(ctx.model.call(1601, [codes, pads]))
    else:
        # individual-major (third magic byte 0): one row per sample
        pads = [[r.randrange(4) for _ in range(3)] for _ in range(n)]
        raw = bytes(ctx.model.call(1602, [codes, n, pads]))
    with open(prefix + ".bed", "wb") as f:
        f.write(raw)
    ids = [f"ind{s}_{r.randint(0, 99)}" for s in range(n)]
    if r.random() < 0.3:
        # a pedigree-style fileset: every family numbers its members 1, 2, 3 ... -- the within-family ID repeats across
        # families (a sample is identified by the (FID, IID) pair); sample_id must hold the IID column as it is
        ids = [str(1 + s % 3) for s in range(n)]
    with open(prefix + ".fam", "w") as f:
        for s in range(n):
            f.write(f"fam{s // 3 if ids[s].isdigit() else s} {ids[s]} 0 0 {r.choice([0, 1, 2])} -9\n")
    pos, alleles = [], []
    p = 100
    # some filesets span several chromosomes (coordinates restart; the last chromosome may end early), some reach
    # beyond the int16 / int24 range
    style = r.choice(["sorted", "sorted", "restarts", "wide"])
    with open(prefix + ".bim", "w") as f:
        for v in range(m):
            p += r.choice([0, 1, 7, 1000])
            if style == "restarts" and r.random() < 0.3:
                p = r.choice([1, 10, 90, 40000, 3000000, 16777300])
            elif style == "wide":
                p += r.choice([0, 30000, 2000000])
            a1, a2 = r.choice(["A", "C", "G", "T", "AT", "GCC"]), r.choice(["A", "C", "G", "T", "TA"])
            f.write(f"{r.choice(['1', '2', 'X'])}\tsnp{v}\t0\t{p}\t{a1}\t{a2}\n")
            pos.append(p)
            alleles.append([a1, a2])
    return raw, ids, pos, alleles


def run_case(ctx, doc, codes, vcs, scs, workers, r, d):
    import zarr
    from bio2zarr import plink

    m, n = len(codes), len(codes[0])
    prefix = os.path.join(d, "fs")
    raw, ids, pos, alleles = write_fileset(ctx, prefix, codes, r, doc.get("layout", "variant-major"))
    out = os.path.join(d, "o.vcz")
    # half of the conversions go to a path that already holds the store of the previous (different) fileset
    if r.random() < 0.5:
        shutil.rmtree(out, ignore_errors=True)
        doc = dict(doc, output_path="fresh")
    else:
        doc = dict(doc, output_path="existing store" if os.path.exists(out) else "fresh")
    try:
        plink.convert(prefix + ".bed", out, variants_chunk_size=vcs, samples_chunk_size=scs, worker_processes=workers)
    except Exception as e:  # noqa: BLE001
        ctx.fail(doc, dict(error=f"{type(e).__name__}: {e}"[:300]), "plink.convert raised")
        return
    root = zarr.open(out, mode="r")
    mo = ctx.model.call(1600, [list(raw), n, m])
    if mo[0] != 1:
        ctx.disagree(doc, "converted", mo, "model refuses the fileset")
        return
    want = np.array(mo[1], dtype=np.int8).reshape(m, n, 2)
    gt = root["call_genotype"][:]
    problems = []
    if gt.shape != want.shape or not (gt == want).all():
        problems.append("call_genotype")
    mask = root["call_genotype_mask"][:]
    if mask.shape != want.shape or not (mask == (want == -1)).all():
        problems.append("call_genotype_mask")
    if root["call_genotype_phased"][:].any() or root["call_genotype_phased"].shape != (m, n):
        problems.append("call_genotype_phased")
    if list(root["sample_id"][:]) != ids:
        problems.append("sample_id")
    if root["variant_position"][:].tolist() != pos:
        problems.append("variant_position")
    if [list(a) for a in root["variant_allele"][:]] != alleles:
        problems.append("variant_allele")
    # documented encoding checked directly against the generated codes as well
    MAP = {0: (0, 0), 1: (-1, -1), 2: (1, 0), 3: (1, 1)}
    direct = np.array([[MAP[c] for c in row] for row in codes], dtype=np.int8)
    if not (direct == want).all():
        ctx.disagree(doc, "independent map", "model", "model decode differs from the documented mapping of the generated codes")
    if problems:
        ctx.fail(doc, dict(arrays=problems, got=gt.tolist()[:3], want=want.tolist()[:3]), f"converted store differs from the fileset contents in {problems}")
    if (tuple(root["call_genotype"].chunks[:2]) != (vcs or 10000, scs or 1000)):
        ctx.fail(doc, dict(chunks=root["call_genotype"].chunks), "requested chunk sizes not used")


def wide_case(ctx, r, d):
    """thorough tier only: a very wide fileset (variants_chunk_size x samples > 2^26 cells per chunk) with a chunk
    length that divides nothing, written with numpy and compared with the documented mapping directly"""
    import zarr
    from bio2zarr import plink

    n, m, vcs = 30000, 2267, 2237
    rs = np.random.RandomState(ctx.seed + 16)
    codes = rs.randint(0, 4, size=(m, n)).astype(np.uint8)
    padded = np.zeros((m, (n + 3) // 4 * 4), dtype=np.uint8)
    padded[:, :n] = codes
    q = padded.reshape(m, -1, 4)
    body = (q[:, :, 0] | (q[:, :, 1] << 2) | (q[:, :, 2] << 4) | (q[:, :, 3] << 6)).astype(np.uint8)
    prefix = os.path.join(d, "wide")
    with open(prefix + ".bed", "wb") as f:
        f.write(bytes([108, 27, 1]))
        f.write(body.tobytes())
    with open(prefix + ".fam", "w") as f:
        for s_ in range(n):
            f.write(f"f{s_} i{s_} 0 0 0 -9\n")
    with open(prefix + ".bim", "w") as f:
        for v in range(m):
            f.write(f"1\tsnp{v}\t0\t{100 + v}\tA\tC\n")
    doc = dict(layout="variant-major", samples=n, variants=m, style="wide", variants_chunk_size=vcs, samples_chunk_size=None, worker_processes=2, codes="large")
    ctx.case(doc, nontrivial=True)
    ctx.count("wide")
    out = os.path.join(d, "wide.vcz")
    try:
        plink.convert(prefix + ".bed", out, variants_chunk_size=vcs, worker_processes=2)
    except Exception as e:  # noqa: BLE001
        ctx.fail(doc, dict(error=f"{type(e).__name__}: {e}"[:300]), "plink.convert raised")
        return
    lut = np.array([[0, 0], [-1, -1], [1, 0], [1, 1]], dtype=np.int8)
    root = zarr.open(out, mode="r")
    bad = []
    for a in range(0, m, 200):
        want = lut[codes[a:a + 200]]
        gt = root["call_genotype"][a:a + 200]
        if gt.shape != want.shape or not (gt == want).all():
            bad.append(a)
        mk = root["call_genotype_mask"][a:a + 200]
        if not (mk == (want == -1)).all():
            bad.append(a)
    if bad:
        ctx.fail(doc, dict(first_bad_row_block=bad[:4]), "converted store differs from the fileset contents in ['call_genotype'] (wide fileset)")
    for ext in (".bed", ".bim", ".fam"):
        os.remove(prefix + ext)
    shutil.rmtree(out, ignore_errors=True)
    ctx.traces_validated += 1


def run(ctx):
    r = ctx.rnd
    d = os.path.join(ctx.work, "c16")
    os.makedirs(d, exist_ok=True)
    for i in range(ctx.n(120, 1500)):
        m, n = r.randint(1, 40), r.randint(1, 13)
        if r.random() < 0.3:
            n = r.choice([1, 2, 3, 5, 6, 7, 9])
        style = r.choice(["random", "random", "missing-heavy", "constant"])
        if style == "random":
            codes = [[r.randrange(4) for _ in range(n)] for _ in range(m)]
        elif style == "missing-heavy":
            codes = [[r.choice([1, 1, 0, 2, 3]) for _ in range(n)] for _ in range(m)]
        else:
            c = r.randrange(4)
            codes = [[c] * n for _ in range(m)]
        vcs = r.choice([None, 1, 2, 3, m, m + 2, r.randint(1, m + 1)])
        scs = r.choice([None, 1, 2, n, n + 2, r.randint(1, n + 1)])
        workers = r.choice([0, 0, 1, 2, 3, 8]) if not ctx.quick or i % 4 == 0 else 0
        layout = "individual-major" if r.random() < 0.2 else "variant-major"
        doc = dict(layout=layout, samples=n, variants=m, style=style, variants_chunk_size=vcs, samples_chunk_size=scs, worker_processes=workers, codes=codes if m * n <= 60 else "large")
        ctx.case(doc, nontrivial=(m > 1 or n > 1), sample=(i == 1))
        ctx.count(f"workers:{workers}")
        ctx.count("n mod 4 = %d" % (n % 4))
        ctx.count("layout:" + layout)
        run_case(ctx, doc, codes, vcs, scs, workers, r, d)
        ctx.traces_validated += 1
    if not ctx.quick:
        wide_case(ctx, r, d)
    shutil.rmtree(d, ignore_errors=True)


def replay(ctx, rep):
    c = rep["case"]
    if isinstance(c.get("codes"), list):
        d = os.path.join(ctx.work, "c16")
        os.makedirs(d, exist_ok=True)
        ctx.case(c)
        run_case(ctx, c, c["codes"], c["variants_chunk_size"], c["samples_chunk_size"], c["worker_processes"], ctx.rnd, d)
    else:
        run(ctx)
