"""C08 correspondence: the intermediate columnar store.

 (a) in-process: the real IcfFieldWriter / IntermediateColumnarFormatField (duck-typed store
     object) on generated value sequences, flush thresholds and partitionings; the observed
     sys.getsizeof of every stored value is passed to the model; chunk layout, chunk_index,
     whole-column read and range reads (all O(n^2) ranges of small stores, in SHUFFLED order
     on one field object; boundary-biased samples above) vs the extracted model, and the
     property itself (range == slice of the appended values; summaries bound and are attained)
     on the implementation's output;
 (b) end to end: explode of generated VCFs with 1..N partitions and column chunk sizes from a
     few bytes up; every field's values / ranges / record count / merged summaries must equal
     those of the 1-partition reference store.
"""
import math
import os
import pathlib
import pickle
import shutil
import sys
import types

import numpy as np

from lib import absvcf, pipeline, vcfgen


def canon(v):
    """stored value -> wire value (nested ints; strings as code point lists; floats as bits)"""
    if v is None:
        return []
    a = np.asarray(v)
    if a.dtype.kind == "f":
        a = a.astype(np.float32).view(np.int32)
    if a.dtype.kind in "iub":
        return [1, list(a.shape), [int(x) for x in a.reshape(-1)]]
    flat = [str(x) for x in a.reshape(-1)] if a.dtype.kind != "O" else [str(x) for row in a.reshape(-1) for x in (row if isinstance(row, (list, tuple, np.ndarray)) else [row])]
    return [2, list(a.shape), [[ord(c) for c in s] for s in flat]]


def gen_value(r, kind):
    if r.random() < 0.15:
        return None
    if kind == "Integer":
        n = r.choice([1, 1, 2, 3, 4])
        vals = tuple(r.choice([r.randint(-5, 300), -1, -2147483648, -2147483647, 2**31 - 1, -2147483646, 127, 128, 32768]) for _ in range(n))
        return vals if (n > 1 or r.random() < 0.5) else vals[0]
    if kind == "Float":
        n = r.choice([1, 2, 3])
        vals = tuple(r.choice([0.5, -1.25, 3e38, 1e-40, float("inf")]) for _ in range(n))
        return vals if n > 1 else vals[0]
    return ",".join(r.choice(["a", "bc", "", "longer"]) for _ in range(r.choice([1, 2, 3])))


def build_store(ctx, root, kind, parts, thresholds):
    from bio2zarr.vcf2zarr import icf

    shutil.rmtree(root, ignore_errors=True)
    fdir = pathlib.Path(root) / "INFO" / "X"
    fdir.mkdir(parents=True)
    field = icf.VcfField(category="INFO", name="X", vcf_number=".", vcf_type=kind, description="", summary=icf.VcfFieldSummary())
    comp = icf.ICF_DEFAULT_COMPRESSOR
    summaries, stored, sizes = [], [], []
    for j, vals in enumerate(parts):
        pdir = fdir / f"p{j}"
        pdir.mkdir()
        f = icf.VcfField(category="INFO", name="X", vcf_number=".", vcf_type=kind, description="", summary=icf.VcfFieldSummary())
        w = icf.IcfFieldWriter(f, pdir, icf.VcfValueTransformer.factory(f, 0), comp, max_buffered_bytes=thresholds[j])
        st, sz = [], []
        for v in vals:
            w.append(v)
            tv = w.transformer.transform(v) if v is not None else None
            st.append(tv)
            sz.append(sys.getsizeof(tv))
        w.flush()
        summaries.append(f.summary)
        stored.append(st)
        sizes.append(sz)
    for s in summaries:
        field.summary.update(s)
    fake = types.SimpleNamespace(path=pathlib.Path(root), compressor=comp, num_partitions=len(parts), num_records=sum(map(len, parts)),
                                 partition_record_index=np.cumsum([0] + [len(p) for p in parts]))
    return icf.IntermediateColumnarFormatField(fake, field), field, stored, sizes, fdir


def part_a(ctx):
    r = ctx.rnd
    root = os.path.join(ctx.work, "c08a")
    for it in range(ctx.n(250, 4000)):
        kind = r.choice(["Integer", "Integer", "Float", "String"])
        nparts = r.randint(1, 5)
        # real partitions are never empty (an empty partition has chunk_index [0], which the
        # reader's assert refuses); the model theorem covers empty ones too
        parts = [[gen_value(r, kind) for _ in range(r.randint(1, 9))] for _ in range(nparts)]
        same_thr = r.random() < 0.7
        thr0 = r.choice([1, 150, 250, 400, 10**6])
        thresholds = [thr0 if same_thr else r.choice([1, 150, 400, 10**6]) for _ in range(nparts)]
        fld, field, stored, sizes, fdir = build_store(ctx, root, kind, parts, thresholds)
        n = sum(map(len, parts))
        flat = [canon(v) for p in stored for v in p]
        if n <= 14:
            ranges = [(a, b) for a in range(n) for b in range(a + 1, n + 1)]
        else:
            ranges = [(a, b) for a in range(n) for b in range(a + 1, n + 1) if r.random() < 0.25]
        r.shuffle(ranges)  # non-sequential access on ONE field object
        doc = dict(part="in-process", kind=kind, thresholds=thresholds, partition_sizes=[len(p) for p in parts], values=[str(v)[:30] for p in parts for v in p][:12])
        ctx.case(doc, nontrivial=(n > 1), sample=(it == 2))
        ctx.count("store:" + kind)
        # implementation
        try:
            got_values = [canon(v) for v in fld.values]
            got_ranges = [[canon(v) for v in fld.iter_values(a, b)] for a, b in ranges]
            layout = []
            for j in range(nparts):
                ci = [int(x) for x in fld.chunk_record_index(j)]
                names = sorted(int(p.name) for p in (fdir / f"p{j}").iterdir() if p.name != "chunk_index")
                layout.append((ci, names))
        except Exception as e:  # noqa: BLE001
            ctx.fail(doc, dict(error=f"{type(e).__name__}: {e}"[:300]), "reading back an intermediate store raised")
            continue
        # the property on the implementation's own output
        if got_values != flat:
            ctx.fail(doc, dict(got=str(got_values)[:400], want=str(flat)[:400]), "whole-column read differs from the appended values")
        for (a, b), g in zip(ranges, got_ranges):
            if g != flat[a:b]:
                ctx.fail(dict(doc, range=[a, b]), dict(got=str(g)[:300], want=str(flat[a:b])[:300]), f"range read [{a},{b}) differs from the slice of the column")
                break
        if fld.num_records != n:
            ctx.fail(doc, dict(num_records=fld.num_records, n=n), "record count differs")
        # model (same thresholds only when equal across partitions: the model takes one)
        if same_thr:
            arg = [thr0, [[[canon(v), s] for v, s in zip(st, sz)] for st, sz in zip(stored, sizes)], [[a, b] for a, b in ranges]]
            m_store, m_cri, m_pri, m_all, m_ranges = ctx.model.call(800, arg)
            if m_all != got_values or m_ranges != got_ranges:
                ctx.disagree(doc, "values/ranges", "", "store contents differ from the model")
            for j, (ci, names) in enumerate(layout):
                if ci != m_cri[j] or names != m_cri[j][1:]:
                    ctx.disagree(doc, dict(chunk_index=ci, files=names), m_cri[j], "chunk layout differs from the model")
            ctx.traces_validated += 1
        # summaries (integer fields)
        if kind == "Integer":
            ivals = [[[int(np.asarray(v).shape[-1]) if np.asarray(v).ndim else 1, [int(x) for x in np.asarray(v).reshape(-1)]] for v in st if v is not None] for st in stored]
            ms_parts, ms_all = ctx.model.call(801, ivals)
            s = field.summary
            impl = [s.max_number, [] if not math.isfinite(s.max_value) else [int(s.min_value), int(s.max_value)]]
            if impl != ms_parts or ms_parts != ms_all:
                ctx.disagree(doc, impl, [ms_parts, ms_all], "merged summary differs from the model")
            ints = [x for p in ivals for n_, xs in p for x in xs if x >= -2147483646]
            want = [max([n_ for p in ivals for n_, xs in p] + [0]), [min(ints), max(ints)] if ints else []]
            if impl != want:
                ctx.fail(doc, dict(summary=impl, actual=want), "field summary does not bound the stored values / is not attained")
    shutil.rmtree(root, ignore_errors=True)


def norm_gt(v):
    """FORMAT/GT rows are (alleles..., phased).  The phasing of a call with fewer than two
    alleles is not defined by the input, and cyvcf2 reports an indeterminate bit for it (F8):
    it is a don't-care, normalised to 0 before comparing."""
    if v is None:
        return None
    a = np.array(v, copy=True)
    if a.ndim == 2 and a.shape[1] >= 2:
        nalleles = (a[:, :-1] != -2).sum(axis=1)
        a[nalleles < 2, -1] = 0
    return a


def field_dump(store):
    out = {}
    for name, fld in store.fields.items():
        out[name] = [canon(norm_gt(v) if name == "FORMAT/GT" else v) for v in fld.values]
    return out


def source_check(ctx, doc, path, store, dump):
    """the stored column equals the values read from the source records (cyvcf2), for the
    fields whose source value is already an array: GT, numeric FORMAT fields, POS"""
    import cyvcf2

    vcf = cyvcf2.VCF(path)
    fmt_fields = [f for f in store.metadata.format_fields if f.vcf_type in ("Integer", "Float") and f.name not in ("GT", "LAA", "LPL")]
    src = {"FORMAT/GT": [], "POS": [], "rlen": []}
    for f in fmt_fields:
        src[f.full_name] = []
    for v in vcf:
        src["POS"].append(canon(np.array([v.POS])))
        # the record's length on the reference: INFO/END - POS + 1 when END is given (symbolic alleles, reference blocks), else len(REF)
        end_ = v.INFO.get("END") if "END" in [h["ID"] for h in vcf.header_iter() if h["HeaderType"] == "INFO"] else None
        src["rlen"].append(canon(np.array([(end_ - v.POS + 1) if end_ is not None else len(v.REF)])))
        if "FORMAT/GT" in store.fields:
            src["FORMAT/GT"].append(canon(norm_gt(v.genotype.array())) if "GT" in v.FORMAT else [])
        for f in fmt_fields:
            val = v.format(f.name) if f.name in v.FORMAT else None
            src[f.full_name].append(canon(val))
    for name, want in src.items():
        if name in dump and dump[name] != want:
            k = next(i for i, (a, b) in enumerate(zip(dump[name], want)) if a != b)
            ctx.fail(dict(doc, field=name, record=k), dict(stored=str(dump[name][k])[:300], source=str(want[k])[:300]),
                     f"stored column {name} differs from the values read from the source records")


def boundary_allele_file(d):
    """a site with 130 ALT alleles whose calls use allele indexes around the int8 boundary"""
    alts = ",".join("A" + "C" * (i + 1) for i in range(130))
    hdr = ['##contig=<ID=c0,length=100000>', '##FILTER=<ID=PASS,Description="p">', '##FORMAT=<ID=GT,Number=1,Type=String,Description="g">',
           '##FORMAT=<ID=DP,Number=1,Type=Integer,Description="d">']
    recs = [f"c0\t100\t.\tA\t{alts}\t.\tPASS\t.\tGT:DP\t0/127:1\t128|129:200\t130/1:40000",
            "c0\t200\t.\tA\tT\t.\tPASS\t.\tGT:DP\t0/1:1\t1|1:2\t./.:3"]
    return vcfgen.make_indexed(d, "alleles", vcfgen.vcf_text(hdr, recs, ("S0", "S1", "S2")))


def f8_class(case, name, s1, s0):
    """The GT rows carry the phase flag as their last column.  For a record in which every call has fewer than two
    alleles cyvcf2 reports an indeterminate phase bit for the last sample (known finding F8), so two runs may
    disagree on whether a 0 or a 1 occurs in that column -- and with it on the GT summary's minimum / maximum when the
    alleles themselves do not already span {0, 1}.  Only that exact situation is classified."""
    if name != "FORMAT/GT" or s1.max_number != s0.max_number:
        return None
    haploid = any(x["gt"] is not None and all(len(al) < 2 for al, _ in x["gt"]) for x in case["recs"])
    lo = {s1.min_value, s0.min_value}
    hi = {s1.max_value, s0.max_value}
    if haploid and lo <= {0, 1} and (hi <= {0, 1} or len(hi) == 1):
        return "haploid_last_sample_phased"
    return None


def summary_check(ctx, doc, store):
    """per-field summaries against the stored values themselves: max_number is the widest stored
    record (missing entries included: they occupy a slot), integer min/max bound every stored
    non-sentinel value and are attained"""
    for name, fld in store.fields.items():
        vf = fld.vcf_field
        if vf.vcf_type not in ("Integer", "Float") or name == "FORMAT/GT":
            continue
        vals = [np.asarray(v) for v in fld.values if v is not None]
        width = max([int(v.shape[-1]) if v.ndim else 1 for v in vals], default=0)
        s = vf.summary
        if s.max_number != width:
            ctx.fail(dict(doc, field=name), dict(max_number=s.max_number, widest_stored_record=width),
                     f"summary of {name}: max_number = {s.max_number} but the widest stored record has {width} values")
        if vf.vcf_type == "Integer" and vals:
            flat = np.concatenate([v.reshape(-1) for v in vals])
            flat = flat[flat >= -2147483646]
            if flat.size and (int(flat.min()), int(flat.max())) != (s.min_value, s.max_value):
                ctx.fail(dict(doc, field=name), dict(summary=[s.min_value, s.max_value], stored=[int(flat.min()), int(flat.max())]),
                         f"summary of {name}: [min, max] = [{s.min_value}, {s.max_value}] does not bound the stored values / is not attained")


def all_missing_widest_file(d):
    """the widest record of a Number=R / Number=. integer field is entirely missing (FORMAT: in every sample)"""
    hdr = ['##contig=<ID=c0,length=100000>', '##FILTER=<ID=PASS,Description="p">', '##FORMAT=<ID=GT,Number=1,Type=String,Description="g">',
           '##FORMAT=<ID=AD,Number=R,Type=Integer,Description="d">', '##FORMAT=<ID=XV,Number=.,Type=Integer,Description="d">',
           '##INFO=<ID=RC,Number=R,Type=Integer,Description="d">', '##FORMAT=<ID=FV,Number=.,Type=Float,Description="d">']
    recs = ["c0\t100\t.\tA\tT\t.\tPASS\tRC=3,4\tGT:AD:XV:FV\t0/1:5,6:1:0.5\t1|1:7,8:2,3:1.5,2.5",
            "c0\t200\t.\tA\tT,G\t.\tPASS\tRC=.,.,.\tGT:AD:XV:FV\t0/2:.,.,.:.,.,.,.:.,.,.\t1|2:.,.,.:.,.,.,.:.,.,.",
            "c0\t300\t.\tA\tC\t.\tPASS\tRC=9,1\tGT:AD:XV:FV\t0/0:1,2:7:0.25\t./.:.:.:."]
    return vcfgen.make_indexed(d, "allmissing", vcfgen.vcf_text(hdr, recs, ("S0", "S1")))


def part_b(ctx):
    from bio2zarr import vcf2zarr
    from bio2zarr.vcf2zarr import icf as icf_mod

    r = ctx.rnd
    d1 = os.path.join(ctx.work, "c08b_allmissing")
    os.makedirs(d1)
    try:
        p1 = all_missing_widest_file(d1)
        vcf2zarr.explode(os.path.join(d1, "a.icf"), [p1], worker_processes=0)
        st1 = icf_mod.IntermediateColumnarFormat(os.path.join(d1, "a.icf"))
        doc = dict(part="e2e", special="widest record of a field entirely missing")
        ctx.case(doc, nontrivial=True)
        source_check(ctx, doc, p1, st1, field_dump(st1))
        summary_check(ctx, doc, st1)
    finally:
        shutil.rmtree(d1, ignore_errors=True)
    d0 = os.path.join(ctx.work, "c08b_alleles")
    os.makedirs(d0)
    try:
        p0 = boundary_allele_file(d0)
        vcf2zarr.explode(os.path.join(d0, "a.icf"), [p0], worker_processes=0)
        st0 = icf_mod.IntermediateColumnarFormat(os.path.join(d0, "a.icf"))
        doc = dict(part="e2e", special="130 ALT alleles, calls using allele indexes 127..130")
        ctx.case(doc, nontrivial=True)
        source_check(ctx, doc, p0, st0, field_dump(st0))
        gts = st0.fields["FORMAT/GT"].vcf_field.summary
        if (gts.min_value, gts.max_value) != (-1, 130):
            ctx.fail(doc, dict(summary=str(gts)), "GT summary does not bound the stored allele indexes")
    finally:
        shutil.rmtree(d0, ignore_errors=True)
    # more than ten partitions of unequal size on different contigs (two-digit partition numbers): record
    # count, whole columns and every range against the single-partition store
    for rep in range(ctx.n(1, 4)):
        dm = os.path.join(ctx.work, f"c08b_many{rep}")
        os.makedirs(dm)
        try:
            nc = r.randint(12, 15)
            hdr = [f"##contig=<ID=m{j},length=10000000>" for j in range(nc)] + ['##FILTER=<ID=PASS,Description="p">',
                   '##INFO=<ID=DP,Number=1,Type=Integer,Description="d">', '##FORMAT=<ID=GT,Number=1,Type=String,Description="g">']
            recs = []
            for j in range(nc):
                for i2 in range(r.randint(2, 9)):
                    recs.append(f"m{j}\t{1000 * (j + 1) + 10 * i2}\t.\tA\tT\t.\tPASS\tDP={r.randint(1, 30000)}\tGT\t{r.choice(['0/1', '1|1', './.'])}")
            pm = vcfgen.make_indexed(dm, "many", vcfgen.vcf_text(hdr, recs, ("S0",)), kind=r.choice(["tbi", "csi"]))
            vcf2zarr.explode(os.path.join(dm, "ref.icf"), [pm], worker_processes=0)
            refm = icf_mod.IntermediateColumnarFormat(os.path.join(dm, "ref.icf"))
            ref_dump = field_dump(refm)
            pipeline.dexplode(os.path.join(dm, "d.icf"), [pm], target_num_partitions=40, order="shuffle", rnd=r)
            stm = icf_mod.IntermediateColumnarFormat(os.path.join(dm, "d.icf"))
            doc = dict(part="e2e", special="many partitions", contigs=nc, records=len(recs), partitions=stm.num_partitions)
            ctx.case(doc, nontrivial=True)
            ctx.count("e2e-many-partitions")
            n = refm.num_records
            if stm.num_records != n or n != len(recs):
                ctx.fail(doc, dict(num_records=stm.num_records, n=len(recs)), "record count of the store differs from the number of input records")
            if field_dump(stm) != ref_dump:
                ctx.fail(doc, {}, "store contents depend on partitioning / chunking")
            for name in ("POS", "INFO/DP", "CHROM"):
                fld = stm.fields[name]
                rs = r.sample([(a, b) for a in range(n) for b in range(a + 1, n + 1)], 80)
                for a, b in rs:
                    try:
                        g = [canon(v) for v in fld.iter_values(a, b)]
                    except Exception as e:  # noqa: BLE001
                        g = f"{type(e).__name__}: {e}"[:200]
                    if g != ref_dump[name][a:b]:
                        ctx.fail(dict(doc, field=name, range=[a, b]), dict(got=str(g)[:300]), f"range read [{a},{b}) of {name} differs from the column slice")
                        break
            summary_check(ctx, doc, stm)
            ctx.traces_validated += 1
        except Exception as e:  # noqa: BLE001
            docx = dict(part="e2e", special="many partitions", rep=rep)
            ctx.case(docx, nontrivial=True)
            ctx.fail(docx, dict(error=f"{type(e).__name__}: {e}"[:300]), "exploding / reading back a store with more than ten partitions raised")
        finally:
            shutil.rmtree(dm, ignore_errors=True)
    for i in range(ctx.n(8, 120)):
        seed = ctx.seed * 7919 + 1000 + i
        case = absvcf.gen_case(seed)
        # more records so that several index partitions exist
        text = absvcf.to_text(case)
        d = os.path.join(ctx.work, f"c08b_{i}")
        os.makedirs(d)
        try:
            p = vcfgen.make_indexed(d, "in", text, kind=r.choice(["tbi", "csi"]), lines_per_block=r.choice([1, 2, 3]))
            ref_path = os.path.join(d, "ref.icf")
            vcf2zarr.explode(ref_path, [p], worker_processes=0, column_chunk_size=64)
            ref = icf_mod.IntermediateColumnarFormat(ref_path)
            ref_dump = field_dump(ref)
            n = ref.num_records
            doc0 = dict(part="e2e", gen_seed=seed, records=len(case["recs"]))
            if n != len(case["recs"]):
                ctx.fail(doc0, dict(num_records=n), "record count of the store differs from the number of input records")
            source_check(ctx, doc0, p, ref, ref_dump)
            summary_check(ctx, doc0, ref)
            # one writer object that explodes some partitions itself, the others being exploded elsewhere, and then finalises
            outw = os.path.join(d, "w.icf")
            w = icf_mod.IntermediateColumnarFormatWriter(outw)
            summ = w.init([p], target_num_partitions=r.choice([2, 3, 5]), worker_processes=0, column_chunk_size=r.choice([0.001, 16]))
            mine = [j for j in range(summ.num_partitions) if r.random() < 0.5] or [0]
            for j in range(summ.num_partitions):
                if j in mine:
                    w.explode_partition(j)
                else:
                    vcf2zarr.explode_partition(outw, j)
            w.finalise()
            stw = icf_mod.IntermediateColumnarFormat(outw)
            docw = dict(doc0, special="one writer object explodes partitions %s of %d and finalises" % (mine, summ.num_partitions))
            ctx.case(docw, nontrivial=summ.num_partitions > 1)
            ctx.count("e2e-writer-object")
            if field_dump(stw) != ref_dump:
                ctx.fail(docw, {}, "store contents depend on which process exploded a partition")
            summary_check(ctx, docw, stw)
            for name, fld in stw.fields.items():
                s1, s0 = fld.vcf_field.summary, ref.fields[name].vcf_field.summary
                if (s1.max_number, s1.min_value, s1.max_value) != (s0.max_number, s0.min_value, s0.max_value):
                    ctx.fail(dict(docw, field=name), {"got": str(s1), "ref": str(s0), "class": f8_class(case, name, s1, s0)}, "field summary depends on partitioning / on which process exploded a partition")
            shutil.rmtree(outw, ignore_errors=True)
            for cfg in range(ctx.n(2, 4)):
                nparts = r.choice([1, 2, 3, 5, 50])
                ccs = r.choice([1e-6, 0.0002, 0.001, 16])
                doc = dict(doc0, target_partitions=nparts, column_chunk_size=ccs)
                ctx.case(doc, nontrivial=True, sample=(i == 0 and cfg == 0))
                ctx.count("e2e-config")
                out = os.path.join(d, f"o{cfg}.icf")
                pipeline.dexplode(out, [p], target_num_partitions=nparts, column_chunk_size=ccs, order=r.choice([None, "shuffle", "reverse"]), rnd=r)
                st = icf_mod.IntermediateColumnarFormat(out)
                ctx.count(f"e2e-partitions:{min(st.num_partitions, 4)}{'+' if st.num_partitions > 4 else ''}")
                dump = field_dump(st)
                if dump != ref_dump or st.num_records != n:
                    bad = [k for k in ref_dump if dump.get(k) != ref_dump[k]]
                    ctx.fail(doc, dict(fields=bad[:5]), "store contents depend on partitioning / chunking")
                    continue
                for name, fld in st.fields.items():
                    rs = [(a, b) for a in range(n) for b in range(a + 1, n + 1)]
                    if len(rs) > 60:
                        rs = r.sample(rs, 60)
                    r.shuffle(rs)
                    for a, b in rs:
                        try:
                            g = [canon(norm_gt(v) if name == "FORMAT/GT" else v) for v in fld.iter_values(a, b)]
                        except Exception as e:  # noqa: BLE001
                            g = f"{type(e).__name__}: {e}"[:200]
                        if g != ref_dump[name][a:b]:
                            ctx.fail(dict(doc, field=name, range=[a, b]), dict(got=str(g)[:300]), f"range read [{a},{b}) of {name} differs from the column slice")
                            break
                    s1, s0 = fld.vcf_field.summary, ref.fields[name].vcf_field.summary
                    if (s1.max_number, s1.min_value, s1.max_value) != (s0.max_number, s0.min_value, s0.max_value):
                        ctx.fail(dict(doc, field=name), {"got": str(s1), "ref": str(s0), "class": f8_class(case, name, s1, s0)}, "field summary depends on partitioning / chunking")
                shutil.rmtree(out, ignore_errors=True)
        finally:
            shutil.rmtree(d, ignore_errors=True)


def part_local_alleles(ctx):
    """the store written while the local-allele fields are computed (local_alleles=True) holds, for every field it shares with the
    plain store of the same file, exactly the same values -- in particular GT with missing / half-missing calls and PL with '.'
    entries, which the local-allele computation reads --, for one record per chunk as for all records in one chunk"""
    from bio2zarr import vcf2zarr
    from bio2zarr.vcf2zarr import icf as icf_mod

    r = ctx.rnd
    d = os.path.join(ctx.work, "c08la")
    os.makedirs(d)
    hdr = ['##contig=<ID=chr1,length=100000>', '##FILTER=<ID=PASS,Description="p">', '##FORMAT=<ID=GT,Number=1,Type=String,Description="g">',
           '##FORMAT=<ID=PL,Number=G,Type=Integer,Description="pl">', '##FORMAT=<ID=DP,Number=1,Type=Integer,Description="d">']
    try:
        for i in range(ctx.n(2, 12)):
            ns = r.randint(2, 4)
            recs = []
            for k in range(r.randint(3, 9)):
                nalt = r.randint(1, 3)
                npl = (nalt + 1) * (nalt + 2) // 2
                cols = []
                for _ in range(ns):
                    gt = [r.choice([None, 0, r.randint(0, nalt), r.randint(0, nalt)]) for _ in range(2)]
                    g = r.choice("/|").join("." if x is None else str(x) for x in gt)
                    pl = "." if r.random() < 0.15 else ",".join("." if r.random() < 0.2 else str(r.randint(0, 255)) for _ in range(npl))
                    cols.append(f"{g}:{pl}:{r.randint(0, 50)}")
                alts = ",".join("CGT"[j] * (j + 1) for j in range(nalt))
                recs.append(f"chr1\t{10 + 10 * k}\t.\tA\t{alts}\t.\tPASS\t.\tGT:PL:DP\t" + "\t".join(cols))
            p = vcfgen.make_indexed(d, f"la{i}", vcfgen.vcf_text(hdr, recs, [f"s{j}" for j in range(ns)]), kind="tbi")
            plain = os.path.join(d, "plain.icf")
            shutil.rmtree(plain, ignore_errors=True)
            vcf2zarr.explode(plain, [p], worker_processes=0)
            ref = icf_mod.IntermediateColumnarFormat(plain)
            ref_dump = field_dump(ref)
            for ccs in (16, 1e-6):
                out = os.path.join(d, "la.icf")
                shutil.rmtree(out, ignore_errors=True)
                doc = dict(part="e2e", special="local alleles computed while exploding", records=[x.split("\t", 8)[8] for x in recs][:4], column_chunk_size=ccs)
                ctx.case(doc, nontrivial=True)
                ctx.count("e2e-local-alleles")
                try:
                    vcf2zarr.explode(out, [p], worker_processes=0, local_alleles=True, column_chunk_size=ccs)
                    st = icf_mod.IntermediateColumnarFormat(out)
                    dump = field_dump(st)
                except Exception as e:  # noqa: BLE001
                    ctx.fail(doc, dict(error=f"{type(e).__name__}: {e}"[:300]), "exploding with local alleles raised")
                    continue
                bad = [k for k in ref_dump if dump.get(k) != ref_dump[k]]
                if bad:
                    ctx.fail(dict(doc, fields=bad[:4]), {}, f"stored columns {bad[:4]} change when the local-allele fields are computed")
                source_check(ctx, doc, p, st, dump)
                summary_check(ctx, doc, st)
    finally:
        shutil.rmtree(d, ignore_errors=True)


def part_end_records(ctx):
    """records whose extent comes from INFO/END (symbolic alleles, gVCF reference blocks) next to ordinary ones: every fixed
    column against the source, in particular rlen"""
    from bio2zarr import vcf2zarr
    from bio2zarr.vcf2zarr import icf as icf_mod

    r = ctx.rnd
    d = os.path.join(ctx.work, "c08end")
    os.makedirs(d)
    hdr = ['##contig=<ID=chr1,length=10000000>', '##FILTER=<ID=PASS,Description="p">', '##INFO=<ID=END,Number=1,Type=Integer,Description="e">',
           '##ALT=<ID=DEL,Description="d">', '##ALT=<ID=NON_REF,Description="n">', '##FORMAT=<ID=GT,Number=1,Type=String,Description="g">']
    try:
        for i in range(ctx.n(2, 10)):
            recs, pos = [], 100
            for _ in range(r.randint(4, 12)):
                kind = r.choice(["snp", "indel", "del", "block"])
                if kind == "snp":
                    recs.append(f"chr1\t{pos}\t.\tA\tC\t.\tPASS\t.\tGT\t0/1\t1|1")
                elif kind == "indel":
                    recs.append(f"chr1\t{pos}\t.\t{'A' + 'CG' * r.randint(1, 4)}\tA\t.\tPASS\t.\tGT\t0/1\t0/0")
                elif kind == "del":
                    recs.append(f"chr1\t{pos}\t.\tA\t<DEL>\t.\tPASS\tEND={pos + r.randint(1, 5000)}\tGT\t0/1\t./.")
                else:
                    recs.append(f"chr1\t{pos}\t.\tA\t<NON_REF>\t.\tPASS\tEND={pos + r.randint(0, 300)}\tGT\t0/0\t0/0")
                pos += r.randint(1, 400)
            p = vcfgen.make_indexed(d, f"e{i}", vcfgen.vcf_text(hdr, recs, ["s0", "s1"]), kind=r.choice(["tbi", "csi"]))
            out = os.path.join(d, "e.icf")
            shutil.rmtree(out, ignore_errors=True)
            doc = dict(part="e2e", special="records with INFO/END", records=[x.split("\t")[1] + ":" + x.split("\t")[4] + ":" + x.split("\t")[7] for x in recs][:8])
            ctx.case(doc, nontrivial=True)
            ctx.count("e2e-end-records")
            try:
                vcf2zarr.explode(out, [p], worker_processes=0, column_chunk_size=r.choice([16, 1e-5]))
                st = icf_mod.IntermediateColumnarFormat(out)
                dump = field_dump(st)
            except Exception as e:  # noqa: BLE001
                ctx.fail(doc, dict(error=f"{type(e).__name__}: {e}"[:300]), "exploding a file with INFO/END records raised")
                continue
            source_check(ctx, doc, p, st, dump)
            summary_check(ctx, doc, st)
    finally:
        shutil.rmtree(d, ignore_errors=True)


def run(ctx):
    part_a(ctx)
    part_end_records(ctx)
    part_local_alleles(ctx)
    part_b(ctx)


def replay(ctx, rep):
    run(ctx)
