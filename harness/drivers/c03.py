"""C03 correspondence: invariance under decomposition, scheduling and splitting.

Reference: one synchronous run with 1 explode partition and 1 encode partition.  Against it:
  * distributed explode with target partitions 1..20 (inputs written with small BGZF blocks so that
    the index really offers many), shuffled partition order, column chunk sizes from bytes to MiB;
  * distributed encode with 1..7 partitions in shuffled order; one-shot explode/encode/convert with
    worker_processes 0,1,2,4;
  * variants / samples chunk sizes 1..>n: values, shapes, dtypes and attributes identical, only the
    chunk grid changes;
  * max_variant_chunks: exactly the prefix;
  * the records cut into 2-3 files at every admissible cut, files given in every order;
  * repeated identical runs: identical bytes (chunk files compared).
Every store is also compared with Model.Spec.spec_encode (so the reference itself is checked).
"""
import itertools
import json
import os
import shutil

import numpy as np

from lib import absvcf, oracle, pipeline, vcfgen


def snapshot(path, skip=("region_index",)):
    import zarr

    r = zarr.open(path, mode="r")
    out = {}
    for k in sorted(r.array_keys()):
        if k in skip:
            continue
        a = r[k]
        x = a[:]
        if x.dtype.kind == "f":
            x = x.view(np.int32)
        out[k] = (str(a.dtype), tuple(a.shape), x.tolist(), json.dumps(dict(a.attrs), sort_keys=True))
    out["__attrs__"] = json.dumps({k: v for k, v in r.attrs.items() if k not in ("source",)}, sort_keys=True)
    return out


def haploid_cells(case):
    """(record index in store order, sample) of calls with fewer than two alleles: phasing is a don't-care (F8)"""
    recs = sorted(case["recs"], key=lambda x: x["contig"])
    return {(i, s) for i, rec in enumerate(recs) if rec["gt"] is not None for s, (al, _) in enumerate(rec["gt"]) if len(al) < 2}


def diff_snap(ref, got, case, ignore_attrs=False):
    bad = []
    hc = haploid_cells(case)
    for k in sorted(set(ref) | set(got)):
        a, b = ref.get(k), got.get(k)
        if a == b:
            continue
        if a is None or b is None:
            bad.append(k)
            continue
        if k == "call_genotype_phased" and a[:2] == b[:2] and a[3] == b[3]:
            diffs = [(i, s) for i, (ra, rb) in enumerate(zip(a[2], b[2])) for s, (x, y) in enumerate(zip(ra, rb)) if x != y]
            if all(c in hc for c in diffs):
                continue
        if k == "__attrs__" and ignore_attrs:
            continue
        bad.append(k)
    return bad


def chunk_bytes(path):
    out = {}
    for dp, _, fs in os.walk(path):
        for f in fs:
            q = os.path.join(dp, f)
            out[os.path.relpath(q, path)] = open(q, "rb").read()
    return out


def mkfile(d, case, recs, name, r, kind=None, provenance=None):
    c2 = dict(case)
    c2["recs"] = recs
    text = absvcf.to_text(c2)
    if provenance:
        # a harmless header line that differs between the pieces (as every `bcftools view -r` piece has)
        text = text.replace("#CHROM", f"##verifPiece={provenance}\n#CHROM", 1)
    return vcfgen.make_indexed(d, name, text, kind=kind or r.choice(["tbi", "csi"]), lines_per_block=r.choice([1, 2, 3, 50]))


def many_partitions(ctx):
    """More than ten explode partitions (two-digit partition numbers), partitions of unequal size on
    different contigs, and a dozen split files: one file with 12..16 contigs of 2..9 records each."""
    from bio2zarr import vcf2zarr

    r = ctx.rnd
    for i in range(ctx.n(2, 12)):
        d = os.path.join(ctx.work, f"c03_many_{i}")
        os.makedirs(d)
        P = lambda x: os.path.join(d, x)  # noqa: E731
        try:
            nc = r.randint(12, 16)
            hdr = [f"##contig=<ID=c{j},length=10000000>" for j in range(nc)]
            hdr += ['##INFO=<ID=AC,Number=A,Type=Integer,Description="x">', '##INFO=<ID=DP,Number=1,Type=Integer,Description="x">',
                    '##FILTER=<ID=PASS,Description="All filters passed">', '##FORMAT=<ID=GT,Number=1,Type=String,Description="Genotype">']
            per = {}
            for j in range(nc):
                pos = r.randint(1, 5000)
                per[j] = []
                for _ in range(r.randint(2, 9)):
                    alts = r.choice(["T", "T,G", "T,G,C"])
                    ac = ",".join(str(r.randint(1, 90)) for _ in alts.split(","))
                    per[j].append(f"c{j}\t{pos}\tr{j}_{pos}\tA\t{alts}\t.\tPASS\tAC={ac};DP={r.randint(1, 500)}\tGT\t{r.choice(['0/1', '1|1', './.', '0|2'])}\t{r.choice(['0/0', '1/1'])}")
                    pos += r.randint(1, 40000)
            recs = [x for j in range(nc) for x in per[j]]
            n = len(recs)
            text = vcfgen.vcf_text(hdr, recs, samples=["s0", "s1"])
            full = vcfgen.make_indexed(d, "full", text, kind=r.choice(["tbi", "csi"]), lines_per_block=1)
            vcs = r.choice([1, 3, 7])
            doc0 = dict(kind="many-partitions", contigs=nc, records=n, variants_chunk_size=vcs, wide_seed=i)
            vcf2zarr.explode(P("ref.icf"), [full], worker_processes=0)
            vcf2zarr.encode(P("ref.icf"), P("ref.vcz"), variants_chunk_size=vcs, worker_processes=0)
            ref = snapshot(P("ref.vcz"))
            dummy = dict(recs=[])
            try:
                np_ = pipeline.dexplode(P("d.icf"), [full], target_num_partitions=40, column_chunk_size=r.choice([1e-4, 16]), order="shuffle", rnd=r)
            except Exception as e:  # noqa: BLE001
                ctx.case(doc0, nontrivial=True)
                ctx.fail(doc0, dict(error=f"{type(e).__name__}: {e}"[:200]), "exploding a well-formed file into many partitions failed")
                continue
            for ep in (1, r.choice([2, 3, 5])):
                shutil.rmtree(P("d.vcz"), ignore_errors=True)
                doc = dict(doc0, explode_partitions=np_, encode_partitions=ep)
                ctx.case(doc, nontrivial=True)
                ctx.count(f"explode-partitions:{'11+' if np_ > 10 else np_}")
                try:
                    pipeline.dencode(P("d.icf"), P("d.vcz"), ep, order="shuffle", rnd=r, variants_chunk_size=vcs)
                except Exception as e:  # noqa: BLE001
                    ctx.fail(doc, dict(error=f"{type(e).__name__}: {e}"[:200]), "encoding a store exploded into many partitions failed")
                    continue
                bad = diff_snap(ref, snapshot(P("d.vcz")), dummy)
                if bad:
                    ctx.fail(doc, dict(arrays=bad[:5]), f"store depends on the configuration (many explode partitions): {bad[:4]} differ from the single-partition reference")
                ctx.traces_validated += 1
            # the same records as one file per contig, in shuffled order
            files = []
            for j in range(nc):
                files.append(vcfgen.make_indexed(d, f"piece{j}", vcfgen.vcf_text(hdr, per[j], samples=["s0", "s1"]), kind="tbi", lines_per_block=r.choice([1, 50])))
            r.shuffle(files)
            doc = dict(doc0, kind="many-split-files", files=nc)
            ctx.case(doc, nontrivial=True)
            ctx.count("config:many-split-files")
            try:
                vcf2zarr.explode(P("s.icf"), files, worker_processes=0)
                vcf2zarr.encode(P("s.icf"), P("s.vcz"), variants_chunk_size=vcs, worker_processes=r.choice([0, 2]))
                bad = diff_snap(ref, snapshot(P("s.vcz")), dummy, ignore_attrs=True)
                if bad:
                    ctx.fail(doc, dict(arrays=bad[:5]), f"store depends on the configuration (one file per contig, {nc} files): {bad[:4]} differ from the unsplit reference")
            except Exception as e:  # noqa: BLE001
                ctx.fail(doc, dict(error=f"{type(e).__name__}: {e}"[:200]), "conversion of the split files failed")
            ctx.traces_validated += 1
            # the same records as position windows: file k holds the k-th stretch of *every* contig, so
            # the files' partitions interleave in genome order
            w = r.choice([2, 3])
            win = [[] for _ in range(w)]
            for j in range(nc):
                ks = sorted(r.randint(0, len(per[j])) for _ in range(w - 1))
                for k, (a, b) in enumerate(zip([0] + ks, ks + [len(per[j])])):
                    win[k] += per[j][a:b]
            win = [x for x in win if x]
            wfiles = [vcfgen.make_indexed(d, f"{r.choice('abz')}win{k}", vcfgen.vcf_text(hdr, x, samples=["s0", "s1"]), kind=r.choice(["tbi", "csi"]), lines_per_block=r.choice([1, 50]))
                      for k, x in enumerate(win)]
            r.shuffle(wfiles)
            doc = dict(doc0, kind="window-split-files", files=len(wfiles))
            ctx.case(doc, nontrivial=True)
            ctx.count("config:window-split-files")
            try:
                vcf2zarr.explode(P("w.icf"), wfiles, worker_processes=0)
                vcf2zarr.encode(P("w.icf"), P("w.vcz"), variants_chunk_size=vcs, worker_processes=0)
                bad = diff_snap(ref, snapshot(P("w.vcz")), dummy, ignore_attrs=True)
                if bad:
                    ctx.fail(doc, dict(arrays=bad[:5]), f"store depends on the configuration ({len(wfiles)} files, each a position window of every contig): {bad[:4]} differ from the unsplit reference")
            except Exception as e:  # noqa: BLE001
                ctx.fail(doc, dict(error=f"{type(e).__name__}: {e}"[:200]), "conversion of the window-split files failed")
            ctx.traces_validated += 1
        finally:
            shutil.rmtree(d, ignore_errors=True)


def scores_of_files(ctx):
    """More input files than any bound a scheduler might put on outstanding work (64 per worker, 100, 128 ...): one file cut into
    70..150 pieces of 1..4 consecutive records, converted with 0 / 2 worker processes, against the unsplit reference."""
    from bio2zarr import vcf2zarr

    r = ctx.rnd
    d = os.path.join(ctx.work, "c03_files")
    os.makedirs(d)
    P = lambda x: os.path.join(d, x)  # noqa: E731
    try:
        hdr = [f"##contig=<ID=c{j},length=10000000>" for j in range(3)]
        hdr += ['##INFO=<ID=DP,Number=1,Type=Integer,Description="x">', '##FILTER=<ID=PASS,Description="All filters passed">',
                '##FORMAT=<ID=GT,Number=1,Type=String,Description="Genotype">']
        for nfiles, workers in ([(r.choice([70, 90]), 0)] + ([] if ctx.quick else [(150, 2), (135, 1)])):
            recs, cuts = [], []
            for j in range(3):
                pos = r.randint(1, 500)
                for _ in range(nfiles // 3 + (1 if j < nfiles % 3 else 0)):
                    piece = []
                    for _ in range(r.randint(1, 4)):
                        piece.append(f"c{j}\t{pos}\t.\tA\tT\t.\tPASS\tDP={r.randint(1, 500)}\tGT\t{r.choice(['0/1', '1|1', './.'])}\t{r.choice(['0/0', '1/1'])}")
                        pos += r.randint(1, 300)
                    cuts.append(piece)
                    recs += piece
            full = vcfgen.make_indexed(d, "full", vcfgen.vcf_text(hdr, recs, samples=["s0", "s1"]), kind="tbi")
            for x in ("ref.icf", "ref.vcz", "s.icf", "s.vcz"):
                shutil.rmtree(P(x), ignore_errors=True)
            vcf2zarr.explode(P("ref.icf"), [full], worker_processes=0)
            vcf2zarr.encode(P("ref.icf"), P("ref.vcz"), variants_chunk_size=50, worker_processes=0)
            ref = snapshot(P("ref.vcz"))
            files = [vcfgen.make_indexed(d, f"f{k:03d}", vcfgen.vcf_text(hdr, piece, samples=["s0", "s1"]), kind="tbi") for k, piece in enumerate(cuts)]
            r.shuffle(files)
            doc = dict(kind="scores-of-split-files", files=len(files), records=len(recs), worker_processes=workers)
            ctx.case(doc, nontrivial=True)
            ctx.count("config:scores-of-split-files")
            try:
                vcf2zarr.explode(P("s.icf"), files, worker_processes=workers)
                vcf2zarr.encode(P("s.icf"), P("s.vcz"), variants_chunk_size=50, worker_processes=0)
                bad = diff_snap(ref, snapshot(P("s.vcz")), dict(recs=[]), ignore_attrs=True)
                if bad:
                    ctx.fail(doc, dict(arrays=bad[:5]), f"store depends on the configuration ({len(files)} split files, {workers} worker processes): {bad[:4]} differ from the unsplit reference")
            except Exception as e:  # noqa: BLE001
                ctx.fail(doc, dict(error=f"{type(e).__name__}: {e}"[:200]), "conversion of the split files failed")
            ctx.traces_validated += 1
    finally:
        shutil.rmtree(d, ignore_errors=True)


def run(ctx):
    from bio2zarr import vcf2zarr

    many_partitions(ctx)
    scores_of_files(ctx)
    r = ctx.rnd
    for i in range(ctx.n(10, 300)):
        seed = ctx.seed * 7 + 40000 + i
        case = absvcf.gen_case(seed)
        n = len(case["recs"])
        d = os.path.join(ctx.work, f"c03_{i}")
        os.makedirs(d)
        P = lambda x: os.path.join(d, x)  # noqa: E731
        try:
            full = mkfile(d, case, case["recs"], "full", r)
            vcs, scs = r.choice([1, 2, 5, 1000]), r.choice([1, 2, 1000])
            doc0 = dict(gen_seed=seed, records=n, samples=len(case["samples"]), variants_chunk_size=vcs, samples_chunk_size=scs)
            vcf2zarr.explode(P("ref.icf"), [full], worker_processes=0)
            vcf2zarr.encode(P("ref.icf"), P("ref.vcz"), variants_chunk_size=vcs, samples_chunk_size=scs, worker_processes=0)
            ref = snapshot(P("ref.vcz"))
            intern = oracle.Intern()
            spec = oracle.spec_arrays(ctx, case, intern)
            store, _ = oracle.read_store(P("ref.vcz"), intern)
            for kind, arr, detail in oracle.compare(case, spec, store)[:2]:
                ctx.fail(dict(doc0, array=str(arr)), dict(kind=kind, detail=detail), f"reference store: {arr} differs from the specification ({kind}: {detail})")

            def check(cfg, path, ignore_attrs=False, ref_=ref):
                doc = dict(doc0, **cfg)
                ctx.case(doc, nontrivial=True, sample=(len(ctx.samples) < 3))
                ctx.count("config:" + cfg["kind"])
                got = snapshot(path)
                bad = diff_snap(ref_, got, case, ignore_attrs)
                if bad:
                    ctx.fail(doc, dict(arrays=bad[:5]), f"store depends on the configuration ({cfg['kind']}): {bad[:4]} differ from the single-partition reference")
                ctx.traces_validated += 1

            # distributed, shuffled, chunked
            for rep in range(ctx.n(2, 4)):
                tp, ccs, ep = r.choice([1, 2, 3, 5, 20]), r.choice([1e-5, 1e-4, 0.001, 16]), r.choice([1, 2, 3, 7])
                shutil.rmtree(P("d.icf"), ignore_errors=True)
                shutil.rmtree(P("d.vcz"), ignore_errors=True)
                np_ = pipeline.dexplode(P("d.icf"), [full], target_num_partitions=tp, column_chunk_size=ccs, order="shuffle", rnd=r)
                ne = pipeline.dencode(P("d.icf"), P("d.vcz"), ep, order="shuffle", rnd=r, variants_chunk_size=vcs, samples_chunk_size=scs)
                ctx.count(f"explode-partitions:{min(np_, 5)}{'+' if np_ > 5 else ''}")
                check(dict(kind="distributed", target_partitions=tp, explode_partitions=np_, column_chunk_size=ccs, encode_partitions=ne), P("d.vcz"))
            # worker processes (one-shot)
            w = r.choice([1, 2, 4]) if i % 3 == 0 else 0
            shutil.rmtree(P("w.icf"), ignore_errors=True)
            shutil.rmtree(P("w.vcz"), ignore_errors=True)
            vcf2zarr.convert([full], P("w.vcz"), icf_path=P("w.icf"), variants_chunk_size=vcs, samples_chunk_size=scs, worker_processes=w)
            check(dict(kind="one-shot-convert", worker_processes=w), P("w.vcz"))
            # chunk sizes only change the grid
            v2, s2 = r.choice([1, 3, n, n + 5]), r.choice([1, 3, 1000])
            shutil.rmtree(P("c.vcz"), ignore_errors=True)
            vcf2zarr.encode(P("ref.icf"), P("c.vcz"), variants_chunk_size=v2, samples_chunk_size=s2, worker_processes=0)
            check(dict(kind="chunk-sizes", variants_chunk_size2=v2, samples_chunk_size2=s2), P("c.vcz"))
            # per-array variants chunk sizes through an edited schema: a proper divisor of the schema-level size keeps every
            # partition chunk-aligned, so again only the grid may change
            if vcs > 1:
                import io

                buf = io.StringIO()
                vcf2zarr.mkschema(P("ref.icf"), buf, variants_chunk_size=vcs, samples_chunk_size=scs)
                sd = json.loads(buf.getvalue())
                lock = ("call_genotype", "call_genotype_mask", "call_genotype_phased", "variant_id", "variant_id_mask", "variant_contig", "variant_position", "variant_length")
                edited = {}
                for f in sd["fields"]:
                    if f["name"] not in lock and f["chunks"] and f["chunks"][0] > 1 and r.random() < 0.6:
                        f["chunks"][0] = r.choice([k for k in range(1, f["chunks"][0]) if f["chunks"][0] % k == 0])
                        edited[f["name"]] = f["chunks"][0]
                if edited:
                    with open(P("sch.json"), "w") as fh:
                        json.dump(sd, fh)
                    for ep in (None, r.choice([2, 3])):
                        shutil.rmtree(P("e.vcz"), ignore_errors=True)
                        try:
                            if ep is None:
                                vcf2zarr.encode(P("ref.icf"), P("e.vcz"), schema_path=P("sch.json"), worker_processes=0)
                            else:
                                pipeline.dencode(P("ref.icf"), P("e.vcz"), ep, order="shuffle", rnd=r, schema_path=P("sch.json"))
                            check(dict(kind="schema-chunk-divisors", edited=edited, encode_partitions=ep), P("e.vcz"))
                        except Exception as e:  # noqa: BLE001
                            ctx.fail(dict(doc0, kind="schema-chunk-divisors", edited=edited, encode_partitions=ep), dict(error=f"{type(e).__name__}: {e}"[:200]),
                                     "encoding with per-array variants chunk sizes that divide the schema's failed")
            # max_variant_chunks prefix
            nchunks = -(-n // vcs)
            cap = r.choice([1, nchunks, nchunks + 1, r.randint(1, nchunks)])
            shutil.rmtree(P("cap.vcz"), ignore_errors=True)
            vcf2zarr.encode(P("ref.icf"), P("cap.vcz"), variants_chunk_size=vcs, samples_chunk_size=scs, max_variant_chunks=cap, worker_processes=0)
            keep = min(n, cap * vcs)
            pref = {}
            for k, v in ref.items():
                if k == "__attrs__":
                    pref[k] = v
                    continue
                dt, shape, vals, attrs = v
                if "variants" in json.loads(attrs).get("_ARRAY_DIMENSIONS", []):
                    pref[k] = (dt, (keep,) + tuple(shape[1:]), vals[:keep], attrs)
                else:
                    pref[k] = v
            check(dict(kind="max-variant-chunks", cap=cap, chunks=nchunks), P("cap.vcz"), ref_=pref)
            # repeat run: identical bytes
            shutil.rmtree(P("r2.icf"), ignore_errors=True)
            shutil.rmtree(P("r2.vcz"), ignore_errors=True)
            vcf2zarr.explode(P("r2.icf"), [full], worker_processes=0)
            vcf2zarr.encode(P("r2.icf"), P("r2.vcz"), variants_chunk_size=vcs, samples_chunk_size=scs, worker_processes=0)
            b1, b2 = chunk_bytes(P("ref.vcz")), chunk_bytes(P("r2.vcz"))
            doc = dict(doc0, kind="repeat-run")
            ctx.case(doc, nontrivial=True)
            ctx.count("config:repeat-run")
            differing = sorted(k for k in set(b1) | set(b2) if b1.get(k) != b2.get(k))
            if differing:
                only_phased = all(k.startswith("call_genotype_phased/") or k == ".zmetadata" for k in differing) and not diff_snap(ref, snapshot(P("r2.vcz")), case)
                ctx.fail(doc, {"class": "haploid_last_sample_phased" if only_phased else None, "files": differing[:5]},
                         f"two identical runs produced different bytes in {differing[:3]}")
            # split files
            recs = case["recs"]
            cuts = [k for k in range(1, n) if (recs[k - 1]["contig"], recs[k - 1]["pos"]) < (recs[k]["contig"], recs[k]["pos"])]
            if cuts:
                ks = sorted(r.sample(cuts, min(len(cuts), r.choice([1, 2]))))
                pieces = [recs[a:b] for a, b in zip([0] + ks, ks + [n])]
                files = [mkfile(d, case, p, f"part{j}", r, provenance=f"piece{j}") for j, p in enumerate(pieces)]
                attrs_seen = {}
                orders = list(itertools.permutations(files))
                r.shuffle(orders)
                for order in orders[: ctx.n(3, 6)]:
                    shutil.rmtree(P("s.icf"), ignore_errors=True)
                    shutil.rmtree(P("s.vcz"), ignore_errors=True)
                    try:
                        vcf2zarr.explode(P("s.icf"), list(order), worker_processes=0)
                        vcf2zarr.encode(P("s.icf"), P("s.vcz"), variants_chunk_size=vcs, samples_chunk_size=scs, worker_processes=0)
                    except Exception as e:  # noqa: BLE001
                        ctx.fail(dict(doc0, kind="split-files", cuts=ks), dict(error=f"{type(e).__name__}: {e}"[:200]), "conversion of the split files failed")
                        continue
                    names = [os.path.basename(x) for x in order]
                    check(dict(kind="split-files", cuts=ks, order=names), P("s.vcz"), ignore_attrs=True)
                    attrs_seen[tuple(names)] = snapshot(P("s.vcz"))["__attrs__"]
                if len(set(attrs_seen.values())) > 1:
                    ctx.fail(dict(doc0, kind="split-files", cuts=ks, orders=[list(k) for k in attrs_seen]), {},
                             "the store's attributes (vcf_header) depend on the order in which the split files are given")
        finally:
            shutil.rmtree(d, ignore_errors=True)


def replay(ctx, rep):
    run(ctx)
