"""C07 correspondence: trace containment of concurrent partition tasks.

Each explode / encode partition task runs as its own OS process under the audit hook (every
file-system mutation and every read-open is logged); tasks run truly concurrently (up to 16 at
a time) in shuffled order, some are re-run (a retry after the partition already exists), then
finalise.  PLINK slices run in the real worker pool with task markers in the audit log.
  * every recorded mutation of task j must lie in the model's write set W j, every read in
    W j + R j (paths are parsed into the model's constructors by a strict parser);
  * the recorded write sets are pairwise disjoint from the other tasks' read + write sets;
  * the final stores equal the sequential reference.
"""
import os
import re
import shutil
import subprocess

import numpy as np

from lib import absvcf, vcfgen
from lib.common import PY, REPO, VERIF

ENV = dict(os.environ, PYTHONPATH=f"{VERIF}/harness/fsaudit:{VERIF}/harness:{REPO}", PYTHONHASHSEED="0")
FIELD = r"(CHROM|POS|QUAL|ID|FILTERS|REF|ALT|rlen|INFO/[^/]+|FORMAT/[^/]+)"


def parse_icf(rel, fields):
    m = re.fullmatch(FIELD + r"/p(\d+)(/.*)?", rel)
    if m:
        fields.setdefault(m.group(1), len(fields))
        return [0, fields[m.group(1)], int(m.group(2))]
    m = re.fullmatch(r"wip/p(\d+)\.json", rel)
    if m:
        return [1, int(m.group(1))]
    if rel == "wip/metadata.json":
        return [2]
    if rel in ("metadata.json", "header.txt"):
        return [3]
    if re.fullmatch(FIELD, rel) or rel in ("wip", "INFO", "FORMAT", ""):
        return [4]
    return None


def parse_vcz(rel):
    for code, pat in ((10, r"wip/partitions/wip_p(\d+)(/.*)?"), (11, r"wip/partitions/p(\d+)(/.*)?"), (12, r"wip/partitions/stale_p(\d+)(/.*)?")):
        m = re.fullmatch(pat, rel)
        if m:
            return [code, int(m.group(1))]
    if rel.startswith("wip/partitions"):
        return None if rel != "wip/partitions" else [15]
    if rel == "wip/arrays" or rel.startswith("wip/arrays/"):
        return [13]
    if rel == "wip/metadata.json":
        return [14]
    return [15]


def read_log(path, root):
    muts, reads = [], []
    if not os.path.exists(path):
        return muts, reads
    for line in open(path):
        parts = line.rstrip("\n").split("\t")
        if len(parts) < 3:
            continue
        ev, rest = parts[1], parts[2]
        for p in rest.split(" -> "):
            if not p.startswith("/"):
                continue
            (reads if ev == "read" else muts).append((ev, p))
    return muts, reads


def run_tasks(cmds, logs, root, batch=16):
    """cmds: list of python -c sources; run concurrently in batches, each with its own audit log"""
    for b0 in range(0, len(cmds), batch):
        procs = []
        for src, log in zip(cmds[b0 : b0 + batch], logs[b0 : b0 + batch]):
            if os.path.exists(log):
                os.remove(log)
            procs.append(subprocess.Popen([PY, "-c", src], env=dict(ENV, VERIF_AUDIT_LOG=log, VERIF_AUDIT_READS="1", VERIF_AUDIT_ROOT=root),
                                          stdout=subprocess.DEVNULL, stderr=subprocess.PIPE, text=True))
        for p in procs:
            _, err = p.communicate(timeout=600)
            if p.returncode != 0:
                return err[-400:]
    return None


def check_task(ctx, doc, kind, j, muts, reads, store_root, parse, others_touch):
    """containment of one task's recorded events in the model's footprint"""
    tcode = {"explode": 0, "encode": 1}[kind]
    paths, events = [], []
    for ev, p in muts + reads:
        if not p.startswith(store_root + "/") and p != store_root:
            if ev != "read":
                ctx.fail(dict(doc, task=j, event=ev, path=p), {}, f"{kind} task {j} performed '{ev}' on {p}, outside the output directory")
            continue
        rel = os.path.relpath(p, store_root)
        rel = "" if rel == "." else rel
        sx = parse(rel)
        if sx is None:
            ctx.fail(dict(doc, task=j, event=ev, path=rel), {}, f"{kind} task {j}: '{ev}' on {rel}, a path that is private to no partition (outside every task's footprint)")
            continue
        paths.append(sx)
        events.append((ev, rel))
    if not paths:
        return
    ctx.case(dict(doc, task=j, events=len(paths), first_events=[list(e) for e in events[:3]]), nontrivial=len(paths) > 1, sample=(len(ctx.samples) < 3))
    ctx.count(kind + "-task-traces")
    res = ctx.model.call(700, [[tcode, j], paths])
    for (ev, rel), (w, rd) in zip(events, res):
        if ev == "read":
            if not (w or rd):
                ctx.fail(dict(doc, task=j, event=ev, path=rel), {}, f"{kind} task {j} reads {rel}, which is not one of its inputs (another task may write it)")
        elif not w:
            ctx.fail(dict(doc, task=j, event=ev, path=rel), {}, f"{kind} task {j}: '{ev}' on {rel}, outside the paths private to partition {j}")
    ctx.traces_validated += 1


def disjoint_recorded(ctx, doc, kind, per_task):
    """recorded write sets vs the other tasks' recorded read+write sets (file level)"""
    for i, (wi, _) in per_task.items():
        for j, (wj, rj) in per_task.items():
            if i == j:
                continue
            clash = wi & (wj | rj)
            clash = {p for p in clash if os.path.basename(p) not in ("",)}
            if clash:
                ctx.fail(dict(doc, tasks=[i, j]), dict(paths=sorted(clash)[:5]), f"{kind} tasks {i} and {j}: task {i} writes paths that task {j} reads or writes")
                return


def snap_vcz(p):
    import zarr

    root = zarr.open(p, mode="r")
    out = {}
    for k in sorted(root.array_keys()):
        x = root[k][:]
        if x.dtype.kind == "f":
            x = x.view(np.int32)
        out[k] = (str(root[k].dtype), x.tolist())
    if "call_genotype" in out and np.array(out["call_genotype"][1]).ndim == 3 and np.array(out["call_genotype"][1]).shape[2] == 1:
        out.pop("call_genotype_phased", None)
    return out


def run(ctx):
    from bio2zarr import plink, vcf2zarr
    from drivers.c15 import snap_icf

    r = ctx.rnd
    for rep in range(ctx.n(1, 6)):
        d = os.path.join(ctx.work, f"c07_{rep}")
        os.makedirs(d)
        case = absvcf.gen_case(ctx.seed * 131 + 900 + rep)
        # enough records for >= 11 index partitions
        while len(case["recs"]) < 40:
            extra = absvcf.gen_case(r.randrange(10**6))
            if extra["infos"] == case["infos"] and extra["fmts"] == case["fmts"]:
                pass
            base = case["recs"][-1]
            for k in range(12):
                nr = dict(base)
                nr["pos"] = base["pos"] + 20000 * (k + 1)
                case["recs"].append(nr)
        src = vcfgen.make_indexed(d, "in", absvcf.to_text(case), kind=r.choice(["tbi", "csi"]), lines_per_block=1)
        # ---------------- explode ----------------
        icf = os.path.join(d, "t.icf")
        summary = vcf2zarr.explode_init(icf, [src], target_num_partitions=16, worker_processes=0)
        n = summary.num_partitions
        doc = dict(phase="explode", partitions=n, gen_seed=case["seed"])
        ctx.case(doc, nontrivial=n > 1, sample=(rep == 0))
        ctx.count(f"explode-partitions:{n}")
        # failure path first: with the input's index out of sight a partition task fails inside its writer block; what it
        # touches while failing must still be private to its partition, and the later runs must not notice
        idxp = vcfgen.index_path(src)
        os.rename(idxp, idxp + ".hidden")
        fail_js = r.sample(range(n), min(2, n))
        fields = {}
        for k, j in enumerate(fail_js):
            flog = os.path.join(d, f"f{k}.log")
            ferr = run_tasks([f"from bio2zarr import vcf2zarr\nvcf2zarr.explode_partition({icf!r}, {j})"], [flog], d)
            fdoc = dict(doc, failing_task=j)
            ctx.case(fdoc, nontrivial=True)
            ctx.count("explode-failing-task")
            if ferr is None:
                ctx.note("explode partition succeeded without its index (fault not reached)")
            muts, reads = read_log(flog, d)
            check_task(ctx, fdoc, "explode", j, muts, reads, icf, lambda rel: parse_icf(rel, fields), None)
        os.rename(idxp + ".hidden", idxp)
        order = list(range(n))
        r.shuffle(order)
        retry = r.sample(range(n), min(3, n)) + ([1] if n > 11 else [])
        jobs = order + retry
        cmds = [f"from bio2zarr import vcf2zarr\nvcf2zarr.explode_partition({icf!r}, {j})" for j in jobs]
        logs = [os.path.join(d, f"x{k}.log") for k in range(len(jobs))]
        err = run_tasks(cmds[: len(order)], logs[: len(order)], d) or run_tasks(cmds[len(order) :], logs[len(order) :], d)
        if err:
            ctx.fail(doc, dict(stderr=err), "a concurrently run explode partition failed")
        fields = {}
        per_task = {}
        for k, j in enumerate(jobs):
            muts, reads = read_log(logs[k], d)
            check_task(ctx, doc, "explode", j, muts, reads, icf, lambda rel: parse_icf(rel, fields), None)
            w = {p for _, p in muts if p.startswith(icf)}
            rd = {p for _, p in reads if p.startswith(icf)}
            pw, pr = per_task.get(j, (set(), set()))
            per_task[j] = (pw | w, pr | rd)
        disjoint_recorded(ctx, doc, "explode", per_task)
        try:
            vcf2zarr.explode_finalise(icf)
            ref = os.path.join(d, "ref.icf")
            vcf2zarr.explode(ref, [src], worker_processes=0)
            if snap_icf(icf) != snap_icf(ref):
                ctx.fail(doc, {}, "the store produced by concurrent explode partitions differs from the sequential one")
        except Exception as e:  # noqa: BLE001
            ctx.fail(doc, dict(error=f"{type(e).__name__}: {e}"[:300]), "finalise / read after concurrent explode partitions failed")
            shutil.rmtree(d, ignore_errors=True)
            continue
        # ---------------- encode ----------------
        vcz = os.path.join(d, "t.vcz")
        es = vcf2zarr.encode_init(ref, vcz, 12, variants_chunk_size=r.choice([2, 3, 4]), samples_chunk_size=2, worker_processes=0)
        m = es.num_partitions
        doc = dict(phase="encode", partitions=m, gen_seed=case["seed"])
        ctx.case(doc, nontrivial=m > 1)
        ctx.count(f"encode-partitions:{m}")
        order = list(range(m))
        r.shuffle(order)
        retry = r.sample(range(m), min(4, m))
        jobs = order + retry
        cmds = [f"from bio2zarr import vcf2zarr\nvcf2zarr.encode_partition({vcz!r}, {j})" for j in jobs]
        logs = [os.path.join(d, f"e{k}.log") for k in range(len(jobs))]
        err = run_tasks(cmds[: len(order)], logs[: len(order)], d) or run_tasks(cmds[len(order) :], logs[len(order) :], d)
        if err:
            ctx.fail(doc, dict(stderr=err), "a concurrently run encode partition failed")
        per_task = {}
        for k, j in enumerate(jobs):
            muts, reads = read_log(logs[k], d)
            check_task(ctx, doc, "encode", j, muts, reads, vcz, parse_vcz, None)
            w = {p for _, p in muts if p.startswith(vcz)}
            rd = {p for _, p in reads if p.startswith(vcz)}
            pw, pr = per_task.get(j, (set(), set()))
            per_task[j] = (pw | w, pr | rd)
        disjoint_recorded(ctx, doc, "encode", per_task)
        try:
            vcf2zarr.encode_finalise(vcz)
            left = [x for x in os.listdir(vcz) if x == "wip"]
            refz = os.path.join(d, "ref.vcz")
            vcf2zarr.encode(ref, refz, variants_chunk_size=None, worker_processes=0, schema_path=None) if False else None
            seq = os.path.join(d, "seq.vcz")
            es2 = vcf2zarr.encode_init(ref, seq, 12, variants_chunk_size=es.num_chunks and None, samples_chunk_size=2, worker_processes=0) if False else None
            a = snap_vcz(vcz)
            import json

            vcs = json.load(open(os.path.join(vcz, "variant_position", ".zarray")))["chunks"][0]
            vcf2zarr.encode(ref, refz, variants_chunk_size=vcs, samples_chunk_size=2, worker_processes=0)
            b = snap_vcz(refz)
            b.pop("region_index", None)
            if a != b or left:
                ctx.fail(doc, dict(leftover=left, differing=[k for k in b if a.get(k) != b[k]][:5]), "the store produced by concurrent encode partitions differs from the sequential one")
        except Exception as e:  # noqa: BLE001
            ctx.fail(doc, dict(error=f"{type(e).__name__}: {e}"[:300]), "finalise / read after concurrent encode partitions failed")
        shutil.rmtree(d, ignore_errors=True)
    # ---------------- plink slices in the real pool ----------------
    d = os.path.join(ctx.work, "c07_plink")
    os.makedirs(d)
    bed = os.path.join(REPO, "tests/data/plink/plink_sim_10s_100v_10pmiss.bed")
    # incl. fewer variant chunks than workers (3 chunks / 4 workers, 2 / 8, 1 / 3)
    for workers, vcs in ((4, 10), (4, 40), (8, 64), (2, 7), (8, 3), (3, 100))[: ctx.n(3, 6)]:
        out = os.path.join(d, f"p{workers}_{vcs}.vcz")
        log = os.path.join(d, f"p{workers}_{vcs}.log")
        src = f"from bio2zarr import plink\nif __name__ == '__main__':\n    plink.convert({bed!r}, {out!r}, worker_processes={workers}, variants_chunk_size={vcs}, samples_chunk_size=4)"
        script = os.path.join(d, f"run{workers}_{vcs}.py")
        open(script, "w").write(src)
        p = subprocess.run([PY, script], env=dict(ENV, VERIF_AUDIT_LOG=log, VERIF_AUDIT_ROOT=d, VERIF_MARK_TASKS="1"), capture_output=True, text=True, timeout=600)
        doc = dict(phase="plink", workers=workers, variants_chunk_size=vcs)
        ctx.case(doc, nontrivial=True)
        ctx.count("plink-runs")
        if p.returncode != 0:
            ctx.fail(doc, dict(stderr=p.stderr[-300:]), "plink.convert failed under the audit hook")
            continue
        # attribute events to tasks by pid between begin/end markers
        cur = {}
        tasks = {}
        for line in open(log):
            parts = line.rstrip("\n").split("\t")
            if len(parts) < 4:
                continue
            _, ev, rest, pid = parts[:4]
            if ev == "begin":
                cur[pid] = rest
                tasks.setdefault(rest, [])
            elif ev == "end":
                cur.pop(pid, None)
            elif pid in cur and ev != "read":
                for q in rest.split(" -> "):
                    tasks[cur[pid]].append((ev, q))
        written = {}
        for name, evs in tasks.items():
            _, a, b = name.split(":")
            a, b = int(a), int(b)
            paths, rels = [], []
            for ev, q in evs:
                rel = os.path.relpath(q, out)
                m = re.fullmatch(r"(call_genotype|call_genotype_mask|call_genotype_phased)/(\d+)\.(\d+)(\.\d+)?(\..*)?", rel)
                if not m:
                    ctx.fail(dict(doc, slice=[a, b], path=rel), {}, f"PLINK slice [{a},{b}) performed '{ev}' on {rel}, which is not a genotype chunk")
                    continue
                paths.append([20, ["call_genotype", "call_genotype_mask", "call_genotype_phased"].index(m.group(1)), int(m.group(2))])
                rels.append(rel)
                written.setdefault(rel.split(".partial")[0], set()).add(name)
            if paths:
                res = ctx.model.call(700, [[2, a, b, vcs], paths])
                for rel, (w, _) in zip(rels, res):
                    if not w:
                        ctx.fail(dict(doc, slice=[a, b], path=rel), {}, f"PLINK slice [{a},{b}) writes chunk {rel}, outside its own variant chunks")
                ctx.traces_validated += 1
        shared = {k: v for k, v in written.items() if len(v) > 1}
        if shared:
            ctx.fail(doc, dict(chunks=sorted(shared)[:4]), "two PLINK slices wrote the same Zarr chunk")
        ref = os.path.join(d, f"ref{workers}_{vcs}.vcz")
        plink.convert(bed, ref, worker_processes=0, variants_chunk_size=vcs, samples_chunk_size=4)
        if snap_vcz(out) != snap_vcz(ref):
            ctx.fail(doc, {}, "the store produced by concurrent PLINK slices differs from the sequential one")
    shutil.rmtree(d, ignore_errors=True)


def replay(ctx, rep):
    run(ctx)
