"""C05 correspondence: the distributed explode protocol under kills.

Every command (dexplode partition j / finalise) runs as its own OS process; a kill is injected
before the k-th file-system mutation (audit hook), optionally tearing the last written file.
After every command the real directory is ABSTRACTED to the model's state (header, wip
metadata, final metadata, each partition summary, each data file: Absent / Torn / Full by
comparing bytes with an uninterrupted reference run) and
  * un-killed commands: abs(after) must equal the model's transition from abs(before), and
    'refused with an error' must coincide with an empty step list (state unchanged);
  * killed commands: abs(after) must satisfy the model's invariant;
  * whenever the real store loads as finished, every value must equal the reference;
  * at the end of every history, re-running the unfinished partitions and finalise must give
    exactly the reference store.
Histories: a crash sweep over the mutation points of a fresh partition, a re-run partition and
finalise (x no tear / tear to 0 / tear to half), and random histories over {partition j,
finalise} with repeats, omissions, wrong order and up to two kills.
"""
import os
import shutil
import subprocess
from concurrent.futures import ThreadPoolExecutor

from lib import vcfgen
from lib.common import PY, REPO, VERIF

ENV = dict(os.environ, PYTHONPATH=f"{VERIF}/harness/fsaudit:{VERIF}/harness:{REPO}", PYTHONHASHSEED="0")


def make_input(d, r):
    hdr = ['##contig=<ID=c0,length=10000000>', '##contig=<ID=c1,length=10000000>', '##FILTER=<ID=PASS,Description="p">',
           '##INFO=<ID=DP,Number=1,Type=Integer,Description="d">', '##INFO=<ID=AF,Number=A,Type=Float,Description="a">',
           '##FORMAT=<ID=GT,Number=1,Type=String,Description="g">', '##FORMAT=<ID=AD,Number=R,Type=Integer,Description="ad">']
    recs = []
    for c in ("c0", "c1"):
        pos = 100
        for _ in range(6):
            alt = r.choice(["T", "T,G"])
            n = alt.count(",") + 2
            gts = "\t".join(f"{r.randint(0, n - 1)}{r.choice('/|')}{r.randint(0, n - 1)}:" + ",".join(str(r.randint(0, 40)) for _ in range(n)) for _ in range(3))
            recs.append(f"{c}\t{pos}\t.\tA\t{alt}\t{r.randint(1, 90)}\tPASS\tDP={r.randint(1, 99)};AF=" + ",".join("0.25" for _ in range(n - 1)) + f"\tGT:AD\t{gts}")
            pos += 30000
    return vcfgen.make_indexed(d, "in", vcfgen.vcf_text(hdr, recs, ("s0", "s1", "s2")), kind="tbi", lines_per_block=2)


def run_cmd(src, crash=None, log=None, root=None):
    env = dict(ENV)
    if crash is not None:
        env["VERIF_CRASH_AT"] = crash
    if log:
        env["VERIF_AUDIT_LOG"] = log
    if root:
        env["VERIF_AUDIT_ROOT"] = root
    p = subprocess.run([PY, "-c", "from bio2zarr import vcf2zarr\n" + src], env=env, capture_output=True, text=True, timeout=300)
    return p.returncode, p.stderr[-300:]


def files_of(root):
    out = {}
    for dp, _, fs in os.walk(root):
        for f in fs:
            q = os.path.join(dp, f)
            out[os.path.relpath(q, root)] = open(q, "rb").read()
    return out


class Plan:
    """reference bytes and the mapping real file <-> model path"""

    def __init__(self, pre_final, final, nparts):
        import re

        self.nparts = nparts
        self.ref = dict(pre_final)
        self.ref.update(final)
        self.data = {j: [] for j in range(nparts)}
        for rel in sorted(pre_final):
            m = re.match(r"^(?:[^/]+/)?[^/]+/p(\d+)/[^/]+$", rel)
            if m and not rel.startswith("wip/"):
                self.data[int(m.group(1))].append(rel)
        self.nfiles = [len(self.data[j]) for j in range(nparts)]
        self.path_of = {"header.txt": [0], "wip/metadata.json": [1], "metadata.json": [2]}
        for j in range(nparts):
            self.path_of[f"wip/p{j}.json"] = [3, j]
            for k, rel in enumerate(self.data[j]):
                self.path_of[rel] = [4, j, k]

    def abstract(self, root):
        cur = files_of(root)
        st, stray = [], []
        for rel, content in cur.items():
            if rel in self.path_of:
                st.append([self.path_of[rel], 2 if content == self.ref[rel] else 1])
            else:
                stray.append(rel)
        return sorted(st), stray


def real_loads(root):
    """(loads?, values) of the real store"""
    code = (
        "import sys, json\nfrom bio2zarr.vcf2zarr import icf\nfrom drivers.c08 import canon\n"
        f"s = icf.IntermediateColumnarFormat({root!r})\n"
        "print(json.dumps({k: [canon(v) for v in f.values] for k, f in s.items()}))"
    )
    p = subprocess.run([PY, "-c", code], env=ENV, capture_output=True, text=True, timeout=300)
    if p.returncode != 0:
        return False, None
    return True, p.stdout.strip()


def model_step(ctx, plan, st, cmd):
    out = ctx.model.call(500, [plan.nfiles, st, cmd])
    state = sorted([p, v] for p, v in out[0] if v != 0)
    return state, bool(out[1]), bool(out[2])


def play(ctx, plan, base_dir, work, hist, ref_values, tag):
    """run one history (list of (cmd, crash)) from the post-init state; returns list of problems"""
    problems = []
    d = os.path.join(work, tag)
    shutil.copytree(base_dir, d)
    root = os.path.join(d, "s.icf")
    finished_ok = False
    try:
        for step_no, (cmd, crash) in enumerate(hist):
            before, _ = plan.abstract(root)
            if cmd[0] == 0:
                # init issued again on the existing path (out of protocol order): same arguments, another file, another plan
                vin = os.path.join(d, "in2.vcf.gz" if cmd[1] == 1 else "in.vcf.gz")
                src = f"vcf2zarr.explode_init({root!r}, [{vin!r}], target_num_partitions={2 if cmd[1] == 2 else 3}, worker_processes=0)"
            elif cmd[0] == 1:
                src = f"vcf2zarr.explode_partition({root!r}, {cmd[1]})"
            else:
                src = f"vcf2zarr.explode_finalise({root!r})"
            rc, err = run_cmd(src, crash=crash, root=root)
            after, stray = plan.abstract(root)
            doc = dict(history=[[c, k] for c, k in hist], step=step_no)
            killed = rc == 137
            if crash is not None and not killed and rc == 0:
                pass  # the command had fewer mutations than the crash index: it completed
            if not killed:
                pred, refused, inv = model_step(ctx, plan, before, cmd if cmd[0] != 0 else (0,))
                if cmd[0] == 0 and rc == 0:
                    problems.append(("fail", doc, "init on an existing intermediate store was accepted (a command out of protocol order must fail and leave the data intact)"))
                if refused != (rc != 0):
                    problems.append(("disagree", doc, f"command {cmd}: real {'failed' if rc else 'succeeded'}, model {'refuses' if refused else 'runs'}: {err[-120:]}"))
                elif pred != after:
                    diff = [x for x in pred + after if x not in pred or x not in after][:4]
                    problems.append(("disagree", doc, f"command {cmd}: state after differs from the model's transition: {diff}"))
                if rc != 0 and before != after:
                    problems.append(("fail", doc, f"command {cmd} failed with an error but changed existing data"))
            inv_ok, loads_m, complete_m = ctx.model.call(501, [plan.nfiles, after])
            if not inv_ok:
                problems.append(("fail", doc, f"after {'a kill in ' if killed else ''}command {cmd} (crash point {crash}) the store state violates the protocol invariant "
                                               f"(a summary / completion marker is present while data is missing or torn)"))
            loads, values = real_loads(root)
            if loads:
                if values != ref_values:
                    problems.append(("fail", doc, f"after command {cmd} (crash point {crash}) the store loads as finished but its data differs from an uninterrupted run"))
                if stray:
                    problems.append(("fail", doc, f"finished store contains stray files {stray[:3]}"))
            if cmd[0] == 2 and rc == 0:
                finished_ok = True
        # recovery
        doc = dict(history=[[c, k] for c, k in hist], step="recovery")
        if not os.path.exists(os.path.join(root, "metadata.json")) or not real_loads(root)[0]:
            st, _ = plan.abstract(root)
            if os.path.exists(os.path.join(root, "wip")) and not os.path.exists(os.path.join(root, "metadata.json")):
                for j in range(plan.nparts):
                    rc, err = run_cmd(f"vcf2zarr.explode_partition({root!r}, {j})")
                    if rc != 0:
                        problems.append(("fail", doc, f"re-running partition {j} after the history failed: {err[-150:]}"))
                rc, err = run_cmd(f"vcf2zarr.explode_finalise({root!r})")
                if rc != 0:
                    problems.append(("fail", doc, f"finalise after re-running every partition failed: {err[-150:]}"))
            else:
                # a killed finalise: metadata.json may be torn; re-running finalise must complete it
                rc, err = run_cmd(f"vcf2zarr.explode_finalise({root!r})")
            loads, values = real_loads(root)
            if not loads or values != ref_values:
                problems.append(("fail", doc, "re-running the interrupted steps and finalise does not reproduce the store of an uninterrupted run"))
    except Exception as e:  # noqa: BLE001
        problems.append(("crash", dict(history=[[c, k] for c, k in hist]), f"{type(e).__name__}: {e}"))
    finally:
        shutil.rmtree(d, ignore_errors=True)
    return problems


def count_mutations(base_dir, work, src_of, tag, prefix=()):
    d = os.path.join(work, tag)
    shutil.copytree(base_dir, d)
    root = os.path.join(d, "s.icf")
    for s in prefix:
        run_cmd(s.format(root=root))
    log = os.path.join(d, "audit.log")
    run_cmd(src_of.format(root=root), log=log, root=root)
    n = sum(1 for _ in open(log)) if os.path.exists(log) else 0
    shutil.rmtree(d, ignore_errors=True)
    return n


def many_partitions(ctx):
    """a plan with more than ten partitions (two-digit partition numbers): partitions re-run, in any order relative
    to the others, after their neighbours in name (p1 / p10 / p11 ...) completed; one re-run killed and repeated"""
    import json

    r = ctx.rnd
    d = os.path.join(ctx.work, "c05many")
    os.makedirs(d)
    hdr = [f"##contig=<ID=k{j},length=100000>" for j in range(13)] + ['##FILTER=<ID=PASS,Description="p">',
           '##INFO=<ID=DP,Number=1,Type=Integer,Description="d">', '##FORMAT=<ID=GT,Number=1,Type=String,Description="g">']
    recs = [f"k{j}\t{100 + 7 * i}\t.\tA\tT\t.\tPASS\tDP={r.randint(1, 99)}\tGT\t{r.choice(['0/1', '1|1', './.'])}" for j in range(13) for i in range(2)]
    src = vcfgen.make_indexed(d, "in", vcfgen.vcf_text(hdr, recs, ("s0",)), kind="tbi")
    P = "vcf2zarr.explode_partition({root!r}, {j})"

    def fresh(name):
        root = os.path.join(d, name)
        rc, err = run_cmd(f"vcf2zarr.explode_init({root!r}, [{src!r}], target_num_partitions=30, worker_processes=0)")
        assert rc == 0, err
        return root, len(json.load(open(os.path.join(root, "wip/metadata.json")))["partitions"])

    ref, n = fresh("ref.icf")
    for j in range(n):
        assert run_cmd(P.format(root=ref, j=j))[0] == 0
    assert run_cmd(f"vcf2zarr.explode_finalise({ref!r})")[0] == 0
    ref_values = real_loads(ref)[1]
    ctx.distribution["many_partitions"] = n
    for variant in range(ctx.n(2, 6)):
        root, n2 = fresh(f"h{variant}.icf")
        order = list(range(n2))
        r.shuffle(order)
        redo = [1, 0, r.randrange(n2)] if variant % 2 == 0 else [r.randrange(n2) for _ in range(3)] + [1]
        hist = [[1, j] for j in order] + [[1, j] for j in redo]
        doc = dict(history="many-partitions", partitions=n2, order=order, rerun=redo)
        ctx.case(doc, nontrivial=True)
        ctx.count("many-partitions")
        ok = True
        for j in order:
            ok = ok and run_cmd(P.format(root=root, j=j))[0] == 0
        # a re-run that is killed part-way, then the re-runs proper
        run_cmd(P.format(root=root, j=redo[0]), crash=str(r.randrange(1, 12)), root=root)
        for j in redo:
            ok = ok and run_cmd(P.format(root=root, j=j))[0] == 0
        rc, err = run_cmd(f"vcf2zarr.explode_finalise({root!r})")
        loads, values = real_loads(root)
        if not ok or rc != 0:
            ctx.fail(doc, dict(error=err[-200:]), "re-running partitions of a plan with more than ten partitions, then finalise, failed")
        elif not loads or values != ref_values:
            ctx.fail(doc, {}, "re-running the interrupted steps and finalise does not reproduce the store of an uninterrupted run (plan with more than ten partitions)")
        ctx.traces_validated += 1
        shutil.rmtree(root, ignore_errors=True)
    shutil.rmtree(d, ignore_errors=True)


def run(ctx):
    many_partitions(ctx)
    r = ctx.rnd
    base = os.path.join(ctx.work, "c05base")
    os.makedirs(base)
    src = make_input(base, r)
    for ext in ("", ".tbi"):
        shutil.copy(src + ext, os.path.join(base, "in2.vcf.gz" + ext))  # the same records under another name (for a second init)
    root = os.path.join(base, "s.icf")
    rc, err = run_cmd(f"vcf2zarr.explode_init({root!r}, [{src!r}], target_num_partitions=3, worker_processes=0)")
    assert rc == 0, err
    import json

    nparts = len(json.load(open(os.path.join(root, "wip/metadata.json")))["partitions"])
    # reference run (twice: the bytes must be reproducible for the abstraction to be exact)
    refs = []
    for rep in range(2):
        d = os.path.join(ctx.work, f"c05ref{rep}")
        shutil.copytree(base, d)
        rr = os.path.join(d, "s.icf")
        for j in range(nparts):
            assert run_cmd(f"vcf2zarr.explode_partition({rr!r}, {j})")[0] == 0
        pre = files_of(rr)
        assert run_cmd(f"vcf2zarr.explode_finalise({rr!r})")[0] == 0
        fin = files_of(rr)
        refs.append((pre, fin, real_loads(rr)[1]))
        shutil.rmtree(d, ignore_errors=True)
    if refs[0][:2] != refs[1][:2]:
        ctx.note("reference runs are not byte-identical; abstraction compares with the first one")
    plan = Plan(refs[0][0], refs[0][1], nparts)
    ref_values = refs[0][2]
    ctx.distribution["partitions"] = nparts
    ctx.distribution["data_files_per_partition"] = plan.nfiles
    P = "vcf2zarr.explode_partition({root!r}, %d)"
    n_fresh = count_mutations(base, ctx.work, P % 1, "cnt1")
    n_rerun = count_mutations(base, ctx.work, P % 1, "cnt2", prefix=[P % 1])
    n_fin = count_mutations(base, ctx.work, "vcf2zarr.explode_finalise({root!r})", "cnt3", prefix=[P % j for j in range(nparts)])
    ctx.distribution["mutation_points"] = dict(partition_fresh=n_fresh, partition_rerun=n_rerun, finalise=n_fin)
    hists = []
    allp = [((1, j), None) for j in range(nparts)]
    tears = [None, "0", "half"]

    def crash(k, tear):
        return f"{k}" if tear is None else f"{k}:{tear}"

    # (a) crash sweeps
    pts = lambda n: list(range(n)) if not ctx.quick else sorted(set(r.sample(range(n), min(n, 10)) + [0, 1, n - 1]))  # noqa: E731
    for k in pts(n_fresh):
        for t in (tears if not ctx.quick else [r.choice(tears)]):
            hists.append([((1, 0), None), ((1, 1), crash(k, t)), ((1, 2), None), ((2,), None)])
    for k in pts(n_rerun):
        for t in (tears if not ctx.quick else [r.choice(tears)]):
            hists.append(allp + [((1, 1), crash(k, t)), ((2,), None)])
    for k in range(n_fin):
        for t in tears:
            hists.append(allp + [((2,), crash(k, t)), ((2,), None)])
            if k <= 2:
                hists.append(allp + [((2,), crash(k, t)), ((1, r.randrange(nparts)), crash(r.randrange(max(1, n_rerun)), r.choice(tears))), ((2,), None)])
    # (b) random histories with up to two kills, repeats, omissions, wrong order
    for _ in range(ctx.n(30, 400)):
        h = []
        kills = 0
        for _ in range(r.randint(1, 8)):
            c = (2,) if r.random() < 0.25 else (1, r.randrange(nparts + (1 if r.random() < 0.05 else 0)))
            if r.random() < 0.07:
                c = (0, r.randrange(3))
            k = None
            if c[0] != 0 and kills < 2 and r.random() < 0.3:
                kills += 1
                k = crash(r.randrange(max(n_fresh, n_fin)), r.choice(tears))
            h.append((c, k))
        hists.append(h)
    # (c) init issued again at every stage of the protocol
    for v in range(3):
        hists.append([((0, v), None)] + allp + [((2,), None)])
        hists.append([((1, 0), None), ((0, v), None), ((1, 1), None), ((1, 2), None), ((2,), None)])
        hists.append([((1, 1), crash(r.randrange(max(1, n_fresh)), r.choice(tears))), ((0, v), None)])
    hists.append(allp + [((0, 1), None), ((2,), None)])
    hists.append(allp + [((2,), None), ((0, 1), None)])
    # corpus: the F6 history
    hists.insert(0, allp + [((2,), crash(1, None)), ((1, 1), crash(3, "0")), ((2,), None)])

    def job(i):
        return play(ctx, plan, base, ctx.work, hists[i], ref_values, f"h{i}")

    with ThreadPoolExecutor(max_workers=14) as ex:
        results = list(ex.map(job, range(len(hists))))
    for h, probs in zip(hists, results):
        doc = dict(history=[[list(c), k] for c, k in h])
        kills = sum(1 for _, k in h if k is not None)
        ctx.case(doc, nontrivial=kills > 0, sample=(len(ctx.samples) < 3 and kills > 0))
        ctx.count(f"kills:{kills}")
        ctx.traces_validated += 1
        for kind, d, msg in probs:
            if kind == "disagree":
                ctx.disagree(d, "real", "model", msg)
            elif kind == "fail":
                ctx.fail(d, {}, msg)
            else:
                ctx.disagree(d, "harness", "", "history runner crashed: " + msg)
    shutil.rmtree(base, ignore_errors=True)


def replay(ctx, rep):
    run(ctx)
