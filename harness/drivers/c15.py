"""C15 correspondence: the command line.

 (a) option flow with the library mocked (click.testing.CliRunner + mock.patch): for every command
     and generated option combinations (zero/one-based, -n -l -w -s -V -M -c -C -p --json --force
     -P/-Q --local-alleles), the arguments the library function actually receives vs the
     documented mapping applied to what was typed: values must arrive unchanged (one-based
     partition numbers minus one, the compressor name as the codec);
 (b) real command histories through the CLI vs the library-driven reference on generated /
     checked-in inputs: explode / encode / convert / mkschema / inspect equivalence, the overwrite
     guard (declined, confirmed, --force), dexplode-* and dencode-* with zero- and one-based
     indexes, 'the printed partition count is exactly the number of partition commands needed',
     vcfpartition, plink convert.
"""
import json
import os
import shutil
from unittest import mock

import numpy as np

from lib.common import COQ, REPO

VCF = os.path.join(REPO, "tests/data/vcf/sample.vcf.gz")
VCF2 = os.path.join(REPO, "tests/data/vcf/1kg_2020_chrM.vcf.gz")
BED = os.path.join(REPO, "tests/data/plink/plink_sim_10s_100v_10pmiss.bed")

RENAMES = {"target_num_partitions": "num_partitions", "schema_path": "schema", "show_progress": "progress"}
# command name -> (group, cli name)
CLI = {
    "explode": ("vcf2zarr", "explode"), "dexplode_init": ("vcf2zarr", "dexplode-init"), "dexplode_partition": ("vcf2zarr", "dexplode-partition"),
    "dexplode_finalise": ("vcf2zarr", "dexplode-finalise"), "mkschema": ("vcf2zarr", "mkschema"), "encode": ("vcf2zarr", "encode"),
    "dencode_init": ("vcf2zarr", "dencode-init"), "dencode_partition": ("vcf2zarr", "dencode-partition"),
    "dencode_finalise": ("vcf2zarr", "dencode-finalise"), "convert_vcf:convert": ("vcf2zarr", "convert"), "convert_plink:convert": ("plink2zarr", "convert"),
}


def load_table(ctx):
    p = os.path.join(COQ, "Gen", "GenCli.json")
    fallback = os.path.join(os.path.dirname(os.path.dirname(os.path.abspath(__file__))), "..", "corpus", "C15", "cli_table.json")
    try:
        if "ok" in open(os.path.join(COQ, "Gen", "GenCli.v")).read()[:10] or os.path.exists(p):
            t = json.load(open(p))
            if "TRANSLATION FAILED" not in open(os.path.join(COQ, "Gen", "GenCli.v")).read()[:200]:
                return t
    except Exception:  # noqa: BLE001
        pass
    ctx.note("CLI table not translatable: using the table recorded from the unchanged tree for the failing-input search")
    return json.load(open(fallback))


def gen_value(r, var):
    return {
        "num_partitions": lambda: r.choice([1, 2, 5, 100]),
        "partition": lambda: r.choice([0, 1, 2, 7]),
        "worker_processes": lambda: r.choice([0, 1, 3, 16]),
        "column_chunk_size": lambda: r.choice([1, 7, 64, 1000]),
        "compressor": lambda: r.choice(["lz4", "zstd"]),
        "variants_chunk_size": lambda: r.choice([1, 3, 1000, 12345]),
        "samples_chunk_size": lambda: r.choice([1, 2, 999]),
        "max_variant_chunks": lambda: r.choice([1, 2, 50]),
        "max_memory": lambda: r.choice(["10G", "1.5M", "100", "158.103K", "3GiB", "7k"]),
    }[var]()


def part_a(ctx):
    import click.testing as ct
    import numcodecs
    from bio2zarr import cli

    r = ctx.rnd
    table = load_table(ctx)
    optdecl = {o["var"]: o for o in table["options"]}
    d = os.path.join(ctx.work, "c15a")
    os.makedirs(d, exist_ok=True)
    existing_dir = os.path.join(d, "exists")
    os.makedirs(existing_dir, exist_ok=True)
    schema_file = os.path.join(d, "schema.json")
    open(schema_file, "w").write("{}")
    runner = ct.CliRunner()
    for c in table["commands"]:
        if c["name"] not in CLI or c["call"] is None:
            continue
        group, cname = CLI[c["name"]]
        grp = cli.vcf2zarr_main if group == "vcf2zarr" else cli.plink2zarr
        fn = c["call"]["fn"]
        target = "bio2zarr." + fn
        for rep in range(ctx.n(12, 120)):
            argv, typed = [cname], {}
            new_out = os.path.join(d, f"new_{rep}")
            for var in c["options"]:
                if var.startswith("inline:"):
                    if c["name"] == "convert_plink:convert":
                        continue
                    continue
                o = optdecl.get(var)
                if o is None or var == "version":
                    continue
                pname = o["flags"][0] if o["kind"] == "argument" else None
                if o["kind"] == "argument":
                    if var == "vcfs":
                        vals = r.choice([[VCF], [VCF, VCF2]])
                        argv += vals
                        typed["vcfs"] = tuple(vals)
                    elif var in ("new_icf_path", "new_zarr_path"):
                        argv.append(new_out)
                        typed[pname] = new_out
                    elif var in ("icf_path", "zarr_path"):
                        argv.append(existing_dir)
                        typed[pname] = existing_dir
                    elif var == "partition":
                        v = gen_value(r, "partition")
                        argv.append(str(v))
                        typed["partition"] = v
                    continue
                attrs = o["attrs"]
                if var == "verbose":
                    continue
                if var == "progress":
                    v = r.choice([True, False, None])
                    if v is not None:
                        argv.append(r.choice(["-P", "--progress"]) if v else r.choice(["-Q", "--no-progress"]))
                    typed["progress"] = True if v is None else v
                elif var == "local_alleles":
                    v = r.choice([True, False, None])
                    if v is not None:
                        argv.append("--local-alleles" if v else "--no-local-alleles")
                    typed["local_alleles"] = False if v is None else v
                elif attrs.get("is_flag") == "True":
                    v = r.random() < 0.5
                    if v:
                        argv.append(r.choice(o["flags"]))
                    typed[var] = v
                elif var == "schema":
                    if r.random() < 0.4:
                        argv += [r.choice(o["flags"]), schema_file]
                        typed[var] = schema_file
                    else:
                        typed[var] = None
                else:
                    if var == "num_partitions" and c["name"] in ("dexplode_init", "dencode_init") or r.random() < 0.6:
                        v = gen_value(r, var)
                        argv += [r.choice(o["flags"]), str(v)]
                        typed[var] = v
                    else:
                        d0 = attrs.get("default", "None")
                        typed[var] = None if d0 == "None" else int(d0)
            if c["name"] == "convert_plink:convert":
                if new_out in argv:      # the output path is a declared (guarded) argument; the input path is declared inline
                    argv.insert(argv.index(new_out), BED)
                else:
                    argv += [BED, new_out]
                typed["in_path"], typed["zarr_path"] = BED, new_out
            doc = dict(part="option-flow", command=c["name"], argv=[a.replace(d, "<tmp>").replace(REPO, "<repo>") for a in argv])
            ctx.case(doc, nontrivial=len(argv) > 3, sample=(rep == 0 and c["name"] == "encode"))
            ctx.count("mocked:" + c["name"])
            with mock.patch(target) as mocked:
                mocked.return_value = mock.MagicMock(**{"asjson.return_value": "{}", "asdict.return_value": {}})
                res = runner.invoke(grp, argv, catch_exceptions=True)
            if res.exit_code != 0:
                ctx.fail(doc, dict(exit_code=res.exit_code, output=res.output[-300:], exc=repr(res.exception)), f"{cname}: the command failed with the library mocked")
                continue
            if mocked.call_count != 1:
                ctx.fail(doc, dict(calls=mocked.call_count), f"{cname}: the library operation was called {mocked.call_count} times")
                continue
            args, kwargs = mocked.call_args
            # documented mapping applied to what was typed
            exp_kw = {}
            for kw, _ in c["call"]["kw"]:
                src = RENAMES.get(kw, kw)
                v = typed.get(src)
                if kw == "compressor":
                    v = None if v is None else cli.get_compressor(v)
                exp_kw[kw] = v
            exp_pos = []
            for e in c["call"]["pos"]:
                name = e.split('"')[1]
                v = typed.get(name)
                if name == "partition" and typed.get("one_based"):
                    v -= 1
                exp_pos.append(v)

            def norm(v):
                if isinstance(v, numcodecs.abc.Codec):
                    return ("codec", json.dumps(v.get_config(), sort_keys=True))
                if isinstance(v, (list, tuple)):
                    return tuple(str(x) for x in v)
                return v

            got_pos = [norm(a) for a in args]
            got_kw = {k: norm(v) for k, v in kwargs.items()}
            if c["name"] == "mkschema":
                got_pos = got_pos[:1]
                exp_pos = exp_pos[:1]
            want_pos = [norm(a) for a in exp_pos]
            want_kw = {k: norm(v) for k, v in exp_kw.items()}
            if got_pos != want_pos or got_kw != want_kw:
                diff = {k: (got_kw.get(k), want_kw.get(k)) for k in set(got_kw) | set(want_kw) if got_kw.get(k) != want_kw.get(k)}
                ctx.fail(doc, dict(received_positional=[str(x) for x in got_pos], expected_positional=[str(x) for x in want_pos], keyword_differences={k: [str(a), str(b)] for k, (a, b) in diff.items()}),
                         f"{cname} {' '.join(doc['argv'][1:])}: the library operation did not receive the options unchanged ({diff or 'positional arguments'})")
            ctx.traces_validated += 1
    shutil.rmtree(d, ignore_errors=True)


def snap_vcz(p):
    import zarr

    root = zarr.open(p, mode="r")
    out = {}
    for k in sorted(root.array_keys()):
        a = root[k]
        x = a[:]
        if x.dtype.kind == "f":
            x = x.view(np.int32)
        out[k] = (str(a.dtype), a.shape, a.chunks, str(a.compressor), x.tolist())
    if "call_genotype" in out and out["call_genotype"][1][2] == 1:
        # phasing of haploid calls is a don't-care (cyvcf2 reports an indeterminate bit, F8)
        out["call_genotype_phased"] = out["call_genotype_phased"][:4]
    return out


def snap_icf(p):
    from bio2zarr import vcf2zarr
    from drivers.c08 import canon, norm_gt

    s = vcf2zarr.IntermediateColumnarFormat(p)
    return {k: [canon(norm_gt(v) if k == "FORMAT/GT" else v) for v in f.values] for k, f in s.items()}


def part_b(ctx):
    import click.testing as ct
    from bio2zarr import cli, plink, vcf2zarr, vcf_utils

    r = ctx.rnd
    d = os.path.join(ctx.work, "c15b")
    os.makedirs(d, exist_ok=True)
    runner = ct.CliRunner()

    def run(group, *argv, inp=None):
        grp = {"vcf2zarr": cli.vcf2zarr_main, "plink2zarr": cli.plink2zarr, "vcfpartition": cli.vcfpartition}[group]
        res = runner.invoke(grp, list(argv), input=inp, catch_exceptions=True)
        return res.exit_code, res.output

    def P(x):
        return os.path.join(d, x)

    def check(name, cond, info=None):
        doc = dict(part="history", step=name)
        ctx.case(doc, nontrivial=True, sample=(name == "overwrite declined leaves store intact"))
        ctx.count("history-steps")
        if not cond:
            ctx.fail(doc, dict(info=str(info)[:400]), "command history: " + name)

    vcf = r.choice([VCF, VCF2])
    l, w, V = r.choice([3, 7, 11]), r.choice([1, 2, 3]), r.choice([1, 2])
    # explode / encode / convert
    rc, out = run("vcf2zarr", "explode", vcf, P("c1.icf"), "-Q", "-p", "0", "-c", "1", "-C", "lz4")
    vcf2zarr.explode(P("l1.icf"), [vcf], worker_processes=0, column_chunk_size=1, compressor=cli.get_compressor("lz4"))
    check("explode cli == library", rc == 0 and snap_icf(P("c1.icf")) == snap_icf(P("l1.icf")), out)
    md = json.load(open(P("c1.icf/metadata.json")))
    check("explode -C/-c reach the store", md["compressor"]["cname"] == "lz4" and md["column_chunk_size"] == 1, md)
    rc, out = run("vcf2zarr", "encode", P("c1.icf"), P("c1.vcz"), "-Q", "-l", str(l), "-w", str(w), "-V", str(V), "-p", "0", "-M", "1G")
    vcf2zarr.encode(P("l1.icf"), P("l1.vcz"), variants_chunk_size=l, samples_chunk_size=w, max_variant_chunks=V, worker_processes=0, max_memory="1G")
    check("encode -l -w -V -M cli == library", rc == 0 and snap_vcz(P("c1.vcz")) == snap_vcz(P("l1.vcz")), out)
    rc, out = run("vcf2zarr", "convert", vcf, P("c3.vcz"), "-Q", "-l", str(l), "-w", str(w), "-p", "0")
    vcf2zarr.convert([vcf], P("l3.vcz"), variants_chunk_size=l, samples_chunk_size=w, worker_processes=0)
    check("convert cli == library", rc == 0 and snap_vcz(P("c3.vcz")) == snap_vcz(P("l3.vcz")), out)
    # mkschema / -s
    rc, out = run("vcf2zarr", "mkschema", P("c1.icf"), "-l", "5", "-w", "2")
    import io

    buf = io.StringIO()
    vcf2zarr.mkschema(P("l1.icf"), buf, variants_chunk_size=5, samples_chunk_size=2)
    check("mkschema cli == library", rc == 0 and json.loads(out) == json.loads(buf.getvalue()), out[:200])
    open(P("sch.json"), "w").write(buf.getvalue())
    rc, out = run("vcf2zarr", "encode", P("c1.icf"), P("c2.vcz"), "-Q", "-s", P("sch.json"), "-p", "0")
    vcf2zarr.encode(P("l1.icf"), P("l2.vcz"), schema_path=P("sch.json"), worker_processes=0)
    check("encode -s cli == library", rc == 0 and snap_vcz(P("c2.vcz")) == snap_vcz(P("l2.vcz")), out)
    # overwrite guard
    before = snap_vcz(P("c1.vcz"))
    rc, out = run("vcf2zarr", "encode", P("c1.icf"), P("c1.vcz"), "-Q", "-p", "0", inp="n\n")
    check("overwrite declined leaves store intact", rc != 0 and snap_vcz(P("c1.vcz")) == before, out)
    rc, out = run("vcf2zarr", "encode", P("c1.icf"), P("c1.vcz"), "-Q", "-p", "0", inp="\n")
    check("overwrite with empty answer leaves store intact", rc != 0 and snap_vcz(P("c1.vcz")) == before, out)
    rc, out = run("vcf2zarr", "encode", P("c1.icf"), P("c1.vcz"), "-Q", "-l", "5", "-p", "0", inp="y\n")
    check("overwrite confirmed replaces", rc == 0 and snap_vcz(P("c1.vcz"))["variant_position"][2] == (5,), out)
    rc, out = run("vcf2zarr", "encode", P("c1.icf"), P("c1.vcz"), "-Q", "-l", "6", "-f", "-p", "0")
    check("--force replaces", rc == 0 and snap_vcz(P("c1.vcz"))["variant_position"][2] == (6,), out)
    before_icf = snap_icf(P("c1.icf"))
    rc, out = run("vcf2zarr", "explode", vcf, P("c1.icf"), "-Q", "-p", "0", inp="n\n")
    check("explode onto an existing path declined leaves it intact", rc != 0 and snap_icf(P("c1.icf")) == before_icf, out)
    # distributed explode: printed count = needed count; zero / one based
    nreq = r.choice([2, 3, 4, 7])
    rc, out = run("vcf2zarr", "dexplode-init", VCF2, P("d.icf"), "-n", str(nreq), "-Q", "--json", "-p", "0")
    n = json.loads(out)["num_partitions"] if rc == 0 else 0
    check("dexplode-init --json prints the partition count", rc == 0 and n >= 1, out)
    rc, out2 = run("vcf2zarr", "dexplode-init", VCF2, P("d2.icf"), "-n", str(nreq), "-Q", "-p", "0")
    tab = dict(x.split() for x in out2.strip().splitlines() if len(x.split()) == 2)
    check("dexplode-init table agrees with --json", tab.get("num_partitions") == str(n), out2)
    # an output path that is part-way through a distributed conversion is an existing path too
    def tree(q):
        out_ = {}
        for dp, _, fs in os.walk(q):
            for f in fs:
                out_[os.path.relpath(os.path.join(dp, f), q)] = open(os.path.join(dp, f), "rb").read()
        return out_

    run("vcf2zarr", "dexplode-partition", P("d2.icf"), "0")
    t0 = tree(P("d2.icf"))
    for argv in (("explode", vcf, P("d2.icf"), "-Q", "-p", "0"), ("dexplode-init", vcf, P("d2.icf"), "-n", "2", "-Q", "-p", "0"),
                 ("dexplode-init", vcf, P("d2.icf"), "-n", "2", "-Q", "-p", "0", "--json")):      # no output option is a licence to overwrite
        for answer in ("n\n", "\n"):
            rc, out = run("vcf2zarr", *argv, inp=answer)
            check(f"{argv[0]} onto an unfinished intermediate store, declined, leaves it intact", rc != 0 and tree(P("d2.icf")) == t0, out)
    one_based = r.random() < 0.5
    order = list(range(n))
    r.shuffle(order)
    skip = order[-1]
    for j in order[:-1]:
        rc, out = run("vcf2zarr", "dexplode-partition", P("d.icf"), str(j + 1 if one_based else j), *(["--one-based"] if one_based else []))
        check(f"dexplode-partition {'one' if one_based else 'zero'}-based accepted", rc == 0, out)
    rc, out = run("vcf2zarr", "dexplode-finalise", P("d.icf"))
    check("dexplode-finalise refuses with one partition missing", rc != 0 and not os.path.exists(P("d.icf/metadata.json")), out)
    rc, out = run("vcf2zarr", "dexplode-partition", P("d.icf"), str(n))
    check("partition N (zero-based) rejected", rc != 0, out)
    rc, out = run("vcf2zarr", "dexplode-partition", P("d.icf"), "0", "--one-based")
    check("partition 0 one-based rejected", rc != 0 and not os.path.exists(P("d.icf/metadata.json")), out)
    rc, out = run("vcf2zarr", "dexplode-partition", P("d.icf"), str(skip + 1), "--one-based")
    check("the missing partition, one-based, accepted", rc == 0, out)
    rc, out = run("vcf2zarr", "dexplode-finalise", P("d.icf"))
    check("dexplode-finalise succeeds after exactly the printed number of partitions", rc == 0 and os.path.exists(P("d.icf/metadata.json")), out)
    vcf2zarr.explode(P("lref.icf"), [VCF2], worker_processes=0)
    check("dexplode result == explode", snap_icf(P("d.icf")) == snap_icf(P("lref.icf")))
    # distributed encode
    rc, out = run("vcf2zarr", "dencode-init", P("d.icf"), P("d.vcz"), "-n", "5", "-l", "7", "-w", "3", "--json", "-Q")
    m = json.loads(out)["num_partitions"] if rc == 0 else 0
    check("dencode-init --json prints the partition count", rc == 0 and m >= 1, out)
    for j in range(1, m):
        run("vcf2zarr", "dencode-partition", P("d.vcz"), str(j))
    t0 = tree(P("d.vcz"))
    for argv in (("encode", P("d.icf"), P("d.vcz"), "-Q", "-p", "0"), ("dencode-init", P("d.icf"), P("d.vcz"), "-n", "2", "-Q"),
                 ("dencode-init", P("d.icf"), P("d.vcz"), "-n", "2", "-Q", "--json"), ("convert", vcf, P("d.vcz"), "-Q", "-p", "0")):
        rc, out = run("vcf2zarr", *argv, inp=r.choice(["n\n", "\n"]))
        check(f"{argv[0]} onto an unfinished store, declined, leaves it intact", rc != 0 and tree(P("d.vcz")) == t0, out)
    rc, out = run("vcf2zarr", "dencode-finalise", P("d.vcz"), "-Q")
    check("dencode-finalise refuses with one partition missing", rc != 0 and not os.path.exists(P("d.vcz/.zmetadata")), out)
    rc, out = run("vcf2zarr", "dencode-partition", P("d.vcz"), "0", "--one-based")
    check("dencode partition 0 one-based rejected", rc != 0, out)
    rc, out = run("vcf2zarr", "dencode-partition", P("d.vcz"), "1", "--one-based")
    check("dencode partition 1 one-based is partition 0", rc == 0, out)
    rc, out = run("vcf2zarr", "dencode-finalise", P("d.vcz"), "-Q")
    check("dencode-finalise succeeds after exactly the printed number of partitions", rc == 0 and os.path.exists(P("d.vcz/.zmetadata")), out)
    vcf2zarr.encode(P("lref.icf"), P("lref.vcz"), variants_chunk_size=7, samples_chunk_size=3, worker_processes=0)
    a, b = snap_vcz(P("d.vcz")), snap_vcz(P("lref.vcz"))
    b.pop("region_index", None)
    check("dencode result == encode (minus region_index)", a == b)
    # distributed encode with a cap on the variant chunks: the printed count is still the needed count
    for nn, ll, VV in ((4, 2, 2), (5, 3, 1), (3, 1, 2), (r.randint(2, 6), r.randint(1, 4), r.randint(1, 3))):
        shutil.rmtree(P("dv.vcz"), ignore_errors=True)
        rc, out = run("vcf2zarr", "dencode-init", P("d.icf"), P("dv.vcz"), "-n", str(nn), "-l", str(ll), "-V", str(VV), "--json", "-Q")
        mv = json.loads(out)["num_partitions"] if rc == 0 else 0
        tag = f"dencode-init -n {nn} -l {ll} -V {VV}"
        check(f"{tag} prints the partition count", rc == 0 and mv >= 1, out)
        rc, out = run("vcf2zarr", "dencode-partition", P("dv.vcz"), str(mv))
        check(f"{tag}: partition index = printed count is rejected", rc != 0, out)
        for j in range(mv - 1):
            rc, out = run("vcf2zarr", "dencode-partition", P("dv.vcz"), str(j))
            check(f"{tag}: partition below the printed count accepted", rc == 0, out)
        if mv > 1:
            rc, out = run("vcf2zarr", "dencode-finalise", P("dv.vcz"), "-Q")
            check(f"{tag}: finalise refuses before the printed number of partitions", rc != 0 and not os.path.exists(P("dv.vcz/.zmetadata")), out)
        rc, out = run("vcf2zarr", "dencode-partition", P("dv.vcz"), str(mv - 1))
        check(f"{tag}: last printed partition accepted", rc == 0, out)
        rc, out = run("vcf2zarr", "dencode-finalise", P("dv.vcz"), "-Q")
        check(f"{tag}: finalise succeeds after exactly the printed number of partitions", rc == 0 and os.path.exists(P("dv.vcz/.zmetadata")), out)
        shutil.rmtree(P("lv.vcz"), ignore_errors=True)
        vcf2zarr.encode(P("lref.icf"), P("lv.vcz"), variants_chunk_size=ll, max_variant_chunks=VV, worker_processes=0)
        a, b = snap_vcz(P("dv.vcz")), snap_vcz(P("lv.vcz"))
        b.pop("region_index", None)
        check(f"{tag}: result == encode with the same cap", a == b)
    # inspect
    rc, out = run("vcf2zarr", "inspect", P("d.icf"))
    check("inspect icf", rc == 0 and "FORMAT/GT" in out, out[:200])
    rc, out = run("vcf2zarr", "inspect", P("d.vcz"))
    check("inspect vcz", rc == 0 and "call_genotype" in out, out[:200])
    # vcfpartition
    k = r.choice([2, 5, 9])
    rc, out = run("vcfpartition", VCF2, "-n", str(k))
    want = "".join(f"{reg}\t{VCF2}\n" for reg in vcf_utils.IndexedVcf(VCF2).partition_into_regions(num_parts=k))
    check("vcfpartition -n == library", rc == 0 and out == want, out)
    rc, out = run("vcfpartition", VCF2, VCF, "-n", "6")
    want = "".join(f"{reg}\t{p}\n" for p in (VCF2, VCF) for reg in vcf_utils.IndexedVcf(p).partition_into_regions(num_parts=3))
    check("vcfpartition -n over two files splits the count", rc == 0 and out == want, out)
    rc, out = run("vcfpartition", VCF2, "-s", "20KB")
    want = "".join(f"{reg}\t{VCF2}\n" for reg in vcf_utils.IndexedVcf(VCF2).partition_into_regions(target_part_size="20KB"))
    check("vcfpartition -s == library", rc == 0 and out == want, out)
    rc, out = run("vcfpartition", VCF2)
    check("vcfpartition without -n/-s is a usage error", rc != 0, out)
    # plink
    rc, out = run("plink2zarr", "convert", BED, P("p1.vcz"), "-Q", "-l", "10", "-w", "3", "-p", "0")
    plink.convert(BED, P("p2.vcz"), variants_chunk_size=10, samples_chunk_size=3, worker_processes=0)
    check("plink convert cli == library", rc == 0 and snap_vcz(P("p1.vcz")) == snap_vcz(P("p2.vcz")), out)
    os.makedirs(P("precious"))
    open(P("precious/keep.txt"), "w").write("x")
    for answer in ("n\n", "\n"):
        rc, out = run("plink2zarr", "convert", BED, P("precious"), "-Q", "-p", "0", inp=answer)
        check("plink convert onto an existing path, declined, leaves it intact", rc != 0 and os.listdir(P("precious")) == ["keep.txt"], out)
    rc, out = run("plink2zarr", "convert", BED, P("precious"), "-Q", "-p", "0", "-f")
    check("plink convert --force replaces", rc == 0 and "call_genotype" in os.listdir(P("precious")), out)
    shutil.rmtree(d, ignore_errors=True)


def run(ctx):
    part_a(ctx)
    part_b(ctx)


def replay(ctx, rep):
    run(ctx)
