"""C11 correspondence: real generate_partitions / chunk_aligned_slices vs extracted model,
and the extracted checker check_C11 on the implementation's own output."""
import itertools
import os
from types import SimpleNamespace

from lib.common import opt


def impl_fns():
    from bio2zarr import core
    from bio2zarr.vcf2zarr import vcz

    def gp(nr, cs, np_, mc):
        return [(int(p.start), int(p.stop)) for p in vcz.VcfZarrPartition.generate_partitions(nr, cs, np_, max_chunks=mc)]

    class FakeArray:
        """shaped like the 3-D genotype array plink.convert passes: (variants, samples, ploidy)"""

        def __init__(self, nr, cs):
            self.shape = (nr, 7, 2)
            self.chunks = (cs, 3, 2)
            self.ndim = 3

        @property
        def cdata_shape(self):
            return tuple(-(-s // c) for s, c in zip(self.shape, self.chunks))

        @property
        def nchunks(self):
            out = 1
            for x in self.cdata_shape:
                out *= x
            return out

    def cas(nr, cs, np_, mc):
        z = FakeArray(nr, cs)
        return [(int(a), int(b)) for a, b in core.chunk_aligned_slices(z, np_, max_chunks=mc)]

    return {"generate_partitions": gp, "chunk_aligned_slices": cas}


def gen_cases(ctx):
    if ctx.quick:
        box = itertools.product(range(1, 33), range(1, 13), range(1, 13), [None, 1, 2, 3, 5, 8])
    else:
        box = itertools.product(range(1, 65), range(1, 21), range(1, 21), [None, 1, 2, 3, 4, 5, 6, 7, 8])
    for t in box:
        yield t
    r = ctx.rnd
    for _ in range(ctx.n(3000, 100000)):
        nr = r.choice([r.randint(1, 10**10), r.randint(1, 10**5), 2**53 - r.randint(1, 1000), r.randint(1, 2**40)])
        cs = r.choice([r.randint(1, 10**6), r.randint(1, 100), 1, nr, nr + 1, max(1, nr - 1)])
        np_ = r.choice([r.randint(1, 5000), 1, r.randint(1, 20)])
        mc = r.choice([None, None, r.randint(1, 10**5), 1, r.randint(1, 10)])
        # the implementation materialises np.arange(num_chunks): keep that affordable
        if nr // cs > 2 * 10**5:
            cs = nr // r.randint(1, 2 * 10**5) + 1
        yield nr, cs, np_, mc


def run_cases(ctx, cases):
    fns = impl_fns()
    for fname, fn in fns.items():
        outs = []
        for nr, cs, np_, mc in cases:
            try:
                outs.append(fn(nr, cs, np_, mc))
            except Exception as e:  # noqa: BLE001
                outs.append("ERR:" + type(e).__name__)
        model = ctx.model.batch([(1100, [nr, cs, np_, opt(mc)]) for nr, cs, np_, mc in cases])
        chk = ctx.model.batch(
            [(1101, [nr, cs, np_, opt(mc), o if isinstance(o, list) else []]) for (nr, cs, np_, mc), o in zip(cases, outs)]
        )
        # the translator's own output, extracted (validates translator + Base/Prims.v); skipped when it does not build
        gen = None
        if os.path.exists(ctx.genmodel.binary) and len(cases) < 200000:
            try:
                if fname == "generate_partitions":
                    gen = ctx.genmodel.batch([(10, [nr, cs, np_, opt(mc)]) for nr, cs, np_, mc in cases])
                else:
                    gen = ctx.genmodel.batch([(11, [cs, nr, np_, opt(mc)]) for nr, cs, np_, mc in cases])
            except RuntimeError:
                gen = None
        if gen is not None:
            for (nr, cs, np_, mc), o, g in zip(cases, outs, gen):
                want = [1, [list(x) for x in o]] if isinstance(o, list) else None
                if (want is not None and g != want) or (want is None and (not isinstance(g, list) or g[0] != 0)):
                    ctx.disagree(dict(fn=fname, num_records=nr, chunk_size=cs, num_partitions=np_, max_chunks=mc), o, g,
                                 f"{fname}: the translated definition (Gen) differs from the real function")
                    break
        for (nr, cs, np_, mc), o, m, c in zip(cases, outs, model, chk):
            doc = dict(fn=fname, num_records=nr, chunk_size=cs, num_partitions=np_, max_chunks=mc)
            nchunks = -(-nr // cs)
            nontrivial = nchunks > 1 or (mc is not None and mc < nchunks)
            ctx.case(doc, nontrivial=nontrivial, sample=(nontrivial and nr < 100 and mc is not None and len(ctx.samples) < 3))
            ctx.count("capped" if (mc is not None and mc < nchunks) else "uncapped")
            ctx.count("np>chunks" if np_ > nchunks else "np<=chunks")
            mm = [tuple(x) for x in m]
            if o != mm:
                ctx.disagree(doc, o, mm, f"{fname} differs from the model")
            if c != 1:
                ctx.fail(doc, dict(implementation_output=o), f"{fname}{(nr, cs, np_, mc)} -> {o}: not an exact chunk-aligned cover (check_C11 = false)")


def plink_slices(ctx):
    """the slices the PLINK conversion actually hands to its workers, end to end: filesets large enough
    for zarr's automatic chunking of 1-d arrays to differ from the variants chunk size"""
    import shutil

    import numpy as np
    from bio2zarr import core, plink

    d = os.path.join(ctx.work, "c11_plink")
    os.makedirs(d, exist_ok=True)
    configs = [(100_000, 2, None, 2), (2500, 3, 1000, 3), (37, 5, 4, 1)]
    if not ctx.quick:
        configs += [(250_000, 1, None, 4), (100_003, 2, 9999, 2)]
    for m, n, vcs, workers in configs:
        rs = np.random.RandomState(m + n)
        prefix = os.path.join(d, f"p{m}")
        with open(prefix + ".bed", "wb") as f:
            f.write(bytes([108, 27, 1]))
            f.write(rs.randint(0, 256, size=m * ((n + 3) // 4)).astype(np.uint8).tobytes())
        with open(prefix + ".fam", "w") as f:
            for s_ in range(n):
                f.write(f"f{s_} i{s_} 0 0 0 -9\n")
        with open(prefix + ".bim", "w") as f:
            f.write("".join(f"1\tsnp{v}\t0\t{100 + v}\tA\tC\n" for v in range(m)))
        recorded = []
        orig = core.ParallelWorkManager.submit

        def submit(self, *args, **kw):
            if len(args) >= 5 and getattr(args[0], "__name__", "") == "encode_genotypes_slice":
                recorded.append((int(args[3]), int(args[4])))
            return orig(self, *args, **kw)

        core.ParallelWorkManager.submit = submit
        doc = dict(fn="plink.convert", num_records=m, samples=n, chunk_size=vcs, worker_processes=workers)
        ctx.case(doc, nontrivial=True)
        ctx.count("plink-e2e-slices")
        err = None
        try:
            plink.convert(prefix + ".bed", prefix + ".vcz", variants_chunk_size=vcs, worker_processes=workers)
        except BaseException as e:  # noqa: BLE001
            err = f"{type(e).__name__}: {e}"[:200]
        finally:
            core.ParallelWorkManager.submit = orig
        cs = vcs or 10_000
        c = ctx.model.call(1101, [m, cs, max(1, workers * 4), [], [list(x) for x in recorded]])
        if c != 1:
            ctx.fail(doc, dict(slices=recorded[:12], error=err), f"plink.convert({m} variants, chunk size {cs}, {workers} workers) hands its workers the slices {recorded[:6]}...: not an exact chunk-aligned cover (check_C11 = false)")
        elif err is not None:
            ctx.fail(doc, dict(error=err), "plink.convert raised")
        for ext in (".bed", ".bim", ".fam"):
            os.remove(prefix + ext)
        shutil.rmtree(prefix + ".vcz", ignore_errors=True)
        ctx.traces_validated += 1
    shutil.rmtree(d, ignore_errors=True)


def encode_plans(ctx):
    """the plan dencode-init / encode actually records for its partition tasks (wip/metadata.json), end to end,
    with and without a schema file -- including a schema generated from ANOTHER store of the same cohort (fewer /
    more records): the records to be written are those of the store being encoded"""
    import json
    import shutil

    from bio2zarr import vcf2zarr

    from lib import vcfgen

    r = ctx.rnd
    d = os.path.join(ctx.work, "c11_plans")
    os.makedirs(d, exist_ok=True)
    P = lambda x: os.path.join(d, x)  # noqa: E731
    hdr = ["##contig=<ID=c1,length=10000000>", '##INFO=<ID=DP,Number=1,Type=Integer,Description="x">',
           '##FILTER=<ID=PASS,Description="All filters passed">', '##FORMAT=<ID=GT,Number=1,Type=String,Description="Genotype">']
    try:
        for i in range(ctx.n(2, 8)):
            sizes = sorted({r.randint(1, 12), r.randint(13, 40), r.randint(41, 90)})
            stores = {}
            for n in sizes:
                recs = [f"c1\t{100 + 10 * j}\tv{j}\tA\tT\t{30 + j}\tPASS\tDP={j + 1}\tGT\t0|1\t1/1" for j in range(n)]
                f = vcfgen.make_indexed(d, f"in{i}_{n}", vcfgen.vcf_text(hdr, recs, samples=["s0", "s1"]), kind="tbi")
                vcf2zarr.explode(P(f"s{i}_{n}.icf"), [f], worker_processes=0)
                stores[n] = P(f"s{i}_{n}.icf")
            for n in sizes:
                for m in sizes:                          # schema generated from the store with m records
                    cs = r.choice([1, 2, 3, 4, 7, 16])
                    sp = P(f"schema{i}_{m}_{cs}.json")
                    with open(sp, "w") as fh:
                        vcf2zarr.mkschema(stores[m], fh, variants_chunk_size=cs, samples_chunk_size=2)
                    np_ = r.choice([1, 2, 3, 5, 8, 100])
                    nchunks = -(-n // cs)
                    mc = r.choice([None, None, r.randint(1, nchunks)])
                    out = P(f"o{i}_{n}_{m}.vcz")
                    doc = dict(fn="encode_init", num_records=n, schema_from_records=m, chunk_size=cs, num_partitions=np_, max_chunks=mc)
                    ctx.case(doc, nontrivial=True)
                    ctx.count("encode-plan:own-schema" if n == m else "encode-plan:other-store-schema")
                    try:
                        vcf2zarr.encode_init(stores[n], out, np_, schema_path=sp, max_variant_chunks=mc)
                        with open(os.path.join(out, "wip", "metadata.json")) as fh:
                            plan = [(int(p["start"]), int(p["stop"])) for p in json.load(fh)["partitions"]]
                    except Exception as e:  # noqa: BLE001
                        ctx.fail(doc, dict(error=f"{type(e).__name__}: {e}"[:200]), "encode_init with a schema file failed")
                        continue
                    c = ctx.model.call(1101, [n, cs, np_, [] if mc is None else [mc], [list(x) for x in plan]])
                    if c != 1:
                        ctx.fail(doc, dict(plan=plan[:12]), f"encode_init of a {n}-record store (schema generated from a {m}-record store, chunk size {cs}, "
                                 f"{np_} partitions, max chunks {mc}) plans {plan[:6]}: not an exact chunk-aligned cover of the records to be written (check_C11 = false)")
                    shutil.rmtree(out, ignore_errors=True)
                    ctx.traces_validated += 1
    finally:
        shutil.rmtree(d, ignore_errors=True)


def run(ctx):
    cases = list(gen_cases(ctx))
    run_cases(ctx, cases)
    plink_slices(ctx)
    encode_plans(ctx)
    # outside the input space: zero records must be rejected (theorem zero_records_rejected)
    fns = impl_fns()
    for cs, np_ in [(1, 1), (5, 3), (1000, 7)]:
        doc = dict(fn="generate_partitions", num_records=0, chunk_size=cs, num_partitions=np_, max_chunks=None)
        ctx.case(doc, nontrivial=False)
        try:
            o = fns["generate_partitions"](0, cs, np_, None)
            ctx.disagree(doc, o, "Err ValueError", "zero records accepted")
        except ValueError:
            pass
        except Exception as e:  # noqa: BLE001
            ctx.disagree(doc, "ERR:" + type(e).__name__, "Err ValueError", "zero records: other exception")


def replay(ctx, rep):
    c = rep["case"]
    run_cases(ctx, [(c["num_records"], c["chunk_size"], c["num_partitions"], c["max_chunks"])])
