"""C04 correspondence: index-derived region partitions.

End to end on generated VCF/BCF files (records spanning 16 kb windows, longer than a bin,
duplicate positions, used / unused / skipped contigs, BGZF blocks from a few records to
64 KiB) x {tbi, csi min_shift 9..20, bcf} x num_parts in {1,2,3,5,10,50,1000} and target
sizes down to 1 byte:
  * the real partition_into_regions + per-region records (IndexedVcf.variants) -- the property
    itself (every record exactly once, in file order; no empty region; ordered, disjoint
    within a contig) evaluated on them, directly and by the extracted check_C04;
  * the offsets table of the real index object vs Model.Regions.offsets_csi / offsets_tbi,
    also with the bins of every contig permuted (any on-disk order);
  * the region list vs Model.Regions.partition_regions + refine fed with the same offsets;
  * a monitor of the htslib hypotheses the theorems assume (loff_monotone, first_bin_low).
"""
import os
import random
import re

from lib import vcfgen

HDR_TAIL = ['##INFO=<ID=END,Number=1,Type=Integer,Description="end">', '##FILTER=<ID=PASS,Description="All filters passed">']


def gen_file(r, ncontigs, win=16384):
    """win = size of the smallest index window (2^min_shift; 16 kb for tabix): positions are snapped
    to the last base of a window now and then, so that a region can start on its own last base"""
    contigs = [f"ctg{j}" for j in range(ncontigs)]
    used = [c for c in contigs if r.random() < 0.7] or [r.choice(contigs)]
    recs = []
    for c in contigs:
        if c not in used:
            continue
        pos = r.randint(1, 60000)
        for _ in range(r.randint(1, 60)):
            u = r.random()
            if u < 0.2:
                recs.append(f"{c}\t{pos}\t.\tA\t<DEL>\t.\tPASS\tEND={pos + r.choice([5, 3000, 17000, 40000, 300000])}")
            else:
                recs.append(f"{c}\t{pos}\t.\tA\tT\t.\tPASS\t.")
            pos += r.choice([0, 0, 1, 5, 100, 5000, 20000, 70000])
            if r.random() < 0.15:
                pos = (pos // win + 1) * win + r.choice([0, 0, 0, 1, -1])
    hcontigs = list(contigs)
    if r.random() < 0.3:
        r.shuffle(hcontigs)  # a text VCF may list its ##contig lines in another order than its body
    hdr = [f"##contig=<ID={c},length=100000000>" for c in hcontigs] + HDR_TAIL
    return contigs, vcfgen.vcf_text(hdr, recs), len(recs)


def region_tuple(reg, names):
    return [names.index(reg.contig), [] if reg.start is None else [int(reg.start)], [] if reg.end is None else [int(reg.end)]]


def csi_keys(index):
    from bio2zarr import vcf_utils

    pseudo = vcf_utils.bin_limit(index.min_shift, index.depth) + 1
    return [[[b.loffset, vcf_utils.get_first_locus_in_bin(index, b.bin)] for b in bins if b.bin != pseudo] for bins in index.bins]


def run_file(ctx, doc, path, r, parts_list):
    import copy

    import cyvcf2
    import numpy as np
    from bio2zarr import vcf_utils

    with vcf_utils.IndexedVcf(path) as iv:
        names = list(iv.sequence_names)
        file_recs = []
        for v in cyvcf2.VCF(path):
            file_recs.append([names.index(v.CHROM), int(v.POS)])
        expect = sorted(file_recs, key=lambda x: x[0])  # stable: header/index contig order, then file order
        fo, ci, ps = iv.index.offsets()
        offs = [[int(a), int(b), int(c)] for a, b, c in zip(fo, ci, ps)]
        # ---- offsets table vs model ----
        if iv.index_type == vcf_utils.VcfIndexType.CSI:
            keys = csi_keys(iv.index)
            mo = ctx.model.call(402, keys)
            # any on-disk order of the bins must give the same table
            idx2 = copy.copy(iv.index)
            idx2.bins = [r.sample(list(b), len(b)) for b in iv.index.bins]
            fo2, ci2, ps2 = idx2.offsets()
            if [list(map(int, x)) for x in (fo2, ci2, ps2)] != [list(map(int, x)) for x in (fo, ci, ps)]:
                ctx.fail(doc, dict(original=offs[:8], permuted=[[int(a), int(b), int(c)] for a, b, c in zip(fo2, ci2, ps2)][:8]),
                         "CSI offsets table depends on the on-disk order of the bins")
            # hypotheses monitor
            for cidx, ks in enumerate(keys):
                for (l1, p1) in ks:
                    for (l2, p2) in ks:
                        if (p1 < p2 and l1 > l2) or (p1 == p2 and l1 != l2):
                            ctx.note(f"htslib hypothesis loff_monotone violated in {doc}")
        else:
            mo = ctx.model.call(403, [list(map(int, li)) for li in iv.index.linear_indexes])
        if mo != offs:
            ctx.disagree(doc, offs[:10], mo[:10], "offsets table differs from the model")
        counts = [(-1 if np.isinf(c) else int(c)) for c in iv.index.record_counts]
        flen = os.stat(path).st_size
        sorted_fo = all(offs[i][0] <= offs[i + 1][0] for i in range(len(offs) - 1))
        for spec in parts_list:
            d2 = dict(doc, **spec)
            ctx.case(d2, nontrivial=len(file_recs) > 1, sample=(len(ctx.samples) < 2 and spec.get("num_parts") == 3))
            try:
                regions = list(iv.partition_into_regions(**spec))
            except Exception as e:  # noqa: BLE001
                ctx.fail(d2, dict(error=f"{type(e).__name__}: {e}"[:200]), "partition_into_regions raised")
                continue
            rt = [region_tuple(x, names) for x in regions]
            got = []
            empty = False
            for reg in regions:
                rr = [[names.index(v.CHROM), int(v.POS)] for v in iv.variants(reg)]
                empty = empty or not rr
                got += rr
            ctx.count(f"regions:{min(len(regions), 5)}{'+' if len(regions) > 5 else ''}")
            # the property, directly on the implementation
            if got != expect:
                missing = len(expect) - len(got)
                ctx.fail(d2, dict(regions=[str(x) for x in regions][:12], got=len(got), records=len(expect)),
                         f"reading the regions in order yields {len(got)} records, the file has {len(expect)}" if missing else "reading the regions in order yields the records in a different order / duplicated")
            if empty:
                ctx.fail(d2, dict(regions=[str(x) for x in regions][:12]), "an emitted region is empty")
            chk = ctx.model.call(401, [len(names), file_recs, rt])
            if chk != 1 and got == expect and not empty:
                ctx.fail(d2, dict(regions=[str(x) for x in regions][:12]), "regions are not ordered / non-overlapping within a contig (check_C04 = false)")
            # model regions from the same offsets (sorted tables only)
            if sorted_fo and "num_parts" in spec:
                mreg = ctx.model.call(400, [flen, spec["num_parts"], offs, len(names), counts])
                mref = ctx.model.call(404, [file_recs, mreg])
                if mref != rt:
                    ctx.disagree(d2, rt[:10], mref[:10], "region list differs from the model")
                ctx.traces_validated += 1


def run(ctx):
    r = ctx.rnd
    d = os.path.join(ctx.work, "c04")
    os.makedirs(d, exist_ok=True)
    nfiles = ctx.n(200, 3000)
    for i in range(nfiles):
        ncont = r.randint(1, 5)
        kind, ms, bcf = r.choice([("tbi", 14, False), ("csi", r.randint(9, 20), False), ("csi", r.choice([9, 10, 12, 14, 17]), True)])
        contigs, text, nrec = gen_file(r, ncont, 1 << ms)
        lpb = r.choice([None, 1, 2, 5, 20])
        p = vcfgen.make_indexed(d, "c04", text, kind=kind, min_shift=ms, bcf=bcf, lines_per_block=lpb)
        doc = dict(index=kind, min_shift=ms, bcf=bcf, contigs=ncont, records=nrec, lines_per_block=lpb, file_seed=i)
        ctx.count(f"{kind}{'-bcf' if bcf else ''}")
        flen = os.stat(p).st_size
        parts = [dict(num_parts=n) for n in (1, 2, 3, 5, 10, 50, 1000)]
        parts += [dict(target_part_size=s) for s in (1, 100, r.randint(1, max(2, flen)), flen, "1kB")]
        if ctx.quick:
            parts = r.sample(parts, 6)
        run_file(ctx, doc, p, r, parts)
        os.remove(p)
        os.remove(vcfgen.index_path(p)) if os.path.exists(p + ".tbi") or os.path.exists(p + ".csi") else None
    # ---- regression corpus: the F1 file ------------------------------------------------------
    hdr = ['##contig=<ID=chr1,length=1000000>'] + HDR_TAIL
    recs = ["chr1\t3707\t.\tA\t<DEL>\t.\tPASS\tEND=25870", "chr1\t23707\t.\tA\tT\t.\tPASS\t.", "chr1\t93707\t.\tA\tT\t.\tPASS\t."]
    p = vcfgen.make_indexed(d, "f1", vcfgen.vcf_text(hdr, recs), kind="csi", min_shift=10)
    run_file(ctx, dict(corpus="F1_first_record_dropped"), p, r, [dict(num_parts=n) for n in (1, 2, 3)])


def replay(ctx, rep):
    run(ctx)
